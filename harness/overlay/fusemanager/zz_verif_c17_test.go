//go:build verif

package fusemanager

// C17 harness: drives the REAL fusemanager.Server (real bolt store, real Init including the real
// service.NewFileSystem constructor) with recording fake snapshot.FileSystem instances injected
// through VerifWrapFileSystem, over generated histories of Init / Mount / Check / Unmount / Close /
// manager restart with scripted failures.  One canonical line per operation is compared with the
// Lean model (svdriver_c17); independently, the C17 predicate is evaluated on what the real code
// did (verifOracle).
//
// The harness deliberately uses ONLY the exported surface of the package (NewFuseManager, the RPC
// methods incl. Status, RegisterConfigFunc, Config/ConfigContext, the FuseManager* constants and the
// VerifWrapFileSystem hook) plus the on-disk format of the store (a bolt file whose records are JSON
// objects with the keys Mountpoint / Labels / Config): a refactor that renames or restructures
// unexported fields, locks or helpers must not break it.  What the manager serves is observed through
// Check probes, what it recorded through a copy of the bolt file.

import (
	"context"
	"encoding/json"
	"errors"
	"fmt"
	"io"
	"os"
	"path/filepath"
	"reflect"
	"sort"
	"strconv"
	"strings"
	"sync"
	"testing"
	"time"
	"unsafe"

	"github.com/moby/sys/mountinfo"
	"github.com/sirupsen/logrus"
	bolt "go.etcd.io/bbolt"

	fsconfig "github.com/containerd/stargz-snapshotter/fs/config"
	pb "github.com/containerd/stargz-snapshotter/fusemanager/api"
	"github.com/containerd/stargz-snapshotter/internal/verifutil"
	"github.com/containerd/stargz-snapshotter/service"
	"github.com/containerd/stargz-snapshotter/snapshot"
)

var verifLabelSets = []map[string]string{
	nil,
	{"a": "1"},
	{"containerd.io/snapshot/remote/stargz.reference": "example.com/x:1", "b": "2"},
}

func verifCanonLabels(m map[string]string) string {
	var ks []string
	for k := range m {
		ks = append(ks, k)
	}
	sort.Strings(ks)
	var sb strings.Builder
	for _, k := range ks {
		fmt.Fprintf(&sb, "%q=%q;", k, m[k])
	}
	return sb.String()
}

func verifLabelID(m map[string]string) string {
	c := verifCanonLabels(m)
	for i, l := range verifLabelSets {
		if verifCanonLabels(l) == c {
			return strconv.Itoa(i)
		}
	}
	return "?"
}

// verifFakeFs is a recording snapshot.FileSystem; its identity is its construction index.
// All its state is protected by the harness mutex (RPCs may run on several goroutines).
type verifFakeFs struct {
	h       *verifHarness
	id      int
	gen     string         // configuration generation it was built from
	dead    bool           // belongs to a manager process that has been killed
	mounted map[string]int // mountpoint -> number of successful Mounts not undone by an Unmount
}

func verifOkStr(ok bool) string {
	if ok {
		return "ok"
	}
	return "fail"
}

func (f *verifFakeFs) Mount(ctx context.Context, mountpoint string, labels map[string]string) error {
	h := f.h
	h.mu.Lock()
	defer h.mu.Unlock()
	if f.dead {
		return nil
	}
	ok := !h.failMount[mountpoint]
	if h.conc {
		delete(h.failMount, mountpoint) // one-shot in the concurrent pass
	}
	mp := h.mpName(mountpoint)
	lab := verifLabelID(labels)
	if !h.conc {
		h.calls = append(h.calls, fmt.Sprintf("M%d:%s:%s:%s", f.id, mp, lab, verifOkStr(ok)))
		h.mountCalls = append(h.mountCalls, verifMountCall{fs: f.id, mp: mountpoint, lab: lab, ok: ok})
	}
	// oracle: a mountpoint with a live mount is never mounted again (on any instance)
	for _, g := range h.fakes {
		if g.mounted[mountpoint] > 0 {
			h.out.Fail("second-mount", fmt.Sprintf("fs.Mount(%s) on fs%d while it is live on fs%d", mp, f.id, g.id))
		}
	}
	// oracle: mounts go to the newest filesystem (sequential histories only: with RPCs in flight on
	// other goroutines "newest" is not defined at this instant; the concurrent pass checks it at
	// quiescence)
	if !h.conc && f.id != h.newest {
		h.out.Fail("mount-on-stale-fs", fmt.Sprintf("fs.Mount(%s) on fs%d but the newest filesystem is fs%d", mp, f.id, h.newest))
	}
	if !ok {
		return errors.New("verif: scripted mount failure")
	}
	f.mounted[mountpoint]++
	return nil
}

func (f *verifFakeFs) Check(ctx context.Context, mountpoint string, labels map[string]string) error {
	h := f.h
	h.mu.Lock()
	defer h.mu.Unlock()
	if f.dead {
		return nil
	}
	if h.probing {
		// an owner probe of the harness (see probeOwners): no script, no log
		h.probeHits = append(h.probeHits, f.id)
		return nil
	}
	ok := !h.failCall[mountpoint]
	mp := h.mpName(mountpoint)
	if !h.conc {
		h.calls = append(h.calls, fmt.Sprintf("C%d:%s:%s:%s", f.id, mp, verifLabelID(labels), verifOkStr(ok)))
	}
	if f.mounted[mountpoint] == 0 {
		h.out.Fail("check-wrong-fs", fmt.Sprintf("fs.Check(%s) sent to fs%d which has no live mount of it (owner: %s)", mp, f.id, h.ownerOfLocked(mountpoint)))
	}
	if !ok {
		return errors.New("verif: scripted check failure")
	}
	return nil
}

func (f *verifFakeFs) Unmount(ctx context.Context, mountpoint string) error {
	h := f.h
	h.mu.Lock()
	defer h.mu.Unlock()
	if f.dead {
		return nil
	}
	ok := !h.failCall[mountpoint]
	mp := h.mpName(mountpoint)
	if !h.conc {
		h.calls = append(h.calls, fmt.Sprintf("U%d:%s:%s", f.id, mp, verifOkStr(ok)))
	}
	if f.mounted[mountpoint] == 0 {
		h.out.Fail("unmount-wrong-fs", fmt.Sprintf("fs.Unmount(%s) sent to fs%d which has no live mount of it (owner: %s)", mp, f.id, h.ownerOfLocked(mountpoint)))
	}
	if !ok {
		return errors.New("verif: scripted unmount failure")
	}
	if f.mounted[mountpoint] > 0 {
		f.mounted[mountpoint]--
		if f.mounted[mountpoint] == 0 {
			delete(f.mounted, mountpoint)
		}
	}
	return nil
}

type verifMountCall struct {
	fs  int
	mp  string
	lab string
	ok  bool
}

type verifRec struct {
	lab string
	cfg string
}

type verifHarness struct {
	t         *testing.T
	out       *verifutil.Out
	base      string
	storePath string
	root      string
	mps       []string       // index -> path, in byte order (= bolt key order)
	mpIdx     map[string]int // path -> index
	isOs      []bool
	srv       *Server

	mu     sync.Mutex // protects everything below (hooks run on the goroutines of the RPCs)
	conc   bool       // concurrent pass: no call log, one-shot mount failures
	nextFs int
	fakes  []*verifFakeFs // fakes of the current manager process
	newest int            // id of the last constructed fake (-1: none in this process)
	// generation of the config the configFunc saw last (the construction hook follows it on the same
	// goroutine, inside the same Init)
	lastGen string

	// script of the operation in flight
	failCfgFunc   bool
	failConstruct bool
	failMount     map[string]bool
	failCall      map[string]bool // fs.Check / fs.Unmount of that mountpoint fails
	calls         []string
	mountCalls    []verifMountCall
	constructed   int // id constructed by the Init in flight, -1 if none
	probing       bool
	probeHits     []int

	// overlapping-Init trial of the concurrent pass: the configFunc of generation blockGen waits
	blockGen     string
	blockEntered chan struct{}
	blockRelease chan struct{}

	// oracle bookkeeping (derived from what the real code did, not from the model)
	closed    bool // Close() was called on this Server
	lastInit  string
	everBuilt bool // a filesystem was constructed since this manager process started
	revived   bool // an Init ran after Close() on the same Server
	histShape []string
	cur       verifState // observation of the quiescent state after the last operation
}

func (h *verifHarness) mpName(path string) string {
	if i, ok := h.mpIdx[path]; ok {
		return strconv.Itoa(i)
	}
	return "?"
}

func (h *verifHarness) ownerOfLocked(path string) string {
	var o []string
	for _, f := range h.fakes {
		if f.mounted[path] > 0 {
			o = append(o, fmt.Sprintf("fs%d", f.id))
		}
	}
	if len(o) == 0 {
		return "none"
	}
	return strings.Join(o, "+")
}

// liveMounts: mountpoint -> ids of the fakes holding a live mount of it (the backend's view).
func (h *verifHarness) liveMounts() map[string][]int {
	h.mu.Lock()
	defer h.mu.Unlock()
	m := map[string][]int{}
	for _, f := range h.fakes {
		for p, n := range f.mounted {
			for i := 0; i < n; i++ {
				m[p] = append(m[p], f.id)
			}
		}
	}
	return m
}

func (h *verifHarness) fakeGen(id int) string {
	h.mu.Lock()
	defer h.mu.Unlock()
	for _, f := range h.fakes {
		if f.id == id {
			return f.gen
		}
	}
	return "?"
}

// wrap is the VerifWrapFileSystem hook: Init calls it right after service.NewFileSystem.
func (h *verifHarness) wrap(fs snapshot.FileSystem, err error) (snapshot.FileSystem, error) {
	h.mu.Lock()
	defer h.mu.Unlock()
	gen := h.lastGen
	if err != nil {
		// the REAL constructor must work offline in the temp root; anything else is an environment problem
		h.out.Fail("real-newfilesystem-failed", err.Error())
	}
	if h.failConstruct {
		h.calls = append(h.calls, "NX"+gen)
		return nil, errors.New("verif: scripted construction failure")
	}
	f := &verifFakeFs{h: h, id: h.nextFs, gen: gen, mounted: map[string]int{}}
	h.nextFs++
	h.fakes = append(h.fakes, f)
	h.newest = f.id
	h.constructed = f.id
	h.everBuilt = true
	if !h.conc {
		h.calls = append(h.calls, fmt.Sprintf("N%d:%s", f.id, gen))
	}
	return f, nil
}

// cfgFunc is registered with RegisterConfigFunc: Init runs it before constructing the filesystem.
func (h *verifHarness) cfgFunc(cc *ConfigContext) ([]service.Option, error) {
	gen := strconv.FormatInt(cc.Config.Config.PrefetchSize, 10)
	h.mu.Lock()
	block := h.blockGen != "" && h.blockGen == gen
	entered, release := h.blockEntered, h.blockRelease
	h.mu.Unlock()
	if block {
		close(entered)
		<-release
	}
	h.mu.Lock()
	defer h.mu.Unlock()
	h.lastGen = gen
	if !h.conc {
		h.calls = append(h.calls, fmt.Sprintf("F%s:%s", gen, verifOkStr(!h.failCfgFunc)))
	}
	if h.failCfgFunc {
		return nil, errors.New("verif: scripted configFunc failure")
	}
	return nil, nil
}

var (
	verifCurMu   sync.Mutex
	verifCur     *verifHarness
	verifRegOnce sync.Once
)

// verifInstall routes the package-level hooks to harness h (RegisterConfigFunc cannot be undone, so
// one trampoline is registered once per test process).
func verifInstall(h *verifHarness) {
	verifCurMu.Lock()
	verifCur = h
	verifCurMu.Unlock()
	verifRegOnce.Do(func() {
		RegisterConfigFunc(func(cc *ConfigContext) ([]service.Option, error) {
			verifCurMu.Lock()
			c := verifCur
			verifCurMu.Unlock()
			if c == nil {
				return nil, nil
			}
			return c.cfgFunc(cc)
		})
	})
	VerifWrapFileSystem = h.wrap
}

// killServer simulates the death of the manager process: its bolt handle (and file lock) goes
// away, the store file stays as it was, backend mounts die.  Only exported API: the file content is
// saved, Close() (which also removes the file) releases the handle, the content is put back.
func (h *verifHarness) killServer() {
	if h.srv == nil {
		return
	}
	h.mu.Lock()
	for _, f := range h.fakes {
		f.dead = true
	}
	h.fakes = nil
	h.mu.Unlock()
	if !h.closed {
		data, rerr := os.ReadFile(h.storePath)
		func() {
			defer func() { recover() }()
			h.srv.Close(context.Background())
		}()
		if rerr == nil {
			if err := os.MkdirAll(filepath.Dir(h.storePath), 0o700); err != nil {
				h.t.Fatal(err)
			}
			if err := os.WriteFile(h.storePath, data, 0o600); err != nil {
				h.t.Fatal(err)
			}
		}
	}
	h.srv = nil
}

// newServer starts a manager "process" on the kept store path.
func (h *verifHarness) newServer() {
	h.killServer()
	srv, err := NewFuseManager(context.Background(), nil, nil, h.storePath, "")
	if err != nil {
		h.t.Fatalf("NewFuseManager: %v", err)
	}
	h.srv = srv
	h.mu.Lock()
	h.fakes = nil
	h.newest = -1
	h.everBuilt = false
	h.mu.Unlock()
	h.closed = false
	h.lastInit = ""
	h.revived = false
}

func (h *verifHarness) reset() {
	h.killServer()
	os.Remove(h.storePath)
	h.mu.Lock()
	h.nextFs = 0
	h.mu.Unlock()
	h.histShape = nil
	h.newServer()
}

// liveDB finds the Server's open bolt handle WITHOUT naming the field: any field of type *bolt.DB
// (reflection by type; nil when the Server keeps its store differently — readStore then falls back
// to opening a copy of the file, which is slower but needs nothing from the Server).
func (h *verifHarness) liveDB() *bolt.DB {
	if h.srv == nil || os.Getenv("VERIF_C17_STORE_COPY") == "1" {
		return nil
	}
	v := reflect.ValueOf(h.srv).Elem()
	want := reflect.TypeOf((*bolt.DB)(nil))
	for i := 0; i < v.NumField(); i++ {
		if f := v.Field(i); f.Type() == want && f.CanAddr() {
			return *(**bolt.DB)(unsafe.Pointer(f.UnsafeAddr()))
		}
	}
	return nil
}

// scanStore decodes every record of every bucket, in bolt key order.  Only the on-disk format is
// assumed: JSON objects with the keys Mountpoint / Labels / Config.
func (h *verifHarness) scanStore(db *bolt.DB) (map[string]verifRec, []string, error) {
	recs := map[string]verifRec{}
	var keys []string
	err := db.View(func(tx *bolt.Tx) error {
		return tx.ForEach(func(_ []byte, b *bolt.Bucket) error {
			return b.ForEach(func(k, v []byte) error {
				var fi struct {
					Mountpoint string
					Labels     map[string]string
					Config     struct {
						PrefetchSize int64 `json:"prefetch_size"`
					}
				}
				if err := json.Unmarshal(v, &fi); err != nil {
					return err
				}
				if fi.Mountpoint != string(k) {
					h.out.Fail("store-key-ne-mountpoint", fmt.Sprintf("key %q holds record of %q", k, fi.Mountpoint))
				}
				recs[string(k)] = verifRec{lab: verifLabelID(fi.Labels), cfg: strconv.FormatInt(fi.Config.PrefetchSize, 10)}
				keys = append(keys, string(k)) // ForEach order = bolt key order
				return nil
			})
		})
	})
	return recs, keys, err
}

// readStore returns the records of the store file in bolt key order (nil, false when the file does
// not exist, i.e. after Close).  At a quiescent point every committed transaction is in the file.
func (h *verifHarness) readStore() (map[string]verifRec, []string, bool) {
	if _, err := os.Stat(h.storePath); err != nil {
		return nil, nil, false
	}
	if db := h.liveDB(); db != nil {
		if recs, keys, err := h.scanStore(db); err == nil {
			return recs, keys, true
		}
	}
	// the live database is locked by the Server: open a copy of the file
	data, err := os.ReadFile(h.storePath)
	if err != nil {
		return nil, nil, false
	}
	tmp := filepath.Join(h.base, "store-copy.db")
	if err := os.WriteFile(tmp, data, 0o600); err != nil {
		h.t.Fatal(err)
	}
	db, err := bolt.Open(tmp, 0o600, &bolt.Options{ReadOnly: true, Timeout: 5 * time.Second})
	if err != nil {
		h.t.Fatalf("cannot open the copy of the store: %v", err)
	}
	defer db.Close()
	recs, keys, err := h.scanStore(db)
	if err != nil {
		h.out.Fail("store-unreadable", err.Error())
	}
	return recs, keys, true
}

func (h *verifHarness) status() int32 {
	resp, err := h.srv.Status(context.Background(), &pb.StatusRequest{})
	if err != nil || resp == nil {
		return -1
	}
	return resp.Status
}

// probeOwners asks the manager, through Check RPCs, which filesystem instance serves each
// mountpoint.  Only possible while the manager accepts requests; (nil, false) otherwise.
func (h *verifHarness) probeOwners() (map[string]int, bool) {
	if h.status() != FuseManagerReady {
		return nil, false
	}
	m := map[string]int{}
	for _, p := range h.mps {
		h.mu.Lock()
		h.probing, h.probeHits = true, nil
		h.mu.Unlock()
		func() {
			defer func() { recover() }()
			h.srv.Check(context.Background(), &pb.CheckRequest{Mountpoint: p})
		}()
		h.mu.Lock()
		hits := h.probeHits
		h.probing, h.probeHits = false, nil
		h.mu.Unlock()
		if len(hits) > 0 {
			m[p] = hits[0]
		}
	}
	return m, true
}

func verifJoin(l []string) string {
	if len(l) == 0 {
		return "-"
	}
	return strings.Join(l, ",")
}

// verifState is what can be observed of a quiescent manager.
type verifState struct {
	status    int32
	store     map[string]verifRec
	storeKeys []string
	storeOpen bool           // the store file exists
	fsMap     map[string]int // mountpoint -> serving instance (owner probes)
	fsKnown   bool           // the manager accepts requests, so fsMap could be probed
	owners    map[string][]int
}

func (h *verifHarness) snapshot() verifState {
	recs, keys, open := h.readStore()
	fm, known := h.probeOwners()
	return verifState{status: h.status(), store: recs, storeKeys: keys, storeOpen: open,
		fsMap: fm, fsKnown: known, owners: h.liveMounts()}
}

// stateLine renders the observable state exactly like svdriver_c17.
func (h *verifHarness) stateLine(res string, s verifState) string {
	st := map[int32]string{FuseManagerNotReady: "notready", FuseManagerWaitInit: "wait", FuseManagerReady: "ready"}[s.status]
	var store []string
	// keys are in bolt order; the mountpoint numbering is the byte order, so this is ascending
	for _, k := range s.storeKeys {
		store = append(store, fmt.Sprintf("%s:%s:%s", h.mpName(k), s.store[k].lab, s.store[k].cfg))
	}
	fsmap := "?"
	if s.fsKnown {
		var l []string
		for i, p := range h.mps {
			if id, ok := s.fsMap[p]; ok {
				l = append(l, fmt.Sprintf("%d:%d", i, id))
			}
		}
		fsmap = verifJoin(l)
	}
	type pair struct{ id, mp int }
	var lp []pair
	for i, p := range h.mps {
		for _, id := range s.owners[p] {
			lp = append(lp, pair{id, i})
		}
	}
	sort.Slice(lp, func(a, b int) bool {
		if lp[a].id != lp[b].id {
			return lp[a].id < lp[b].id
		}
		return lp[a].mp < lp[b].mp
	})
	var live []string
	for _, x := range lp {
		live = append(live, fmt.Sprintf("%d:%d", x.id, x.mp))
	}
	return fmt.Sprintf("%s st=%s calls=%s store=%s fsmap=%s live=%s",
		res, st, verifJoin(h.calls), verifJoin(store), fsmap, verifJoin(live))
}

// rpc runs one RPC on the real server, converting a panic into the result "panic".
func (h *verifHarness) rpc(f func() error) (res string) {
	defer func() {
		if r := recover(); r != nil {
			res = "panic"
			h.out.Fail("panic", fmt.Sprintf("%v (history %s)", r, strings.Join(h.histShape, " ")))
		}
	}()
	if err := f(); err != nil {
		return "err"
	}
	return "ok"
}

func (h *verifHarness) cfgJSON(gen int64) []byte {
	c := &Config{Config: service.Config{Config: fsconfig.Config{
		PrefetchSize: gen, HTTPCacheType: "memory", FSCacheType: "memory", NoBackgroundFetch: true}}}
	b, err := json.Marshal(c)
	if err != nil {
		h.t.Fatal(err)
	}
	return b
}

func (h *verifHarness) clearScript() {
	h.mu.Lock()
	h.failCfgFunc, h.failConstruct = false, false
	h.failMount = map[string]bool{}
	h.failCall = map[string]bool{}
	h.calls, h.mountCalls, h.constructed = nil, nil, -1
	h.mu.Unlock()
}

// exec parses one op line (the same line the Lean driver reads), runs it on the real code, emits
// the canonical result and evaluates the oracle.  Returns false on a malformed line.
func (h *verifHarness) exec(line string) bool {
	ws := strings.Fields(line)
	if len(ws) == 0 {
		return false
	}
	ctx := context.Background()
	h.clearScript()
	mpOf := func(s string) (string, bool) {
		i, err := strconv.Atoi(s)
		if err != nil || i < 0 || i >= len(h.mps) {
			return "", false
		}
		return h.mps[i], true
	}
	labOf := func(s string) (map[string]string, bool) {
		i, err := strconv.Atoi(s)
		if err != nil || i < 0 || i >= len(verifLabelSets) {
			return nil, false
		}
		return verifLabelSets[i], true
	}
	okOf := func(s string) (bool, bool) { return s == "ok", s == "ok" || s == "fail" }

	if ws[0] == "reset" && len(ws) == 1 {
		h.reset()
		h.cur = h.snapshot()
		h.out.Emit(line, h.stateLine("ok", h.cur))
		return true
	}
	before := h.cur
	h.histShape = append(h.histShape, line)
	var res string
	var post func(now verifState)
	switch {
	case ws[0] == "init" && len(ws) == 4:
		gen, err := strconv.ParseInt(ws[1], 10, 64)
		if err != nil {
			return false
		}
		cfg := h.cfgJSON(gen)
		switch ws[2] {
		case "ok":
		case "parse":
			cfg = []byte("{")
		case "cfgfunc":
			h.failCfgFunc = true
		case "construct":
			h.failConstruct = true
		default:
			return false
		}
		if ws[3] != "-" {
			for _, s := range strings.Split(ws[3], ",") {
				p, ok := mpOf(s)
				if !ok {
					return false
				}
				h.failMount[p] = true
			}
		}
		if h.closed {
			// Init on a Server whose Close() has run: with a filesystem left over from before the
			// Close it turns Ready again whatever its own outcome (known finding)
			h.revived = true
		}
		res = h.rpc(func() error {
			_, err := h.srv.Init(ctx, &pb.InitRequest{Root: h.root, Config: cfg})
			return err
		})
		stage := ws[2]
		post = func(now verifState) { h.oracleInit(stage, res, before, now); h.lastInit = res }
	case ws[0] == "mount" && len(ws) == 4:
		p, ok1 := mpOf(ws[1])
		lab, ok2 := labOf(ws[2])
		ok, ok3 := okOf(ws[3])
		if !ok1 || !ok2 || !ok3 {
			return false
		}
		h.failMount[p] = !ok
		res = h.rpc(func() error {
			_, err := h.srv.Mount(ctx, &pb.MountRequest{Mountpoint: p, Labels: lab})
			return err
		})
		labID := ws[2]
		post = func(now verifState) { h.oracleMount(p, labID, res, before, now) }
	case ws[0] == "check" && len(ws) == 4:
		p, ok1 := mpOf(ws[1])
		lab, ok2 := labOf(ws[2])
		ok, ok3 := okOf(ws[3])
		if !ok1 || !ok2 || !ok3 {
			return false
		}
		h.failCall[p] = !ok
		res = h.rpc(func() error {
			_, err := h.srv.Check(ctx, &pb.CheckRequest{Mountpoint: p, Labels: lab})
			return err
		})
		post = func(now verifState) { h.oracleCheck(p, res, ok, before) }
	case ws[0] == "unmount" && len(ws) == 4:
		p, ok1 := mpOf(ws[1])
		ok, ok3 := okOf(ws[2])
		if !ok1 || !ok3 || (ws[3] != "0" && ws[3] != "1") {
			return false
		}
		if (ws[3] == "1") != h.isOs[h.mpIdx[p]] {
			h.t.Fatalf("op line says os=%s for %s but mountinfo disagrees", ws[3], p)
		}
		h.failCall[p] = !ok
		res = h.rpc(func() error {
			_, err := h.srv.Unmount(ctx, &pb.UnmountRequest{Mountpoint: p})
			return err
		})
		post = func(now verifState) { h.oracleUnmount(p, res, ok, before, now) }
	case ws[0] == "close" && len(ws) == 1:
		res = h.rpc(func() error { return h.srv.Close(ctx) })
		h.closed = true
		h.revived = false
		if len(h.calls) != 0 {
			h.out.Fail("close-calls-fs", verifJoin(h.calls))
		}
	case ws[0] == "restart" && len(ws) == 1:
		h.newServer()
		res = "ok"
	default:
		return false
	}
	// the calls of the operation are complete here; the probes below are not part of them
	now := h.snapshot()
	h.cur = now
	h.out.Emit(line, h.stateLine(res, now))
	h.out.Count(ws[0])
	if post != nil {
		post(now)
	}
	h.oracleQuiescent(ws[0], before, now)
	return true
}

// ---------------------------------------------------------------------------------------------
// The property oracle.  It only uses: RPC results, the fakes' call logs / live sets, the records in
// the store file and the owner probes — never the model.

// requests before a successful first initialisation (no filesystem constructed since the process
// started) and after Close must fail without calling any filesystem and without changing anything.
func (h *verifHarness) mustReject(what, res string) bool {
	var when, sig string
	switch {
	case !h.everBuilt:
		when, sig = "before a successful first Init", "request-before-init-not-rejected"
	case h.closed && !h.revived:
		when, sig = "after Close", "request-after-close-not-rejected"
	default:
		return false
	}
	if res != "err" {
		h.out.Fail(sig, fmt.Sprintf("%s %s returned %s", what, when, res))
	}
	if len(h.calls) != 0 {
		h.out.Fail(sig, fmt.Sprintf("%s %s called %s", what, when, verifJoin(h.calls)))
	}
	return true
}

func (h *verifHarness) oracleInit(stage, res string, before, now verifState) {
	if stage != "ok" && res != "err" {
		h.out.Fail("init-hides-failure", fmt.Sprintf("Init with a %s failure returned %s", stage, res))
	}
	for _, c := range h.mountCalls {
		if c.fs != h.constructed {
			h.out.Fail("restore-on-stale-fs", fmt.Sprintf("Init mounted %s on fs%d, not on the filesystem it constructed (fs%d)", h.mpName(c.mp), c.fs, h.constructed))
		}
		if _, ok := before.store[c.mp]; !ok {
			h.out.Fail("restore-mounts-unrecorded", fmt.Sprintf("Init mounted %s which was not recorded", h.mpName(c.mp)))
		}
	}
	if res == "ok" {
		if stage == "ok" && !before.storeOpen {
			h.out.Fail("init-ok-without-store", "Init returned ok although the store is closed")
		}
		if !now.fsKnown {
			h.out.Fail("init-ok-not-ready", "Init returned ok but the manager does not accept requests")
			return
		}
		// every recorded mountpoint is served afterwards; those not live before were mounted on the
		// new filesystem with their recorded labels
		for p, r := range before.store {
			if _, ok := now.fsMap[p]; !ok {
				h.out.Fail("init-ok-but-recorded-not-served", fmt.Sprintf("Init returned ok but recorded %s is not served", h.mpName(p)))
				continue
			}
			if len(before.owners[p]) > 0 {
				continue
			}
			found := false
			for _, c := range h.mountCalls {
				if c.mp == p && c.ok && c.fs == h.constructed {
					found = true
					if c.lab != r.lab {
						h.out.Fail("restore-wrong-labels", fmt.Sprintf("%s restored with labels %s, recorded %s", h.mpName(p), c.lab, r.lab))
					}
				}
			}
			if !found {
				h.out.Fail("init-ok-but-recorded-not-mounted", fmt.Sprintf("Init returned ok but recorded %s was not mounted on the new filesystem", h.mpName(p)))
			}
		}
	}
}

func (h *verifHarness) oracleMount(p, lab, res string, before, now verifState) {
	if h.mustReject("Mount", res) {
		return
	}
	_, served := now.fsMap[p]
	wasLive := len(before.owners[p]) > 0
	if res == "ok" {
		if now.fsKnown && !served {
			h.out.Fail("mount-ok-not-served", fmt.Sprintf("Mount(%s) returned ok but the manager does not serve it", h.mpName(p)))
		}
		for _, c := range h.mountCalls {
			if !c.ok {
				h.out.Fail("mount-ok-after-failed-fs-mount", fmt.Sprintf("Mount(%s) returned ok although fs.Mount failed", h.mpName(p)))
			}
			if c.mp != p || c.lab != lab {
				h.out.Fail("mount-wrong-args", fmt.Sprintf("Mount(%s,%s) called fs.Mount(%s,%s)", h.mpName(p), lab, h.mpName(c.mp), c.lab))
			}
		}
		if !wasLive && len(h.mountCalls) != 1 {
			h.out.Fail("mount-ok-without-fs-mount", fmt.Sprintf("Mount(%s) returned ok with %d fs.Mount calls", h.mpName(p), len(h.mountCalls)))
		}
		// observation, NOT a clause of C17 (the property speaks of mountpoints and labels, and
		// restore never reads the field): the record written for a NEW mount carries the manager's
		// current config, which a failed re-Init may have replaced while the filesystem built from the
		// previous config keeps serving.  Only counted; checks/C17.py turns the count into a note.
		if len(h.mountCalls) == 1 && now.storeOpen {
			if r, ok := now.store[p]; ok && r.cfg != h.fakeGen(h.mountCalls[0].fs) {
				h.out.Count("obs-record-config-differs-from-owner-config")
			}
		}
	} else if !wasLive && served {
		h.out.Fail("mount-failed-but-served", fmt.Sprintf("Mount(%s) returned %s but the manager serves it", h.mpName(p), res))
	}
}

func (h *verifHarness) oracleCheck(p, res string, scriptedOk bool, before verifState) {
	if h.mustReject("Check", res) {
		return
	}
	own := before.owners[p]
	if len(own) == 0 {
		if res != "err" || len(h.calls) != 0 {
			h.out.Fail("check-unserved-not-rejected", fmt.Sprintf("Check(%s) of an unserved mountpoint: %s calls=%s", h.mpName(p), res, verifJoin(h.calls)))
		}
		return
	}
	want := fmt.Sprintf("C%d:%s:", own[0], h.mpName(p))
	if len(h.calls) != 1 || !strings.HasPrefix(h.calls[0], want) {
		h.out.Fail("check-wrong-fs", fmt.Sprintf("Check(%s) owned by fs%d produced calls %s", h.mpName(p), own[0], verifJoin(h.calls)))
	}
	if (res == "ok") != scriptedOk {
		h.out.Fail("check-result", fmt.Sprintf("Check(%s): fs.Check ok=%v but RPC returned %s", h.mpName(p), scriptedOk, res))
	}
}

func (h *verifHarness) oracleUnmount(p, res string, scriptedOk bool, before, now verifState) {
	if h.mustReject("Unmount", res) {
		return
	}
	own := before.owners[p]
	_, recorded := before.store[p]
	if len(own) == 0 {
		if len(h.calls) != 0 {
			h.out.Fail("unmount-wrong-fs", fmt.Sprintf("Unmount(%s) of an unserved mountpoint called %s", h.mpName(p), verifJoin(h.calls)))
		}
		if !recorded && !h.isOs[h.mpIdx[p]] && res != "ok" {
			h.out.Fail("unmount-unknown-failed", fmt.Sprintf("Unmount(%s), neither recorded nor mounted, returned %s", h.mpName(p), res))
		}
		return
	}
	want := fmt.Sprintf("U%d:%s:", own[0], h.mpName(p))
	if len(h.calls) != 1 || !strings.HasPrefix(h.calls[0], want) {
		h.out.Fail("unmount-wrong-fs", fmt.Sprintf("Unmount(%s) owned by fs%d produced calls %s", h.mpName(p), own[0], verifJoin(h.calls)))
	}
	if (res == "ok") != scriptedOk {
		h.out.Fail("unmount-result", fmt.Sprintf("Unmount(%s): fs.Unmount ok=%v but RPC returned %s", h.mpName(p), scriptedOk, res))
	}
	if now.fsKnown {
		if _, still := now.fsMap[p]; still == (res == "ok") {
			h.out.Fail("unmount-serving-mismatch", fmt.Sprintf("Unmount(%s) returned %s, still served: %v", h.mpName(p), res, still))
		}
	}
}

// oracleQuiescent: the invariant between two RPCs.
func (h *verifHarness) oracleQuiescent(op string, before, now verifState) {
	// the backend never holds two live mounts of one mountpoint
	for p, ids := range now.owners {
		if len(ids) > 1 {
			h.out.Fail("second-mount", fmt.Sprintf("%s has %d live mounts (fs %v)", h.mpName(p), len(ids), ids))
		}
	}
	if !now.fsKnown {
		return // the manager does not accept requests: what it would serve cannot be observed
	}
	// the manager's owner table is exactly the set of live backend mounts
	for p, ids := range now.owners {
		if id, ok := now.fsMap[p]; !ok {
			h.out.Fail("live-mount-not-served", fmt.Sprintf("%s is mounted on fs%d but the manager does not serve it", h.mpName(p), ids[0]))
		} else if id != ids[0] {
			h.out.Fail("owner-mismatch", fmt.Sprintf("%s was mounted by fs%d but the manager routes it to fs%d", h.mpName(p), ids[0], id))
		}
	}
	for p, id := range now.fsMap {
		if len(now.owners[p]) == 0 {
			h.out.Fail("served-without-live-mount", fmt.Sprintf("%s is served (fs%d) but no filesystem has it mounted", h.mpName(p), id))
		}
	}
	// owner stability: only a successful Unmount of that mountpoint or a restart ends ownership
	if op != "restart" {
		for p, ids := range before.owners {
			if len(ids) == 0 {
				continue
			}
			nid, ok := now.fsMap[p]
			if ok && nid != ids[0] {
				h.out.Fail("owner-changed", fmt.Sprintf("%s moved from fs%d to fs%d during %s", h.mpName(p), ids[0], nid, op))
			}
			if !ok && op != "unmount" {
				h.out.Fail("owner-lost", fmt.Sprintf("%s (fs%d) no longer served after %s", h.mpName(p), ids[0], op))
			}
		}
	}
	if !now.storeOpen {
		// Close removed the record; a manager that serves afterwards does so unrecorded
		if h.closed {
			for p := range now.fsMap {
				if len(before.owners[p]) == 0 {
					h.out.Fail("served-after-close-unrecorded", fmt.Sprintf("after Close + Init the manager is Ready again and serves %s without a store record", h.mpName(p)))
				}
			}
		}
		return
	}
	// store vs serving
	for p := range now.fsMap {
		if _, ok := now.store[p]; !ok {
			h.out.Fail("served-not-recorded", fmt.Sprintf("%s is served but not in the store (after %s)", h.mpName(p), op))
		}
	}
	var unserved []string
	for p := range now.store {
		if _, ok := now.fsMap[p]; !ok {
			unserved = append(unserved, p)
		}
	}
	sort.Strings(unserved)
	if len(unserved) > 0 && h.lastInit == "ok" {
		h.out.Fail("recorded-not-served", fmt.Sprintf("%s recorded but not served although the last Init returned ok (after %s)", h.mpName(unserved[0]), op))
	}
	if op != "restart" && before.storeOpen {
		// the recorded-but-unserved set never grows while the process lives
		for _, p := range unserved {
			_, wasRec := before.store[p]
			wasServed := len(before.owners[p]) > 0
			if !wasRec || wasServed {
				h.out.Fail("recorded-not-served", fmt.Sprintf("%s became recorded-but-unserved during %s", h.mpName(p), op))
			}
		}
	}
}

// ---------------------------------------------------------------------------------------------
// generators

type verifGen struct {
	h          *verifHarness
	rnd        *verifutil.Rand
	gen        int64
	afterClose bool // also issue Init on a closed Server
}

func (g *verifGen) pickMp(biasServed bool) int {
	h := g.h
	if biasServed && g.rnd.Intn(100) < 70 {
		var c []int
		for p := range h.cur.owners {
			c = append(c, h.mpIdx[p])
		}
		for p := range h.cur.store {
			c = append(c, h.mpIdx[p])
		}
		if len(c) > 0 {
			sort.Ints(c)
			return c[g.rnd.Intn(len(c))]
		}
	}
	return g.rnd.Intn(len(h.mps))
}

func (g *verifGen) initLine() string {
	h := g.h
	// 40% of the re-Inits send the SAME config (byte-identical request) as the previous Init: the
	// snapshotter reconnecting with an unchanged configuration must still get a fresh filesystem
	// and a full restore (the config number is an explicit op parameter; fs identity stays the
	// construction index).
	if g.gen == 0 || g.rnd.Intn(100) >= 40 {
		g.gen++
	} else {
		h.out.Count("init-same-config")
	}
	stage := []string{"ok", "parse", "cfgfunc", "construct"}[g.rnd.Pick(76, 6, 9, 9)]
	fails := "-"
	if g.rnd.Intn(100) < 35 {
		var l []string
		for p := range h.cur.store {
			if g.rnd.Intn(100) < 40 {
				l = append(l, h.mpName(p))
			}
		}
		if g.rnd.Intn(100) < 10 {
			l = append(l, strconv.Itoa(g.rnd.Intn(len(h.mps))))
		}
		sort.Strings(l)
		// no duplicates
		var u []string
		for i, s := range l {
			if i == 0 || s != l[i-1] {
				u = append(u, s)
			}
		}
		if len(u) > 0 {
			fails = strings.Join(u, ",")
		}
	}
	return fmt.Sprintf("init %d %s %s", g.gen, stage, fails)
}

func (g *verifGen) okFail(pOk int) string {
	if g.rnd.Intn(100) < pOk {
		return "ok"
	}
	return "fail"
}

func (g *verifGen) next() string {
	h := g.h
	osBit := func(i int) string {
		if h.isOs[i] {
			return "1"
		}
		return "0"
	}
	if h.closed {
		// a closed Server: rejected requests, Close again, or a restart
		w := []int{2, 1, 2, 1, 6, 0}
		if g.afterClose {
			w[5] = 6
		}
		switch g.rnd.Pick(w...) {
		case 0:
			return fmt.Sprintf("mount %d %d %s", g.pickMp(false), g.rnd.Intn(len(verifLabelSets)), g.okFail(85))
		case 1:
			return fmt.Sprintf("check %d %d %s", g.pickMp(true), g.rnd.Intn(len(verifLabelSets)), g.okFail(85))
		case 2:
			i := g.pickMp(true)
			return fmt.Sprintf("unmount %d %s %s", i, g.okFail(85), osBit(i))
		case 3:
			return "close"
		case 4:
			return "restart"
		default:
			return g.initLine()
		}
	}
	wInit := 10
	if !h.everBuilt {
		wInit = 45
	}
	switch g.rnd.Pick(wInit, 30, 14, 22, 2, 6) {
	case 0:
		return g.initLine()
	case 1:
		return fmt.Sprintf("mount %d %d %s", g.pickMp(g.rnd.Intn(100) < 25), g.rnd.Intn(len(verifLabelSets)), g.okFail(85))
	case 2:
		return fmt.Sprintf("check %d %d %s", g.pickMp(true), g.rnd.Intn(len(verifLabelSets)), g.okFail(85))
	case 3:
		i := g.pickMp(true)
		return fmt.Sprintf("unmount %d %s %s", i, g.okFail(85), osBit(i))
	case 4:
		return "close"
	default:
		return "restart"
	}
}

// verifScenarios are hand-written histories run before the generated ones.  `O` stands for the
// index of the OS mountpoint (substituted at run time), mountpoints 1.. are plain directories.
func verifScenarios(osIdx int, osBit string, plain []int) [][]string {
	p := func(i int) string { return strconv.Itoa(plain[i]) }
	o := strconv.Itoa(osIdx)
	return [][]string{
		// requests on a fresh manager, then after a FAILED first Init at each stage (d17aed2 regression)
		{"mount " + p(0) + " 1 ok", "check " + p(0) + " 1 ok", "unmount " + p(0) + " ok 0",
			"init 1 parse -", "mount " + p(0) + " 1 ok", "check " + p(0) + " 0 ok", "unmount " + p(0) + " ok 0",
			"init 2 cfgfunc -", "mount " + p(0) + " 1 ok", "check " + p(0) + " 0 ok", "unmount " + p(0) + " ok 0",
			"init 3 construct -", "mount " + p(0) + " 1 ok", "check " + p(0) + " 0 ok", "unmount " + p(1) + " ok 0",
			"init 4 ok -", "mount " + p(0) + " 1 ok", "check " + p(0) + " 1 ok", "unmount " + p(0) + " ok 0"},
		// re-init with live mounts: owners stay, nothing is mounted twice, new mounts use the new instance
		{"init 1 ok -", "mount " + p(0) + " 1 ok", "mount " + p(1) + " 2 ok", "init 2 ok -",
			"check " + p(0) + " 1 ok", "mount " + p(2) + " 0 ok", "check " + p(2) + " 0 fail",
			"unmount " + p(1) + " fail 0", "unmount " + p(1) + " ok 0", "init 3 ok -",
			"unmount " + p(0) + " ok 0", "unmount " + p(2) + " ok 0", "check " + p(0) + " 1 ok"},
		// restart with a populated store; restore stops at the first failure; a later Init repairs
		{"init 1 ok -", "mount " + p(0) + " 1 ok", "mount " + p(1) + " 2 ok", "mount " + p(2) + " 0 ok",
			"restart", "mount " + p(3) + " 1 ok", "check " + p(0) + " 1 ok",
			"init 2 ok " + p(1), "check " + p(0) + " 1 ok", "check " + p(2) + " 0 ok",
			"unmount " + p(2) + " ok 0", "mount " + p(3) + " 1 ok", "init 3 ok -",
			"check " + p(1) + " 2 ok", "check " + p(2) + " 0 ok", "restart", "init 4 construct -",
			"check " + p(0) + " 1 ok", "init 5 ok -", "check " + p(0) + " 1 ok"},
		// unknown mountpoints, an OS mountpoint, re-mount with other labels, failing fs.Mount
		{"init 1 ok -", "unmount " + p(4) + " ok 0", "unmount " + o + " ok " + osBit, "mount " + o + " 1 ok",
			"unmount " + o + " ok " + osBit, "unmount " + o + " ok " + osBit, "mount " + p(0) + " 1 fail",
			"check " + p(0) + " 1 ok", "mount " + p(0) + " 1 ok", "mount " + p(0) + " 2 ok",
			"mount " + p(0) + " 0 fail", "restart", "init 2 ok -", "check " + p(0) + " 2 ok"},
		// failed re-init (config stage) with live mounts: the old instance keeps serving
		{"init 1 ok -", "mount " + p(0) + " 1 ok", "init 2 cfgfunc -", "mount " + p(1) + " 1 ok",
			"init 3 construct -", "mount " + p(2) + " 2 ok", "init 4 parse -", "check " + p(1) + " 1 ok",
			"unmount " + p(0) + " ok 0", "restart", "init 5 ok " + p(2), "init 6 cfgfunc -",
			"mount " + p(2) + " 2 ok", "init 7 ok -"},
		// the SAME config twice: after a restart the first Init fails restoring one mountpoint, the
		// second Init (byte-identical request) must build a new filesystem, finish the restore and only
		// then report ok; and a same-config re-Init with live mounts keeps owners, new mounts use the new fs
		{"init 1 ok -", "mount " + p(0) + " 1 ok", "mount " + p(1) + " 2 ok", "mount " + p(2) + " 0 ok",
			"restart", "init 2 ok " + p(1), "check " + p(1) + " 2 ok", "init 2 ok -",
			"check " + p(0) + " 1 ok", "check " + p(1) + " 2 ok", "check " + p(2) + " 0 ok",
			"init 2 ok -", "mount " + p(3) + " 1 ok", "check " + p(3) + " 1 ok", "unmount " + p(1) + " ok 0",
			"init 2 cfgfunc -", "init 2 ok -", "mount " + p(1) + " 2 ok",
			"restart", "init 2 ok " + p(0) + "," + p(3), "init 2 ok " + p(3), "init 2 ok -", "check " + p(3) + " 1 ok"},
		// Close: requests are rejected, the store file is gone, a restart begins empty
		{"init 1 ok -", "mount " + p(0) + " 1 ok", "close", "mount " + p(1) + " 1 ok",
			"check " + p(0) + " 1 ok", "unmount " + p(0) + " ok 0", "close", "restart",
			"init 2 ok -", "check " + p(0) + " 1 ok", "mount " + p(0) + " 1 ok", "restart", "close", "restart",
			"init 3 ok -"},
	}
}

// verifAfterCloseScenarios: Init on a Server whose Close has run (known finding
// `served-after-close-unrecorded`); run on every check with VERIF_C17_AFTERCLOSE=1.
func verifAfterCloseScenarios(plain []int) [][]string {
	p := func(i int) string { return strconv.Itoa(plain[i]) }
	return [][]string{
		{"init 1 ok -", "close", "init 2 ok -", "mount " + p(0) + " 1 ok", "check " + p(0) + " 1 ok",
			"unmount " + p(0) + " ok 0", "mount " + p(1) + " 1 ok", "restart", "init 3 ok -", "check " + p(1) + " 1 ok"},
		{"close", "init 1 ok -", "mount " + p(0) + " 1 ok"},
		{"init 1 ok -", "mount " + p(0) + " 1 ok", "close", "init 2 cfgfunc -", "mount " + p(1) + " 1 ok",
			"unmount " + p(0) + " ok 0"},
	}
}

// verifSetup prepares the harness: temp dirs, mountpoint numbering, hooks.
func verifSetup(t *testing.T, out *verifutil.Out) (h *verifHarness, osIdx int, plain []int, cleanup func()) {
	logrus.SetOutput(io.Discard)
	logrus.SetLevel(logrus.PanicLevel)
	base, err := os.MkdirTemp("", "verif-c17-")
	if err != nil {
		t.Fatal(err)
	}
	h = &verifHarness{t: t, out: out, base: base, storePath: filepath.Join(base, "store", "fusestore.db"),
		root: filepath.Join(base, "root"), mpIdx: map[string]int{}, newest: -1,
		failMount: map[string]bool{}, failCall: map[string]bool{}}

	// mountpoints: plain directories (not OS mountpoints) and one real OS mountpoint
	mounted := func(p string) bool {
		ms, err := mountinfo.GetMounts(func(info *mountinfo.Info) (skip, stop bool) {
			if info.Mountpoint == p {
				return false, true
			}
			return true, false
		})
		return err == nil && len(ms) > 0
	}
	var names []string
	for i := 0; i < 5; i++ {
		d := filepath.Join(base, "mp", fmt.Sprintf("m%d", i))
		if err := os.MkdirAll(d, 0o755); err != nil {
			t.Fatal(err)
		}
		names = append(names, d)
	}
	for _, c := range []string{"/proc", "/sys", "/dev", "/"} {
		if mounted(c) {
			names = append(names, c)
			break
		}
	}
	sort.Strings(names) // byte order = bolt key order
	h.mps = names
	osIdx = -1
	for i, n := range names {
		h.mpIdx[n] = i
		h.isOs = append(h.isOs, mounted(n))
		if h.isOs[i] {
			osIdx = i
		} else {
			plain = append(plain, i)
		}
	}
	if osIdx < 0 {
		// no OS mountpoint available: that branch of Unmount stays uncovered; use a plain one in its place
		out.Count("no-os-mountpoint")
		osIdx = plain[0]
	}
	savedHook := VerifWrapFileSystem
	verifInstall(h)
	cleanup = func() {
		h.killServer()
		VerifWrapFileSystem = savedHook
		verifCurMu.Lock()
		verifCur = nil
		verifCurMu.Unlock()
		os.RemoveAll(base)
	}
	return h, osIdx, plain, cleanup
}

func TestVerifC17(t *testing.T) {
	out := verifutil.OpenOut()
	defer out.Close()
	rnd := verifutil.NewRand(verifutil.Seed())
	h, osIdx, plain, cleanup := verifSetup(t, out)
	defer cleanup()

	runHist := func(tag string, lines []string) {
		out.Comment("history " + tag)
		h.exec("reset")
		for _, l := range lines {
			if !h.exec(l) {
				t.Fatalf("malformed op line %q", l)
			}
		}
		out.Distinct(strings.Join(lines, ";"))
	}

	afterClose := os.Getenv("VERIF_C17_AFTERCLOSE") == "1"
	if rp := os.Getenv("VERIF_C17_REPLAY"); rp != "" {
		b, err := os.ReadFile(rp)
		if err != nil {
			t.Fatal(err)
		}
		for _, l := range strings.Split(string(b), "\n") {
			l = strings.TrimSpace(l)
			if l == "" || strings.HasPrefix(l, "#") {
				continue
			}
			if !h.exec(l) {
				t.Fatalf("malformed op line %q", l)
			}
		}
		return
	}
	if afterClose {
		for i, sc := range verifAfterCloseScenarios(plain) {
			runHist(fmt.Sprintf("afterclose-scenario-%d", i), sc)
		}
	} else {
		osBit := "0"
		if h.isOs[osIdx] {
			osBit = "1"
		}
		for i, sc := range verifScenarios(osIdx, osBit, plain) {
			runHist(fmt.Sprintf("scenario-%d", i), sc)
		}
	}
	nhist := verifutil.EnvInt("VERIF_N", 150)
	g := &verifGen{h: h, rnd: rnd, afterClose: afterClose}
	for i := 0; i < nhist; i++ {
		out.Comment(fmt.Sprintf("history gen-%d", i))
		h.exec("reset")
		g.gen = 0
		n := 10 + rnd.Intn(50)
		var shape []string
		for j := 0; j < n; j++ {
			l := g.next()
			if !h.exec(l) {
				t.Fatalf("generator produced a malformed op line %q", l)
			}
			shape = append(shape, l)
		}
		out.Distinct(strings.Join(shape, ";"))
	}
}

// ---------------------------------------------------------------------------------------------
// Concurrent pass (built with -race).  The model treats every RPC as one atomic step.  That premise
// is not read off the source text; it is observed: RPCs run concurrently on the real Server and
//   * a data race on the manager's state (a lock dropped from one method, ...) makes the race
//     detector fail the test binary,
//   * at every quiescent point the sequential predicate must hold again: what the manager serves
//     equals what the workers' own results imply, equals the live backend mounts, equals the store,
//   * two overlapping Inits must end in a state one of their two orders explains (the filesystem
//     that serves new mounts was built from the configuration the manager records for them).
// Nothing here depends on HOW atomicity is achieved (mutex kind, lock placement, lock-free state).

type verifWorker struct {
	h      *verifHarness
	rnd    *verifutil.Rand
	own    []string          // mountpoints only this worker touches
	served map[string]bool   // implied by this worker's own RPC results
	lab    map[string]string // labels of the last Mount that returned ok
}

func (w *verifWorker) run(n int) {
	h := w.h
	ctx := context.Background()
	for i := 0; i < n; i++ {
		p := w.own[w.rnd.Intn(len(w.own))]
		switch w.rnd.Pick(5, 3, 4) {
		case 0:
			li := w.rnd.Intn(len(verifLabelSets))
			if w.rnd.Intn(100) < 12 {
				h.mu.Lock()
				h.failMount[p] = true
				h.mu.Unlock()
			}
			res := h.rpc(func() error {
				_, err := h.srv.Mount(ctx, &pb.MountRequest{Mountpoint: p, Labels: verifLabelSets[li]})
				return err
			})
			h.mu.Lock()
			delete(h.failMount, p)
			h.mu.Unlock()
			if res == "ok" {
				w.served[p] = true
				w.lab[p] = strconv.Itoa(li)
			}
			h.out.Count("conc-mount")
		case 1:
			fail := w.rnd.Intn(100) < 15
			h.mu.Lock()
			h.failCall[p] = fail
			h.mu.Unlock()
			res := h.rpc(func() error {
				_, err := h.srv.Check(ctx, &pb.CheckRequest{Mountpoint: p})
				return err
			})
			if res == "ok" && (!w.served[p] || fail) {
				h.out.Fail("conc-check-ok-unexpected", fmt.Sprintf("Check(%s) returned ok (served by own results: %v, fs.Check scripted to fail: %v)", h.mpName(p), w.served[p], fail))
			}
			h.out.Count("conc-check")
		default:
			fail := w.rnd.Intn(100) < 15
			h.mu.Lock()
			h.failCall[p] = fail
			h.mu.Unlock()
			res := h.rpc(func() error {
				_, err := h.srv.Unmount(ctx, &pb.UnmountRequest{Mountpoint: p})
				return err
			})
			if res == "ok" {
				if w.served[p] && fail {
					h.out.Fail("conc-unmount-ok-unexpected", fmt.Sprintf("Unmount(%s) returned ok although fs.Unmount failed", h.mpName(p)))
				}
				w.served[p] = false
			}
			h.out.Count("conc-unmount")
		}
	}
}

// concQuiescent evaluates the sequential predicate on the quiescent state after a concurrent phase
// in which every Init succeeded.
func (h *verifHarness) concQuiescent(phase string, ws []*verifWorker) verifState {
	now := h.snapshot()
	for p, ids := range now.owners {
		if len(ids) > 1 {
			h.out.Fail("second-mount", fmt.Sprintf("[%s] %s has %d live mounts (fs %v)", phase, h.mpName(p), len(ids), ids))
		}
	}
	if !now.fsKnown {
		h.out.Fail("conc-not-ready", fmt.Sprintf("[%s] every Init returned ok but the manager does not accept requests", phase))
		return now
	}
	for p, ids := range now.owners {
		if id, ok := now.fsMap[p]; !ok {
			h.out.Fail("live-mount-not-served", fmt.Sprintf("[%s] %s is mounted on fs%d but the manager does not serve it", phase, h.mpName(p), ids[0]))
		} else if id != ids[0] {
			h.out.Fail("owner-mismatch", fmt.Sprintf("[%s] %s was mounted by fs%d but the manager routes it to fs%d", phase, h.mpName(p), ids[0], id))
		}
	}
	for p, id := range now.fsMap {
		if len(now.owners[p]) == 0 {
			h.out.Fail("served-without-live-mount", fmt.Sprintf("[%s] %s is served (fs%d) but no filesystem has it mounted", phase, h.mpName(p), id))
		}
		if _, ok := now.store[p]; !ok {
			h.out.Fail("served-not-recorded", fmt.Sprintf("[%s] %s is served but not in the store", phase, h.mpName(p)))
		}
	}
	for p := range now.store {
		if _, ok := now.fsMap[p]; !ok {
			h.out.Fail("recorded-not-served", fmt.Sprintf("[%s] %s recorded but not served although every Init returned ok", phase, h.mpName(p)))
		}
	}
	for _, w := range ws {
		for _, p := range w.own {
			_, served := now.fsMap[p]
			if served != w.served[p] {
				h.out.Fail("conc-serving-ne-results", fmt.Sprintf("[%s] %s served=%v but the RPC results of its only client imply %v", phase, h.mpName(p), served, w.served[p]))
			}
			if r, ok := now.store[p]; ok && served && w.served[p] && r.lab != w.lab[p] {
				h.out.Fail("conc-record-labels", fmt.Sprintf("[%s] %s recorded with labels %s, last successful Mount had %s", phase, h.mpName(p), r.lab, w.lab[p]))
			}
		}
	}
	return now
}

// concFreshMount mounts a so far unused mountpoint at a quiescent point and checks which filesystem
// serves it: it must have been built from the configuration the manager records for the new mount
// (allowed, if given, must contain that configuration), and (if newestOnly) be the last one built.
func (h *verifHarness) concFreshMount(phase, p string, allowed []string, newestOnly bool) {
	ctx := context.Background()
	h.clearScript()
	res := h.rpc(func() error {
		_, err := h.srv.Mount(ctx, &pb.MountRequest{Mountpoint: p, Labels: verifLabelSets[1]})
		return err
	})
	if res != "ok" {
		h.out.Fail("conc-fresh-mount-failed", fmt.Sprintf("[%s] Mount(%s) at a quiescent point after successful Inits returned %s", phase, h.mpName(p), res))
		return
	}
	now := h.snapshot()
	ids := now.owners[p]
	if len(ids) != 1 {
		h.out.Fail("conc-fresh-mount-failed", fmt.Sprintf("[%s] Mount(%s) returned ok, live mounts: %v", phase, h.mpName(p), ids))
		return
	}
	gen := h.fakeGen(ids[0])
	rec, ok := now.store[p]
	if !ok {
		h.out.Fail("served-not-recorded", fmt.Sprintf("[%s] %s is served but not in the store", phase, h.mpName(p)))
	} else if rec.cfg != gen {
		h.out.Fail("mount-served-by-other-config", fmt.Sprintf("[%s] every Init returned ok, yet the new mount %s is served by fs%d built from config %s while the manager's current config (recorded with it) is %s",
			phase, h.mpName(p), ids[0], gen, rec.cfg))
	}
	if len(allowed) > 0 {
		found := false
		for _, a := range allowed {
			found = found || a == gen
		}
		if !found {
			h.out.Fail("mount-served-by-other-config", fmt.Sprintf("[%s] new mount %s served by a filesystem built from config %s, expected one of %v", phase, h.mpName(p), gen, allowed))
		}
	}
	h.mu.Lock()
	newest := h.newest
	h.mu.Unlock()
	if newestOnly && ids[0] != newest {
		h.out.Fail("mount-on-stale-fs", fmt.Sprintf("[%s] new mount %s served by fs%d but the newest filesystem is fs%d", phase, h.mpName(p), ids[0], newest))
	}
	res = h.rpc(func() error {
		_, err := h.srv.Unmount(ctx, &pb.UnmountRequest{Mountpoint: p})
		return err
	})
	if res != "ok" {
		h.out.Fail("conc-fresh-mount-failed", fmt.Sprintf("[%s] Unmount(%s) of the fresh mount returned %s", phase, h.mpName(p), res))
	}
}

func TestVerifC17Conc(t *testing.T) {
	out := verifutil.OpenOut()
	defer out.Close()
	seed := verifutil.Seed()
	rnd := verifutil.NewRand(seed ^ 0xC17C)
	h, _, plain, cleanup := verifSetup(t, out)
	defer cleanup()
	h.conc = true
	ctx := context.Background()
	rounds := verifutil.EnvInt("VERIF_N", 10)
	nInit := verifutil.EnvInt("VERIF_C17_CONC_INITS", 20)
	nOps := verifutil.EnvInt("VERIF_C17_CONC_OPS", 150)
	grace := time.Duration(verifutil.EnvInt("VERIF_C17_CONC_GRACE_MS", 100)) * time.Millisecond
	fresh := h.mps[plain[4]]
	gen := int64(0)
	initOK := func(phase string, g int64) string {
		res := h.rpc(func() error {
			_, err := h.srv.Init(ctx, &pb.InitRequest{Root: h.root, Config: h.cfgJSON(g)})
			return err
		})
		if res != "ok" {
			out.Fail("conc-init-failed", fmt.Sprintf("[%s] Init(config %d) without any injected failure returned %s", phase, g, res))
		}
		return res
	}
	for r := 0; r < rounds; r++ {
		h.reset()
		h.clearScript()
		gen++
		initOK("prefix", gen)
		ws := []*verifWorker{
			{h: h, rnd: verifutil.NewRand(seed*1000 + uint64(r)*10 + 1), own: []string{h.mps[plain[0]], h.mps[plain[1]]}, served: map[string]bool{}, lab: map[string]string{}},
			{h: h, rnd: verifutil.NewRand(seed*1000 + uint64(r)*10 + 2), own: []string{h.mps[plain[2]], h.mps[plain[3]]}, served: map[string]bool{}, lab: map[string]string{}},
		}
		// phase 1: free-running Inits (one client, some re-sending the same config) against two
		// Mount/Check/Unmount clients with disjoint mountpoints
		var wg sync.WaitGroup
		for _, w := range ws {
			wg.Add(1)
			go func(w *verifWorker) { defer wg.Done(); w.run(nOps) }(w)
		}
		wg.Add(1)
		lastGen := gen
		go func() {
			defer wg.Done()
			for i := 0; i < nInit; i++ {
				if rnd.Intn(100) >= 35 {
					gen++
				}
				initOK("free", gen)
				lastGen = gen
				out.Count("conc-init")
			}
		}()
		wg.Wait()
		h.concQuiescent("free", ws)
		h.concFreshMount("free", fresh, []string{strconv.FormatInt(lastGen, 10)}, true)

		// phase 2: two overlapping Inits.  Init(A) is held inside its configFunc; Init(B) is sent
		// meanwhile and given `grace` to finish (it cannot while A is exclusive); then A is released.
		gen++
		a := gen
		gen++
		b := gen
		h.mu.Lock()
		h.blockGen = strconv.FormatInt(a, 10)
		h.blockEntered = make(chan struct{})
		h.blockRelease = make(chan struct{})
		entered, release := h.blockEntered, h.blockRelease
		h.mu.Unlock()
		doneA, doneB := make(chan string, 1), make(chan string, 1)
		go func() { doneA <- initOK("overlap-A", a) }()
		select {
		case <-entered:
			go func() { doneB <- initOK("overlap-B", b) }()
			select {
			case res := <-doneB:
				doneB <- res
				out.Count("conc-overlap-second-init-finished-first")
			case <-time.After(grace):
			}
			h.mu.Lock()
			h.blockGen = ""
			h.mu.Unlock()
			close(release)
			<-doneA
			<-doneB
		case <-doneA:
			// Init(A) never reached its configFunc (it returned): nothing to overlap with
			h.mu.Lock()
			h.blockGen = ""
			h.mu.Unlock()
			out.Count("conc-overlap-skipped")
		}
		h.concQuiescent("overlap", ws)
		h.concFreshMount("overlap", fresh, []string{strconv.FormatInt(a, 10), strconv.FormatInt(b, 10)}, false)
		out.Count("conc-overlap")

		// phase 3: Close against running clients; afterwards every request is rejected
		for _, w := range ws {
			wg.Add(1)
			go func(w *verifWorker) { defer wg.Done(); w.run(nOps / 3) }(w)
		}
		wg.Add(2)
		go func() {
			defer wg.Done()
			for i := 0; i < 300; i++ {
				h.status() // a reader of the manager's status that shares nothing with the harness
			}
		}()
		go func() {
			defer wg.Done()
			time.Sleep(time.Duration(rnd.Intn(300)) * time.Microsecond)
			h.rpc(func() error { return h.srv.Close(ctx) })
		}()
		wg.Wait()
		h.closed = true
		h.clearScript()
		for _, p := range []string{fresh, ws[0].own[0]} {
			res := h.rpc(func() error {
				_, err := h.srv.Mount(ctx, &pb.MountRequest{Mountpoint: p, Labels: verifLabelSets[1]})
				return err
			})
			if res != "err" {
				out.Fail("request-after-close-not-rejected", fmt.Sprintf("[close] Mount(%s) after Close returned %s", h.mpName(p), res))
			}
		}
		for p, ids := range h.liveMounts() {
			if len(ids) > 1 {
				out.Fail("second-mount", fmt.Sprintf("[close] %s has %d live mounts (fs %v)", h.mpName(p), len(ids), ids))
			}
		}
		out.Distinct(fmt.Sprintf("round-%d", r))
	}
}
