//go:build verif

package cache_test

import (
	"bytes"
	"encoding/hex"
	"fmt"
	"io"
	"os"
	"os/signal"
	"path/filepath"
	"sort"
	"strings"
	"sync"
	"sync/atomic"
	"syscall"
	"testing"
	"time"

	"github.com/containerd/stargz-snapshotter/cache"
	"github.com/containerd/stargz-snapshotter/internal/verifutil"
)

// C11 harness.  Drives the REAL directory cache / memory cache of this package.
//
// Part 1 (sequential): scripted and random histories of whole API calls (Add / Write in pieces / Commit /
// Abort / Close, Get / ReadAt at offsets / Close, duplicate adds, zero-length values, Direct / PassThrough
// options, a Commit whose disk write fails) over more keys than both LRU capacities, SyncAdd = true so
// that persistence is deterministic.  One op line + one canonical result line per call; the check diffs the
// result lines with the Lean model's.
//
// Part 2 (concurrent, oracle only): many goroutines adding / reading / holding readers of the same and of
// different keys with LRU capacities 1-2, background persistence, Direct mixes.
//
// The oracle (both parts, independent of the Lean model): every hit must be, in full, one of the values
// whose writer has CALLED Commit under that key; what an open reader shows must never change.

// ---- keys and self-describing values ---------------------------------------------------------

// verifKey: 64 hex characters.  Keys 2i and 2i+1 share their first two characters, i.e. the directory
// <dir>/<k[:2]>/ of the cache.
func verifKey(k int) string {
	return fmt.Sprintf("%02x%06x%056x", (k/2)%256, k, uint64(k)*0x9E3779B97F4A7C15)
}

// verifValue: the first n bytes of a stream that depends on (key, writer id): a 12 byte header
// 'K' key(3) 'W' wid(4) 0xC1 0x1C 0xFF and then a (key, wid, position) pattern.  A prefix of a value is
// a value of the same stream, so "what was written so far" is verifValue(key, wid, written).
func verifValue(key, wid, n int) []byte {
	b := make([]byte, n)
	hdr := [12]byte{'K', byte(key >> 16), byte(key >> 8), byte(key), 'W', byte(wid >> 24), byte(wid >> 16),
		byte(wid >> 8), byte(wid), 0xC1, 0x1C, 0xFF}
	x := uint32(key)*2654435761 ^ uint32(wid)*40503 ^ 0x5bd1e995
	for i := 0; i < n; i++ {
		if i < len(hdr) {
			b[i] = hdr[i]
			continue
		}
		x = x*1664525 + 1013904223
		b[i] = byte(x>>24) ^ byte(i)
	}
	return b
}

func verifDescribe(b []byte) string {
	if len(b) >= 12 && b[0] == 'K' && b[4] == 'W' {
		return fmt.Sprintf("len=%d header(key=%d wid=%d)", len(b), int(b[1])<<16|int(b[2])<<8|int(b[3]),
			int(b[5])<<24|int(b[6])<<16|int(b[7])<<8|int(b[8]))
	}
	h := hex.EncodeToString(b)
	if len(h) > 32 {
		h = h[:32] + "..."
	}
	return fmt.Sprintf("len=%d bytes=%s", len(b), h)
}

// ---- oracle registry -------------------------------------------------------------------------

const (
	verifStOpen      = 0
	verifStCommitted = 1 // Commit has been CALLED (the value may be visible from this moment on)
	verifStAborted   = 2
)

type verifRec struct {
	key, wid int
	data     []byte // what the writer has written (sequential) / will have written (concurrent)
	status   int
}

type verifReg struct {
	mu    sync.Mutex
	byKey map[int][]*verifRec
}

func verifNewReg() *verifReg { return &verifReg{byKey: map[int][]*verifRec{}} }

func (g *verifReg) add(key, wid int, data []byte) *verifRec {
	r := &verifRec{key: key, wid: wid, data: data}
	g.mu.Lock()
	g.byKey[key] = append(g.byKey[key], r)
	g.mu.Unlock()
	return r
}

func (g *verifReg) set(r *verifRec, status int, data []byte) {
	g.mu.Lock()
	r.status = status
	if data != nil {
		r.data = data
	}
	g.mu.Unlock()
}

// classify returns "" when got is, in full, a value committed under key; otherwise the signature of
// the violation.
func (g *verifReg) classify(key int, got []byte) (string, string) {
	g.mu.Lock()
	defer g.mu.Unlock()
	recs := g.byKey[key]
	for _, r := range recs {
		if r.status == verifStCommitted && bytes.Equal(r.data, got) {
			return "", ""
		}
	}
	for _, r := range recs {
		if r.status == verifStCommitted && len(got) < len(r.data) && bytes.HasPrefix(r.data, got) {
			return "hit-prefix", fmt.Sprintf("got %s, a strict prefix of the value committed by writer %d (len %d)",
				verifDescribe(got), r.wid, len(r.data))
		}
	}
	if len(got) > 0 {
		var keys []int
		for k2 := range g.byKey {
			if k2 != key {
				keys = append(keys, k2)
			}
		}
		sort.Ints(keys)
		for _, k2 := range keys {
			for _, r := range g.byKey[k2] {
				if bytes.Equal(r.data, got) || (len(got) >= 8 && bytes.HasPrefix(r.data, got)) ||
					(len(r.data) >= 8 && bytes.HasPrefix(got, r.data)) {
					return "hit-other-key", fmt.Sprintf("got %s which belongs to key %d (writer %d)", verifDescribe(got), k2, r.wid)
				}
			}
		}
	}
	for _, r := range recs {
		if r.status == verifStAborted && len(got) > 0 && bytes.HasPrefix(r.data, got) {
			return "aborted-visible", fmt.Sprintf("got %s = data of ABORTED writer %d", verifDescribe(got), r.wid)
		}
	}
	for _, rs := range g.byKey { // an aborted writer's bytes followed by something else
		for _, r := range rs {
			if r.status == verifStAborted && len(r.data) >= 4 && len(got) > len(r.data) && bytes.HasPrefix(got, r.data) {
				return "aborted-visible", fmt.Sprintf("got %s which starts with the %d bytes of ABORTED writer %d of key %d",
					verifDescribe(got), len(r.data), r.wid, r.key)
			}
		}
	}
	if n := bytes.Count(got, []byte{0xDB, 0xDB, 0xDB, 0xDB}); n > 0 && len(got) >= 4 {
		return "recycled-buffer-visible", fmt.Sprintf("got %s containing the poison written into POOLED buffers", verifDescribe(got))
	}
	for _, r := range recs {
		if r.status == verifStOpen && bytes.HasPrefix(r.data, got) {
			return "hit-not-committed", fmt.Sprintf("got %s = data of writer %d which has not called Commit", verifDescribe(got), r.wid)
		}
	}
	return "hit-not-committed", fmt.Sprintf("got %s which no writer committed under key %d", verifDescribe(got), key)
}

// ---- reading ---------------------------------------------------------------------------------

// verifReadWhole reads everything behind r with one ReadAt into buf (which is larger than any value).
func verifReadWhole(r cache.Reader, buf []byte) ([]byte, error) {
	n, err := r.ReadAt(buf, 0)
	if err != nil && err != io.EOF {
		return nil, err
	}
	if n == len(buf) {
		return nil, fmt.Errorf("value longer than %d bytes", len(buf)-1)
	}
	return buf[:n], nil
}

func verifSrcKind(r cache.Reader) string {
	switch r.GetReaderAt().(type) {
	case *bytes.Reader:
		return "mem"
	case *os.File:
		return "file"
	}
	return "other"
}

func verifB(b bool) string {
	if b {
		return "1"
	}
	return "0"
}

func verifHex(b []byte) string {
	if len(b) == 0 {
		return "-"
	}
	return hex.EncodeToString(b)
}

// ---- use-after-recycle poisoning --------------------------------------------------------------

// verifPool is handed to the cache as DirectoryCacheConfig.BufPool.  poison() takes every buffer that
// currently sits in the pool, overwrites the unused part of its backing array (everything beyond Len())
// with 0xDB and puts it back.  A pooled buffer is referenced by nobody, so this is invisible -- unless a
// reader still looks at a buffer that was recycled under it: then it sees 0xDB at once, without having to
// wait for another writer to reuse that very buffer.
type verifPool struct {
	p    *sync.Pool
	news int64
}

func verifNewPool() *verifPool {
	vp := &verifPool{}
	vp.p = &sync.Pool{New: func() any {
		atomic.AddInt64(&vp.news, 1)
		return new(bytes.Buffer)
	}}
	return vp
}

func (vp *verifPool) poison() int {
	if vp == nil {
		return 0
	}
	var got []*bytes.Buffer
	for i := 0; i < 64; i++ {
		before := atomic.LoadInt64(&vp.news)
		b := vp.p.Get().(*bytes.Buffer)
		if atomic.LoadInt64(&vp.news) != before {
			break // the pool was empty (b is brand new; dropped)
		}
		got = append(got, b)
	}
	for _, b := range got {
		d := b.Bytes()
		free := d[len(d):cap(d)]
		for i := range free {
			free[i] = 0xDB
		}
	}
	for i := len(got) - 1; i >= 0; i-- {
		vp.p.Put(got[i])
	}
	return len(got)
}

func (vp *verifPool) cfg() *sync.Pool {
	if vp == nil {
		return nil
	}
	return vp.p
}

// ---- RLIMIT_FSIZE: make every file write fail for the duration of f ---------------------------

var verifNoSpaceOK = true

func verifNoSpace(f func()) bool {
	var old syscall.Rlimit
	if err := syscall.Getrlimit(syscall.RLIMIT_FSIZE, &old); err != nil {
		return false
	}
	lim := old
	lim.Cur = 0
	if err := syscall.Setrlimit(syscall.RLIMIT_FSIZE, &lim); err != nil {
		return false
	}
	defer syscall.Setrlimit(syscall.RLIMIT_FSIZE, &old)
	f()
	return true
}

// ---- part 1: sequential histories ------------------------------------------------------------

type verifSeqW struct {
	w      cache.Writer
	key    int
	id     int
	direct bool
	rec    *verifRec
	n      int // bytes written
	state  int
	closed bool
}

type verifSeqR struct {
	r      cache.Reader
	key    int
	id     int
	whole  []byte
	closed bool
}

type verifSeq struct {
	t     *testing.T
	out   *verifutil.Out
	c     cache.BlobCache
	mem   bool
	cfgD  bool
	reg   *verifReg
	pool  *verifPool
	ws    []*verifSeqW
	rs    []*verifSeqR
	buf   []byte
	shape strings.Builder
	desc  string
}

func (h *verifSeq) fail(sig, what string) { h.out.Fail(sig, h.desc+": "+what) }

func verifOpts(direct, pass bool) []cache.Option {
	var o []cache.Option
	if direct {
		o = append(o, cache.Direct())
	}
	if pass {
		o = append(o, cache.PassThrough())
	}
	return o
}

func (h *verifSeq) add(key int, direct, pass bool) *verifSeqW {
	h.pool.poison()
	op := fmt.Sprintf("add %d %s %s", key, verifB(direct), verifB(pass))
	w, err := h.c.Add(verifKey(key), verifOpts(direct, pass)...)
	if err != nil {
		h.out.Emit(op, "err")
		h.fail("add-failed", fmt.Sprintf("%q: %v", op, err))
		return nil
	}
	sw := &verifSeqW{w: w, key: key, id: len(h.ws), direct: direct || h.cfgD}
	sw.rec = h.reg.add(key, sw.id, nil)
	h.ws = append(h.ws, sw)
	h.out.Emit(op, fmt.Sprintf("w=%d", sw.id))
	h.out.Count("add")
	h.shape.WriteByte('A')
	return sw
}

func (h *verifSeq) write(sw *verifSeqW, n int) {
	h.pool.poison()
	p := verifValue(sw.key, sw.id, sw.n+n)[sw.n:]
	op := fmt.Sprintf("write %d %s", sw.id, verifHex(p))
	m, err := sw.w.Write(p)
	if err != nil || m != len(p) {
		h.out.Emit(op, "err")
		h.fail("write-failed", fmt.Sprintf("write of %d bytes to writer %d: n=%d err=%v", len(p), sw.id, m, err))
		return
	}
	sw.n += n
	h.reg.set(sw.rec, verifStOpen, verifValue(sw.key, sw.id, sw.n))
	h.out.Emit(op, fmt.Sprintf("n=%d", m))
	h.out.Count("write")
	h.shape.WriteByte('w')
}

func (h *verifSeq) commit(sw *verifSeqW, nospace bool) {
	h.pool.poison()
	h.reg.set(sw.rec, verifStCommitted, verifValue(sw.key, sw.id, sw.n)) // visible from the CALL on
	var err error
	if nospace {
		if !verifNoSpace(func() { err = sw.w.Commit() }) {
			verifNoSpaceOK = false
			err = sw.w.Commit()
			h.out.Emit(fmt.Sprintf("commit %d", sw.id), map[bool]string{true: "ok", false: "err"}[err == nil])
		} else {
			h.out.Emit(fmt.Sprintf("commitnospace %d", sw.id), map[bool]string{true: "ok", false: "err"}[err == nil])
			h.out.Count("commitnospace")
			h.shape.WriteByte('N')
		}
	} else {
		err = sw.w.Commit()
		h.out.Emit(fmt.Sprintf("commit %d", sw.id), map[bool]string{true: "ok", false: "err"}[err == nil])
		h.out.Count("commit")
		if sw.n == 0 {
			h.out.Count("commit.zero-length")
		}
		h.shape.WriteByte('C')
	}
	sw.state = verifStCommitted
}

func (h *verifSeq) abort(sw *verifSeqW) {
	h.pool.poison()
	err := sw.w.Abort()
	h.reg.set(sw.rec, verifStAborted, nil)
	sw.state = verifStAborted
	h.out.Emit(fmt.Sprintf("abort %d", sw.id), map[bool]string{true: "ok", false: "err"}[err == nil])
	h.out.Count("abort")
	h.shape.WriteByte('X')
}

func (h *verifSeq) wclose(sw *verifSeqW) {
	sw.w.Close()
	sw.closed = true
	h.out.Emit(fmt.Sprintf("wclose %d", sw.id), "ok")
	h.out.Count("wclose")
	h.shape.WriteByte('c')
}

func (h *verifSeq) get(key int, direct, pass bool) *verifSeqR {
	h.pool.poison()
	op := fmt.Sprintf("get %d %s %s", key, verifB(direct), verifB(pass))
	r, err := h.c.Get(verifKey(key), verifOpts(direct, pass)...)
	if err != nil {
		h.out.Emit(op, "miss")
		h.out.Count("get.miss")
		h.shape.WriteByte('g')
		return nil
	}
	sr := &verifSeqR{r: r, key: key, id: len(h.rs)}
	h.rs = append(h.rs, sr)
	h.out.Emit(op, fmt.Sprintf("hit r=%d", sr.id))
	h.out.Count("get.hit." + verifSrcKind(r))
	h.shape.WriteByte('G')
	// the whole value, compared with the model and judged by the oracle
	whole, rerr := verifReadWhole(r, h.buf)
	rop := fmt.Sprintf("read %d 0 %d", sr.id, len(h.buf))
	if rerr != nil {
		h.out.Emit(rop, "err")
		h.fail("read-error", fmt.Sprintf("%q after %q: %v", rop, op, rerr))
		return sr
	}
	sr.whole = append([]byte(nil), whole...)
	h.out.Emit(rop, fmt.Sprintf("n=%d %s", len(whole), verifHex(whole)))
	if sig, what := h.reg.classify(key, sr.whole); sig != "" {
		h.fail(sig, fmt.Sprintf("%q (%s reader): %s", op, verifSrcKind(r), what))
	}
	if len(whole) == 0 {
		h.out.Count("get.hit.zero-length")
	}
	return sr
}

func (h *verifSeq) read(sr *verifSeqR, off, n int) {
	h.pool.poison()
	op := fmt.Sprintf("read %d %d %d", sr.id, off, n)
	p := make([]byte, n)
	m, err := sr.r.ReadAt(p, int64(off))
	if err != nil && err != io.EOF {
		h.out.Emit(op, "err")
		h.fail("read-error", fmt.Sprintf("%q on open reader of key %d: %v", op, sr.key, err))
		return
	}
	got := p[:m]
	h.out.Emit(op, fmt.Sprintf("n=%d %s", m, verifHex(got)))
	h.out.Count("read")
	h.shape.WriteByte('r')
	var want []byte
	if off < len(sr.whole) {
		want = sr.whole[off:]
		if len(want) > n {
			want = want[:n]
		}
	}
	if !bytes.Equal(got, want) {
		sig := "file-content-changed"
		if verifSrcKind(sr.r) == "mem" {
			sig = "recycled-buffer-visible"
		}
		h.fail(sig, fmt.Sprintf("%q: open %s reader of key %d first showed %s, now shows %s at offset %d",
			op, verifSrcKind(sr.r), sr.key, verifDescribe(sr.whole), verifDescribe(got), off))
	}
}

func (h *verifSeq) rclose(sr *verifSeqR) {
	// last look before giving it up: still the same bytes?
	h.read(sr, 0, len(h.buf))
	err := sr.r.Close()
	sr.closed = true
	h.out.Emit(fmt.Sprintf("rclose %d", sr.id), map[bool]string{true: "ok", false: "err"}[err == nil])
	h.out.Count("rclose")
	h.shape.WriteByte('R')
}

func (h *verifSeq) finish() {
	for _, sr := range h.rs {
		if !sr.closed {
			h.rclose(sr)
		}
	}
	for _, sw := range h.ws {
		if sw.state == verifStOpen {
			h.abort(sw)
		}
		if !sw.closed {
			h.wclose(sw)
		}
	}
	h.c.Close()
	h.out.Distinct(h.desc + "/" + h.shape.String())
}

func verifNewSeq(t *testing.T, out *verifutil.Out, base string, n int, mem bool, mc, fc int, cfgD, fadv bool) *verifSeq {
	return verifNewSeqPool(t, out, base, n, mem, mc, fc, cfgD, fadv, true)
}

func verifNewSeqPool(t *testing.T, out *verifutil.Out, base string, n int, mem bool, mc, fc int, cfgD, fadv, ownPool bool) *verifSeq {
	h := &verifSeq{t: t, out: out, mem: mem, cfgD: cfgD && !mem, reg: verifNewReg(), buf: make([]byte, 4096)}
	if mem {
		h.desc = fmt.Sprintf("h%d mem", n)
		out.Comment(h.desc)
		h.c = cache.NewMemoryCache()
		out.Emit("new mem", "ok")
		return h
	}
	h.desc = fmt.Sprintf("h%d dir mem=%d fd=%d direct=%v fadv=%v", n, mc, fc, cfgD, fadv)
	out.Comment(h.desc)
	if ownPool {
		h.pool = verifNewPool()
	}
	c, err := cache.NewDirectoryCache(filepath.Join(base, fmt.Sprintf("h%d", n)), cache.DirectoryCacheConfig{
		MaxLRUCacheEntry: mc, MaxCacheFds: fc, SyncAdd: true, Direct: cfgD, FadvDontNeed: fadv, BufPool: h.pool.cfg()})
	if err != nil {
		t.Fatalf("NewDirectoryCache: %v", err)
	}
	h.c = c
	out.Emit(fmt.Sprintf("new dir %d %d %s", mc, fc, verifB(cfgD)), "ok")
	return h
}

// put = Add, Write (in pieces), Commit, Close.
func (h *verifSeq) put(key, n int, direct bool, pieces int) *verifSeqW {
	sw := h.add(key, direct, false)
	if sw == nil {
		return nil
	}
	for i := 0; i < pieces && n > 0; i++ {
		m := n / (pieces - i)
		if m > 0 {
			h.write(sw, m)
			n -= m
		}
	}
	h.commit(sw, false)
	h.wclose(sw)
	return sw
}

func verifScripted(t *testing.T, out *verifutil.Out, base string, hn *int) {
	next := func(mem bool, mc, fc int, cfgD bool) *verifSeq {
		*hn++
		return verifNewSeq(t, out, base, *hn, mem, mc, fc, cfgD, false)
	}
	for _, mem := range []bool{false, true} {
		// 1. a reader holds key 0 across its eviction, the reuse of its buffer's successor and a re-add
		h := next(mem, 1, 1, false)
		h.put(0, 20, false, 2)
		r0 := h.get(0, false, false)
		h.put(1, 30, false, 1) // evicts key 0 from the memory LRU (held by r0)
		h.put(2, 40, false, 3)
		if r0 != nil {
			h.read(r0, 3, 9)
		}
		r0b := h.get(0, false, false) // from disk; closing it puts the descriptor into the fd LRU
		if r0b != nil {
			h.rclose(r0b)
		}
		r0c := h.get(0, false, false) // descriptor-cache hit
		h.put(3, 25, false, 1)
		if r1 := h.get(1, false, false); r1 != nil { // opens key 1's file; on close evicts key 0's descriptor (held by r0c)
			h.rclose(r1)
		}
		if r0c != nil {
			h.read(r0c, 0, 50)
			h.rclose(r0c)
		}
		if r0 != nil {
			h.rclose(r0) // last holder: the buffer goes back to the pool
		}
		h.put(4, 35, false, 1) // takes the recycled buffer
		if r := h.get(0, false, false); r != nil {
			h.read(r, 19, 5)
		}
		h.finish()

		// 2. duplicate adds: second commit while the first value is cached / after it was evicted
		h = next(mem, 2, 2, false)
		h.put(0, 16, false, 1)
		h.put(0, 18, false, 1) // memory keeps the first; disk is rewritten with the cached (first) value
		ra := h.get(0, false, false)
		rb := h.get(0, true, false) // Direct: from disk
		h.put(1, 10, false, 1)
		h.put(2, 10, false, 1) // key 0 evicted from memory
		h.put(0, 21, false, 1) // now the new value is published and persisted
		rc := h.get(0, false, false)
		rd := h.get(0, true, false)
		for _, r := range []*verifSeqR{ra, rb, rc, rd} {
			if r != nil {
				h.read(r, 0, 64)
			}
		}
		// two writers of one key open at the same time, committed in the other order
		w1 := h.add(5, false, false)
		w2 := h.add(5, false, true)
		if w1 != nil && w2 != nil {
			h.write(w1, 7)
			h.write(w2, 9)
			h.get(5, false, false) // nothing committed yet: miss
			h.commit(w2, false)
			h.get(5, false, false)
			h.commit(w1, false)
			h.get(5, false, false)
			h.get(5, true, false)
		}
		h.finish()

		// 3. zero-length values, aborts, writers closed without commit
		h = next(mem, 1, 1, false)
		h.put(0, 0, false, 1)
		r := h.get(0, false, false)
		if r != nil {
			h.read(r, 0, 1)
			h.read(r, 1, 1)
		}
		h.put(1, 0, true, 1) // direct, empty
		h.get(1, false, false)
		h.get(0, false, false)
		wa := h.add(2, false, false)
		if wa != nil {
			h.write(wa, 12)
			h.abort(wa)
			h.get(2, false, false) // miss
			h.get(2, true, false)
			h.wclose(wa)
		}
		wb := h.add(3, true, false)
		if wb != nil {
			h.write(wb, 12)
			h.get(3, false, false) // wip is not visible
			h.abort(wb)
			h.get(3, true, false)
			h.wclose(wb)
		}
		wc := h.add(4, false, false) // closed, never committed
		if wc != nil {
			h.write(wc, 5)
			h.wclose(wc)
			h.get(4, false, false)
			h.commit(wc, false) // Commit after Close is allowed
			h.get(4, false, false)
		}
		h.put(2, 13, false, 1) // a key with an aborted history gets a real value
		h.get(2, false, false)
		h.finish()

		// 4. Direct / PassThrough option mixes and the Direct configuration
		h = next(mem, 1, 1, !mem)
		h.put(0, 33, false, 2)
		h.put(1, 34, true, 1)
		ra = h.get(0, false, true)
		rb = h.get(1, false, false)
		h.put(2, 35, false, 1)
		for _, r := range []*verifSeqR{ra, rb} {
			if r != nil {
				h.read(r, 5, 40)
				h.rclose(r)
			}
		}
		h.get(0, true, true)
		h.get(7, false, false) // never added
		h.finish()
	}

	// 5. a Commit whose disk write fails: the value lives in the memory LRU only, until it is evicted
	h := next(false, 1, 1, false)
	w := h.add(0, false, false)
	if w != nil {
		h.write(w, 50)
		h.commit(w, true)
		h.wclose(w)
		r := h.get(0, false, false) // memory hit although Commit reported an error
		h.get(0, true, false)       // Direct: nothing on disk
		h.put(1, 10, false, 1)      // evicts key 0 (held by r)
		h.get(0, false, false)      // miss now
		if r != nil {
			h.read(r, 0, 60)
			h.rclose(r)
		}
		w = h.add(2, false, false) // empty value: nothing to write, Commit succeeds even now
		if w != nil {
			h.commit(w, true)
			h.get(2, true, false)
		}
		h.put(0, 20, false, 1)
		w = h.add(0, false, false) // duplicate of a cached key, failing persistence: disk keeps the old file
		if w != nil {
			h.write(w, 22)
			h.commit(w, true)
			h.get(0, false, false)
			h.get(0, true, false)
		}
	}
	h.finish()

	// 7. overlapping writers of ONE key whose data goes straight to their wip files (Direct option and
	// Direct configuration): each writer has its own file, whoever commits publishes only its own bytes
	for _, cfgD := range []bool{false, true} {
		h = next(false, 1, 1, cfgD)
		w1 := h.add(5, true, false)
		if w1 != nil {
			h.write(w1, 40)
		}
		w2 := h.add(5, true, false) // second writer of the same key, still open while w1 commits
		if w1 != nil && w2 != nil {
			h.write(w2, 10)
			h.commit(w1, false)
			h.get(5, false, false) // exactly w1's 40 bytes
			h.write(w2, 7)
			h.get(5, true, false)
			h.abort(w2)
			h.get(5, false, false) // still w1's
			w3 := h.add(5, true, false)
			w4 := h.add(5, false, false) // a memory writer (direct under the Direct configuration) of the same key
			if w3 != nil && w4 != nil {
				h.write(w3, 21)
				h.write(w4, 23)
				h.write(w3, 2)
				h.commit(w4, false)
				h.get(5, true, false)
				h.commit(w3, false)
				h.get(5, true, false)
				h.get(5, false, false)
			}
		}
		h.finish()
	}
	// memory writers of one key, one aborted with data in its buffer before the other starts
	h = next(false, 2, 2, false)
	wa := h.add(1, false, false)
	if wa != nil {
		h.write(wa, 30)
		h.abort(wa)
		h.wclose(wa)
	}
	h.put(2, 17, false, 1) // takes the buffer the aborted writer gave back
	h.get(2, false, false)
	h.get(2, true, false)
	h.get(1, false, false)
	h.finish()

	// 6. default capacities (0 => 10) with 12 keys
	h = next(false, 0, 0, false)
	for k := 0; k < 12; k++ {
		h.put(k, 5+k, false, 1)
	}
	var held []*verifSeqR
	for k := 0; k < 12; k++ {
		if r := h.get(k, false, false); r != nil {
			held = append(held, r)
		}
	}
	for _, r := range held {
		h.rclose(r)
	}
	for k := 0; k < 12; k++ {
		h.get(k, false, false)
	}
	h.finish()
}

func verifRandomHistory(t *testing.T, out *verifutil.Out, rnd *verifutil.Rand, base string, n int) {
	mem := rnd.Intn(7) == 0
	mc, fc := 1+rnd.Intn(3), 1+rnd.Intn(3)
	cfgD := rnd.Intn(8) == 0
	h := verifNewSeqPool(t, out, base, n, mem, mc, fc, cfgD, rnd.Intn(4) == 0, rnd.Intn(5) > 0)
	nkeys := mc
	if fc > nkeys {
		nkeys = fc
	}
	nkeys += 1 + rnd.Intn(3)
	pDirect := []int{0, 10, 30, 60}[rnd.Intn(4)]
	wAdd, wWrite, wCommit, wAbort, wGet, wRead, wRclose, wWclose, wNoSpace :=
		8+rnd.Intn(8), 10+rnd.Intn(10), 8+rnd.Intn(8), rnd.Intn(4), 12+rnd.Intn(12), 6+rnd.Intn(8), 4+rnd.Intn(8), 3, 0
	if !mem && !cfgD && verifNoSpaceOK && rnd.Intn(3) == 0 {
		wNoSpace = 2
	}
	size := func() int {
		switch rnd.Pick(1, 10, 6, 2) {
		case 0:
			return 0
		case 1:
			return 1 + rnd.Intn(24)
		case 2:
			return 25 + rnd.Intn(120)
		}
		return 150 + rnd.Intn(400)
	}
	nops := 15 + rnd.Intn(60)
	for i := 0; i < nops; i++ {
		var openW, anyW, memW []*verifSeqW
		for _, w := range h.ws {
			if w.state == verifStOpen {
				openW = append(openW, w)
				if !w.direct {
					memW = append(memW, w)
				}
			}
			if !w.closed {
				anyW = append(anyW, w)
			}
		}
		var openR []*verifSeqR
		for _, r := range h.rs {
			if !r.closed {
				openR = append(openR, r)
			}
		}
		switch rnd.Pick(wAdd, wWrite, wCommit, wAbort, wGet, wRead, wRclose, wWclose, wNoSpace) {
		case 0:
			if len(h.ws) < 40 && len(openW) < 4 {
				w := h.add(rnd.Intn(nkeys), rnd.Intn(100) < pDirect, rnd.Intn(5) == 0)
				if w != nil && rnd.Intn(8) > 0 { // most writers write something right away
					if n := size(); n > 0 {
						h.write(w, n)
					}
				}
			}
		case 1:
			var cand []*verifSeqW
			for _, w := range openW {
				if !w.closed {
					cand = append(cand, w)
				}
			}
			if len(cand) > 0 {
				if n := size(); n > 0 {
					h.write(cand[rnd.Intn(len(cand))], n)
				}
			}
		case 2:
			if len(openW) > 0 {
				w := openW[rnd.Intn(len(openW))]
				h.commit(w, false)
				if rnd.Intn(3) > 0 && !w.closed {
					h.wclose(w)
				}
			}
		case 3:
			if len(openW) > 0 {
				h.abort(openW[rnd.Intn(len(openW))])
			}
		case 4:
			k := rnd.Intn(nkeys + 1) // nkeys itself is never added
			if rnd.Intn(4) > 0 {        // mostly keys that have a committed value
				var ck []int
				for _, w := range h.ws {
					if w.state == verifStCommitted {
						ck = append(ck, w.key)
					}
				}
				if len(ck) > 0 {
					k = ck[rnd.Intn(len(ck))]
				}
			}
			if len(openR) < 6 {
				h.get(k, rnd.Intn(100) < pDirect, rnd.Intn(5) == 0)
			}
		case 5:
			if len(openR) > 0 {
				r := openR[rnd.Intn(len(openR))]
				h.read(r, rnd.Intn(len(r.whole)+3), 1+rnd.Intn(64))
			}
		case 6:
			if len(openR) > 0 {
				h.rclose(openR[rnd.Intn(len(openR))])
			}
		case 7:
			if len(anyW) > 0 {
				h.wclose(anyW[rnd.Intn(len(anyW))])
			}
		case 8:
			if len(memW) > 0 {
				h.commit(memW[rnd.Intn(len(memW))], true)
			}
		}
	}
	h.finish()
}

// ---- part 2: concurrent stress, oracle only --------------------------------------------------

type verifHeld struct {
	r     cache.Reader
	key   int
	whole []byte
	kind  string
}

func verifStressRound(t *testing.T, out *verifutil.Out, rnd *verifutil.Rand, base string, round int, iters int) {
	mem := rnd.Intn(6) == 0
	mc, fc := 1+rnd.Intn(2), 1+rnd.Intn(2)
	syncAdd := rnd.Intn(4) == 0
	fadv := rnd.Intn(3) == 0
	nkeys := 3 + rnd.Intn(4)
	ng := 6 + rnd.Intn(7)
	pDirect := []int{0, 15, 40}[rnd.Intn(3)]
	big := rnd.Intn(2) == 0
	desc := fmt.Sprintf("stress round %d: mem=%v caps=%d/%d syncAdd=%v fadv=%v keys=%d goroutines=%d direct%%=%d big=%v",
		round, mem, mc, fc, syncAdd, fadv, nkeys, ng, pDirect, big)
	out.Comment(desc)
	var c cache.BlobCache
	var pool *verifPool
	dir := filepath.Join(base, fmt.Sprintf("s%d", round))
	if mem {
		c = cache.NewMemoryCache()
	} else {
		var err error
		if rnd.Intn(4) > 0 {
			pool = verifNewPool()
		}
		c, err = cache.NewDirectoryCache(dir, cache.DirectoryCacheConfig{MaxLRUCacheEntry: mc, MaxCacheFds: fc,
			SyncAdd: syncAdd, FadvDontNeed: fadv, BufPool: pool.cfg()})
		if err != nil {
			t.Fatalf("NewDirectoryCache: %v", err)
		}
	}
	reg := verifNewReg()
	var wid int64
	var hits, misses, commits, aborts, rereads int64
	fail := func(sig, what string) { out.Fail(sig, desc+": "+what) }
	const maxLen = 1 << 18
	var wg sync.WaitGroup
	for g := 0; g < ng; g++ {
		seed := rnd.Uint64()
		wg.Add(1)
		go func(g int) {
			defer wg.Done()
			r := verifutil.NewRand(seed)
			buf := make([]byte, maxLen+1)
			var held []*verifHeld
			recheck := func(h *verifHeld) {
				p := make([]byte, len(h.whole)+8)
				n, err := h.r.ReadAt(p, 0)
				if err != nil && err != io.EOF {
					fail("read-error", fmt.Sprintf("re-read of a held %s reader of key %d: %v", h.kind, h.key, err))
					return
				}
				atomic.AddInt64(&rereads, 1)
				if !bytes.Equal(p[:n], h.whole) {
					sig := "file-content-changed"
					if h.kind == "mem" {
						sig = "recycled-buffer-visible"
					}
					fail(sig, fmt.Sprintf("held %s reader of key %d first showed %s, later %s", h.kind, h.key,
						verifDescribe(h.whole), verifDescribe(p[:n])))
				}
			}
			for i := 0; i < iters; i++ {
				// half of the traffic goes to one hot key
				key := 0
				if r.Intn(2) == 0 {
					key = r.Intn(nkeys)
				}
				opts := verifOpts(r.Intn(100) < pDirect, r.Intn(6) == 0)
				switch r.Pick(30, 5, 45, 15, 5) {
				case 0, 1: // writer
					abort := r.Intn(8) == 0
					var n int
					switch r.Pick(1, 6, 8, 3) {
					case 0:
						n = 0
					case 1:
						n = 1 + r.Intn(64)
					case 2:
						n = 64 + r.Intn(4096)
					default:
						n = 4096 + r.Intn(60000)
						if big {
							n += r.Intn(180000)
						}
					}
					id := int(atomic.AddInt64(&wid, 1))
					data := verifValue(key, id, n)
					rec := reg.add(key, id, data)
					w, err := c.Add(verifKey(key), opts...)
					if err != nil {
						fail("add-failed", err.Error())
						continue
					}
					pieces := 1 + r.Intn(3)
					off := 0
					ok := true
					for p := 0; p < pieces && ok; p++ {
						end := n
						if p < pieces-1 {
							end = off + (n-off)/2
						}
						if end > off {
							if m, err := w.Write(data[off:end]); err != nil || m != end-off {
								fail("write-failed", fmt.Sprintf("n=%d err=%v", m, err))
								ok = false
							}
							off = end
						}
						if r.Intn(4) == 0 {
							time.Sleep(time.Duration(r.Intn(50)) * time.Microsecond)
						}
					}
					if abort || !ok {
						reg.set(rec, verifStAborted, nil)
						w.Abort()
						atomic.AddInt64(&aborts, 1)
					} else {
						reg.set(rec, verifStCommitted, nil) // before the call: it may be visible at once
						if err := w.Commit(); err != nil {
							fail("commit-failed", err.Error())
						}
						atomic.AddInt64(&commits, 1)
					}
					w.Close()
				case 2: // reader
					rd, err := c.Get(verifKey(key), opts...)
					if err != nil {
						atomic.AddInt64(&misses, 1)
						continue
					}
					atomic.AddInt64(&hits, 1)
					kind := verifSrcKind(rd)
					whole, err := verifReadWhole(rd, buf)
					if err != nil {
						fail("read-error", fmt.Sprintf("first read of a %s reader of key %d: %v", kind, key, err))
						rd.Close()
						continue
					}
					if sig, what := reg.classify(key, whole); sig != "" {
						fail(sig, fmt.Sprintf("Get(key %d) via %s: %s", key, kind, what))
					}
					if len(whole) > 0 { // a slice somewhere inside
						off := r.Intn(len(whole))
						p := make([]byte, 1+r.Intn(256))
						n, err := rd.ReadAt(p, int64(off))
						if err != nil && err != io.EOF {
							fail("read-error", fmt.Sprintf("ReadAt(off %d) on %s reader of key %d: %v", off, kind, key, err))
						} else {
							want := whole[off:]
							if len(want) > len(p) {
								want = want[:len(p)]
							}
							if !bytes.Equal(p[:n], want) {
								sig := "file-content-changed"
								if kind == "mem" {
									sig = "recycled-buffer-visible"
								}
								fail(sig, fmt.Sprintf("ReadAt(off %d, len %d) on %s reader of key %d disagrees with the full read",
									off, len(p), kind, key))
							}
						}
					}
					if len(held) < 3 && r.Intn(3) == 0 {
						held = append(held, &verifHeld{r: rd, key: key, whole: append([]byte(nil), whole...), kind: kind})
					} else {
						rd.Close()
					}
				case 3: // look again through a held reader; sometimes let it go
					if len(held) > 0 {
						j := r.Intn(len(held))
						recheck(held[j])
						if r.Intn(2) == 0 {
							held[j].r.Close()
							held = append(held[:j], held[j+1:]...)
						}
					}
				default:
					time.Sleep(time.Duration(r.Intn(200)) * time.Microsecond)
				}
			}
			for _, h := range held {
				recheck(h)
				h.r.Close()
			}
		}(g)
	}
	stop := make(chan struct{})
	var pwg sync.WaitGroup
	if pool != nil { // keeps scribbling over whatever sits in the pool
		pwg.Add(1)
		go func() {
			defer pwg.Done()
			for {
				select {
				case <-stop:
					return
				default:
				}
				pool.poison()
				time.Sleep(100 * time.Microsecond)
			}
		}()
	}
	wg.Wait()
	close(stop)
	pwg.Wait()
	if !mem {
		// background commits: wait until no wip file is left, then look at every key once more
		deadline := time.Now().Add(10 * time.Second)
		for time.Now().Before(deadline) {
			ents, _ := os.ReadDir(filepath.Join(dir, "wip"))
			if len(ents) == 0 {
				break
			}
			time.Sleep(2 * time.Millisecond)
		}
		time.Sleep(5 * time.Millisecond)
	}
	buf := make([]byte, maxLen+1)
	for k := 0; k < nkeys; k++ {
		for _, d := range []bool{false, true} {
			rd, err := c.Get(verifKey(k), verifOpts(d, false)...)
			if err != nil {
				continue
			}
			whole, err := verifReadWhole(rd, buf)
			if err != nil {
				fail("read-error", fmt.Sprintf("final read of key %d: %v", k, err))
			} else if sig, what := reg.classify(k, whole); sig != "" {
				fail(sig, fmt.Sprintf("final Get(key %d, direct=%v): %s", k, d, what))
			}
			rd.Close()
		}
	}
	c.Close()
	out.Comment(fmt.Sprintf("stress round %d done", round)) // counts depend on the schedule: kept out of the streams
	out.Count("stress.rounds")
	for n, v := range map[string]int64{"stress.hits": hits, "stress.misses": misses, "stress.commits": commits,
		"stress.aborts": aborts, "stress.rereads": rereads} {
		out.Stats[n] += int(v) // single-threaded here
	}
	if hits > 0 {
		out.Distinct(fmt.Sprintf("stress/%v/%d/%d/%v/%d/%d/%d", mem, mc, fc, syncAdd, nkeys, ng, pDirect))
	}
}

// TestVerifC11: VERIF_MODE = seq | conc | both (default both).
func TestVerifC11(t *testing.T) {
	signal.Ignore(syscall.SIGXFSZ) // a write beyond RLIMIT_FSIZE must fail with EFBIG, not kill the process
	rnd := verifutil.NewRand(verifutil.Seed())
	out := verifutil.OpenOut()
	defer out.Close()
	mode := os.Getenv("VERIF_MODE")
	base := t.TempDir()
	if mode != "conc" {
		hn := 0
		verifScripted(t, out, base, &hn)
		n := verifutil.EnvInt("VERIF_N", 200)
		for i := 0; i < n; i++ {
			hn++
			verifRandomHistory(t, out, rnd, base, hn)
		}
		if !verifNoSpaceOK {
			out.Comment("RLIMIT_FSIZE could not be lowered: failing-commit histories were run as plain commits")
		}
	}
	if mode != "seq" {
		rounds := verifutil.EnvInt("VERIF_ROUNDS", 6)
		iters := verifutil.EnvInt("VERIF_ITERS", 250)
		for r := 0; r < rounds; r++ {
			verifStressRound(t, out, rnd, base, r, iters)
		}
	}
}
