//go:build verif

package cache_test

import (
	"bytes"
	"fmt"
	"os"
	"path/filepath"
	"sort"
	"strings"
	"sync"
	"testing"
	"time"

	"github.com/containerd/stargz-snapshotter/cache"
	"github.com/containerd/stargz-snapshotter/internal/verifutil"
	"github.com/containerd/stargz-snapshotter/util/cacheutil"
)

// C12, cache-handle side (oracle only; exported API of package cache).
//
// Releasing a layer ends in BlobCache.Close() of its two directory caches (<root>/fscache/<tmp> of the
// reader, <root>/httpcache/<tmp> of the blob).  The layer-level harnesses release layers whose chunk
// writers and readers have all finished; the real system does not: a background-fetch writer
// (cache.Direct()), the asynchronous file-commit goroutine of a default Add, a reader held by a FUSE
// request are routinely still in flight when the last holder lets go.  This pass generates exactly that
// class: histories of one layer's cache handles in which writers / readers OUTLIVE the Close, and every
// operation such a handle can still perform (Write, Commit, Abort, Close, ReadAt; new Add / Get; a second
// Close) is run AFTER the release, in every mode (default async, SyncAdd, Direct by option and by config,
// fadvise), with and without an existing <dir>/<key[:2]> directory.
//
// Oracle ("once every holder has released a layer ... both cache directories are gone"):
//   * Close of a handle returns nil and its directory is gone            (cache-close-failed, cache-dir-left-by-close)
//   * after EVERY later operation on a surviving handle both directories are still gone
//                                                                       (cache-dir-back-after-release)
//   * a closed cache accepts no new chunk: late Commit / Add / Get fail  (closed-cache-accepts-commit/-add/-get)
//   * an asynchronous commit goroutine that is racing the release, joined through the eviction callback of
//     the injected memory LRU (it holds the entry's reference until it has finished), leaves nothing
//                                                                       (cache-dir-back-after-async-commit,
//                                                                        cache-close-failed-under-inflight-commit)
// The racing scenario is schedule dependent.  It is confirmed by an immediate repetition before it counts
// (the unchanged code has a window of a few instructions between the closed-check and the rename; a single hit
// is commented as async-window-hit-once, never an alarm); a join that takes longer than a minute is commented
// as timing-unreliable.

const verifC12cClause = "C12 'once every holder has released a layer ... both cache directories are gone'"

func verifC12cKey(prefix, i int) string { return fmt.Sprintf("%02x%062x", 0xa0+prefix, i) }

func verifC12cData(key string, n int) []byte {
	b := make([]byte, n)
	x := uint32(len(key))*2654435761 ^ 0x5bd1e995
	for _, c := range []byte(key) {
		x = x*31 + uint32(c)
	}
	for i := range b {
		x = x*1664525 + 1013904223
		b[i] = byte(x >> 24)
	}
	return b
}

// verifC12cLeft lists everything below dir (dir included) that exists.
func verifC12cLeft(dir string) []string {
	var left []string
	filepath.Walk(dir, func(p string, _ os.FileInfo, err error) error {
		if err == nil {
			left = append(left, p)
		}
		return nil
	})
	sort.Strings(left)
	return left
}

type verifC12cWriter struct {
	hd      *verifC12cHandle
	key     string
	direct  bool // reaches the file writer directly (option or config)
	w       cache.Writer
	wrote   int
	settled bool // Commit or Abort was called
	closed  bool
}

type verifC12cReader struct {
	hd   *verifC12cHandle
	key  string
	r    cache.Reader
	want []byte
}

type verifC12cHandle struct {
	kind     string // "fscache" / "httpcache"
	dir      string
	c        cache.BlobCache
	mode     string // async / sync / direct
	data     *cacheutil.LRUCache
	mu       sync.Mutex
	evicted  map[string]chan struct{}
	released bool
	nkey     int
	have     map[string][]byte // committed and persisted keys
}

func (hd *verifC12cHandle) evictedCh(key string) chan struct{} {
	hd.mu.Lock()
	defer hd.mu.Unlock()
	ch, ok := hd.evicted[key]
	if !ok {
		ch = make(chan struct{})
		hd.evicted[key] = ch
	}
	return ch
}

type verifC12cHist struct {
	t       *testing.T
	out     *verifutil.Out
	rnd     *verifutil.Rand
	name    string
	root    string
	hds     []*verifC12cHandle
	ws      []*verifC12cWriter
	rs      []*verifC12cReader
	trace   []string
	kinds   []string
	failed  bool
	timing  bool
	pending []string // failures of a schedule-dependent scenario, to be confirmed by the caller
}

var (
	verifC12cSigMu sync.Mutex
	verifC12cSigN  = map[string]int{}
)

func (h *verifC12cHist) log(kind, format string, a ...any) {
	h.kinds = append(h.kinds, kind)
	h.trace = append(h.trace, fmt.Sprintf(format, a...))
	h.out.Count(kind)
}

func (h *verifC12cHist) fail(sig, format string, a ...any) {
	if h.failed {
		return
	}
	h.failed = true
	verifC12cSigMu.Lock()
	verifC12cSigN[sig]++
	n := verifC12cSigN[sig]
	verifC12cSigMu.Unlock()
	if n > 4 { // the first few failing histories of a kind are enough for the replay file
		h.out.Count("more:" + sig)
		return
	}
	h.out.Fail(sig, fmt.Sprintf("%s: history %s: %s; history so far: %s", verifC12cClause, h.name,
		fmt.Sprintf(format, a...), strings.Join(h.trace, " ; ")))
}

// verifC12cNewHandle wires a directory cache the way fs/layer.newCache does (unique directory below
// <root>/<kind>, injected LRUs and pool) or with the defaults of NewDirectoryCache.
func (h *verifC12cHist) newHandle(kind, mode string, inject, fadv bool) *verifC12cHandle {
	parent := filepath.Join(h.root, kind)
	if err := os.MkdirAll(parent, 0700); err != nil {
		h.t.Fatalf("mkdir: %v", err)
	}
	dir, err := os.MkdirTemp(parent, "")
	if err != nil {
		h.t.Fatalf("mkdtemp: %v", err)
	}
	hd := &verifC12cHandle{kind: kind, dir: dir, mode: mode, evicted: map[string]chan struct{}{}, have: map[string][]byte{}}
	cfg := cache.DirectoryCacheConfig{SyncAdd: mode == "sync", Direct: mode == "direct", FadvDontNeed: fadv}
	if inject || mode == "async" {
		hd.data = cacheutil.NewLRUCache(10)
		hd.data.OnEvicted = func(key string, _ any) { // called under the LRU's mutex: only signal
			ch := hd.evictedCh(key)
			select {
			case <-ch:
			default:
				close(ch)
			}
		}
		fc := cacheutil.NewLRUCache(10)
		fc.OnEvicted = func(_ string, v any) { v.(*os.File).Close() }
		cfg.DataCache, cfg.FdCache = hd.data, fc
		cfg.BufPool = &sync.Pool{New: func() any { return new(bytes.Buffer) }}
	}
	c, err := cache.NewDirectoryCache(dir, cfg)
	if err != nil {
		h.t.Fatalf("NewDirectoryCache: %v", err)
	}
	hd.c = c
	h.hds = append(h.hds, hd)
	h.log("new:"+kind+":"+mode, "new %s cache mode=%s inject=%v fadv=%v", kind, mode, inject || mode == "async", fadv)
	return hd
}

func (h *verifC12cHist) add(hd *verifC12cHandle, prefix int, direct bool) *verifC12cWriter {
	hd.nkey++
	key := verifC12cKey(prefix, len(h.hds)*1000+hd.nkey)
	var opts []cache.Option
	if direct {
		opts = append(opts, cache.Direct())
	}
	w, err := hd.c.Add(key, opts...)
	tag := fmt.Sprintf("add(%s,p%d,direct=%v)", hd.kind, prefix, direct)
	if hd.released {
		h.log("late-add", "late %s -> err=%v", tag, err != nil)
		h.checkGone("an Add after the release (" + tag + ")")
		if err == nil {
			h.fail("closed-cache-accepts-add", "%s on a cache that was closed returned a writer", tag)
			w.Abort()
			w.Close()
		}
		return nil
	}
	if err != nil {
		h.t.Fatalf("%s: %v", tag, err)
	}
	h.log("add", "%s", tag)
	wr := &verifC12cWriter{hd: hd, key: key, direct: direct || hd.mode == "direct", w: w}
	h.ws = append(h.ws, wr)
	return wr
}

func (h *verifC12cHist) write(wr *verifC12cWriter, n int) {
	all := verifC12cData(wr.key, wr.wrote+n)
	_, err := wr.w.Write(all[wr.wrote:])
	late := ""
	if wr.hd.released {
		late = "late-"
	}
	h.log(late+"write", "%swrite(%s..,%d) err=%v", late, wr.key[:4], n, err != nil)
	if err == nil {
		wr.wrote += n
	} else if !wr.hd.released {
		h.t.Fatalf("write: %v", err)
	}
	h.checkGone("write")
}

// commit calls Commit.  join: wait for the asynchronous persistence of a default-mode writer.
func (h *verifC12cHist) commit(wr *verifC12cWriter, join bool) {
	err := wr.w.Commit()
	wr.settled = true
	if wr.hd.released {
		h.log("late-commit", "late commit(%s.. direct=%v mode=%s) err=%v", wr.key[:4], wr.direct, wr.hd.mode, err != nil)
		h.checkGone(fmt.Sprintf("a Commit (direct=%v, cache mode %s) that completed after the release", wr.direct, wr.hd.mode))
		if err == nil {
			h.fail("closed-cache-accepts-commit", "Commit of an in-flight writer (direct=%v mode=%s) on a closed cache returned nil", wr.direct, wr.hd.mode)
		}
		return
	}
	if err != nil {
		h.t.Fatalf("commit: %v", err)
	}
	h.log("commit", "commit(%s.. direct=%v)", wr.key[:4], wr.direct)
	if !wr.direct && wr.hd.mode == "async" {
		if !join {
			return
		}
		h.join(wr)
	}
	wr.hd.have[wr.key] = verifC12cData(wr.key, wr.wrote)
}

// join waits until the commit goroutine of a default-mode writer has dropped its reference to the
// memory-cache entry, i.e. has finished (done() is its last deferred call).
func (h *verifC12cHist) join(wr *verifC12cWriter) bool {
	ch := wr.hd.evictedCh(wr.key)
	wr.hd.data.Remove(wr.key)
	t0 := time.Now()
	select {
	case <-ch:
		if d := time.Since(t0); d > 5*time.Second {
			h.out.Count("slow-join")
		}
		return true
	case <-time.After(60 * time.Second):
		h.timing = true
		h.out.Comment("timing-unreliable: commit goroutine not finished after 60 s in history " + h.name)
		return false
	}
}

func (h *verifC12cHist) abort(wr *verifC12cWriter) {
	err := wr.w.Abort()
	wr.settled = true
	late := ""
	if wr.hd.released {
		late = "late-"
	}
	h.log(late+"abort", "%sabort(%s..) err=%v", late, wr.key[:4], err != nil)
	h.checkGone("an Abort that completed after the release")
}

func (h *verifC12cHist) wclose(wr *verifC12cWriter) {
	wr.w.Close()
	wr.closed = true
	late := ""
	if wr.hd.released {
		late = "late-"
	}
	h.log(late+"wclose", "%swclose(%s..)", late, wr.key[:4])
	h.checkGone("a writer Close after the release")
}

func (h *verifC12cHist) get(hd *verifC12cHandle, key string, direct bool) {
	var opts []cache.Option
	if direct {
		opts = append(opts, cache.Direct())
	}
	r, err := hd.c.Get(key, opts...)
	if hd.released {
		h.log("late-get", "late get(%s..) err=%v", key[:4], err != nil)
		h.checkGone("a Get after the release")
		if err == nil {
			r.Close()
			h.fail("closed-cache-accepts-get", "Get(%s..) on a closed cache returned a reader", key[:4])
		}
		return
	}
	h.log("get", "get(%s.. direct=%v) err=%v", key[:4], direct, err != nil)
	if err != nil {
		h.fail("committed-chunk-missing", "Get of the committed and persisted key %s.. failed before the release: %v", key[:4], err)
		return
	}
	h.rs = append(h.rs, &verifC12cReader{hd: hd, key: key, r: r, want: hd.have[key]})
}

func (h *verifC12cHist) rread(rd *verifC12cReader) {
	buf := make([]byte, len(rd.want))
	n, err := rd.r.ReadAt(buf, 0)
	okc := n == len(rd.want) && bytes.Equal(buf[:n], rd.want)
	late := ""
	if rd.hd.released {
		late = "late-"
	}
	h.log(late+"read", "%sread(%s..) n=%d err=%v exact=%v", late, rd.key[:4], n, err != nil && n != len(rd.want), okc)
	if !rd.hd.released && !okc {
		h.fail("held-reader-wrong-bytes", "reader of %s.. returned %d bytes (want %d, equal=%v) before the release", rd.key[:4], n, len(rd.want), okc)
	}
	if rd.hd.released && n > 0 && !bytes.Equal(buf[:n], rd.want[:n]) {
		h.fail("held-reader-wrong-bytes", "reader of %s.. held across the release returned %d bytes that are not the chunk", rd.key[:4], n)
	}
	h.checkGone("a ReadAt after the release")
}

func (h *verifC12cHist) rclose(rd *verifC12cReader) {
	rd.r.Close()
	late := ""
	if rd.hd.released {
		late = "late-"
	}
	h.log(late+"rclose", "%srclose(%s..)", late, rd.key[:4])
	h.checkGone("a reader Close after the release")
}

// release = what layer.close() / blob.Close() do with the handle.
func (h *verifC12cHist) release(hd *verifC12cHandle, inflight bool) (ok bool) {
	err := hd.c.Close()
	again := hd.released
	hd.released = true
	h.log("release", "release(%s) err=%v", hd.kind, err != nil)
	if err != nil {
		msg := fmt.Sprintf("Close of the %s cache failed: %v; left: %v", hd.kind, err, verifC12cLeft(hd.dir))
		if inflight {
			h.pending = append(h.pending, "cache-close-failed-under-inflight-commit\x00"+msg)
			return false
		}
		h.fail("cache-close-failed", "%s", msg)
		return false
	}
	if inflight || again {
		return true // the in-flight goroutine is checked after its join
	}
	if left := verifC12cLeft(hd.dir); len(left) > 0 {
		h.fail("cache-dir-left-by-close", "Close of the %s cache returned nil but its directory is still there: %v", hd.kind, left)
		return false
	}
	return true
}

// checkGone: the directories of every released handle are (still) absent.
func (h *verifC12cHist) checkGone(after string) bool {
	for _, hd := range h.hds {
		if !hd.released {
			continue
		}
		if left := verifC12cLeft(hd.dir); len(left) > 0 {
			h.fail("cache-dir-back-after-release", "the %s directory of the released layer exists again after %s: %v",
				hd.kind, after, left)
			return false
		}
	}
	return true
}

func (h *verifC12cHist) end() {
	for _, wr := range h.ws {
		if !wr.closed {
			wr.w.Close()
		}
	}
	os.RemoveAll(h.root)
	h.out.Distinct(strings.Join(h.kinds, ","))
}

func verifC12cNewHist(t *testing.T, out *verifutil.Out, rnd *verifutil.Rand, base, name string) *verifC12cHist {
	root, err := os.MkdirTemp(base, "c12c")
	if err != nil {
		t.Fatalf("mkdtemp: %v", err)
	}
	return &verifC12cHist{t: t, out: out, rnd: rnd, name: name, root: root}
}

// ---- scripted edge histories -----------------------------------------------------------------------------

// verifC12cLate: Add -> Write -> [release] -> <tail>, the sequence an in-flight writer executes when the
// layer is released under it.  tail: commit / abort / close / write+commit.  sibling: a committed neighbour
// under the same key prefix exists (so <dir>/<xx> existed before the release) or not.
func verifC12cLate(t *testing.T, out *verifutil.Out, rnd *verifutil.Rand, base string, mode string, optDirect bool, tail string, sibling, inject bool) {
	h := verifC12cNewHist(t, out, rnd, base, fmt.Sprintf("late[%s,direct=%v,%s,sibling=%v,inject=%v]", mode, optDirect, tail, sibling, inject))
	defer h.end()
	hd := h.newHandle("httpcache", mode, inject, false)
	if sibling {
		s := h.add(hd, 1, true)
		h.write(s, 100)
		h.commit(s, true)
		h.wclose(s)
	}
	wr := h.add(hd, 1, optDirect)
	h.write(wr, 3000)
	if !h.release(hd, false) {
		return
	}
	switch tail {
	case "commit":
		h.commit(wr, false)
	case "write-commit":
		h.write(wr, 500)
		h.commit(wr, false)
	case "abort":
		h.abort(wr)
	case "close-commit":
		h.wclose(wr)
		h.commit(wr, false)
	}
	if !wr.closed {
		h.wclose(wr)
	}
	h.add(hd, 2, true)
	h.add(hd, 2, false)
	h.get(hd, wr.key, false)
	h.release(hd, false)
	h.checkGone("the second Close")
}

// verifC12cRace: the default asynchronous path.  Commit returns once the chunk is in the memory LRU and a
// goroutine persists it; the release lands while that goroutine is (very likely) still writing the wip file.
// Returns the failure (sig, what) of this attempt, if any.
func verifC12cRace(t *testing.T, out *verifutil.Out, rnd *verifutil.Rand, base string, size int, sibling bool, both bool) (sig, what string, timing bool) {
	h := verifC12cNewHist(t, out, rnd, base, fmt.Sprintf("race[size=%d,sibling=%v,both=%v]", size, sibling, both))
	defer h.end()
	hd := h.newHandle("fscache", "async", true, false)
	var hd2 *verifC12cHandle
	if both {
		hd2 = h.newHandle("httpcache", "async", true, false)
	}
	if sibling {
		s := h.add(hd, 3, false)
		h.write(s, 64)
		h.commit(s, true)
		h.wclose(s)
	}
	wr := h.add(hd, 3, false)
	h.write(wr, size)
	var wr2 *verifC12cWriter
	if both {
		wr2 = h.add(hd2, 4, false)
		h.write(wr2, size/2+1)
		h.commit(wr2, false)
	}
	h.commit(wr, false) // spawns the goroutine
	h.wclose(wr)
	h.release(hd, true) // the last holder lets go
	if both {
		h.wclose(wr2)
		h.release(hd2, true)
	}
	if !h.join(wr) || (both && !h.join(wr2)) {
		return "", "", true
	}
	if h.failed { // a deterministic oracle already reported
		return "", "", false
	}
	if len(h.pending) > 0 {
		p := strings.SplitN(h.pending[0], "\x00", 2)
		return p[0], fmt.Sprintf("%s: history %s: %s; history: %s", verifC12cClause, h.name, p[1], strings.Join(h.trace, " ; ")), false
	}
	for _, x := range h.hds {
		if left := verifC12cLeft(x.dir); len(left) > 0 {
			return "cache-dir-back-after-async-commit", fmt.Sprintf("%s: history %s: the %s directory of the released layer exists after "+
				"the asynchronous commit goroutine that was in flight at the release has finished: %v; history: %s",
				verifC12cClause, h.name, x.kind, left, strings.Join(h.trace, " ; ")), false
		}
	}
	return "", "", false
}

// ---- random histories ------------------------------------------------------------------------------------

func verifC12cRandom(t *testing.T, out *verifutil.Out, rnd *verifutil.Rand, base string, n int) {
	h := verifC12cNewHist(t, out, rnd, base, fmt.Sprintf("random#%d", n))
	defer h.end()
	modes := []string{"async", "sync", "direct"}
	nh := 1 + rnd.Intn(2)
	for i := 0; i < nh; i++ {
		h.newHandle([]string{"fscache", "httpcache"}[i], modes[rnd.Intn(3)], rnd.Bool(), rnd.Intn(4) == 0)
	}
	open := func() []*verifC12cWriter {
		var o []*verifC12cWriter
		for _, w := range h.ws {
			if !w.settled && !w.closed {
				o = append(o, w)
			}
		}
		return o
	}
	// before the release: ordinary use, some handles are left open on purpose
	for i, steps := 0, 4+rnd.Intn(10); i < steps && !h.failed; i++ {
		hd := h.hds[rnd.Intn(len(h.hds))]
		switch rnd.Pick(4, 4, 3, 1, 2, 1) {
		case 0:
			h.add(hd, rnd.Intn(3), rnd.Intn(2) == 0)
		case 1:
			if o := open(); len(o) > 0 {
				h.write(o[rnd.Intn(len(o))], 1+rnd.Intn(5000))
			}
		case 2:
			if o := open(); len(o) > 0 {
				wr := o[rnd.Intn(len(o))]
				h.commit(wr, true)
				if rnd.Intn(3) > 0 {
					h.wclose(wr)
				}
			}
		case 3:
			if o := open(); len(o) > 0 {
				h.abort(o[rnd.Intn(len(o))])
			}
		case 4:
			var keys []string
			for k := range hd.have {
				keys = append(keys, k)
			}
			sort.Strings(keys)
			if len(keys) > 0 {
				h.get(hd, keys[rnd.Intn(len(keys))], rnd.Intn(3) == 0)
			}
		case 5:
			if len(h.rs) > 0 {
				h.rread(h.rs[rnd.Intn(len(h.rs))])
			}
		}
	}
	// make sure something is in flight
	if len(open()) == 0 {
		hd := h.hds[rnd.Intn(len(h.hds))]
		wr := h.add(hd, rnd.Intn(3), rnd.Intn(3) > 0)
		h.write(wr, 1+rnd.Intn(5000))
	}
	// the release and everything the survivors can still do, interleaved: pending actions in random order
	type act struct {
		kind string
		hd   *verifC12cHandle
		wr   *verifC12cWriter
		rd   *verifC12cReader
	}
	var acts []act
	for _, hd := range h.hds {
		acts = append(acts, act{kind: "release", hd: hd})
		if rnd.Intn(3) == 0 {
			acts = append(acts, act{kind: "release", hd: hd})
		}
		acts = append(acts, act{kind: "add", hd: hd}, act{kind: "get", hd: hd})
	}
	for _, wr := range h.ws {
		if wr.closed {
			continue
		}
		if !wr.settled {
			if rnd.Intn(3) == 0 {
				acts = append(acts, act{kind: "write", wr: wr})
			}
			acts = append(acts, act{kind: []string{"commit", "commit", "abort"}[rnd.Intn(3)], wr: wr})
		}
		acts = append(acts, act{kind: "wclose", wr: wr})
	}
	for _, rd := range h.rs {
		acts = append(acts, act{kind: "read", rd: rd}, act{kind: "rclose", rd: rd})
	}
	// random order that keeps each handle's own order (write < commit/abort < wclose, read < rclose) and puts
	// the first release early so that most of the rest is late
	first := 0
	for i := len(acts) - 1; i > 0; i-- {
		j := rnd.Intn(i + 1)
		acts[i], acts[j] = acts[j], acts[i]
	}
	for i, a := range acts {
		if a.kind == "release" {
			first = i
			break
		}
	}
	if k := rnd.Intn(3); k < first {
		acts[k], acts[first] = acts[first], acts[k]
	}
	rank := map[string]int{"write": 0, "read": 0, "commit": 1, "abort": 1, "wclose": 2, "rclose": 2}
	for i := 0; i < len(acts); i++ { // stable fix-up of per-handle order
		for j := i + 1; j < len(acts); j++ {
			same := (acts[i].wr != nil && acts[i].wr == acts[j].wr) || (acts[i].rd != nil && acts[i].rd == acts[j].rd)
			if same && rank[acts[i].kind] > rank[acts[j].kind] {
				acts[i], acts[j] = acts[j], acts[i]
			}
		}
	}
	for _, a := range acts {
		if h.failed {
			return
		}
		switch a.kind {
		case "release":
			h.release(a.hd, false)
		case "add":
			if a.hd.released {
				h.add(a.hd, rnd.Intn(3), rnd.Bool())
			}
		case "get":
			if a.hd.released {
				h.get(a.hd, verifC12cKey(0, 1), rnd.Bool())
			}
		case "write":
			h.write(a.wr, 1+rnd.Intn(3000))
		case "commit":
			h.commit(a.wr, true) // late if its cache is released, else an ordinary commit (joined)
		case "abort":
			h.abort(a.wr)
		case "wclose":
			h.wclose(a.wr)
		case "read":
			h.rread(a.rd)
		case "rclose":
			h.rclose(a.rd)
		}
	}
	h.checkGone("the whole history")
}

func TestVerifC12Cache(t *testing.T) {
	rnd := verifutil.NewRand(verifutil.Seed() + 1212)
	out := verifutil.OpenOut()
	defer out.Close()
	out.Comment("oracle-only histories of one layer's directory-cache handles with writers / readers in flight at the release; nothing to compare with the model")
	base := t.TempDir()
	// 1. scripted: every mode x every tail of an in-flight writer x sibling directory
	for _, mode := range []string{"async", "sync", "direct"} {
		for _, optDirect := range []bool{true, false} {
			for _, tail := range []string{"commit", "write-commit", "abort", "close-commit", "close"} {
				for _, sibling := range []bool{false, true} {
					verifC12cLate(t, out, rnd, base, mode, optDirect, tail, sibling, sibling != optDirect)
				}
			}
		}
	}
	// 2. random histories
	n := verifutil.EnvInt("VERIF_N", 120)
	for i := 0; i < n; i++ {
		verifC12cRandom(t, out, rnd, base, i)
	}
	// 3. the asynchronous commit goroutine racing the release (schedule dependent; confirmed by repetition)
	races := verifutil.EnvInt("VERIF_RACES", 6)
	for i := 0; i < races; i++ {
		size := (1 + rnd.Intn(8)) << 20
		sibling, both := i%2 == 1, i%3 == 2
		t0 := time.Now()
		sig, what, timing := verifC12cRace(t, out, rnd, base, size, sibling, both)
		if timing {
			continue
		}
		if sig == "" {
			out.Count("race-clean")
			continue
		}
		// confirm: the same scenario must fail again, twice in a row
		confirmed := 0
		for k := 0; k < 2; k++ {
			s2, _, tm := verifC12cRace(t, out, rnd, base, size, sibling, both)
			if tm {
				break
			}
			if s2 != "" {
				confirmed++
			}
		}
		if confirmed == 2 {
			out.Fail(sig, what+fmt.Sprintf(" (reproduced 3 times in a row, first attempt took %v)", time.Since(t0).Round(time.Millisecond)))
			break
		}
		out.Count("async-window-hit-once")
		out.Comment("async-window-hit-once: " + sig + " was seen but not reproduced (" + fmt.Sprint(confirmed) + "/2): not counted")
	}
}
