//go:build verif || verif_c10

package cache_test

import (
	"bytes"
	"crypto/sha256"
	"fmt"
	"io"
	"os"
	"strings"
	"sync"
	"testing"

	"github.com/containerd/stargz-snapshotter/cache"
	"github.com/containerd/stargz-snapshotter/internal/verifutil"
	"github.com/containerd/stargz-snapshotter/util/cacheutil"
)

// TestVerifC10Use : the use-site half of C10 for cache.NewDirectoryCache (cache/cache.go), whose
// memory buffers and file descriptors live in two refcounted LRU caches: "a holder never sees its
// file or buffer closed or recycled under it".  The holder here is whoever got a cache.Reader and has
// not closed it yet.  Exported API only (external test package).
//
// Histories: chunks are added (SyncAdd), readers are opened and kept open while further chunks are
// added so that capacity eviction of both LRU caches (1..3 entries) happens under open readers, readers
// are closed (sometimes twice).  Oracle, after EVERY operation: every open reader still returns exactly
// the bytes of its chunk.  Half of the histories use the default wiring of NewDirectoryCache (its own
// eviction callbacks: Reset + bufPool.Put / File.Close), the other half inject the two LRU caches
// with callbacks that do the same and additionally overwrite the recycled buffer, so that a buffer
// recycled under a reader is visible at once and not only after sync.Pool hands it out again.
func TestVerifC10Use(t *testing.T) {
	rnd := verifutil.NewRand(verifutil.Seed() + 77)
	out := verifutil.OpenOut()
	defer out.Close()
	out.Comment("oracle-only use-site histories on cache.NewDirectoryCache; nothing to compare with the model")
	out.Emit("t.new", "ok")
	nhist := verifutil.EnvInt("VERIF_N", 150)
	// scripted: memory-hit reader open across capacity eviction and re-use of the buffer
	verifC10UseHistory(t, out, rnd, -1, true)
	verifC10UseHistory(t, out, rnd, -1, false)
	for n := 0; n < nhist; n++ {
		verifC10UseHistory(t, out, rnd, n, rnd.Bool())
	}
}

type verifC10Open struct {
	chunk int
	r     cache.Reader
	mem   bool
}

func verifC10Chunk(i, size int) []byte {
	b := make([]byte, size)
	pat := fmt.Sprintf("<chunk-%03d>", i)
	for j := range b {
		b[j] = pat[j%len(pat)]
	}
	return b
}

func verifC10UseHistory(t *testing.T, out *verifutil.Out, rnd *verifutil.Rand, n int, inject bool) {
	dir, err := os.MkdirTemp(os.Getenv("VERIF_WORK"), "c10use")
	if err != nil {
		t.Fatal(err)
	}
	defer os.RemoveAll(dir)
	memCap, fdCap := 1+rnd.Intn(3), 1+rnd.Intn(3)
	scripted := n < 0
	if scripted {
		memCap, fdCap = 1, 1
	}
	desc := fmt.Sprintf("use history %d (inject=%v mem=%d fd=%d)", n, inject, memCap, fdCap)
	cfg := cache.DirectoryCacheConfig{SyncAdd: true, MaxLRUCacheEntry: memCap, MaxCacheFds: fdCap}
	if inject {
		pool := &sync.Pool{New: func() any { return new(bytes.Buffer) }}
		dc := cacheutil.NewLRUCache(memCap)
		dc.OnEvicted = func(key string, value any) {
			b := value.(*bytes.Buffer)
			raw := b.Bytes()
			for i := range raw {
				raw[i] = 0xEE // what the next user of the pooled buffer would do
			}
			b.Reset()
			pool.Put(b)
		}
		fc := cacheutil.NewLRUCache(fdCap)
		fc.OnEvicted = func(key string, value any) { value.(*os.File).Close() }
		cfg.DataCache, cfg.FdCache, cfg.BufPool = dc, fc, pool
	}
	c, err := cache.NewDirectoryCache(dir, cfg)
	if err != nil {
		t.Fatal(err)
	}
	defer c.Close()

	const size = 48
	keyOf := func(i int) string { return fmt.Sprintf("%x", sha256.Sum256(verifC10Chunk(i, size))) }
	added := map[int]bool{}
	var open []*verifC10Open
	var shape strings.Builder

	check := func(op string) {
		for _, o := range open {
			p := make([]byte, size)
			got, err := o.r.ReadAt(p, 0)
			if err != nil && err != io.EOF {
				out.Fail("file-closed-under-reader", fmt.Sprintf("%s: open reader of chunk %d (memory=%v) fails after %s: %v", desc, o.chunk, o.mem, op, err))
				continue
			}
			if !bytes.Equal(p[:got], verifC10Chunk(o.chunk, size)) {
				sig := "reader-sees-other-bytes"
				if o.mem {
					sig = "buffer-recycled-under-reader"
				}
				out.Fail(sig, fmt.Sprintf("%s: open reader of chunk %d (memory=%v) returns %q after %s", desc, o.chunk, o.mem, p[:got], op))
			}
		}
	}
	add := func(i int) {
		w, err := c.Add(keyOf(i))
		if err != nil {
			t.Fatalf("%s: Add: %v", desc, err)
		}
		if _, err := w.Write(verifC10Chunk(i, size)); err != nil {
			t.Fatalf("%s: Write: %v", desc, err)
		}
		if err := w.Commit(); err != nil {
			t.Fatalf("%s: Commit: %v", desc, err)
		}
		w.Close()
		added[i] = true
		shape.WriteByte('A')
		out.Count("use.add")
		check(fmt.Sprintf("Add(chunk %d)", i))
	}
	get := func(i int) {
		r, err := c.Get(keyOf(i))
		if err != nil {
			if added[i] {
				out.Fail("get-missed-cached", fmt.Sprintf("%s: Get of committed chunk %d: %v", desc, i, err))
			}
			shape.WriteByte('g')
			return
		}
		_, mem := r.GetReaderAt().(*bytes.Reader)
		open = append(open, &verifC10Open{chunk: i, r: r, mem: mem})
		if mem {
			shape.WriteByte('M')
			out.Count("use.get-memory")
		} else {
			shape.WriteByte('F')
			out.Count("use.get-file")
		}
		check(fmt.Sprintf("Get(chunk %d)", i))
	}
	closeAt := func(j int, twice bool) {
		o := open[j]
		open = append(open[:j], open[j+1:]...)
		o.r.Close()
		if twice && o.mem {
			o.r.Close() // closing a memory reader twice releases once (sync.Once in the closure)
		}
		shape.WriteByte('C')
		out.Count("use.close")
		check(fmt.Sprintf("Close(reader of chunk %d)", o.chunk))
	}

	if scripted {
		add(0)
		get(0) // memory hit
		get(0) // second holder of the same buffer
		add(1) // capacity 1: chunk 0 leaves the memory cache while two readers are open
		add(2)
		get(0) // file
		get(0) // file (opens again; the first one is cached on Close)
		closeAt(2, false)
		get(0) // fd-cache hit
		get(1)
		closeAt(len(open)-1, false) // chunk 1's fd pushes chunk 0's out while a reader holds it
		add(3)
		add(4)
		closeAt(0, true)
		add(5)
		for len(open) > 0 {
			closeAt(0, false)
		}
		out.Distinct("use/scripted/" + fmt.Sprint(inject))
		return
	}
	nchunks := 3 + rnd.Intn(5)
	nops := 10 + rnd.Intn(50)
	next := 0
	for i := 0; i < nops; i++ {
		switch rnd.Pick(4, 5, 4) {
		case 0:
			if next < nchunks && rnd.Intn(3) != 0 {
				add(next)
				next++
			} else if next > 0 {
				add(rnd.Intn(next)) // re-add of a committed chunk
			}
		case 1:
			if next > 0 {
				get(rnd.Intn(next))
			} else {
				get(0)
			}
		default:
			if len(open) > 0 {
				closeAt(rnd.Intn(len(open)), rnd.Intn(4) == 0)
			}
		}
	}
	for len(open) > 0 {
		closeAt(0, false)
	}
	out.Distinct(fmt.Sprintf("use/%v/%d/%d/%s", inject, memCap, fdCap, shape.String()))
}
