//go:build verif

package cri_test

import (
	"context"
	"encoding/base64"
	"encoding/hex"
	"errors"
	"fmt"
	"strings"
	"sync"
	"testing"
	"time"

	"github.com/containerd/containerd/v2/pkg/reference"
	"github.com/containerd/log"
	"github.com/containerd/stargz-snapshotter/internal/verifutil"
	"github.com/containerd/stargz-snapshotter/service/keychain/cri"
	distribution "github.com/distribution/reference"
	"google.golang.org/grpc"
	runtime "k8s.io/cri-api/pkg/apis/runtime/v1"
)

// ---- stub CRI backend ----

type verifC18Backend struct {
	runtime.ImageServiceClient // nil: the other methods are never called
	fail                       bool
	pulls, removes             int
}

func (b *verifC18Backend) PullImage(ctx context.Context, in *runtime.PullImageRequest, _ ...grpc.CallOption) (*runtime.PullImageResponse, error) {
	b.pulls++
	if b.fail {
		return nil, errors.New("verif: backend pull failed")
	}
	return &runtime.PullImageResponse{ImageRef: in.GetImage().GetImage()}, nil
}

func (b *verifC18Backend) RemoveImage(ctx context.Context, in *runtime.RemoveImageRequest, _ ...grpc.CallOption) (*runtime.RemoveImageResponse, error) {
	b.removes++
	if b.fail {
		return nil, errors.New("verif: backend remove failed")
	}
	return &runtime.RemoveImageResponse{}, nil
}

func (b *verifC18Backend) ImageFsInfo(context.Context, *runtime.ImageFsInfoRequest, ...grpc.CallOption) (*runtime.ImageFsInfoResponse, error) {
	return &runtime.ImageFsInfoResponse{}, nil
}

// verifC18WaitConnected polls the PUBLIC image service until it forwards to the backend.
func verifC18WaitConnected(srv runtime.ImageServiceServer) {
	for i := 0; ; i++ {
		if _, err := srv.ImageFsInfo(context.Background(), &runtime.ImageFsInfoRequest{}); err == nil {
			return
		}
		if i > 5000 {
			panic("verif: keychain never connected to the backend")
		}
		time.Sleep(time.Millisecond)
	}
}

// ---- generated inputs; everything the oracle needs is known BY CONSTRUCTION ----

// verifC18Img is an image name as a client would write it, with the canonical reference the
// docker convention assigns to it ("" = not a valid reference).
type verifC18Img struct {
	raw, canon string
	domain     string // canonical registry domain
	repo       string // canonical "domain/path" (no tag / digest)
}

const verifC18Digest = "sha256:0123456789abcdef0123456789abcdef0123456789abcdef0123456789abcdef"

var verifC18Domains = []struct{ raw, canon string }{
	{"", "docker.io"}, {"docker.io", "docker.io"}, {"index.docker.io", "docker.io"},
	{"registry-1.docker.io", "registry-1.docker.io"}, {"reg.example.com", "reg.example.com"},
	{"localhost:5000", "localhost:5000"}, {"localhost", "localhost"}, {"ghcr.io", "ghcr.io"},
	{"MyReg.example.com", "MyReg.example.com"}, {"REG", "REG"},
}
var verifC18Paths = []string{"ubuntu", "library/ubuntu", "foo/bar", "a/b/c", "team-1/app.web", "x_y/z"}
var verifC18Tags = []string{"", "latest", "v1", "1.0-rc.1", "V2_x"}

func verifC18MakeImg(di, pi, ti int, withDigest bool) verifC18Img {
	d, p, t := verifC18Domains[di], verifC18Paths[pi], verifC18Tags[ti]
	raw := p
	if d.raw != "" {
		raw = d.raw + "/" + p
	}
	if t != "" {
		raw += ":" + t
	}
	if withDigest {
		raw += "@" + verifC18Digest
	}
	cp := p
	if d.canon == "docker.io" && !strings.Contains(p, "/") {
		cp = "library/" + p
	}
	// a familiar name whose first component is not a domain: "foo/bar" stays a docker.io path
	repo := d.canon + "/" + cp
	canon := repo
	switch {
	case withDigest:
		canon += "@" + verifC18Digest
	case t != "":
		canon += ":" + t
	default:
		canon += ":latest"
	}
	return verifC18Img{raw: raw, canon: canon, domain: d.canon, repo: repo}
}

var verifC18BadImgs = []string{"", "foo/Bar", "Ubuntu", "ubuntu:", "0123456789abcdef0123456789abcdef0123456789abcdef0123456789abcdef", "a//b", "foo:tag:tag"}

// verifC18Auth is an auth config with the credentials it stands for (by construction).
type verifC18Auth struct {
	name         string
	cfg          *runtime.AuthConfig
	user, secret string
	formErr      bool   // the auth form itself is malformed (bad base64 / no colon)
	denotes      string // host the server address denotes; "" = none given; "!" = unparsable
	// ambiguous: an address without scheme.  The code under test gives it to nobody today (url.Parse
	// finds no host in it); reading it as "host[:port]" would be just as confined.  Answers that
	// depend on such an address are judged by the oracle only, not compared with the model.
	ambiguous bool
}

func verifC18B64(s string) string { return base64.StdEncoding.EncodeToString([]byte(s)) }

func verifC18Forms(rnd *verifutil.Rand, salt string) verifC18Auth {
	u, p, tk := "user"+salt, "pw"+salt, "tok"+salt
	switch rnd.Intn(20) {
	case 0:
		return verifC18Auth{name: "nil"}
	case 1:
		return verifC18Auth{name: "empty", cfg: &runtime.AuthConfig{}}
	case 2, 3, 4:
		return verifC18Auth{name: "userpw", cfg: &runtime.AuthConfig{Username: u, Password: p}, user: u, secret: p}
	case 5:
		return verifC18Auth{name: "useronly", cfg: &runtime.AuthConfig{Username: u}, user: u}
	case 6:
		return verifC18Auth{name: "pwonly", cfg: &runtime.AuthConfig{Password: p}}
	case 7, 8:
		return verifC18Auth{name: "token", cfg: &runtime.AuthConfig{IdentityToken: tk}, secret: tk}
	case 9:
		return verifC18Auth{name: "user+token", cfg: &runtime.AuthConfig{Username: u, Password: p, IdentityToken: tk, Auth: verifC18B64("x:y")}, user: u, secret: p}
	case 10, 11:
		return verifC18Auth{name: "b64", cfg: &runtime.AuthConfig{Auth: verifC18B64(u + ":" + p)}, user: u, secret: p}
	case 12:
		return verifC18Auth{name: "b64-colons", cfg: &runtime.AuthConfig{Auth: verifC18B64(u + ":" + p + ":q")}, user: u, secret: p + ":q"}
	case 13:
		if rnd.Bool() {
			return verifC18Auth{name: "b64-nouser", cfg: &runtime.AuthConfig{Auth: verifC18B64(":" + p)}, secret: p}
		}
		return verifC18Auth{name: "b64-nopw", cfg: &runtime.AuthConfig{Auth: verifC18B64(u + ":")}, user: u}
	case 14:
		return verifC18Auth{name: "b64-nocolon", cfg: &runtime.AuthConfig{Auth: verifC18B64(u + p)}, formErr: true}
	case 15:
		bad := []string{"!!!!", "abc", "ab=c", "=abc", "dTpw=", "dTpwdw", "dTpwdw==dTpw"}
		return verifC18Auth{name: "b64-bad", cfg: &runtime.AuthConfig{Auth: bad[rnd.Intn(len(bad))]}, formErr: true}
	case 16:
		e := verifC18B64(u + ":" + p)
		return verifC18Auth{name: "b64-newline", cfg: &runtime.AuthConfig{Auth: e[:4] + "\n" + e[4:] + "\r\n"}, user: u, secret: p}
	case 17:
		return verifC18Auth{name: "b64-nul", cfg: &runtime.AuthConfig{Auth: verifC18B64(u + ":\x00" + p + "\x00\x00")}, user: u, secret: p}
	case 18:
		return verifC18Auth{name: "regtoken", cfg: &runtime.AuthConfig{RegistryToken: tk}}
	default:
		return verifC18Auth{name: "token+b64", cfg: &runtime.AuthConfig{IdentityToken: tk, Auth: verifC18B64(u + ":" + p)}, secret: tk}
	}
}

// verifC18Addr gives a server address string for `host` in one of several spellings, or a foreign
// / unusable one.  Returns (address, denotes).
func verifC18Addr(rnd *verifutil.Rand, host string) (string, string) {
	n := 0
	switch rnd.Pick(7, 7, 6) {
	case 0:
		n = 0
	case 1:
		n = []int{3, 4, 5, 6, 7, 15}[rnd.Intn(6)]
	default:
		n = 8 + rnd.Intn(7)
	}
	switch n {
	case 0, 1, 2:
		return "", ""
	case 3, 4:
		return "https://" + host, host
	case 5:
		return "http://" + host + "/v1/", host
	case 6:
		return "//" + host + "/x", host
	case 7:
		return "https://user:pw@" + host + "/?q=1#frag", host
	case 8:
		return host, "~" + host // no scheme: url.Parse puts it into Path, Host is empty
	case 9:
		return host + ":5000", "~" + host + ":5000" // parses as scheme "host" with opaque "5000": no Host
	case 10:
		return "https://other.example.com", "other.example.com"
	case 11:
		return "https://" + host + ".evil.example", host + ".evil.example"
	case 12:
		return "https://" + host + ":443", host + ":443"
	case 13:
		bad := []string{"1.2.3.4:5000", "https://bad host/", ":foo", "https://h:port/", "https://a b@" + host + "/"}
		return bad[rnd.Intn(len(bad))], "!"
	case 14:
		return "https://index.docker.io/v1/", "index.docker.io"
	default:
		return "HTTPS://" + host + "/", host
	}
}

func verifC18DockerFamily(h string) bool {
	return h == "docker.io" || h == "index.docker.io" || h == "registry-1.docker.io"
}

// verifC18SameHost: may a server address denoting `denotes` be used when contacting `host`?
func verifC18SameHost(denotes, host string) bool {
	return denotes == host || (verifC18DockerFamily(denotes) && verifC18DockerFamily(host))
}

func verifC18Hex(s string) string {
	if s == "" {
		return "-"
	}
	return hex.EncodeToString([]byte(s))
}

func verifC18AuthLine(a *runtime.AuthConfig) string {
	if a == nil {
		return "nil"
	}
	return fmt.Sprintf("u=%s,p=%s,a=%s,s=%s,i=%s,r=%s", verifC18Hex(a.Username), verifC18Hex(a.Password),
		verifC18Hex(a.Auth), verifC18Hex(a.ServerAddress), verifC18Hex(a.IdentityToken), verifC18Hex(a.RegistryToken))
}

// verifC18Key is the normalisation the keychain theorems take as a parameter
// (distribution.ParseDockerRef followed by containerd's reference.Parse), computed with the public
// libraries.  That the keychain keys its map this way is observed through its answers only.
func verifC18Key(image string) string {
	named, err := distribution.ParseDockerRef(image)
	if err != nil {
		return "key=!"
	}
	spec, err := reference.Parse(named.String())
	if err != nil {
		return "key=!"
	}
	return "key=" + verifC18Hex(spec.String())
}

// ---- one keychain under test + the oracle's own bookkeeping ----

type verifC18Entry struct {
	auth    verifC18Auth
	removed bool
	history []verifC18Auth // earlier pulls of the same reference
}

type verifC18KC struct {
	out       *verifutil.Out
	creds     func(string, reference.Spec) (string, string, error)
	srv       runtime.ImageServiceServer
	backend   *verifC18Backend
	release   chan struct{}
	connected bool
	shadow    map[string]*verifC18Entry // canonical reference -> latest request naming it
	repos     map[string]bool           // repositories that were ever pulled
	shape     strings.Builder
}

func verifC18NewKC(out *verifutil.Out) *verifC18KC {
	k := &verifC18KC{out: out, backend: &verifC18Backend{}, release: make(chan struct{}),
		shadow: map[string]*verifC18Entry{}, repos: map[string]bool{}}
	k.creds, k.srv = cri.NewCRIKeychain(context.Background(), func() (runtime.ImageServiceClient, error) {
		<-k.release
		return k.backend, nil
	})
	out.Emit("k.reset", "ok")
	return k
}

func (k *verifC18KC) connect() {
	if k.connected {
		return
	}
	close(k.release)
	verifC18WaitConnected(k.srv)
	k.connected = true
	k.out.Emit("k.connect", "ok")
	k.shape.WriteString("c")
}

func (k *verifC18KC) pull(img verifC18Img, a verifC18Auth, backendOK bool) {
	k.backend.fail = !backendOK
	before := k.backend.pulls
	_, err := k.srv.PullImage(context.Background(), &runtime.PullImageRequest{Image: &runtime.ImageSpec{Image: img.raw}, Auth: a.cfg})
	res := "ok"
	if err != nil {
		res = "err"
	}
	b := "0"
	if backendOK {
		b = "1"
	}
	k.out.Emit(fmt.Sprintf("k.pull %s %s %s", verifC18Hex(img.raw), verifC18AuthLine(a.cfg), b), res+" "+verifC18Key(img.raw))
	// oracle bookkeeping (by construction, not by asking the code)
	if k.connected && img.canon != "" {
		e := k.shadow[img.canon]
		if e == nil {
			e = &verifC18Entry{}
			k.shadow[img.canon] = e
		} else {
			e.history = append(e.history, e.auth)
		}
		e.auth, e.removed = a, false
		k.repos[img.repo] = true
		if k.backend.pulls != before+1 {
			k.out.Fail("pull-not-forwarded", fmt.Sprintf("PullImage(%q) reached the backend %d times", img.raw, k.backend.pulls-before))
		}
		if (err == nil) != backendOK {
			k.out.Fail("pull-result-not-backend-result", fmt.Sprintf("PullImage(%q) err=%v but backendOK=%v", img.raw, err, backendOK))
		}
	} else if err == nil {
		k.out.Fail("pull-accepted-unparsable-or-unconnected", fmt.Sprintf("PullImage(%q) succeeded (connected=%v)", img.raw, k.connected))
	}
	k.out.Count("op-pull")
	k.out.Count("auth-" + a.name)
	k.shape.WriteString("p")
}

func (k *verifC18KC) remove(img verifC18Img, backendOK bool) {
	k.backend.fail = !backendOK
	_, err := k.srv.RemoveImage(context.Background(), &runtime.RemoveImageRequest{Image: &runtime.ImageSpec{Image: img.raw}})
	res := "ok"
	if err != nil {
		res = "err"
	}
	b := "0"
	if backendOK {
		b = "1"
	}
	k.out.Emit(fmt.Sprintf("k.remove %s %s", verifC18Hex(img.raw), b), res+" "+verifC18Key(img.raw))
	if k.connected && img.canon != "" {
		if e := k.shadow[img.canon]; e != nil {
			e.removed = true
		}
	}
	k.out.Count("op-remove")
	k.shape.WriteString("r")
}

// query asks for credentials and evaluates the property on the answer.
func (k *verifC18KC) query(host, ref string) {
	spec, perr := reference.Parse(ref)
	if perr != nil {
		return
	}
	u, s, err := k.creds(host, spec)
	res := "err"
	if err == nil {
		res = fmt.Sprintf("ok %s %s", verifC18Hex(u), verifC18Hex(s))
	} else if u != "" || s != "" {
		k.out.Fail("creds-returned-with-error", fmt.Sprintf("credentials(%q,%q) returned an error AND (%q,%q)", host, ref, u, s))
	}
	if e := k.shadow[spec.String()]; e != nil && !e.removed && e.auth.ambiguous {
		k.out.Comment(fmt.Sprintf("k.query %s %s (scheme-less server address: oracle only) -> %s", verifC18Hex(host), verifC18Hex(spec.String()), res))
		k.out.Count("query-oracle-only")
	} else {
		k.out.Emit(fmt.Sprintf("k.query %s %s", verifC18Hex(host), verifC18Hex(spec.String())), res)
	}
	k.out.Count("op-query")
	k.shape.WriteString("q")
	if err != nil || (u == "" && s == "") {
		k.out.Count("answer-empty-or-err")
		return
	}
	k.out.Count("answer-nonempty")
	// ---- the property, on the implementation's own answer ----
	what := fmt.Sprintf("credentials(host=%q, ref=%q) = (%q,%q)", host, spec.String(), u, s)
	e := k.shadow[spec.String()]
	switch {
	case e == nil:
		repo := spec.Locator
		if k.repos[repo] {
			k.out.Fail("creds-for-other-reference-of-repository", what+" but this exact reference was never pulled (another reference of the repository was)")
		} else {
			k.out.Fail("creds-for-never-pulled-reference", what+" but this reference was never pulled")
		}
		return
	case e.removed:
		k.out.Fail("creds-after-remove", what+" but the image was removed after its last pull")
		return
	}
	if u != e.auth.user || s != e.auth.secret || e.auth.formErr {
		for _, old := range e.history {
			if !old.formErr && u == old.user && s == old.secret {
				k.out.Fail("creds-of-earlier-pull", what+fmt.Sprintf(" which is the auth of an EARLIER pull; the latest pull carried (%q,%q)", e.auth.user, e.auth.secret))
				return
			}
		}
		k.out.Fail("creds-not-of-latest-pull", what+fmt.Sprintf(" but the latest pull of this reference carried (%q,%q) formErr=%v", e.auth.user, e.auth.secret, e.auth.formErr))
		return
	}
	if d := e.auth.denotes; d != "" && !verifC18SameHost(d, host) {
		k.out.Fail("creds-on-server-address-mismatch", what+fmt.Sprintf(" although the pull named server address %q (host %q)", e.auth.cfg.GetServerAddress(), d))
	}
}

func (k *verifC18KC) close() {
	if !k.connected {
		close(k.release) // let the connect goroutine finish
		k.connected = true
	}
	k.out.Distinct(k.shape.String() + fmt.Sprint(len(k.shadow)))
}

func verifC18WithAddr(a verifC18Auth, addr, denotes string) verifC18Auth {
	if a.cfg == nil {
		return a
	}
	c := *a.cfg
	c.ServerAddress = addr
	a.cfg = &c
	if strings.HasPrefix(denotes, "~") {
		denotes, a.ambiguous = denotes[1:], true
	}
	a.denotes = denotes
	return a
}

func verifC18UserPw(u, p string) verifC18Auth {
	return verifC18Auth{name: "userpw", cfg: &runtime.AuthConfig{Username: u, Password: p}, user: u, secret: p}
}

// TestVerifC18Keychain drives the real NewCRIKeychain with a stub CRI backend.
func TestVerifC18Keychain(t *testing.T) {
	log.SetLevel("error")
	// (seeds of verifutil.NewRand that differ by 1 give streams shifted by one draw: spread them)
	rnd := verifutil.NewRand(verifutil.Seed()*1000003 + 1800)
	out := verifutil.OpenOut()
	defer out.Close()

	// ---- normalisation: every name of the grammar + the malformed ones ----
	for di := range verifC18Domains {
		for pi := range verifC18Paths {
			for ti := range verifC18Tags {
				for _, dg := range []bool{false, true} {
					img := verifC18MakeImg(di, pi, ti, dg)
					key := verifC18Key(img.raw)
					out.Emit("norm "+verifC18Hex(img.raw), key)
					if key != "key="+verifC18Hex(img.canon) {
						out.Fail("normalisation-not-docker-convention", fmt.Sprintf("ParseDockerRef+reference.Parse(%q) gives %s, the docker convention says %q", img.raw, key, img.canon))
					}
				}
			}
		}
	}
	for _, b := range verifC18BadImgs {
		out.Emit("norm "+verifC18Hex(b), verifC18Key(b))
	}

	// ---- hand-written scenarios ----
	ubuntu := verifC18MakeImg(0, 0, 0, false)    // "ubuntu" -> docker.io/library/ubuntu:latest
	ubuntuIdx := verifC18MakeImg(2, 1, 1, false) // "index.docker.io/library/ubuntu:latest": same reference
	ubuntuV1 := verifC18MakeImg(1, 0, 2, false)  // docker.io/ubuntu:v1
	app1 := verifC18MakeImg(4, 2, 2, false)      // reg.example.com/foo/bar:v1
	app2 := verifC18MakeImg(4, 2, 3, false)      // reg.example.com/foo/bar:1.0-rc.1
	appDg := verifC18MakeImg(4, 2, 2, true)      // reg.example.com/foo/bar@sha256 (tag dropped)
	{
		k := verifC18NewKC(out)
		// before the backend is connected nothing is accepted or stored
		k.pull(ubuntu, verifC18UserPw("early", "early"), true)
		k.query("docker.io", ubuntu.canon)
		k.connect()
		k.query("docker.io", ubuntu.canon)
		a1 := verifC18WithAddr(verifC18UserPw("u1", "p1"), "https://index.docker.io/v1/", "index.docker.io")
		k.pull(ubuntu, a1, true)
		for _, h := range []string{"docker.io", "registry-1.docker.io", "index.docker.io", "ghcr.io", "reg.example.com"} {
			k.query(h, ubuntu.canon)
			k.query(h, ubuntuV1.canon)
			k.query(h, "docker.io/library/ubuntu")
		}
		// second pull of the same reference (other spelling) overwrites
		k.pull(ubuntuIdx, verifC18UserPw("u2", "p2"), false)
		k.query("registry-1.docker.io", ubuntu.canon)
		k.query("ghcr.io", ubuntu.canon) // no server address: offered to any host asked
		k.pull(ubuntuV1, verifC18Auth{name: "token", cfg: &runtime.AuthConfig{IdentityToken: "t3"}, secret: "t3"}, true)
		k.query("docker.io", ubuntuV1.canon)
		k.query("docker.io", ubuntu.canon)
		k.remove(ubuntu, true)
		k.query("docker.io", ubuntu.canon)
		k.query("docker.io", ubuntuV1.canon)
		k.remove(ubuntuV1, false) // backend failure: the entry is gone all the same
		k.query("docker.io", ubuntuV1.canon)
		k.pull(ubuntu, verifC18UserPw("u4", "p4"), true)
		k.query("docker.io", ubuntu.canon)
		k.close()
	}
	{
		k := verifC18NewKC(out)
		k.connect()
		// server address: match, mismatch, scheme-less, unparsable
		k.pull(app1, verifC18WithAddr(verifC18UserPw("m", "m"), "https://reg.example.com", "reg.example.com"), true)
		k.query("reg.example.com", app1.canon)
		k.query("other.example.com", app1.canon)
		k.query("reg.example.com", app2.canon)
		k.query("reg.example.com", appDg.canon)
		k.pull(app2, verifC18WithAddr(verifC18UserPw("x", "x"), "https://other.example.com", "other.example.com"), true)
		k.query("reg.example.com", app2.canon)
		k.query("other.example.com", app2.canon)
		k.pull(appDg, verifC18WithAddr(verifC18UserPw("d", "d"), "reg.example.com", "~reg.example.com"), true)
		k.query("reg.example.com", appDg.canon)
		k.query("other.example.com", appDg.canon)
		// scheme-less host:port of ANOTHER registry: must not open the credentials to this host
		k.pull(appDg, verifC18WithAddr(verifC18UserPw("pp", "pp"), "private.example.com:5000", "~private.example.com:5000"), true)
		k.query("reg.example.com", appDg.canon)
		k.query("private.example.com", appDg.canon)
		k.pull(appDg, verifC18WithAddr(verifC18UserPw("lh", "lh"), "localhost:5000", "~localhost:5000"), true)
		k.query("reg.example.com", appDg.canon)
		k.pull(app1, verifC18WithAddr(verifC18UserPw("e", "e"), "1.2.3.4:5000", "!"), true)
		k.query("reg.example.com", app1.canon)
		k.query("1.2.3.4:5000", app1.canon)
		k.remove(app1, true)
		k.query("reg.example.com", app1.canon)
		// look-alike hosts: the address host extends / is extended by the contacted host
		k.pull(app1, verifC18WithAddr(verifC18UserPw("s", "s"), "https://reg.example.com.evil.example", "reg.example.com.evil.example"), true)
		k.query("reg.example.com", app1.canon)
		k.pull(app2, verifC18WithAddr(verifC18UserPw("t", "t"), "https://reg.example", "reg.example"), true)
		k.query("reg.example.com", app2.canon)
		k.pull(app2, verifC18WithAddr(verifC18UserPw("v", "v"), "https://REG.EXAMPLE.COM", "REG.EXAMPLE.COM"), true)
		k.query("reg.example.com", app2.canon)
		k.pull(verifC18Img{raw: "foo/Bar"}, verifC18UserPw("bad", "bad"), true)
		k.remove(verifC18Img{raw: ""}, true)
		k.close()
	}

	// ---- random histories ----
	nhist := verifutil.EnvInt("VERIF_N", 200)
	for h := 0; h < nhist; h++ {
		k := verifC18NewKC(out)
		// a handful of images; several share a repository, several are spellings of one reference
		var imgs []verifC18Img
		nimg := 2 + rnd.Intn(4)
		for i := 0; i < nimg; i++ {
			if len(imgs) > 0 && rnd.Intn(3) == 0 {
				// same repository as an earlier image, another tag or the same one
				imgs = append(imgs, verifC18MakeImg(rnd.Intn(3), rnd.Intn(2), rnd.Intn(len(verifC18Tags)), rnd.Intn(5) == 0))
				continue
			}
			imgs = append(imgs, verifC18MakeImg(rnd.Intn(len(verifC18Domains)), rnd.Intn(len(verifC18Paths)), rnd.Intn(len(verifC18Tags)), rnd.Intn(6) == 0))
		}
		hostsOf := func(img verifC18Img) []string {
			hs := []string{img.domain, "other.example.com"}
			if img.domain == "docker.io" {
				hs = append(hs, "registry-1.docker.io", "index.docker.io")
			}
			return hs
		}
		if rnd.Intn(5) != 0 {
			k.connect()
		}
		nops := 4 + rnd.Intn(24)
		for i := 0; i < nops; i++ {
			img := imgs[rnd.Intn(len(imgs))]
			switch rnd.Pick(8, 3, 12, 1, 1) {
			case 0:
				a := verifC18Forms(rnd, fmt.Sprintf("%d.%d", h, i))
				host := img.domain
				if host == "docker.io" && rnd.Bool() {
					host = []string{"index.docker.io", "registry-1.docker.io"}[rnd.Intn(2)]
				}
				addr, den := verifC18Addr(rnd, host)
				if addr != "" {
					a = verifC18WithAddr(a, addr, den)
					out.Count("addr-" + map[bool]string{true: "denotes-host", false: "other"}[den == host])
				}
				k.pull(img, a, rnd.Intn(6) != 0)
			case 1:
				k.remove(img, rnd.Intn(6) != 0)
			case 2:
				hs := hostsOf(img)
				if rnd.Bool() {
					hs = hs[:1]
				}
				ref := img.canon
				switch rnd.Intn(8) {
				case 0: // another tag of the same repository
					ref = img.repo + ":" + []string{"latest", "v1", "other"}[rnd.Intn(3)]
				case 1: // no tag at all
					ref = img.repo
				case 2: // the raw spelling (only equal to the key when already canonical)
					ref = img.raw
				}
				k.query(hs[rnd.Intn(len(hs))], ref)
			case 3:
				k.connect()
			case 4:
				bad := verifC18BadImgs[rnd.Intn(len(verifC18BadImgs))]
				if rnd.Bool() {
					k.pull(verifC18Img{raw: bad}, verifC18Forms(rnd, "bad"), true)
				} else {
					k.remove(verifC18Img{raw: bad}, true)
				}
			}
		}
		// final sweep: every image, every host
		for _, img := range imgs {
			for _, hst := range hostsOf(img) {
				k.query(hst, img.canon)
			}
		}
		k.close()
	}
}

// ---- concurrent use (built with -race): the detector observes any unsynchronised access to the
// keychain's state; the oracle checks that concurrency does not mix up references ----

type verifC18ConcBackend struct{ runtime.ImageServiceClient }

func (verifC18ConcBackend) PullImage(_ context.Context, in *runtime.PullImageRequest, _ ...grpc.CallOption) (*runtime.PullImageResponse, error) {
	return &runtime.PullImageResponse{ImageRef: in.GetImage().GetImage()}, nil
}
func (verifC18ConcBackend) RemoveImage(context.Context, *runtime.RemoveImageRequest, ...grpc.CallOption) (*runtime.RemoveImageResponse, error) {
	return &runtime.RemoveImageResponse{}, nil
}
func (verifC18ConcBackend) ImageFsInfo(context.Context, *runtime.ImageFsInfoRequest, ...grpc.CallOption) (*runtime.ImageFsInfoResponse, error) {
	return &runtime.ImageFsInfoResponse{}, nil
}

// TestVerifC18KeychainConc: G goroutines issue PullImage / RemoveImage / credential queries at the
// same time.  Each goroutine owns a few references (its own requests on them are sequential, so the
// sequential predicate must hold for them whatever the others do) and all of them also hammer one
// shared reference (the answer must be empty or the credentials of SOME pull of that reference).
func TestVerifC18KeychainConc(t *testing.T) {
	log.SetLevel("error")
	out := verifutil.OpenOut()
	defer out.Close()
	rounds := verifutil.EnvInt("VERIF_N", 20)
	const G = 8
	for round := 0; round < rounds; round++ {
		creds, srv := cri.NewCRIKeychain(context.Background(), func() (runtime.ImageServiceClient, error) {
			return verifC18ConcBackend{}, nil
		})
		verifC18WaitConnected(srv)
		shared := "reg.example.com/shared/img:v1"
		sharedSpec, _ := reference.Parse(shared)
		var issued sync.Map // "user/secret" ever sent in a pull of the shared reference
		var wg sync.WaitGroup
		for g := 0; g < G; g++ {
			wg.Add(1)
			go func(g int) {
				defer wg.Done()
				rnd := verifutil.NewRand((verifutil.Seed()*1000003+1803)*uint64(rounds+1)*G + uint64(round*G+g))
				type own struct {
					raw, canon   string
					user, secret string
					present      bool
				}
				refs := make([]*own, 3)
				for i := range refs {
					// the raw spelling differs from the canonical reference (alias domain, default tag)
					refs[i] = &own{raw: fmt.Sprintf("index.docker.io/g%d/img%d", g, i), canon: fmt.Sprintf("docker.io/g%d/img%d:latest", g, i)}
				}
				hosts := []string{"docker.io", "registry-1.docker.io", "index.docker.io"}
				for i := 0; i < 150; i++ {
					r := refs[rnd.Intn(len(refs))]
					switch rnd.Pick(3, 1, 5, 2, 2) {
					case 0:
						u, s := fmt.Sprintf("u%d.%d", g, i), fmt.Sprintf("s%d.%d", g, i)
						if _, err := srv.PullImage(context.Background(), &runtime.PullImageRequest{Image: &runtime.ImageSpec{Image: r.raw},
							Auth: &runtime.AuthConfig{Username: u, Password: s, ServerAddress: "https://index.docker.io/v1/"}}); err != nil {
							out.Fail("conc-pull-failed", fmt.Sprintf("round %d goroutine %d op %d: PullImage(%q): %v", round, g, i, r.raw, err))
						}
						r.user, r.secret, r.present = u, s, true
					case 1:
						if _, err := srv.RemoveImage(context.Background(), &runtime.RemoveImageRequest{Image: &runtime.ImageSpec{Image: r.raw}}); err != nil {
							out.Fail("conc-remove-failed", fmt.Sprintf("round %d goroutine %d op %d: RemoveImage(%q): %v", round, g, i, r.raw, err))
						}
						r.present = false
					case 2:
						spec, _ := reference.Parse(r.canon)
						u, s, err := creds(hosts[rnd.Intn(len(hosts))], spec)
						wu, ws := "", ""
						if r.present {
							wu, ws = r.user, r.secret
						}
						if err != nil || u != wu || s != ws {
							sig := "conc-creds-not-of-latest-pull"
							if !r.present {
								sig = "conc-creds-after-remove-or-without-pull"
							}
							out.Fail(sig, fmt.Sprintf("round %d goroutine %d op %d: credentials(%q) = (%q,%q,%v) while %d other goroutines run; this goroutine's own last request on the reference leaves (%q,%q)",
								round, g, i, r.canon, u, s, err, G-1, wu, ws))
						}
					case 3:
						u, s := fmt.Sprintf("sh%d.%d", g, i), fmt.Sprintf("x%d.%d", g, i)
						issued.Store(u+"/"+s, true)
						if rnd.Intn(4) == 0 {
							srv.RemoveImage(context.Background(), &runtime.RemoveImageRequest{Image: &runtime.ImageSpec{Image: shared}})
						} else {
							srv.PullImage(context.Background(), &runtime.PullImageRequest{Image: &runtime.ImageSpec{Image: shared}, Auth: &runtime.AuthConfig{Username: u, Password: s}})
						}
					case 4:
						u, s, err := creds("reg.example.com", sharedSpec)
						if err != nil {
							out.Fail("conc-creds-error", fmt.Sprintf("round %d goroutine %d op %d: credentials(shared) failed: %v", round, g, i, err))
						} else if u != "" || s != "" {
							if _, ok := issued.Load(u + "/" + s); !ok {
								out.Fail("conc-creds-from-nowhere", fmt.Sprintf("round %d goroutine %d op %d: credentials(shared) = (%q,%q), which no pull of that reference carried", round, g, i, u, s))
							}
						}
					}
					out.Count("conc-op")
				}
			}(g)
		}
		wg.Wait()
		out.Distinct(fmt.Sprintf("conc-round-%d", round))
	}
}
