//go:build verif

package cri_test

// Credential queries IN FLIGHT while the reference they ask about is removed / pulled again.
//
// The sequential streams (TestVerifC18Keychain) and the owned-reference concurrent stream
// (TestVerifC18KeychainConc) never had a query of reference R running at the moment R itself was
// mutated and then looked at R again once everything was quiet; a query is also far too short
// (microseconds) for such an overlap to happen by chance.  Here the window is widened the way a real
// client can: the pulled AuthConfig carries a valid but very large base64 `auth` (user:password
// followed by NUL padding, which ParseAuth trims), so that ONE query spends milliseconds inside auth
// parsing.  K staggered queries over all hosts of the scenario are started, the mutation(s) run while
// they are in flight, and when every call has returned the reference is queried again SEQUENTIALLY.
//
// The oracle is independent of timing (load can only lower the hit rate, never raise an alarm):
//   * real-time order: a query CALLED after the mutation RETURNED, and every query of the quiet phase,
//     must answer from the state the last mutation left (removed -> nothing; newer pull -> its auth);
//   * a query that overlapped the mutation may answer from the old or from the new state, nothing else.
// The linearised history (pull, mutations, quiet queries) also goes through the Lean model.

import (
	"context"
	"encoding/base64"
	"fmt"
	"strings"
	"sync"
	"testing"
	"time"

	"github.com/containerd/containerd/v2/pkg/reference"
	"github.com/containerd/log"
	"github.com/containerd/stargz-snapshotter/internal/verifutil"
	"github.com/containerd/stargz-snapshotter/service/keychain/cri"
	runtime "k8s.io/cri-api/pkg/apis/runtime/v1"
)

// verifC18xBig returns a valid base64 auth of user:pw followed by about pad NUL bytes, and the same
// credentials with two NUL bytes only (what the ops line of the model stream carries).
func verifC18xBig(user, pw string, pad int) (big, short string) {
	pre := user + ":" + pw
	for len(pre)%3 != 0 {
		pre += "\x00"
	}
	big = base64.StdEncoding.EncodeToString([]byte(pre)) + strings.Repeat("AAAA", pad/3)
	short = verifC18B64(user + ":" + pw + "\x00\x00")
	return
}

type verifC18xMut struct {
	remove bool
	raw    string       // spelling of the image in the request
	canon  string       // its canonical reference
	auth   verifC18Auth // for a pull
}

type verifC18xScen struct {
	name          string
	raw, canon    string   // the image whose credentials are queried
	addr, denotes string   // server address of the first (large) pull
	hosts         []string // hosts asked, in flight and afterwards
	muts          []verifC18xMut
}

// verifC18xExpect: what may be offered to `host` by construction (present=false: nothing).
func verifC18xExpect(present bool, a verifC18Auth, host string) (string, string) {
	if !present || a.cfg == nil || a.formErr {
		return "", ""
	}
	if a.denotes != "" && !verifC18SameHost(a.denotes, host) {
		return "", ""
	}
	return a.user, a.secret
}

func verifC18xScenarios() []verifC18xScen {
	const app, appC = "reg.example.com/team/app:v1", "reg.example.com/team/app:v1"
	tok := func(t string) verifC18Auth {
		return verifC18Auth{name: "token", cfg: &runtime.AuthConfig{IdentityToken: t}, secret: t}
	}
	docker := []string{"docker.io", "registry-1.docker.io", "index.docker.io"}
	return []verifC18xScen{
		{name: "remove", raw: app, canon: appC, addr: "https://reg.example.com", denotes: "reg.example.com",
			hosts: []string{"reg.example.com"},
			muts:  []verifC18xMut{{remove: true, raw: app, canon: appC}}},
		{name: "newer-pull-token", raw: app, canon: appC, hosts: []string{"reg.example.com", "mirror.example.com"},
			muts: []verifC18xMut{{raw: app, canon: appC, auth: tok("bob-token")}}},
		{name: "newer-pull-anonymous", raw: app, canon: appC, hosts: []string{"reg.example.com", "mirror.example.com"},
			muts: []verifC18xMut{{raw: app, canon: appC, auth: verifC18Auth{name: "nil"}}}},
		{name: "newer-pull-other-address", raw: app, canon: appC, addr: "https://reg.example.com", denotes: "reg.example.com",
			hosts: []string{"reg.example.com", "other.example.com"},
			muts: []verifC18xMut{{raw: app, canon: appC,
				auth: verifC18WithAddr(verifC18UserPw("carol", "c-pw"), "https://other.example.com", "other.example.com")}}},
		{name: "remove-then-pull", raw: app, canon: appC, hosts: []string{"reg.example.com", "mirror.example.com"},
			muts: []verifC18xMut{{remove: true, raw: app, canon: appC}, {raw: app, canon: appC, auth: verifC18UserPw("dave", "d-pw")}}},
		{name: "pull-then-remove", raw: app, canon: appC, hosts: []string{"reg.example.com", "mirror.example.com"},
			muts: []verifC18xMut{{raw: app, canon: appC, auth: tok("erin-token")}, {remove: true, raw: app, canon: appC}}},
		// docker.io: three host names share one lookup key; the removal uses another spelling of the reference
		{name: "docker-alias-remove", raw: "ubuntu", canon: "docker.io/library/ubuntu:latest",
			addr: "https://index.docker.io/v1/", denotes: "index.docker.io", hosts: docker,
			muts: []verifC18xMut{{remove: true, raw: "index.docker.io/library/ubuntu:latest", canon: "docker.io/library/ubuntu:latest"}}},
		{name: "docker-alias-newer-pull", raw: "docker.io/library/ubuntu", canon: "docker.io/library/ubuntu:latest", hosts: docker,
			muts: []verifC18xMut{{raw: "ubuntu:latest", canon: "docker.io/library/ubuntu:latest", auth: verifC18UserPw("frank", "f-pw")}}},
		// control: the mutation concerns ANOTHER tag of the repository; the queried reference keeps its credentials
		{name: "control-other-tag-removed", raw: app, canon: appC, hosts: []string{"reg.example.com"},
			muts: []verifC18xMut{{remove: true, raw: "reg.example.com/team/app:v2", canon: "reg.example.com/team/app:v2"}}},
	}
}

type verifC18xFlight struct {
	host   string
	ts, te time.Time
	u, s   string
	err    error
}

func verifC18xRes(u, s string, err error) string {
	if err != nil {
		return "err"
	}
	return fmt.Sprintf("ok %s %s", verifC18Hex(u), verifC18Hex(s))
}

// verifC18xCalibrate measures one credential query with the large auth on a keychain of its own.
func verifC18xCalibrate(pad int) time.Duration {
	creds, srv := cri.NewCRIKeychain(context.Background(), func() (runtime.ImageServiceClient, error) {
		return verifC18ConcBackend{}, nil
	})
	verifC18WaitConnected(srv)
	big, _ := verifC18xBig("cal", "cal", pad)
	const img = "reg.example.com/probe/cal:v1"
	if _, err := srv.PullImage(context.Background(), &runtime.PullImageRequest{Image: &runtime.ImageSpec{Image: img}, Auth: &runtime.AuthConfig{Auth: big}}); err != nil {
		panic(err)
	}
	spec, _ := reference.Parse(img)
	best := time.Duration(0)
	for i := 0; i < 3; i++ {
		// another host each time: a lookup that remembers answers must not shorten the measurement
		t0 := time.Now()
		creds(fmt.Sprintf("cal%d.example.com", i), spec)
		if d := time.Since(t0); best == 0 || d < best {
			best = d
		}
	}
	if best < 200*time.Microsecond {
		best = 200 * time.Microsecond
	}
	if best > 2*time.Second {
		best = 2 * time.Second
	}
	return best
}

// TestVerifC18KeychainInflight: see the comment at the top of the file.
func TestVerifC18KeychainInflight(t *testing.T) {
	log.SetLevel("error")
	out := verifutil.OpenOut()
	defer out.Close()
	rnd := verifutil.NewRand(verifutil.Seed()*1000003 + 1818)
	rounds := verifutil.EnvInt("VERIF_N", 3)
	pad := verifutil.EnvInt("VERIF_PAD_MIB", 12) << 20
	const K = 4
	parse := verifC18xCalibrate(pad)
	out.Comment(fmt.Sprintf("in-flight stream: auth padding %d MiB, %d staggered queries per round", pad>>20, K))
	ctx := context.Background()
	spanned, afterMut := 0, 0

	for _, sc := range verifC18xScenarios() {
		for round := 0; round < rounds; round++ {
			k := verifC18NewKC(out)
			k.connect()
			user, pw := fmt.Sprintf("alice-%s-%d", sc.name, round), fmt.Sprintf("s3cret-%d", rnd.Intn(1000))
			big, short := verifC18xBig(user, pw, pad)
			old := verifC18Auth{name: "b64-big", cfg: &runtime.AuthConfig{Auth: big, ServerAddress: sc.addr}, user: user, secret: pw, denotes: sc.denotes}
			lineCfg := &runtime.AuthConfig{Auth: short, ServerAddress: sc.addr}
			_, err := k.srv.PullImage(ctx, &runtime.PullImageRequest{Image: &runtime.ImageSpec{Image: sc.raw}, Auth: old.cfg})
			res := "ok"
			if err != nil {
				res = "err"
				out.Fail("inflight-pull-failed", fmt.Sprintf("%s round %d: PullImage(%q): %v", sc.name, round, sc.raw, err))
			}
			out.Comment("next k.pull: the real request carried the same user:password followed by NUL padding (valid base64); the line abbreviates the padding to 2 NUL bytes")
			out.Emit(fmt.Sprintf("k.pull %s %s 1", verifC18Hex(sc.raw), verifC18AuthLine(lineCfg)), res+" "+verifC18Key(sc.raw))
			spec, perr := reference.Parse(sc.canon)
			if perr != nil {
				panic(perr)
			}

			// ---- K staggered queries, the mutation(s) while they are in flight ----
			fl := make([]verifC18xFlight, K)
			var wg sync.WaitGroup
			wg.Add(K)
			first := make(chan struct{})
			off := rnd.Intn(len(sc.hosts))
			go func() {
				for i := 0; i < K; i++ {
					go func(i int) {
						defer wg.Done()
						f := &fl[i]
						f.host = sc.hosts[(off+i)%len(sc.hosts)]
						f.ts = time.Now()
						if i == 0 {
							close(first)
						}
						f.u, f.s, f.err = k.creds(f.host, spec)
						f.te = time.Now()
					}(i)
					time.Sleep(parse / 4)
				}
			}()
			<-first
			time.Sleep(parse/4 + time.Duration(rnd.Intn(int(parse/2)+1)))
			tm0 := time.Now()
			type mres struct{ op, res string }
			var mr []mres
			for _, m := range sc.muts {
				if m.remove {
					_, err := k.srv.RemoveImage(ctx, &runtime.RemoveImageRequest{Image: &runtime.ImageSpec{Image: m.raw}})
					r := "ok"
					if err != nil {
						r = "err"
					}
					mr = append(mr, mres{fmt.Sprintf("k.remove %s 1", verifC18Hex(m.raw)), r + " " + verifC18Key(m.raw)})
				} else {
					_, err := k.srv.PullImage(ctx, &runtime.PullImageRequest{Image: &runtime.ImageSpec{Image: m.raw}, Auth: m.auth.cfg})
					r := "ok"
					if err != nil {
						r = "err"
					}
					mr = append(mr, mres{fmt.Sprintf("k.pull %s %s 1", verifC18Hex(m.raw), verifC18AuthLine(m.auth.cfg)), r + " " + verifC18Key(m.raw)})
				}
			}
			tm1 := time.Now()
			done := make(chan struct{})
			go func() { wg.Wait(); close(done) }()
			select {
			case <-done:
			case <-time.After(5 * time.Minute):
				out.Fail("inflight-query-never-returned", fmt.Sprintf("%s round %d: a credential query started around a concurrent PullImage/RemoveImage did not return", sc.name, round))
				return
			}

			// state the mutations leave for the queried reference (by construction)
			present, cur, wasRemoved, superseded := true, old, false, false
			for _, m := range sc.muts {
				if m.canon != sc.canon {
					continue
				}
				if m.remove {
					present, wasRemoved = false, true
				} else {
					present, cur, wasRemoved, superseded = true, m.auth, false, true
				}
			}
			judge := func(when, host, u, s string, err error) {
				if err == nil && u == "" && s == "" {
					return
				}
				wu, ws := verifC18xExpect(present, cur, host)
				if err == nil && u == wu && s == ws {
					return
				}
				what := fmt.Sprintf("scenario %s round %d: credentials(host=%q, ref=%q) = (%q,%q,%v) %s; the state left by the last request on the reference allows (%q,%q)",
					sc.name, round, host, sc.canon, u, s, err, when, wu, ws)
				ou, os := verifC18xExpect(true, old, host)
				switch {
				case err != nil:
					out.Fail("creds-error-after-inflight-query", what)
				case wasRemoved:
					out.Fail("creds-after-remove-query-in-flight", what+" — the image was REMOVED while an earlier query was in flight")
				case superseded && u == ou && s == os:
					out.Fail("creds-of-superseded-pull-query-in-flight", what+" — these are the credentials of the OLDER pull request; a newer one was processed while an earlier query was in flight")
				default:
					out.Fail("creds-not-of-latest-pull-query-in-flight", what)
				}
			}

			nsp := 0
			for i := range fl {
				f := &fl[i]
				class := "overlapped"
				switch {
				case f.ts.After(tm1):
					class = "called-after-mutation-returned"
					afterMut++
					judge("for a query CALLED after the mutation had returned (other queries still in flight)", f.host, f.u, f.s, f.err)
				case !f.te.After(tm0):
					class = "returned-before-mutation"
				case f.ts.Before(tm0) && f.te.After(tm1):
					class = "spanned-mutation"
					nsp++
				}
				out.Comment(fmt.Sprintf("in-flight k.query %s %s (%s) -> %s", verifC18Hex(f.host), verifC18Hex(sc.canon), class, verifC18xRes(f.u, f.s, f.err)))
				out.Count("inflight-" + class)
				// an overlapping query answers from the old or from the new state
				if f.err != nil {
					out.Fail("inflight-creds-error", fmt.Sprintf("scenario %s round %d: in-flight credentials(%q,%q) failed: %v", sc.name, round, f.host, sc.canon, f.err))
				} else if f.u != "" || f.s != "" {
					ou, os := verifC18xExpect(true, old, f.host)
					nu, ns := verifC18xExpect(present, cur, f.host)
					if !(f.u == ou && f.s == os) && !(f.u == nu && f.s == ns) {
						// intermediate states of a two-step mutation
						okMid := false
						for _, m := range sc.muts {
							if mu, ms := verifC18xExpect(!m.remove && m.canon == sc.canon, m.auth, f.host); !m.remove && f.u == mu && f.s == ms {
								okMid = true
							}
						}
						if !okMid {
							out.Fail("inflight-creds-from-nowhere", fmt.Sprintf("scenario %s round %d: in-flight credentials(%q,%q) = (%q,%q): neither the old nor the new request carried that", sc.name, round, f.host, sc.canon, f.u, f.s))
						}
					}
				}
			}
			spanned += nsp
			for _, m := range mr {
				out.Emit(m.op, m.res)
			}

			// ---- quiet phase: every call has returned; ask again, sequentially, twice ----
			for rep := 0; rep < 2; rep++ {
				for _, h := range sc.hosts {
					u, s, err := k.creds(h, spec)
					out.Emit(fmt.Sprintf("k.query %s %s", verifC18Hex(h), verifC18Hex(sc.canon)), verifC18xRes(u, s, err))
					out.Count("op-query-after-inflight")
					judge(fmt.Sprintf("asked sequentially after every request had returned (%d queries had spanned the mutation)", nsp), h, u, s, err)
				}
			}
			k.close()
			out.Distinct("inflight-" + sc.name)
		}
	}
	out.Comment(fmt.Sprintf("in-flight stream: %d queries called after a mutation returned while others were in flight", afterMut))
	_ = spanned
}
