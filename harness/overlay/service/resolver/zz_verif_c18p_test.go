//go:build verif

package resolver_test

import (
	"encoding/base64"
	"context"
	"encoding/hex"
	"errors"
	"fmt"
	"net/http"
	"net/url"
	"strings"
	"testing"

	"github.com/containerd/containerd/v2/pkg/reference"
	"github.com/containerd/stargz-snapshotter/internal/verifutil"
	"github.com/containerd/stargz-snapshotter/service/resolver"
	runtime "k8s.io/cri-api/pkg/apis/runtime/v1"
)

func verifC18Hex(s string) string {
	if s == "" {
		return "-"
	}
	return hex.EncodeToString([]byte(s))
}

func verifC18AuthLine(a *runtime.AuthConfig) string {
	if a == nil {
		return "nil"
	}
	return fmt.Sprintf("u=%s,p=%s,a=%s,s=%s,i=%s,r=%s", verifC18Hex(a.Username), verifC18Hex(a.Password),
		verifC18Hex(a.Auth), verifC18Hex(a.ServerAddress), verifC18Hex(a.IdentityToken), verifC18Hex(a.RegistryToken))
}

// verifC18RandURL builds strings over the alphabet the URL-host model is exact for
// (no '%', no '[', no control bytes, ASCII).
func verifC18RandURL(rnd *verifutil.Rand) string {
	hosts := []string{"reg.example.com", "index.docker.io", "localhost", "h", "1.2.3.4", "A-b_c.d", ""}
	schemes := []string{"https:", "http:", "HTTPS:", "", "a+b-c.d:", "1x:", ":", "dummy:"}
	slashes := []string{"//", "//", "//", "", "/", "///", "////"}
	users := []string{"", "", "", "u@", "u:p@", "u:p@x@", "u p@", "@"}
	ports := []string{"", "", "", ":80", ":", ":x", ":8080:90", ":65536"}
	paths := []string{"", "/", "/v1/", "/a:b", "a/b", "/x y", "//"}
	tails := []string{"", "", "?q=1", "?", "#f", "?a?b#c#d", "#"}
	switch rnd.Intn(6) {
	case 0: // free-form
		alpha := []byte("ah1.-_:/@?# A")
		n := rnd.Intn(12)
		b := make([]byte, n)
		for i := range b {
			b[i] = alpha[rnd.Intn(len(alpha))]
		}
		return string(b)
	case 1:
		return hosts[rnd.Intn(len(hosts))] + ports[rnd.Intn(len(ports))] + paths[rnd.Intn(len(paths))]
	default:
		return schemes[rnd.Intn(len(schemes))] + slashes[rnd.Intn(len(slashes))] + users[rnd.Intn(len(users))] +
			hosts[rnd.Intn(len(hosts))] + ports[rnd.Intn(len(ports))] + paths[rnd.Intn(len(paths))] + tails[rnd.Intn(len(tails))]
	}
}

// TestVerifC18Resolver: ParseAuth, multiCredsFuncs, RegistryHostsFromConfig on generated inputs.
func TestVerifC18Resolver(t *testing.T) {
	rnd := verifutil.NewRand(verifutil.Seed()*1000003 + 1801)
	out := verifutil.OpenOut()
	defer out.Close()
	n := verifutil.EnvInt("VERIF_N", 1500)

	// ---- url.Parse(..).Host: ties the URL-host model the theorems are phrased with ----
	fixed := []string{"https://index.docker.io/v1/", "reg.example.com", "reg.example.com:5000", "1.2.3.4:5000", "localhost:5000",
		"http://u:p@h.io:80/x?y#z", "//h/p", "///h/p", "*", "*#f", "https:", "https:/h", "https://", ":", "", "a:b:c", "x/y:z", "x:y/z"}
	for i := 0; i < n+len(fixed); i++ {
		var s string
		if i < len(fixed) {
			s = fixed[i]
		} else {
			s = verifC18RandURL(rnd)
		}
		u, err := url.Parse(s)
		res := "err"
		if err == nil {
			res = "host=" + verifC18Hex(u.Host)
			out.Count("url-ok")
		} else {
			out.Count("url-err")
		}
		out.Emit("uh "+verifC18Hex(s), res)
	}

	// ---- ParseAuth ----
	b64 := func(s string) string { return base64.StdEncoding.EncodeToString([]byte(s)) }
	for i := 0; i < n; i++ {
		host := []string{"reg.example.com", "index.docker.io", "localhost:5000", "h", ""}[rnd.Intn(5)]
		a := &runtime.AuthConfig{}
		// what the auth form stands for, by construction
		var wu, ws string
		formErr := false
		switch rnd.Intn(12) {
		case 0:
			a = nil
		case 1:
		case 2, 3:
			a.Username, a.Password = "u", "p"
			wu, ws = "u", "p"
		case 4:
			a.IdentityToken = "tok"
			ws = "tok"
		case 5:
			a.Auth = b64("user:pass")
			wu, ws = "user", "pass"
		case 6:
			a.Auth = b64("us:pa:ss")
			wu, ws = "us", "pa:ss"
		case 7:
			a.Auth = b64("nocolon")
			formErr = true
		case 8:
			// random base64-ish text
			alpha := "abcdYZ019+/=\n!"
			k := rnd.Intn(10)
			b := make([]byte, k)
			for j := range b {
				b[j] = alpha[rnd.Intn(len(alpha))]
			}
			a.Auth = string(b)
			wu = "?"
		case 9:
			a.Auth = b64("u:\x00\x00p\x00")
			wu, ws = "u", "p"
		case 10:
			a.Password, a.RegistryToken = "p", "rt"
		default:
			a.Username, a.IdentityToken, a.Auth = "u", "tok", "!!"
			wu = "u"
		}
		denotes := "" // by construction; "?" = unknown (free-form address)
		ambiguous := false
		if a != nil {
			switch rnd.Intn(7) {
			case 0, 1:
			case 2:
				a.ServerAddress, denotes = "https://"+host+"/v1/", host
			case 3:
				a.ServerAddress, denotes = "https://other.example.com", "other.example.com"
			case 4:
				// scheme-less: nobody gets it today; reading it as the host itself is as confined
				if rnd.Bool() {
					a.ServerAddress, denotes = host, host
				} else {
					a.ServerAddress, denotes = "other.example.com:5000", "other.example.com:5000"
				}
				ambiguous = true
			default:
				a.ServerAddress, denotes = verifC18RandURL(rnd), "?"
			}
			if a.ServerAddress == "" {
				denotes = ""
			} else if host == "" {
				denotes = "?"
			}
		}
		u, s, err := resolver.ParseAuth(a, host)
		res := "err"
		if err == nil {
			res = fmt.Sprintf("ok %s %s", verifC18Hex(u), verifC18Hex(s))
		}
		if ambiguous && a.ServerAddress != "" {
			out.Comment(fmt.Sprintf("pa %s %s (scheme-less server address: oracle only) -> %s", verifC18AuthLine(a), verifC18Hex(host), res))
		} else {
			out.Emit(fmt.Sprintf("pa %s %s", verifC18AuthLine(a), verifC18Hex(host)), res)
		}
		out.Count("parseauth")
		if err != nil && (u != "" || s != "") {
			out.Fail("creds-returned-with-error", fmt.Sprintf("ParseAuth(%s, %q) returned an error and (%q,%q)", verifC18AuthLine(a), host, u, s))
		}
		if err == nil && (u != "" || s != "") {
			out.Count("parseauth-nonempty")
			if denotes != "" && denotes != "?" && denotes != host {
				out.Fail("creds-on-server-address-mismatch", fmt.Sprintf("ParseAuth(server address %q, host %q) = (%q,%q)", a.ServerAddress, host, u, s))
			}
			if wu != "?" && (formErr || u != wu || s != ws) {
				out.Fail("creds-not-those-of-the-auth-config", fmt.Sprintf("ParseAuth(%s) = (%q,%q), the config stands for (%q,%q) formErr=%v", verifC18AuthLine(a), u, s, wu, ws, formErr))
			}
		}
	}

	// ---- credential functions through the PUBLIC wiring: RegistryHostsFromConfig(cfg, fs...) hands
	// them (combined) to the host's docker authorizer; a Basic challenge makes the authorizer ask for
	// the credentials of the host and put them into the Authorization header.  The authorizer only
	// accepts a complete pair, so the observable classes are: ok(user, secret) / incomplete / error.
	refspec, err := reference.Parse("reg.example.com/foo/bar:v1")
	if err != nil {
		t.Fatal(err)
	}
	errCred := errors.New("verif: credential function failed")
	for i := 0; i < n/3; i++ {
		nf := rnd.Intn(6)
		type ans struct {
			u, s string
			err  bool
		}
		var answers []ans
		var fs []resolver.Credential
		badArgs := false
		var parts []string
		for j := 0; j < nf; j++ {
			var a ans
			switch rnd.Pick(5, 2, 2, 4, 2) {
			case 0:
			case 1:
				a = ans{u: fmt.Sprintf("u%d", j)}
			case 2:
				a = ans{s: fmt.Sprintf("s%d", j)}
			case 3:
				a = ans{u: fmt.Sprintf("u%d", j), s: fmt.Sprintf("s%d", j)}
			case 4:
				a = ans{err: true}
			}
			answers = append(answers, a)
			fs = append(fs, func(host string, ref reference.Spec) (string, string, error) {
				if host != "reg.example.com" || ref.String() != refspec.String() {
					badArgs = true
				}
				if a.err {
					return "", "", errCred
				}
				return a.u, a.s, nil
			})
			if a.err {
				parts = append(parts, "e")
			} else {
				parts = append(parts, verifC18Hex(a.u)+":"+verifC18Hex(a.s))
			}
		}
		hosts, err := resolver.RegistryHostsFromConfig(resolver.Config{}, fs...)(refspec)
		if err != nil || len(hosts) != 1 || hosts[0].Authorizer == nil {
			t.Fatalf("RegistryHostsFromConfig without mirrors: %v, %d hosts", err, len(hosts))
		}
		req, _ := http.NewRequest("GET", "https://reg.example.com/v2/", nil)
		challenge := &http.Response{StatusCode: 401, Header: http.Header{"Www-Authenticate": []string{`Basic realm="verif"`}}, Request: req}
		res := ""
		gu, gs := "", ""
		aerr := hosts[0].Authorizer.AddResponses(context.Background(), []*http.Response{challenge})
		switch {
		case aerr == nil:
			req2, _ := http.NewRequest("GET", "https://reg.example.com/v2/", nil)
			if err := hosts[0].Authorizer.Authorize(context.Background(), req2); err != nil {
				t.Fatal(err)
			}
			raw, derr := base64.StdEncoding.DecodeString(strings.TrimPrefix(req2.Header.Get("Authorization"), "Basic "))
			if derr != nil {
				t.Fatalf("unexpected Authorization header %q", req2.Header.Get("Authorization"))
			}
			gu, gs, _ = strings.Cut(string(raw), ":")
			res = fmt.Sprintf("ok %s %s", verifC18Hex(gu), verifC18Hex(gs))
		case errors.Is(aerr, errCred):
			res = "err"
		default:
			res = "incomplete"
		}
		line := "-"
		if nf > 0 {
			line = strings.Join(parts, ";")
		}
		out.Emit("mcb "+line, res)
		out.Count("multicreds-via-authorizer")
		out.Distinct("mcb:" + line)
		first := -1
		for j, a := range answers {
			if a.err || a.u != "" || a.s != "" {
				first = j
				break
			}
		}
		switch {
		case first < 0:
			if res != "incomplete" {
				out.Fail("multicreds-answer-from-nowhere", fmt.Sprintf("all of %s are empty but the authorizer got %s", line, res))
			}
		case answers[first].err:
			if res != "err" {
				out.Fail("multicreds-skipped-an-error", fmt.Sprintf("%s: function %d failed first but the authorizer got %s", line, first, res))
			}
		case answers[first].u != "" && answers[first].s != "":
			if aerr != nil || gu != answers[first].u || gs != answers[first].s {
				out.Fail("multicreds-not-first-nonempty", fmt.Sprintf("%s: function %d is the first non-empty one but the authorizer got %s (%q,%q)", line, first, res, gu, gs))
			}
		default:
			if res != "incomplete" {
				out.Fail("multicreds-not-first-nonempty", fmt.Sprintf("%s: function %d (one half empty) is the first non-empty one, the authorizer must find the pair incomplete but got %s", line, first, res))
			}
		}
		if badArgs {
			out.Fail("multicreds-wrong-host-or-ref", "a credential function was called with another host or reference than the one asked for")
		}
	}

	// ---- RegistryHostsFromConfig: each mirror keeps its own header table ----
	for i := 0; i < n/10+8; i++ {
		nm := rnd.Intn(5)
		if i < 8 {
			nm = i % 4
		}
		var mirrors []resolver.MirrorConfig
		flags := ""
		for j := 0; j < nm; j++ {
			m := resolver.MirrorConfig{Host: fmt.Sprintf("m%d.test", j), RequestTimeoutSec: -1}
			if rnd.Intn(3) != 0 || (i < 8 && j == 0) {
				if rnd.Bool() {
					m.Header = map[string]any{"Authorization": fmt.Sprintf("Bearer secret-%d", j), "X-Verif": []any{fmt.Sprintf("custom-%d", j)}}
				} else {
					m.Header = map[string]any{"X-Verif": fmt.Sprintf("custom-%d", j)}
				}
				flags += "1"
			} else {
				flags += "0"
			}
			mirrors = append(mirrors, m)
		}
		refHost := []string{"reg.example.com", "docker.io"}[rnd.Intn(2)]
		ref, err := reference.Parse(refHost + "/foo/bar:v1")
		if err != nil {
			t.Fatal(err)
		}
		hosts, err := resolver.RegistryHostsFromConfig(resolver.Config{Host: map[string]resolver.HostConfig{refHost: {Mirrors: mirrors}}})(ref)
		if err != nil {
			out.Emit("rh "+flags, "err")
			continue
		}
		var cs []string
		for hi, h := range hosts {
			var found []string
			for j := 0; j < nm; j++ {
				hit := false
				for _, vs := range h.Header {
					for _, v := range vs {
						if strings.Contains(v, fmt.Sprintf("secret-%d", j)) || strings.Contains(v, fmt.Sprintf("custom-%d", j)) {
							hit = true
						}
					}
				}
				if hit {
					found = append(found, fmt.Sprintf("h%d", j))
					if h.Host != fmt.Sprintf("m%d.test", j) {
						out.Fail("mirror-header-configured-for-other-host", fmt.Sprintf("header table of mirror m%d.test is attached to host #%d %q (mirrors %s)", j, hi, h.Host, flags))
					}
				}
			}
			if len(found) == 0 {
				cs = append(cs, "-")
			} else {
				cs = append(cs, strings.Join(found, "+"))
			}
		}
		if flags == "" {
			flags = "-"
		}
		out.Emit("rh "+flags, strings.Join(cs, ","))
		out.Count("registryhosts")
		out.Distinct("rh:" + flags + refHost)
	}
}
