//go:build verif

package resolver

import (
	"errors"
	"fmt"
	"strings"
	"testing"

	"github.com/containerd/containerd/v2/pkg/reference"
	"github.com/containerd/stargz-snapshotter/internal/verifutil"
)

// This file is the ONLY C18 harness file that names an unexported identifier (multiCredsFuncs).
// checks/C18.py builds the package without it when it does not compile any more (the function
// renamed or inlined); the same predicate is then still evaluated through the public wiring
// (TestVerifC18Resolver, "mcb" lines).

func verifC18uHex(s string) string {
	if s == "" {
		return "-"
	}
	return fmt.Sprintf("%x", s)
}

// TestVerifC18MultiCreds calls multiCredsFuncs directly: exact answers, no authorizer in between.
func TestVerifC18MultiCreds(t *testing.T) {
	rnd := verifutil.NewRand(verifutil.Seed()*1000003 + 1806)
	out := verifutil.OpenOut()
	defer out.Close()
	n := verifutil.EnvInt("VERIF_N", 1500)
	refspec, err := reference.Parse("reg.example.com/foo/bar:v1")
	if err != nil {
		t.Fatal(err)
	}
	for i := 0; i < n; i++ {
		nf := rnd.Intn(6)
		type ans struct {
			u, s string
			err  bool
		}
		var answers []ans
		var fs []Credential
		calls := make([]int, nf)
		badArgs := false
		var parts []string
		for j := 0; j < nf; j++ {
			var a ans
			switch rnd.Pick(5, 2, 2, 2, 2) {
			case 0:
			case 1:
				a = ans{u: fmt.Sprintf("u%d", j)}
			case 2:
				a = ans{s: fmt.Sprintf("s%d", j)}
			case 3:
				a = ans{u: fmt.Sprintf("u%d", j), s: fmt.Sprintf("s%d", j)}
			case 4:
				a = ans{err: true}
				if rnd.Bool() {
					// an erroring function that nevertheless returns strings
					a.u = "leak"
				}
			}
			answers = append(answers, a)
			j := j
			fs = append(fs, func(host string, ref reference.Spec) (string, string, error) {
				calls[j]++
				if host != "the.host" || ref.String() != refspec.String() {
					badArgs = true
				}
				if a.err {
					return a.u, a.s, errors.New("verif: credential function failed")
				}
				return a.u, a.s, nil
			})
			if a.err {
				parts = append(parts, "e")
			} else {
				parts = append(parts, verifC18uHex(a.u)+":"+verifC18uHex(a.s))
			}
		}
		u, s, err := multiCredsFuncs(refspec, fs...)("the.host")
		res := "err"
		if err == nil {
			res = fmt.Sprintf("ok %s %s", verifC18uHex(u), verifC18uHex(s))
		}
		line := "-"
		if nf > 0 {
			line = strings.Join(parts, ";")
		}
		out.Emit("mc "+line, res)
		out.Count("multicreds")
		out.Distinct("mc:" + line)
		// oracle: scan for the first function that is not "empty without error"
		first := -1
		for j, a := range answers {
			if a.err || a.u != "" || a.s != "" {
				first = j
				break
			}
		}
		switch {
		case first < 0:
			if err != nil || u != "" || s != "" {
				out.Fail("multicreds-answer-from-nowhere", fmt.Sprintf("all of %s are empty but the combination answered (%q,%q,%v)", line, u, s, err))
			}
		case answers[first].err:
			if err == nil || u != "" || s != "" {
				out.Fail("multicreds-skipped-an-error", fmt.Sprintf("%s: function %d failed first but the combination answered (%q,%q,%v)", line, first, u, s, err))
			}
		default:
			if err != nil || u != answers[first].u || s != answers[first].s {
				out.Fail("multicreds-not-first-nonempty", fmt.Sprintf("%s: function %d is the first non-empty one but the combination answered (%q,%q,%v)", line, first, u, s, err))
			}
		}
		if badArgs {
			out.Fail("multicreds-wrong-host-or-ref", "a credential function was called with another host or reference than the one asked for")
		}
	}

}
