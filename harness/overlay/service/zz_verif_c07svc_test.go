//go:build verif

package service_test

// TestVerifC07Service — end-to-end pass of C07 through service.NewFileSystem, a REAL kernel FUSE mount of
// every layer and (when the kernel permits) a real overlayfs on top of the FUSE mountpoints.
// Exported API only.  Oracle A: the opaque marker is visible THROUGH THE KERNEL under the xattr flavour
// overlayfs reads for the mode overlayutils.NeedsUserXAttr dictates, whiteouts are 0/0 character devices,
// no .wh. file is listed, the served tree is the overlayfs translation of the source tar.  Oracle B: the
// merged view of a real overlay mount equals the OCI application of the source tars.

import (
	"context"
	"fmt"
	"os"
	"path/filepath"
	"sort"
	"strings"
	"syscall"
	"testing"
	"time"

	"github.com/containerd/containerd/v2/plugins/snapshots/overlay/overlayutils"
	fsconfig "github.com/containerd/stargz-snapshotter/fs/config"
	"github.com/containerd/stargz-snapshotter/internal/verifc07"
	"github.com/containerd/stargz-snapshotter/internal/verifreg"
	"github.com/containerd/stargz-snapshotter/internal/verifutil"
	"github.com/containerd/stargz-snapshotter/service"
	digest "github.com/opencontainers/go-digest"
	"golang.org/x/sys/unix"
)

const verifC07SvcPrefix = "verif-c07svc-"

// verifC07SvcMounts lists the mountpoints under our temp prefix, deepest first.
func verifC07SvcMounts() []string {
	b, err := os.ReadFile("/proc/self/mountinfo")
	if err != nil {
		return nil
	}
	var mps []string
	for _, line := range strings.Split(string(b), "\n") {
		f := strings.Fields(line)
		if len(f) > 4 && strings.Contains(f[4], verifC07SvcPrefix) {
			mps = append(mps, f[4])
		}
	}
	sort.Slice(mps, func(i, j int) bool { return len(mps[i]) > len(mps[j]) })
	return mps
}

func verifC07SvcDetachAll() {
	for _, mp := range verifC07SvcMounts() {
		unix.Unmount(mp, unix.MNT_DETACH)
	}
}

// verifC07SvcGuard bounds a kernel access: a hung FUSE request must not hang the check.
func verifC07SvcGuard(d time.Duration, f func()) bool {
	done := make(chan struct{})
	go func() { defer close(done); f() }()
	select {
	case <-done:
		return true
	case <-time.After(d):
		return false
	}
}

type verifC07SvcSeen struct {
	typ    uint32
	rdev   uint64
	data   string
	target string
}

// verifC07SvcWalk reads a tree through the kernel.
// tolerateGone: an entry that readdir lists but lstat does not find is skipped (a whiteout of a lower-only
// directory leaks through overlayfs' readdir on some kernels; it does not exist for lookups).
func verifC07SvcWalk(root string, readFiles, tolerateGone bool) (map[string]verifC07SvcSeen, error) {
	res := map[string]verifC07SvcSeen{}
	var walk func(rel string) error
	walk = func(rel string) error {
		ents, err := os.ReadDir(filepath.Join(root, rel))
		if err != nil {
			return fmt.Errorf("readdir %q: %w", rel, err)
		}
		for _, e := range ents {
			p := e.Name()
			if rel != "" {
				p = rel + "/" + e.Name()
			}
			var st unix.Stat_t
			if err := unix.Lstat(filepath.Join(root, p), &st); err != nil {
				if tolerateGone && err == unix.ENOENT {
					continue
				}
				return fmt.Errorf("lstat %q: %w", p, err)
			}
			s := verifC07SvcSeen{typ: st.Mode & syscall.S_IFMT, rdev: uint64(st.Rdev)}
			switch s.typ {
			case syscall.S_IFREG:
				if readFiles {
					b, err := os.ReadFile(filepath.Join(root, p))
					if err != nil {
						return fmt.Errorf("read %q: %w", p, err)
					}
					s.data = string(b)
				}
			case syscall.S_IFLNK:
				s.target, _ = os.Readlink(filepath.Join(root, p))
			}
			res[p] = s
			if s.typ == syscall.S_IFDIR {
				if err := walk(p); err != nil {
					return err
				}
			}
		}
		return nil
	}
	return res, walk("")
}

func verifC07SvcGetxattr(path, name string) (string, error) {
	buf := make([]byte, 64)
	n, err := unix.Lgetxattr(path, name, buf)
	if err != nil {
		return "", err
	}
	return string(buf[:n]), nil
}

func verifC07SvcListxattr(path string) []string {
	buf := make([]byte, 4096)
	n, err := unix.Llistxattr(path, buf)
	if err != nil || n == 0 {
		return nil
	}
	return strings.Split(strings.TrimSuffix(string(buf[:n]), "\x00"), "\x00")
}

func TestVerifC07Service(t *testing.T) {
	out := verifutil.OpenOut()
	defer out.Close()
	rnd := verifutil.NewRand(verifutil.Seed())
	n := verifutil.EnvInt("VERIF_N", 2)
	verifC07SvcDetachAll() // leftovers of a killed run
	if f, err := os.OpenFile("/dev/fuse", os.O_RDWR, 0); err != nil {
		out.Comment("fuse-unavailable: " + err.Error())
		out.Count("fuse-unavailable")
		return
	} else {
		f.Close()
	}
	tmp, err := os.MkdirTemp("", verifC07SvcPrefix)
	if err != nil {
		t.Fatal(err)
	}
	t.Cleanup(func() {
		verifC07SvcDetachAll()
		time.Sleep(50 * time.Millisecond)
		verifC07SvcDetachAll()
		os.RemoveAll(tmp)
	})
	ctx := context.Background()
	fuseOK := false
	for si, s := range verifc07.SvcStacks(t, rnd, n) {
		reg := verifreg.New()
		var dgsts []string
		for _, l := range s.Layers {
			d := digest.FromBytes(l.Blob).String()
			reg.AddBlob(d, l.Blob)
			dgsts = append(dgsts, d)
		}
		root := filepath.Join(tmp, fmt.Sprintf("root%d", si))
		os.MkdirAll(filepath.Join(root, "snapshotter"), 0700)
		// the flavour overlayfs will read, computed independently of service.go
		want, _ := overlayutils.NeedsUserXAttr(filepath.Join(root, "snapshotter"))
		flavour, other := "trusted.overlay.opaque", "user.overlay.opaque"
		if want {
			flavour, other = other, flavour
		}
		cfg := &service.Config{Config: fsconfig.Config{
			NoBackgroundFetch: true, DisableVerification: true, NoPrometheus: true, NoPrefetch: true,
			BlobConfig: fsconfig.BlobConfig{ChunkSize: 50000, MaxRetries: 1, MinWaitMSec: 1, MaxWaitMSec: 5, ValidInterval: 3600},
		}}
		fsys, err := service.NewFileSystem(ctx, root, cfg, service.WithCustomRegistryHosts(reg.Hosts(nil)))
		if err != nil {
			t.Fatalf("verif: NewFileSystem: %v", err)
		}
		where := func(li int) string {
			return fmt.Sprintf("stack %d (%s) userxattr=%v layer %d/%d spec=[%s]", si, s.Desc, want, li+1, len(s.Layers), s.Layers[li].Spec)
		}
		var mps []string
		abort := false
		for li := range s.Layers {
			mp := filepath.Join(tmp, fmt.Sprintf("s%d", si), fmt.Sprintf("l%d", li))
			os.MkdirAll(mp, 0755)
			labels := map[string]string{
				"containerd.io/snapshot/remote/stargz.reference": reg.RegHost + "/img/test:latest",
				"containerd.io/snapshot/remote/stargz.digest":    dgsts[li],
				"containerd.io/snapshot/remote/stargz.layers":    strings.Join(dgsts[li:], ","),
			}
			var merr error
			if !verifC07SvcGuard(60*time.Second, func() { merr = fsys.Mount(ctx, mp, labels) }) {
				out.Fail("kernel-access-timeout", where(li)+": Mount did not return")
				abort = true
				break
			}
			if merr != nil {
				if !fuseOK && (strings.Contains(merr.Error(), "permitted") || strings.Contains(merr.Error(), "no such device")) {
					out.Comment("fuse-unavailable: " + merr.Error())
					out.Count("fuse-unavailable")
					return
				}
				out.Fail("service-mount-failed", where(li)+": "+merr.Error())
				abort = true
				break
			}
			fuseOK = true
			mps = append(mps, mp)
			out.Count("fuse-mount")
		}
		// ---- oracle A: every layer through the kernel ----
		for li, mp := range mps {
			if abort {
				break
			}
			l := s.Layers[li]
			ok := verifC07SvcGuard(60*time.Second, func() {
				seen, err := verifC07SvcWalk(mp, true, false)
				if err != nil {
					out.Fail("served-view-unreadable", where(li)+": "+err.Error())
					return
				}
				for p, x := range seen {
					_, base := filepath.Split(p)
					if strings.HasPrefix(base, ".wh.") {
						out.Fail("whiteout-marker-listed", where(li)+fmt.Sprintf(": %q is listed through the kernel", p))
					}
					w, exp := l.Served[p]
					switch {
					case !exp:
						out.Fail("served-view-differs", where(li)+fmt.Sprintf(": %q (type %o) is served but is not in the translation of the tar", p, x.typ))
					case w.Wh && (x.typ != syscall.S_IFCHR || x.rdev != 0):
						out.Fail("whiteout-not-chardev", where(li)+fmt.Sprintf(": whiteout %q has type %o rdev %d through the kernel", p, x.typ, x.rdev))
					case !w.Wh && (x.typ != w.Type || x.data != w.Data || x.target != w.Target):
						out.Fail("served-view-differs", where(li)+fmt.Sprintf(": %q is type %o data %q target %q, want type %o data %q target %q", p, x.typ, x.data, x.target, w.Type, w.Data, w.Target))
					}
				}
				for p, w := range l.Served {
					if _, ok := seen[p]; !ok {
						sig := "served-view-differs"
						if w.Wh {
							sig = "whiteout-not-chardev"
						}
						out.Fail(sig, where(li)+fmt.Sprintf(": %q is not served (whiteout=%v)", p, w.Wh))
					}
				}
				opq := map[string]bool{}
				for _, d := range l.Opaque {
					opq[d] = true
				}
				dirs := []string{""}
				for p, x := range seen {
					if x.typ == syscall.S_IFDIR {
						dirs = append(dirs, p)
					}
				}
				for _, d := range dirs {
					v, err := verifC07SvcGetxattr(filepath.Join(mp, d), flavour)
					listed := false
					for _, nme := range verifC07SvcListxattr(filepath.Join(mp, d)) {
						if nme == flavour {
							listed = true
						}
					}
					if opq[d] {
						out.Count("opaque-dir-checked")
						if err != nil || v != "y" || !listed {
							ov, oerr := verifC07SvcGetxattr(filepath.Join(mp, d), other)
							out.Fail("opaque-xattr-flavour", where(li)+fmt.Sprintf(": opaque directory %q: getxattr(%s) = %q, %v (listed=%v) through the kernel; overlayfs reads %s here (userxattr=%v); %s = %q, %v",
								d, flavour, v, err, listed, flavour, want, other, ov, oerr))
						}
					} else if err == nil && v == "y" {
						out.Fail("opaque-xattr-on-non-opaque-dir", where(li)+fmt.Sprintf(": directory %q answers %s=y", d, flavour))
					}
				}
			})
			if !ok {
				out.Fail("kernel-access-timeout", where(li)+": reading the FUSE mount did not finish")
				abort = true
			}
		}
		// ---- oracle B: a real overlayfs over the FUSE mountpoints ----
		rootOpaque := false
		for li, l := range s.Layers {
			for _, d := range l.Opaque {
				if d == "" && li > 0 {
					rootOpaque = os.Getenv("VERIF_C07SVC_ROOTOPQ") == "" // the kernel does not look at the opaque xattr of a lowerdir root itself
				}
			}
		}
		// Stacks in which an upper layer's ROOT is opaque are compared too, under their own signature:
		// the snapshotter serves the marker, but the kernel never consults the opaque xattr of a lowerdir
		// root, so lower content stays visible -- a recorded known finding (findings/known_findings.txt),
		// shared with every xattr-based overlay snapshotter.
		diffSig := "overlay-merged-view-differs"
		if rootOpaque {
			out.Count("overlay-opaque-layer-root-stack")
			diffSig = "overlay-opaque-marker-on-layer-root-ignored-by-kernel"
		}
		if !abort && len(mps) >= 2 {
			merged := filepath.Join(tmp, fmt.Sprintf("s%d", si), "merged")
			os.MkdirAll(merged, 0755)
			var lowers []string
			for i := len(mps) - 1; i >= 0; i-- {
				lowers = append(lowers, mps[i])
			}
			opts := "lowerdir=" + strings.Join(lowers, ":")
			if want {
				opts += ",userxattr"
			}
			var oerr error
			okm := verifC07SvcGuard(60*time.Second, func() {
				oerr = unix.Mount("overlay", merged, "overlay", unix.MS_RDONLY, opts+",index=off")
				if oerr != nil {
					oerr = unix.Mount("overlay", merged, "overlay", unix.MS_RDONLY, opts)
				}
			})
			switch {
			case !okm:
				out.Fail("kernel-access-timeout", where(len(mps)-1)+": mount(overlay) did not return")
			case oerr != nil:
				out.Comment(fmt.Sprintf("overlayfs-unavailable:%v", oerr))
				out.Count(fmt.Sprintf("overlayfs-unavailable:%v", oerr))
			default:
				out.Count("overlay-mount")
				okw := verifC07SvcGuard(60*time.Second, func() {
					seen, err := verifC07SvcWalk(merged, true, true)
					w := fmt.Sprintf("stack %d (%s) userxattr=%v", si, s.Desc, want)
					for i, l := range s.Layers {
						w += fmt.Sprintf(" L%d=[%s]", i+1, l.Spec)
					}
					if err != nil {
						out.Fail(diffSig, w+": "+err.Error())
						return
					}
					for p, x := range seen {
						m, exp := s.Merged[p]
						if !exp {
							out.Fail(diffSig, w+fmt.Sprintf(": %q (type %o) is in the overlay mount but not in the applied tars", p, x.typ))
							return
						}
						if x.typ != m.Type || x.data != m.Data || x.target != m.Target {
							out.Fail(diffSig, w+fmt.Sprintf(": %q is type %o data %q target %q in the overlay mount; applied tars: type %o data %q target %q", p, x.typ, x.data, x.target, m.Type, m.Data, m.Target))
							return
						}
					}
					for p := range s.Merged {
						if _, ok := seen[p]; !ok {
							out.Fail(diffSig, w+fmt.Sprintf(": %q is in the applied tars but not in the overlay mount", p))
							return
						}
					}
					out.Distinct(fmt.Sprintf("svc/%d/%v/%d", si, want, len(seen)))
				})
				if !okw {
					out.Fail("kernel-access-timeout", "reading the overlay mount did not finish")
				}
				unix.Unmount(merged, unix.MNT_DETACH)
			}
		}
		for i := len(mps) - 1; i >= 0; i-- {
			mp := mps[i]
			verifC07SvcGuard(20*time.Second, func() { fsys.Unmount(ctx, mp) })
			unix.Unmount(mp, unix.MNT_DETACH)
		}
		out.Count("stack")
	}
}
