//go:build verif

package service

import (
	"testing"

	"github.com/containerd/containerd/v2/core/remotes/docker"
	"github.com/containerd/containerd/v2/pkg/reference"
	"github.com/containerd/stargz-snapshotter/fs/source"
	"github.com/containerd/stargz-snapshotter/internal/verifc20"
)

func verifC20Adapt(gs source.GetSources) verifc20.ReadFn {
	return func(l map[string]string) (*verifc20.Src, error) {
		srcs, err := gs(l)
		if err != nil {
			return nil, err
		}
		if len(srcs) != 1 || len(srcs[0].Manifest.Layers) == 0 ||
			srcs[0].Manifest.Layers[0].Digest != srcs[0].Target.Digest {
			panic("verif: reader returned an unexpected source shape")
		}
		s := srcs[0]
		out := &verifc20.Src{Name: s.Name, Target: s.Target.Digest.String(), URLs: s.Target.URLs}
		for _, n := range s.Manifest.Layers[1:] {
			out.Neighbours = append(out.Neighbours, verifc20.Neighbour{Digest: n.Digest.String(), URLs: n.URLs})
		}
		return out, nil
	}
}

// TestVerifC20CRI: same generator and oracle as TestVerifC20 (fs/source), with the readers that
// live in this package: sourceFromCRILabels and the combination sources(cri, default) that the
// snapshotter is configured with (service.go).  These two unexported functions are the only unexported
// identifiers the C20 harnesses name; if they are renamed the check falls back to TestVerifC20Mount
// (exported API only), see checks/C20.py.
func TestVerifC20CRI(t *testing.T) {
	hosts := func(reference.Spec) ([]docker.RegistryHost, error) { return nil, nil }
	verifc20.Run(verifc20.Impl{
		DefaultWrapper: source.AppendDefaultLabelsHandlerWrapper,
		ExtraHandler:   source.AppendExtraLabelsHandler,
		ReadDefault:    verifC20Adapt(source.FromDefaultLabels(hosts)),
		ReadCRI:        verifC20Adapt(sourceFromCRILabels(hosts)),
		ReadBoth:       verifC20Adapt(sources(sourceFromCRILabels(hosts), source.FromDefaultLabels(hosts))),
	})
}
