//go:build verif

package service_test

// TestVerifC20Mount observes DYNAMICALLY how the snapshotter consumes the labels at mount time.
// Only exported API of the repository is used: the filesystem is built by service.NewFileSystem
// (so getSources is the real combination of the CRI-label and default-label readers), a resolve
// handler (fs.WithResolveHandler) records every descriptor the mount path hands to the layer resolver
// (digest + URLs, target and pre-resolved neighbours), the RegistryHosts function records the image
// reference, and an in-memory registry records the requested blob paths and byte ranges (from which the
// prefetch size in force is read off).  Nothing of fs/fs.go is pinned textually or by identifier.

import (
	"archive/tar"
	"bytes"
	"context"
	"errors"
	"fmt"
	"io"
	"math"
	"os"
	"path/filepath"
	"sort"
	"strconv"
	"strings"
	"sync"
	"testing"
	"time"

	"github.com/containerd/containerd/v2/core/images"
	"github.com/containerd/containerd/v2/core/remotes/docker"
	"github.com/containerd/containerd/v2/pkg/reference"
	"github.com/containerd/containerd/v2/pkg/snapshotters"
	"github.com/containerd/stargz-snapshotter/estargz"
	stargzfs "github.com/containerd/stargz-snapshotter/fs"
	fsconfig "github.com/containerd/stargz-snapshotter/fs/config"
	"github.com/containerd/stargz-snapshotter/fs/remote"
	"github.com/containerd/stargz-snapshotter/fs/source"
	"github.com/containerd/stargz-snapshotter/internal/verifc20"
	"github.com/containerd/stargz-snapshotter/internal/verifreg"
	"github.com/containerd/stargz-snapshotter/internal/verifutil"
	"github.com/containerd/stargz-snapshotter/service"
	ocispec "github.com/opencontainers/image-spec/specs-go/v1"
)

const verifC20Chunk = 8192

// verifC20Blob builds an eStargz blob WITHOUT prefetch landmarks (so the prefetch size passed by
// Mount is what gets fetched) of incompressible files; returns the blob and the offset below which
// no footer / TOC request falls.
func verifC20Blob(rnd *verifutil.Rand) ([]byte, int64) {
	var tb bytes.Buffer
	tw := tar.NewWriter(&tb)
	for i := 0; i < 48; i++ {
		data := rnd.Bytes(8000)
		tw.WriteHeader(&tar.Header{Typeflag: tar.TypeReg, Name: fmt.Sprintf("f%02d", i), Mode: 0644, Size: int64(len(data))})
		tw.Write(data)
	}
	tw.Close()
	var blob bytes.Buffer
	w := estargz.NewWriter(&blob)
	if err := w.AppendTar(&tb); err != nil {
		panic(err)
	}
	if _, err := w.Close(); err != nil {
		panic(err)
	}
	b := blob.Bytes()
	tocOff, _, err := estargz.OpenFooter(io.NewSectionReader(bytes.NewReader(b), 0, int64(len(b))))
	if err != nil {
		panic(err)
	}
	return b, (tocOff / verifC20Chunk) * verifC20Chunk
}

type verifC20Obs struct {
	mu      sync.Mutex
	refs    []reference.Spec
	handled []ocispec.Descriptor
	events  int
}

func (o *verifC20Obs) Handle(ctx context.Context, desc ocispec.Descriptor) (remote.Fetcher, int64, error) {
	o.mu.Lock()
	d := desc
	d.URLs = append([]string(nil), desc.URLs...)
	o.handled = append(o.handled, d)
	o.events++
	o.mu.Unlock()
	return nil, 0, errors.New("verif: not served by the handler")
}

func (o *verifC20Obs) snapshot() ([]reference.Spec, []ocispec.Descriptor) {
	o.mu.Lock()
	defer o.mu.Unlock()
	return append([]reference.Spec(nil), o.refs...), append([]ocispec.Descriptor(nil), o.handled...)
}

// prefix: length of the contiguous run of requested bytes starting at offset 0 of the blob `dgst`.
func verifC20Prefix(log []verifreg.ReqLog, dgst string) int64 {
	var rs [][2]int64
	for _, r := range log {
		if !strings.HasSuffix(r.Path, "/blobs/"+dgst) {
			continue
		}
		for _, p := range r.Parts {
			rs = append(rs, [2]int64{p[0], p[1]})
		}
	}
	sort.Slice(rs, func(i, j int) bool { return rs[i][0] < rs[j][0] })
	var end int64
	for _, r := range rs {
		if r[0] > end {
			break
		}
		if r[1]+1 > end {
			end = r[1] + 1
		}
	}
	return end
}

func TestVerifC20Mount(t *testing.T) {
	out := verifutil.OpenOut()
	defer out.Close()
	rnd := verifutil.NewRand(verifutil.Seed())
	n := verifutil.EnvInt("VERIF_N", 12)
	blob, low := verifC20Blob(rnd)
	// thresholds: label / default sizes are taken from these; `low` stands for "everything below the TOC"
	cands := []int64{0, 5 * verifC20Chunk, 12 * verifC20Chunk, 24 * verifC20Chunk, low}
	if cands[3]+4*verifC20Chunk >= low {
		t.Fatalf("verif: blob too small (%d)", low)
	}
	sizes := []int64{0, cands[1], cands[2], cands[3], 10 << 20, math.MaxInt64, 0, cands[1]}
	candStr := make([]string, len(cands))
	for i, c := range cands {
		candStr[i] = strconv.FormatInt(c, 10)
	}
	bucket := func(v int64) int64 {
		if v < 0 {
			v = 0
		}
		var b int64
		for _, c := range cands {
			if c <= v {
				b = c
			}
		}
		return b
	}
	tmp, err := os.MkdirTemp("", "verif-c20-mount")
	if err != nil {
		t.Fatal(err)
	}
	defer os.RemoveAll(tmp)
	notDir := filepath.Join(tmp, "file")
	os.WriteFile(notDir, nil, 0600)
	ctx := context.Background()
	caseNo := 0

	// one Mount on a fresh filesystem; returns the canonical observation
	mount := func(labels map[string]string, dflt int64, target string, expectNb map[string]bool) (res string, refs []reference.Spec, handled []ocispec.Descriptor, pfx int64) {
		caseNo++
		reg := verifreg.New()
		reg.AddBlob(target, blob)
		for d := range expectNb {
			reg.AddBlob(d, blob)
		}
		obs := &verifC20Obs{}
		hosts := func(ref reference.Spec) ([]docker.RegistryHost, error) {
			obs.mu.Lock()
			obs.refs = append(obs.refs, ref)
			obs.events++
			obs.mu.Unlock()
			return reg.Hosts(nil)(ref)
		}
		cfg := &service.Config{Config: fsconfig.Config{
			PrefetchSize: dflt, NoBackgroundFetch: true, DisableVerification: true, NoPrometheus: true,
			BlobConfig: fsconfig.BlobConfig{ChunkSize: verifC20Chunk, MaxRetries: 1, MinWaitMSec: 1, MaxWaitMSec: 5},
		}}
		root := filepath.Join(tmp, fmt.Sprintf("root%d", caseNo))
		fsys, err := service.NewFileSystem(ctx, root, cfg, service.WithCustomRegistryHosts(hosts),
			service.WithFilesystemOptions(stargzfs.WithResolveHandler("verif", obs)))
		if err != nil {
			t.Fatalf("verif: NewFileSystem: %v", err)
		}
		mp := filepath.Join(notDir, fmt.Sprintf("mnt%d", caseNo)) // under a regular file: the FUSE step cannot succeed
		fsys.Mount(ctx, mp, labels)
		// completion of the target's prefetch: Check waits for it when the layer got registered;
		// otherwise (and for the concurrent neighbours) wait until nothing new has been seen for a while.
		fsys.Check(ctx, mp, labels)
		deadline := time.Now().Add(15 * time.Second)
		quiet := 0
		last := -1
		for time.Now().Before(deadline) {
			obs.mu.Lock()
			ev := obs.events + len(reg.Log())
			seen := map[string]bool{}
			for _, d := range obs.handled {
				seen[d.Digest.String()] = true
			}
			obs.mu.Unlock()
			all := true
			for d := range expectNb {
				if !seen[d] {
					all = false
				}
			}
			if ev == last {
				quiet++
			} else {
				quiet = 0
			}
			last = ev
			if (all && quiet >= 6) || quiet >= 60 {
				break
			}
			time.Sleep(25 * time.Millisecond)
		}
		fsys.Unmount(ctx, mp)
		refs, handled = obs.snapshot()
		if len(handled) == 0 && len(refs) == 0 {
			return "err", refs, handled, 0
		}
		// canonical observation
		name := ""
		if len(refs) > 0 {
			name = refs[0].String()
		}
		// the target is the descriptor that carries the labels as annotations (neighbours are resolved
		// concurrently and may reach the resolver first); move it to the front
		for k, d := range handled {
			if d.Annotations != nil {
				handled[0], handled[k] = handled[k], handled[0]
				break
			}
		}
		tgt := handled[0]
		var nbs []verifc20.Neighbour
		seen := map[string]bool{tgt.Digest.String(): true}
		for _, d := range handled[1:] {
			if !seen[d.Digest.String()] {
				seen[d.Digest.String()] = true
				nbs = append(nbs, verifc20.Neighbour{Digest: d.Digest.String(), URLs: d.URLs})
			}
		}
		sort.Slice(nbs, func(i, j int) bool { return nbs[i].Digest < nbs[j].Digest })
		pfx = verifC20Prefix(reg.Log(), tgt.Digest.String())
		if pfx > low {
			pfx = low
		}
		res = fmt.Sprintf("ok name=%s target=%s urls=%s nb=%s pf=%d", verifc20.Hx(name), verifc20.Hx(tgt.Digest.String()),
			verifc20.EncList(tgt.URLs), verifc20.EncNb(nbs), bucket(pfx))
		return res, refs, handled, pfx
	}

	for ci, c := range verifc20.MountCases(rnd, n, sizes) {
		flavour := []string{"default", "extra"}[ci%2]
		base := images.HandlerFunc(func(ctx context.Context, desc ocispec.Descriptor) ([]ocispec.Descriptor, error) {
			return verifc20.CopyChildren(c.Children), nil
		})
		var h images.Handler
		op, res := verifc20.ManOp(c)
		out.Emit(op, res)
		if flavour == "default" {
			h = source.AppendDefaultLabelsHandlerWrapper(c.Ref, c.Prefetch)(base)
			op = fmt.Sprintf("wdefault %s %d", verifc20.Hx(c.Ref), c.Prefetch)
		} else {
			h = source.AppendExtraLabelsHandler(c.Prefetch, snapshotters.AppendInfoHandlerWrapper(c.Ref))(base)
			op = fmt.Sprintf("wextra cri %s %s %d", verifc20.Hx(c.Ref), verifc20.Hx(c.Parent.Digest.String()), c.Prefetch)
		}
		outc, err := h.Handle(ctx, c.Parent)
		if err != nil {
			out.Emit(op, "err")
			out.Fail("handler-failed", fmt.Sprintf("%s handler failed on %s: %v", flavour, c.Tag, err))
			continue
		}
		out.Emit(op, "ok")
		// one or two layers of the manifest
		idx := []int{1 + rnd.Intn(len(c.Children)-1)}
		if len(c.Children) > 2 && rnd.Bool() {
			idx = append(idx, 1)
		}
		for _, i := range idx {
			own := c.Children[i]
			labels := outc[i].Annotations
			// a configured default different from the pulled size, so that honouring the label is visible
			dflt := cands[1+rnd.Intn(3)]
			for bucket(dflt) == bucket(c.Prefetch) {
				dflt = cands[1+rnd.Intn(3)]
			}
			following := map[string]bool{}
			for _, l := range c.Children[i+1:] {
				if images.IsLayerType(l.MediaType) && l.Digest != own.Digest {
					following[l.Digest.String()] = true
				}
			}
			type variant struct {
				name string
				dels []string
				sets map[string]string
			}
			refKey, digKey := verifc20.KRef, verifc20.KDigest
			if flavour == "extra" {
				refKey, digKey = snapshotters.TargetRefLabel, snapshotters.TargetLayerDigestLabel
			}
			vars := []variant{{name: "unmodified"}}
			switch rnd.Intn(5) {
			case 0:
				vars = append(vars, variant{name: "no-ref", dels: []string{refKey}})
			case 1:
				vars = append(vars, variant{name: "bad-digest", sets: map[string]string{digKey: "sha256:xyz"}})
			case 2:
				vars = append(vars, variant{name: "no-prefetch", dels: []string{verifc20.KPrefetch}})
			case 3:
				vars = append(vars, variant{name: "bad-prefetch", sets: map[string]string{verifc20.KPrefetch: "12abc"}})
			}
			for _, v := range vars {
				l := map[string]string{}
				for k, x := range labels {
					l[k] = x
				}
				for _, k := range v.dels {
					delete(l, k)
				}
				for k, x := range v.sets {
					l[k] = x
				}
				expectNb := following
				rejected := v.name == "no-ref" || v.name == "bad-digest"
				if rejected {
					expectNb = nil
				}
				res, refs, handled, pfx := mount(l, dflt, own.Digest.String(), expectNb)
				setsEnc := "~"
				if len(v.sets) > 0 {
					setsEnc = verifc20.EncMap(v.sets)
				}
				out.Emit(fmt.Sprintf("mount %d %s %s %s %d %s", i, verifc20.EncList(v.dels), setsEnc, verifc20.RefTable(l), dflt,
					strings.Join(candStr, ",")), res)
				out.Count("mount-" + flavour + "-" + v.name)
				out.Distinct(fmt.Sprintf("mount/%s/%s/%s/pf%d/dflt%d/%d", flavour, v.name, c.Tag, bucket(c.Prefetch), dflt, i))
				where := fmt.Sprintf("%s flavour, layer %d of %s (%s)", flavour, i, c.Tag, v.name)
				// ---- oracle on what the mount path handed to the resolver (independent of the model)
				if rejected {
					if res != "err" {
						out.Fail("mount-resolved-without-mandatory", where+": Mount resolved "+res)
					}
					continue
				}
				if res == "err" {
					out.Fail("mount-rejected-valid-labels", where+": Mount resolved nothing")
					continue
				}
				want, _ := reference.Parse(c.Ref)
				for _, r := range refs {
					if r != want {
						out.Fail("mount-wrong-reference", fmt.Sprintf("%s: resolved with reference %q, pulled as %q", where, r.String(), want.String()))
						break
					}
				}
				if handled[0].Digest != own.Digest {
					out.Fail("mount-wrong-digest", fmt.Sprintf("%s: resolved %s, the layer is %s", where, handled[0].Digest, own.Digest))
				}
				byDigest := map[string][]string{}
				for _, l := range c.Children[1:] {
					if _, ok := byDigest[l.Digest.String()]; !ok {
						byDigest[l.Digest.String()] = l.URLs
					}
				}
				got := map[string]bool{}
				for k, d := range handled {
					ds := d.Digest.String()
					if k > 0 && ds != own.Digest.String() {
						got[ds] = true
						if !following[ds] {
							out.Fail("mount-neighbour-not-following", fmt.Sprintf("%s: pre-resolved %s which is not a layer following the target", where, ds))
						}
					}
					if strings.Join(verifc20.CanonURLs(d.URLs), "\x00") != strings.Join(verifc20.CanonURLs(byDigest[ds]), "\x00") {
						out.Fail("mount-urls-not-own", fmt.Sprintf("%s: %s handed to the resolver with URLs %q, its own are %q", where, ds, d.URLs, byDigest[ds]))
					}
				}
				for d := range following {
					if !got[d] {
						out.Fail("mount-neighbour-missing", fmt.Sprintf("%s: following layer %s fits the label but was not pre-resolved", where, d))
					}
				}
				wantPf := c.Prefetch
				if v.name == "no-prefetch" || v.name == "bad-prefetch" {
					wantPf = dflt
				}
				if wantPf > low {
					wantPf = low
				}
				if bucket(pfx) != bucket(wantPf) {
					out.Fail("mount-prefetch-size", fmt.Sprintf("%s: pulled with prefetch size %d (snapshotter default %d) but %d bytes were prefetched", where, c.Prefetch, dflt, pfx))
				}
			}
		}
	}
}
