//go:build verif

package service_test

// TestVerifC09Service — end-to-end restart pass of C09 over the REAL stack: service.NewStargzSnapshotterService
// (service.go's option wiring), the real stargz filesystem and real kernel FUSE mounts, eStargz layers served
// by the in-memory registry internal/verifreg.  Exported API only; oracle-only stream.
//
// Per scenario: two remote layers are prepared (Prepare with target label must report AlreadyExists, the
// target carries the remote label, its fs directory is a live FUSE mount serving the layer byte-exactly), an
// active snapshot is put on top; then the process "dies" (every FUSE mount below the root is lazily detached,
// nothing is closed; the bolt file lock of the dead handle is dropped the way process death drops it) or is
// closed gracefully, and a NEW service is built on the same root — with the registry up, or down.

import (
	"context"
	"fmt"
	"os"
	"path/filepath"
	"sort"
	"strconv"
	"strings"
	"syscall"
	"testing"
	"time"

	"github.com/containerd/containerd/v2/core/mount"
	"github.com/containerd/containerd/v2/core/snapshots"
	"github.com/containerd/errdefs"
	fsconfig "github.com/containerd/stargz-snapshotter/fs/config"
	"github.com/containerd/stargz-snapshotter/internal/verifc07"
	"github.com/containerd/stargz-snapshotter/internal/verifreg"
	"github.com/containerd/stargz-snapshotter/internal/verifutil"
	"github.com/containerd/stargz-snapshotter/service"
	digest "github.com/opencontainers/go-digest"
	"golang.org/x/sys/unix"
	"net/http"
)

const (
	verifC09SvcPrefix    = "verif-c09svc-"
	verifC09RemoteLabel  = "containerd.io/snapshot/remote"
	verifC09TargetLabel  = "containerd.io/snapshot.ref"
	verifC09KernelBudget = 60 * time.Second
)

// verifC09SvcMounts: mountpoint -> fstype of every mount whose mountpoint contains `needle`.
func verifC09SvcMounts(needle string) map[string]string {
	res := map[string]string{}
	b, err := os.ReadFile("/proc/self/mountinfo")
	if err != nil {
		return res
	}
	for _, line := range strings.Split(string(b), "\n") {
		f := strings.Fields(line)
		if len(f) < 7 || !strings.Contains(f[4], needle) {
			continue
		}
		typ := ""
		for i := 5; i < len(f)-1; i++ {
			if f[i] == "-" {
				typ = f[i+1]
				break
			}
		}
		res[f[4]] = typ
	}
	return res
}

func verifC09SvcDetachAll(needle string) int {
	n := 0
	for round := 0; round < 4; round++ {
		var mps []string
		for mp := range verifC09SvcMounts(needle) {
			mps = append(mps, mp)
		}
		if len(mps) == 0 {
			break
		}
		sort.Slice(mps, func(i, j int) bool { return len(mps[i]) > len(mps[j]) })
		for _, mp := range mps {
			if unix.Unmount(mp, unix.MNT_DETACH) == nil {
				n++
			}
		}
	}
	return n
}

func verifC09SvcGuard(d time.Duration, f func()) bool {
	done := make(chan struct{})
	go func() { defer close(done); f() }()
	select {
	case <-done:
		return true
	case <-time.After(d):
		return false
	}
}

// verifC09SvcReleaseDB drops the flock a dead process would have dropped: the bolt handle of the "killed"
// snapshotter stays open in this process (nothing was closed, that is the point) and would block the next
// start forever.
func verifC09SvcReleaseDB(root string) {
	db := filepath.Join(root, "snapshotter", "metadata.db")
	es, _ := os.ReadDir("/proc/self/fd")
	for _, en := range es {
		if l, err := os.Readlink(filepath.Join("/proc/self/fd", en.Name())); err == nil && l == db {
			if fd, err := strconv.Atoi(en.Name()); err == nil {
				syscall.Flock(fd, syscall.LOCK_UN)
			}
		}
	}
}

type verifC09Svc struct {
	t     *testing.T
	out   *verifutil.Out
	ctx   context.Context
	name  string
	root  string
	reg   *verifreg.Registry
	down  bool
	layer []verifc07.SvcLayer
	dgst  []string
	abort bool
}

func (h *verifC09Svc) fail(sig, format string, a ...any) {
	h.out.Fail(sig, "scenario "+h.name+": "+fmt.Sprintf(format, a...))
}

func (h *verifC09Svc) start(allowInvalid bool) (snapshots.Snapshotter, error) {
	cfg := &service.Config{Config: fsconfig.Config{
		NoBackgroundFetch: true, DisableVerification: true, NoPrometheus: true, NoPrefetch: true,
		BlobConfig: fsconfig.BlobConfig{ChunkSize: 50000, MaxRetries: 1, MinWaitMSec: 1, MaxWaitMSec: 5, ValidInterval: 3600, FetchTimeoutSec: 10},
	}}
	cfg.AllowInvalidMountsOnRestart = allowInvalid
	var sn snapshots.Snapshotter
	var err error
	if !verifC09SvcGuard(verifC09KernelBudget, func() {
		sn, err = service.NewStargzSnapshotterService(h.ctx, h.root, cfg, service.WithCustomRegistryHosts(h.reg.Hosts(nil)))
	}) {
		h.fail("kernel-access-timeout", "NewStargzSnapshotterService did not return")
		h.abort = true
		return nil, fmt.Errorf("timeout")
	}
	return sn, err
}

func (h *verifC09Svc) labels(li int, target string) map[string]string {
	return map[string]string{
		verifC09TargetLabel: target,
		"containerd.io/snapshot/remote/stargz.reference": h.reg.RegHost + "/img/test:latest",
		"containerd.io/snapshot/remote/stargz.digest":    h.dgst[li],
		"containerd.io/snapshot/remote/stargz.layers":    strings.Join(h.dgst[li:], ","),
	}
}

// lowerdirs of an overlay mount list (nearest parent first), or the bind source.
func verifC09SvcLowers(ms []mount.Mount) []string {
	var l []string
	for _, m := range ms {
		if m.Type == "bind" {
			l = append(l, m.Source)
		}
		for _, o := range m.Options {
			if strings.HasPrefix(o, "lowerdir=") {
				l = append(l, strings.Split(strings.TrimPrefix(o, "lowerdir="), ":")...)
			}
		}
	}
	return l
}

// checkServed reads the regular files of layer li through the kernel at dir and compares them byte-exactly;
// `only` (may be nil) restricts the files read.  Returns the files read.
func (h *verifC09Svc) checkServed(sig, when, dir string, li int, skip map[string]bool) (read []string) {
	var paths []string
	for p, n := range h.layer[li].Served {
		if n.Type == syscall.S_IFREG && !n.Wh && !skip[p] {
			paths = append(paths, p)
		}
	}
	sort.Strings(paths)
	ok := verifC09SvcGuard(verifC09KernelBudget, func() {
		for _, p := range paths {
			b, err := os.ReadFile(filepath.Join(dir, p))
			if err != nil {
				h.fail(sig, "%s: layer %d file %q unreadable through the kernel at %s: %v", when, li+1, p, dir, err)
				return
			}
			if string(b) != h.layer[li].Served[p].Data {
				h.fail(sig, "%s: layer %d file %q reads %q through the kernel, the layer holds %q", when, li+1, p, string(b), h.layer[li].Served[p].Data)
				return
			}
			read = append(read, p)
		}
	})
	if !ok {
		h.fail("kernel-access-timeout", "%s: reading %s did not finish", when, dir)
		h.abort = true
	}
	return
}

func (h *verifC09Svc) isFuse(dir string) bool {
	typ, ok := verifC09SvcMounts(h.root)[dir]
	return ok && strings.HasPrefix(typ, "fuse")
}

func (h *verifC09Svc) listing() []string {
	es, _ := os.ReadDir(filepath.Join(h.root, "snapshotter", "snapshots"))
	var l []string
	for _, e := range es {
		l = append(l, e.Name())
	}
	sort.Strings(l)
	return l
}

// prepareAll: steps 1-2.  Returns the fs directories of L2 and L1 (nearest first).
func (h *verifC09Svc) prepareAll(sn snapshots.Snapshotter) []string {
	parent := ""
	for li := 0; li < 2; li++ {
		target := fmt.Sprintf("chain%d", li+1)
		var err error
		if !verifC09SvcGuard(verifC09KernelBudget, func() {
			_, err = sn.Prepare(h.ctx, fmt.Sprintf("extract%d", li+1), parent, snapshots.WithLabels(h.labels(li, target)))
		}) {
			h.fail("kernel-access-timeout", "Prepare of layer %d did not return", li+1)
			h.abort = true
			return nil
		}
		if !errdefs.IsAlreadyExists(err) {
			if li == 0 && err == nil {
				// the backend refused the mount (no FUSE): the snapshotter fell back to a local snapshot
				h.out.Comment("fuse-unavailable: Prepare fell back to an ordinary snapshot")
				h.out.Count("fuse-unavailable")
				h.abort = true
				return nil
			}
			h.fail("remote-prepare-failed", "Prepare(layer %d, target %s) returned %v, want AlreadyExists (remote snapshot committed)", li+1, target, err)
			h.abort = true
			return nil
		}
		info, serr := sn.Stat(h.ctx, target)
		if serr != nil || info.Kind != snapshots.KindCommitted {
			h.fail("remote-prepare-failed", "Stat(%s) after Prepare: %+v, %v", target, info.Kind, serr)
			h.abort = true
			return nil
		}
		if _, ok := info.Labels[verifC09RemoteLabel]; !ok {
			h.fail("remote-label-missing", "target %s committed without the remote label: %v", target, info.Labels)
		}
		parent = target
	}
	ms, err := sn.Prepare(h.ctx, "top", "chain2")
	if err != nil {
		h.fail("mounts-of-top-failed", "Prepare(top, chain2): %v", err)
		h.abort = true
		return nil
	}
	dirs := verifC09SvcLowers(ms)
	if len(dirs) != 2 {
		h.fail("lowerdir-order", "Prepare(top) returned %v: expected two lower directories", ms)
		h.abort = true
		return nil
	}
	return dirs
}

// verifyChain: dirs[0] must be a live FUSE mount serving L2, dirs[1] one serving L1.
func (h *verifC09Svc) verifyChain(when string, dirs []string, notMounted, bytesDiffer string, skip []map[string]bool) {
	for k, dir := range dirs {
		li := 1 - k
		if !h.isFuse(dir) {
			h.fail(notMounted, "%s: %s (layer %d) is not a live FUSE mount; mounts below the root: %v", when, dir, li+1, verifC09SvcMounts(h.root))
			continue
		}
		var sk map[string]bool
		if skip != nil {
			sk = skip[li]
		}
		h.checkServed(bytesDiffer, when, dir, li, sk)
		h.out.Count("layer-read-through-kernel")
	}
}

func (h *verifC09Svc) walk(sn snapshots.Snapshotter) map[string]snapshots.Info {
	res := map[string]snapshots.Info{}
	sn.Walk(h.ctx, func(_ context.Context, i snapshots.Info) error { res[i.Name] = i; return nil })
	return res
}

// kill: the process dies — FUSE mounts vanish with it, nothing is closed.
func (h *verifC09Svc) kill() {
	verifC09SvcDetachAll(h.root)
	time.Sleep(30 * time.Millisecond)
	verifC09SvcDetachAll(h.root)
	verifC09SvcReleaseDB(h.root)
}

func (h *verifC09Svc) checkRestarted(sn snapshots.Snapshotter, when string) []string {
	infos := h.walk(sn)
	for _, k := range []string{"chain1", "chain2"} {
		i, ok := infos[k]
		if !ok || i.Kind != snapshots.KindCommitted {
			h.fail("restart-metadata-lost", "%s: committed remote snapshot %s is unknown to the new snapshotter (Walk: %d snapshots)", when, k, len(infos))
			h.abort = true
			return nil
		}
		if _, r := i.Labels[verifC09RemoteLabel]; !r {
			h.fail("restart-metadata-lost", "%s: %s lost its remote label: %v", when, k, i.Labels)
		}
	}
	if i, ok := infos["top"]; !ok || i.Kind != snapshots.KindActive || i.Parent != "chain2" {
		h.fail("restart-metadata-lost", "%s: acknowledged active snapshot top is gone or changed: %+v", when, i)
	}
	var ms []mount.Mount
	var err error
	if !verifC09SvcGuard(verifC09KernelBudget, func() { ms, err = sn.Mounts(h.ctx, "top") }) {
		h.fail("kernel-access-timeout", "%s: Mounts(top) did not return", when)
		h.abort = true
		return nil
	}
	if err != nil {
		h.fail("restart-not-remounted", "%s: Mounts(top) fails after the restart: %v", when, err)
		return nil
	}
	dirs := verifC09SvcLowers(ms)
	if len(dirs) != 2 {
		h.fail("lowerdir-order", "%s: Mounts(top) = %v", when, ms)
		return nil
	}
	h.verifyChain(when, dirs, "restart-not-remounted", "restart-bytes-differ", nil)
	return dirs
}

// removeAndCleanup: step 5.
func (h *verifC09Svc) removeAndCleanup(sn snapshots.Snapshotter, dirs []string) {
	idOf := func(dir string) string { return filepath.Base(filepath.Dir(dir)) }
	for _, k := range []string{"top", "chain2"} {
		var err error
		if !verifC09SvcGuard(verifC09KernelBudget, func() { err = sn.Remove(h.ctx, k) }) {
			h.fail("kernel-access-timeout", "Remove(%s) did not return", k)
			h.abort = true
			return
		}
		if err != nil {
			h.fail("acknowledged-snapshot-not-removable", "Remove(%s): %v", k, err)
		}
	}
	cl, ok := sn.(snapshots.Cleaner)
	if !ok {
		h.fail("cleanup-unavailable", "the service's snapshotter is no snapshots.Cleaner")
		return
	}
	var cerr error
	if !verifC09SvcGuard(verifC09KernelBudget, func() { cerr = cl.Cleanup(h.ctx) }) {
		h.fail("kernel-access-timeout", "Cleanup did not return")
		h.abort = true
		return
	}
	want := []string{idOf(dirs[1])}
	if cerr != nil || strings.Join(h.listing(), ",") != strings.Join(want, ",") {
		h.fail("cleanup-not-exact-after-restart", "Cleanup err=%v: snapshots/ holds %v, live ids %v", cerr, h.listing(), want)
	}
	for mp := range verifC09SvcMounts(h.root) {
		if mp != dirs[1] {
			h.fail("mount-left-after-remove-cleanup", "after Remove(top), Remove(chain2) and Cleanup %s is still mounted (live: %s)", mp, dirs[1])
		}
	}
	if !h.isFuse(dirs[1]) {
		h.fail("restart-not-remounted", "the mount of the still live chain1 (%s) disappeared with the removal of chain2", dirs[1])
	} else {
		h.checkServed("restart-bytes-differ", "after removing the upper layer", dirs[1], 0, nil)
	}
	var err error
	verifC09SvcGuard(verifC09KernelBudget, func() { err = sn.Remove(h.ctx, "chain1") })
	if err != nil {
		h.fail("acknowledged-snapshot-not-removable", "Remove(chain1): %v", err)
	}
	verifC09SvcGuard(verifC09KernelBudget, func() { cerr = cl.Cleanup(h.ctx) })
	if cerr != nil || len(h.listing()) != 0 {
		h.fail("cleanup-not-exact-after-restart", "final Cleanup err=%v: snapshots/ holds %v, no snapshot is live", cerr, h.listing())
	}
	if m := verifC09SvcMounts(h.root); len(m) != 0 {
		h.fail("mount-left-after-remove-cleanup", "everything removed and cleaned up, still mounted: %v", m)
	}
}

func (h *verifC09Svc) run(kind string) {
	sn, err := h.start(false)
	if err != nil {
		if !h.abort {
			h.t.Fatalf("verif: first start: %v", err)
		}
		return
	}
	dirs := h.prepareAll(sn)
	if h.abort {
		return
	}
	// before the restart only every second file is read: the others are fetched for the first time afterwards
	skip := []map[string]bool{{}, {}}
	for li := 0; li < 2; li++ {
		var ps []string
		for p, n := range h.layer[li].Served {
			if n.Type == syscall.S_IFREG && !n.Wh {
				ps = append(ps, p)
			}
		}
		sort.Strings(ps)
		for i, p := range ps {
			if i%2 == 1 {
				skip[li][p] = true
			}
		}
	}
	h.verifyChain("before the restart", dirs, "remote-snapshot-not-mounted", "served-bytes-differ", skip)
	if h.abort {
		return
	}
	h.out.Count("scenario/" + kind)
	switch kind {
	case "kill", "close":
		if kind == "close" {
			var cerr error
			if !verifC09SvcGuard(verifC09KernelBudget, func() { cerr = sn.Close() }) {
				h.fail("kernel-access-timeout", "Close did not return")
				return
			}
			if cerr != nil {
				h.fail("close-failed", "Close: %v", cerr)
			}
			if m := verifC09SvcMounts(h.root); len(m) != 0 {
				h.fail("close-left-mount", "after Close still mounted: %v", m)
			}
		} else {
			h.kill()
		}
		sn = nil
		h.reg.ResetLog()
		sn2, err := h.start(false)
		if err != nil {
			h.fail("restart-failed", "the new service does not start on the root of the %s process (registry up): %v", kind, err)
			return
		}
		nd := h.checkRestarted(sn2, "restart after "+kind)
		h.out.Count(fmt.Sprintf("registry-requests-after-restart=%d", min(len(h.reg.Log()), 1)))
		if nd != nil && !h.abort {
			h.removeAndCleanup(sn2, nd)
		}
		verifC09SvcGuard(verifC09KernelBudget, func() { sn2.Close() })
	case "regdown":
		h.kill()
		sn = nil
		h.down = true
		// (a) allow_invalid_mounts_on_restart = false: refuse to start, or never hand out the dead chain
		snA, errA := h.start(false)
		if errA == nil {
			h.out.Count("regdown/strict-start-succeeded")
			var ms []mount.Mount
			var merr error
			verifC09SvcGuard(verifC09KernelBudget, func() { ms, merr = snA.Mounts(h.ctx, "top") })
			if merr == nil {
				h.fail("restart-hands-out-dead-layer", "registry down, allow_invalid_mounts_on_restart=false: the start succeeded and Mounts(top) hands out %v", ms)
			}
			// this instance goes away again
			h.kill()
		} else {
			h.out.Count("regdown/strict-start-refused")
			verifC09SvcDetachAll(h.root)
			verifC09SvcReleaseDB(h.root)
		}
		// (b) allow_invalid_mounts_on_restart = true: the start must succeed (service.go wiring)
		snB, errB := h.start(true)
		if errB != nil {
			h.fail("allow-invalid-mounts-ignored", "registry down, Config.AllowInvalidMountsOnRestart=true: the service does not start: %v", errB)
			return
		}
		infos := h.walk(snB)
		if _, ok := infos["chain1"]; !ok {
			h.fail("restart-metadata-lost", "tolerant restart with the registry down: chain1 unknown (Walk: %d)", len(infos))
		}
		var ms []mount.Mount
		var merr error
		verifC09SvcGuard(verifC09KernelBudget, func() { ms, merr = snB.Mounts(h.ctx, "top") })
		if merr == nil {
			// mounts were handed out: then every layer must really be alive
			dead := false
			for _, d := range verifC09SvcLowers(ms) {
				if !h.isFuse(d) {
					dead = true
				}
			}
			if dead {
				h.fail("restart-hands-out-dead-layer", "registry down, tolerant restart: Mounts(top) hands out %v although a layer is not mounted", ms)
			} else {
				h.out.Count("regdown/layers-alive-from-cache")
			}
		} else if errdefs.IsUnavailable(merr) {
			h.out.Count("regdown/mounts-unavailable")
		} else {
			h.out.Count("regdown/mounts-other-error")
		}
		// the registry comes back
		h.down = false
		verifC09SvcGuard(verifC09KernelBudget, func() { ms, merr = snB.Mounts(h.ctx, "top") })
		if merr == nil {
			for _, d := range verifC09SvcLowers(ms) {
				if !h.isFuse(d) {
					h.fail("restart-hands-out-dead-layer", "registry back: Mounts(top) hands out %v although %s is not mounted", ms, d)
				}
			}
			h.out.Count("regdown/recovered-by-mounts")
		} else {
			h.out.Count("regdown/still-unavailable-after-recovery")
		}
		// a restart with the registry up recovers everything
		verifC09SvcGuard(verifC09KernelBudget, func() { snB.Close() })
		verifC09SvcDetachAll(h.root)
		sn3, err3 := h.start(false)
		if err3 != nil {
			h.fail("restart-failed", "restart with the registry back up: %v", err3)
			return
		}
		nd := h.checkRestarted(sn3, "restart after the registry came back")
		if nd != nil && !h.abort {
			h.removeAndCleanup(sn3, nd)
		}
		verifC09SvcGuard(verifC09KernelBudget, func() { sn3.Close() })
	}
}

func TestVerifC09Service(t *testing.T) {
	out := verifutil.OpenOut()
	defer out.Close()
	rnd := verifutil.NewRand(verifutil.Seed())
	n := verifutil.EnvInt("VERIF_N", 0)
	verifC09SvcDetachAll(verifC09SvcPrefix) // leftovers of a killed run
	if os.Geteuid() != 0 {
		out.Comment("fuse-unavailable: not root")
		out.Count("fuse-unavailable")
		return
	}
	if f, err := os.OpenFile("/dev/fuse", os.O_RDWR, 0); err != nil {
		out.Comment("fuse-unavailable: " + err.Error())
		out.Count("fuse-unavailable")
		return
	} else {
		f.Close()
	}
	tmp, err := os.MkdirTemp("", verifC09SvcPrefix)
	if err != nil {
		t.Fatal(err)
	}
	t.Cleanup(func() {
		verifC09SvcDetachAll(verifC09SvcPrefix)
		time.Sleep(50 * time.Millisecond)
		verifC09SvcDetachAll(verifC09SvcPrefix)
		os.RemoveAll(tmp)
	})
	stacks := verifc07.SvcStacks(t, rnd, n)
	si := 0
	for _, kind := range []string{"kill", "close", "regdown"} {
		for k := 0; k < 1+n; k++ {
			s := stacks[si%len(stacks)]
			si++
			h := &verifC09Svc{t: t, out: out, ctx: context.Background(), name: fmt.Sprintf("%s/%d (%s)", kind, k, s.Desc),
				root: filepath.Join(tmp, fmt.Sprintf("root-%s-%d", kind, k)), reg: verifreg.New(), layer: s.Layers[:2]}
			for _, l := range h.layer {
				d := digest.FromBytes(l.Blob).String()
				h.reg.AddBlob(d, l.Blob)
				h.dgst = append(h.dgst, d)
			}
			h.reg.Script = func(req *http.Request, onCDN bool, seq int) verifreg.Mode {
				if h.down {
					return verifreg.ServerErr
				}
				return verifreg.Multi
			}
			os.MkdirAll(h.root, 0o700)
			h.run(kind)
			out.Comment(fmt.Sprintf("c09svc scenario %s done", h.name))
			out.Distinct("c09svc/" + h.name)
			verifC09SvcDetachAll(h.root)
			if out.Stats["fuse-unavailable"] > 0 {
				return
			}
		}
	}
}
