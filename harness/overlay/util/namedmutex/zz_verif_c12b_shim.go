//go:build verif

package namedmutex

// Export shim for the C12b harness.  Injected with `go build -overlay`, never committed.

// VerifC12bIdle reports whether no name is locked or waited for at the moment.
func (nl *NamedMutex) VerifC12bIdle() bool {
	nl.mu.Lock()
	defer nl.mu.Unlock()
	return len(nl.refMap) == 0
}
