//go:build verif

package cacheutil

// Export shim for the C12 harness (package fs/layer cannot reach the unexported fields of
// TTLCache).  Injected with `go build -overlay`, never committed to the repository.

// VerifC12Expire runs exactly what the entry's timer function runs: lock; evictLocked(key).
func (c *TTLCache) VerifC12Expire(key string) {
	c.mu.Lock()
	defer c.mu.Unlock()
	c.evictLocked(key)
}

// VerifC12Has reports whether key is currently cached (no reference is taken).
func (c *TTLCache) VerifC12Has(key string) bool {
	c.mu.Lock()
	defer c.mu.Unlock()
	_, ok := c.m[key]
	return ok
}
