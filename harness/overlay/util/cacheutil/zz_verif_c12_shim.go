//go:build verif

package cacheutil

import "sort"

// Export shim for the C12 harness (package fs/layer cannot reach the unexported fields of
// TTLCache).  Injected with `go build -overlay`, never committed to the repository.

// VerifC12Expire runs exactly what the entry's timer function runs: lock; evictLocked(key).
func (c *TTLCache) VerifC12Expire(key string) {
	c.mu.Lock()
	defer c.mu.Unlock()
	c.evictLocked(key)
}

// VerifC12Has reports whether key is currently cached (no reference is taken).
func (c *TTLCache) VerifC12Has(key string) bool {
	c.mu.Lock()
	defer c.mu.Unlock()
	_, ok := c.m[key]
	return ok
}

// VerifC12Keys returns the keys currently cached, sorted (no reference is taken).
func (c *TTLCache) VerifC12Keys() []string {
	c.mu.Lock()
	defer c.mu.Unlock()
	out := make([]string, 0, len(c.m))
	for k := range c.m {
		out = append(out, k)
	}
	sort.Strings(out)
	return out
}

// VerifC12Peek returns the value cached under key without taking a reference.
func (c *TTLCache) VerifC12Peek(key string) (any, bool) {
	c.mu.Lock()
	defer c.mu.Unlock()
	rc, ok := c.m[key]
	if !ok {
		return nil, false
	}
	return rc.v, true
}
