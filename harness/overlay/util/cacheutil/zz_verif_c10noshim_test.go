//go:build (verif || verif_c10) && verif_c10_noshim

package cacheutil

// Fallback for trees on which zz_verif_c10shim_test.go does not compile: exported API only.
// Timer-path expiry is replaced by Remove (in the unchanged tree both are lock + evictLocked; the
// real timer path is still exercised by TestVerifC10Conc with a short ttl); the entry count and
// the side-effect-free lookup are reported as not observable.

const verifC10HasShim = false

func verifC10Expire(c *TTLCache, key string) { c.Remove(key) }

// no access to the entry's timer: the caller falls back to verifC10Expire; the production timer
// function is still driven by TestVerifC10Timer (real short ttl, exported API only).
func verifC10FireTimer(c *TTLCache, key string) (gone func() bool, armed bool) { return nil, false }

func verifC10TTLLen(c *TTLCache) (int, bool) { return 0, false }

func verifC10TTLPeek(c *TTLCache, key string) (v any, ok bool, can bool) { return nil, false, false }

func verifC10LRULen(c *LRUCache) (int, bool) { return 0, false }
