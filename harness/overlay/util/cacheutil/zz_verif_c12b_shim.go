//go:build verif

package cacheutil

// Export shim for the C12b harness (holder side, package fs).  Injected with `go build -overlay`,
// never committed to the repository.

// VerifC12bHolders returns the number of unreleased references handed out for the entry cached
// under key (the cache's own reference is not counted); ok is false when nothing is cached there.
func (c *TTLCache) VerifC12bHolders(key string) (holders int, ok bool) {
	c.mu.Lock()
	defer c.mu.Unlock()
	rc, ok := c.m[key]
	if !ok {
		return 0, false
	}
	rc.mu.Lock()
	defer rc.mu.Unlock()
	return int(rc.refCounts) - 1, true
}
