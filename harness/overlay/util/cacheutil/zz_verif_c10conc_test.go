//go:build verif || verif_c10

package cacheutil

import (
	"fmt"
	"sync"
	"sync/atomic"
	"testing"
	"time"

	"github.com/containerd/stargz-snapshotter/internal/verifutil"
)

// TestVerifC10Conc : concurrent histories on the REAL caches through the exported API, built with
// -race by the check (both tiers).  It replaces any textual pin on how the Go code locks: what has to
// hold is that every operation, every release closure and the timer function is atomic with respect
// to the cache state, and that is observed here
//   - by the race detector (an operation that touches the cache state without excluding the others
//     is a data race => the test binary fails => violation, the race report is the schedule), and
//   - by an oracle that is sound under every interleaving:
//     while running : a value handed out by Add/Get belongs to the requested key and was offered to
//     Add by somebody; it is not finalised when handed out nor at any time until its
//     holder starts releasing it; OnEvicted never runs twice for a value, never
//     while a holder that has already got it has not yet begun to release it, and
//     never for a value that was not accepted by an Add;
//     at quiescent points (all workers parked): a probing Get of every key tells what is cached;
//     a value that entered the cache, is no longer cached and has no holder must
//     have been finalised exactly once, a held or cached value not at all; a
//     bounded LRU holds at most MaxEntries keys;
//     at the end     : everything released, every key removed => every value that entered a cache
//     was finalised exactly once, every other one never.
//
// Three kinds of cache per round: TTL with a ttl of hours (+ timer-path expiry through the shim),
// TTL with a ttl of a few hundred microseconds (REAL timers fire concurrently with the workers),
// LRU with MaxEntries 0..3.
func TestVerifC10Conc(t *testing.T) {
	out := verifutil.OpenOut()
	defer out.Close()
	rounds := verifutil.EnvInt("VERIF_N", 4)
	out.Comment("oracle-only concurrent stress; nothing to compare with the model")
	out.Emit("t.new", "ok")
	for r := 0; r < rounds; r++ {
		for kind := 0; kind < 3; kind++ {
			verifConcRound(out, uint64(r), kind)
		}
	}
}

const (
	verifConcLongTTL  = 0
	verifConcShortTTL = 1
	verifConcLRU      = 2
	verifConcKeys     = 4
	verifConcWorkers  = 8
	verifConcPhases   = 4
	verifConcOps      = 150
	verifConcTTL      = 300 * time.Microsecond
)

type verifCVal struct {
	id      int64
	key     int
	calls   atomic.Int32 // OnEvicted runs
	holders atomic.Int32 // holders that have got the value and have not begun to release it
	in      atomic.Bool  // an Add of it returned added=true
	seen    atomic.Bool  // handed out to somebody who did not bring it (Get, Add with added=false)
}

type verifCHold struct {
	v    *verifCVal
	done func(bool)
}

type verifCWorker struct {
	rnd *verifutil.Rand
	hs  []verifCHold
}

type verifCRound struct {
	out    *verifutil.Out
	desc   string
	kind   int
	cap    int
	tc     *TTLCache
	lc     *LRUCache
	all    sync.Map // id -> *verifCVal : every value ever offered to Add (registered BEFORE the call)
	nextID atomic.Int64
}

func (c *verifCRound) fail(sig, what string) { c.out.Fail(sig, c.desc+": "+what) }

func (c *verifCRound) add(key string, v any) (any, func(bool), bool) {
	if c.lc != nil {
		rv, d, added := c.lc.Add(key, v)
		return rv, func(bool) { d() }, added
	}
	return c.tc.Add(key, v)
}

func (c *verifCRound) get(key string) (any, func(bool), bool) {
	if c.lc != nil {
		rv, d, ok := c.lc.Get(key)
		if !ok {
			return nil, nil, false
		}
		return rv, func(bool) { d() }, true
	}
	return c.tc.Get(key)
}

func (c *verifCRound) remove(key string) {
	if c.lc != nil {
		c.lc.Remove(key)
		return
	}
	c.tc.Remove(key)
}

func (c *verifCRound) onEvicted(key string, value any) {
	v, ok := value.(*verifCVal)
	if !ok {
		c.fail("callback-foreign-value", fmt.Sprintf("OnEvicted(%s) got a value nobody added", key))
		return
	}
	if key != verifKey(v.key) {
		c.fail("callback-wrong-key", fmt.Sprintf("OnEvicted(%s, value %d of key %d)", key, v.id, v.key))
	}
	if n := v.calls.Add(1); n > 1 {
		c.fail("callback-twice", fmt.Sprintf("concurrent: value %d finalised %d times", v.id, n))
	}
	if h := v.holders.Load(); h > 0 {
		c.fail("callback-while-held", fmt.Sprintf("concurrent: value %d finalised while %d holders hold it", v.id, h))
	}
}

// acquired is called by a worker right after Add/Get handed it `v`.
func (c *verifCRound) acquired(w *verifCWorker, v *verifCVal, done func(bool), how string) {
	v.holders.Add(1)
	if v.calls.Load() != 0 {
		c.fail("get-returned-finalised", fmt.Sprintf("concurrent: %s handed out value %d which is already finalised", how, v.id))
	}
	w.hs = append(w.hs, verifCHold{v, done})
}

func (c *verifCRound) release(w *verifCWorker, i int, evict bool) {
	x := w.hs[i]
	w.hs = append(w.hs[:i], w.hs[i+1:]...)
	// the holder looks at its value one last time: it must still be open
	if x.v.calls.Load() != 0 {
		c.fail("closed-under-holder", fmt.Sprintf("concurrent: value %d finalised while held", x.v.id))
	}
	x.v.holders.Add(-1)
	x.done(evict)
	switch w.rnd.Intn(10) {
	case 0:
		x.done(false) // releasing twice is harmless
	case 1:
		x.done(evict)
	}
}

func (c *verifCRound) work(w *verifCWorker, nops int) {
	for i := 0; i < nops; i++ {
		k := w.rnd.Intn(verifConcKeys)
		key := verifKey(k)
		wExp, wSleep := 0, 0
		switch c.kind {
		case verifConcLongTTL:
			wExp = 1
		case verifConcShortTTL:
			wSleep = 1
		}
		switch w.rnd.Pick(8, 6, 10, 2, wExp*2, wSleep) {
		case 0:
			nv := &verifCVal{id: c.nextID.Add(1), key: k}
			c.all.Store(nv.id, nv)
			rv, d, added := c.add(key, nv)
			v, ok := rv.(*verifCVal)
			if !ok {
				c.fail("add-returned-other-value", "concurrent: Add returned a value nobody added")
				continue
			}
			if v.key != k {
				c.fail("add-returned-other-value", fmt.Sprintf("concurrent: Add(%s) returned value %d of key %d", key, v.id, v.key))
			}
			if added {
				if v != nv {
					c.fail("add-returned-other-value", "concurrent: added=true with another value")
				}
				nv.in.Store(true)
			} else {
				if v == nv {
					c.fail("add-returned-other-value", "concurrent: added=false with the new value")
				}
				v.seen.Store(true)
			}
			c.acquired(w, v, d, "Add")
		case 1:
			rv, d, ok := c.get(key)
			if !ok {
				continue
			}
			v, isv := rv.(*verifCVal)
			if !isv {
				c.fail("get-wrong-value", "concurrent: Get returned a value nobody added")
				continue
			}
			if v.key != k {
				c.fail("get-wrong-value", fmt.Sprintf("concurrent: Get(%s) returned value %d of key %d", key, v.id, v.key))
			}
			v.seen.Store(true)
			c.acquired(w, v, d, "Get")
		case 2:
			if len(w.hs) > 0 {
				c.release(w, w.rnd.Intn(len(w.hs)), c.lc == nil && w.rnd.Intn(4) == 0)
			}
		case 3:
			c.remove(key)
		case 4:
			// half of the expiries through the entry's PRODUCTION timer function (fired now, runs on
			// the timer goroutine concurrently with the workers), half through the shim's copy of it
			if w.rnd.Bool() {
				if _, armed := verifC10FireTimer(c.tc, key); armed {
					continue
				}
			}
			verifC10Expire(c.tc, key)
		default:
			time.Sleep(verifConcTTL/2 + time.Duration(w.rnd.Intn(int(verifConcTTL))))
		}
	}
}

// quiescent evaluates the sequential predicate while every worker is parked.
func (c *verifCRound) quiescent(last bool) {
	if c.kind == verifConcShortTTL {
		time.Sleep(2 * verifConcTTL) // let pending timers run against the parked state as well
	}
	probe := map[*verifCVal]func(bool){}
	for k := 0; k < verifConcKeys; k++ {
		rv, d, ok := c.get(verifKey(k))
		if !ok {
			c.out.Count("conc.probe-miss")
			continue
		}
		c.out.Count("conc.probe-hit")
		v, isv := rv.(*verifCVal)
		if !isv {
			c.fail("get-wrong-value", "quiescent: Get returned a value nobody added")
			d(false)
			continue
		}
		if v.key != k {
			c.fail("get-wrong-value", fmt.Sprintf("quiescent: Get(k%d) returned value %d of key %d", k, v.id, v.key))
		}
		if !v.in.Load() {
			c.fail("get-returned-never-added", fmt.Sprintf("quiescent: value %d is cached but no Add of it reported added=true", v.id))
		}
		if last {
			c.fail("get-hit-uncached", fmt.Sprintf("quiescent: value %d still cached after every key was removed", v.id))
		}
		probe[v] = d
	}
	if c.lc != nil && c.cap > 0 && len(probe) > c.cap {
		c.fail("lru-over-capacity", fmt.Sprintf("quiescent: %d keys cached with MaxEntries=%d", len(probe), c.cap))
	}
	n := 0
	c.all.Range(func(_, x any) bool {
		v := x.(*verifCVal)
		n++
		calls, held := v.calls.Load(), v.holders.Load()
		_, cached := probe[v]
		switch {
		case calls > 1:
			c.fail("callback-twice", fmt.Sprintf("quiescent: value %d finalised %d times", v.id, calls))
		case held > 0 && calls != 0:
			c.fail("callback-while-held", fmt.Sprintf("quiescent: value %d finalised, %d holders", v.id, held))
		case cached && calls != 0: // we hold it through the probe
			c.fail("callback-while-cached", fmt.Sprintf("quiescent: value %d finalised but still handed out by Get", v.id))
		case !v.in.Load() && calls != 0:
			c.fail("callback-for-never-added", fmt.Sprintf("quiescent: value %d finalised although no Add accepted it", v.id))
		case !v.in.Load() && v.seen.Load():
			c.fail("get-returned-never-added", fmt.Sprintf("quiescent: value %d was handed out although no Add accepted it", v.id))
		case v.in.Load() && !cached && held == 0 && calls != 1:
			sig := "dead-without-callback"
			if last {
				sig = "leak"
			}
			c.fail(sig, fmt.Sprintf("quiescent: value %d left the cache and nobody holds it, finalised %d times", v.id, calls))
		}
		return true
	})
	for _, d := range probe {
		d(false)
	}
	c.out.Count("conc.quiescent-checks")
	if last {
		c.out.Stats["conc.values"] += n // every worker has finished
	}
}

func verifConcRound(out *verifutil.Out, round uint64, kind int) {
	c := &verifCRound{out: out, kind: kind}
	switch kind {
	case verifConcLongTTL:
		c.tc = NewTTLCache(1000 * time.Hour)
		c.tc.OnEvicted = c.onEvicted
		c.desc = fmt.Sprintf("conc ttl round %d", round)
	case verifConcShortTTL:
		c.tc = NewTTLCache(verifConcTTL)
		c.tc.OnEvicted = c.onEvicted
		c.desc = fmt.Sprintf("conc ttl(real timers) round %d", round)
	default:
		c.cap = int(round % 4)
		c.lc = NewLRUCache(c.cap)
		c.lc.OnEvicted = c.onEvicted
		c.desc = fmt.Sprintf("conc lru cap %d round %d", c.cap, round)
	}
	ws := make([]*verifCWorker, verifConcWorkers)
	for g := range ws {
		ws[g] = &verifCWorker{rnd: verifutil.NewRand(verifutil.Seed()*1000003 + round*1031 + uint64(kind)*131 + uint64(g))}
	}
	for ph := 0; ph < verifConcPhases; ph++ {
		var wg sync.WaitGroup
		for _, w := range ws {
			wg.Add(1)
			go func(w *verifCWorker) {
				defer wg.Done()
				c.work(w, verifConcOps)
			}(w)
		}
		wg.Wait()
		c.quiescent(false)
	}
	// drain: every holder releases, every key is removed
	var wg sync.WaitGroup
	for _, w := range ws {
		wg.Add(1)
		go func(w *verifCWorker) {
			defer wg.Done()
			for len(w.hs) > 0 {
				c.release(w, 0, false)
			}
		}(w)
	}
	wg.Wait()
	for k := 0; k < verifConcKeys; k++ {
		c.remove(verifKey(k))
	}
	c.quiescent(true)
	out.Distinct(fmt.Sprintf("conc/%d/%d", round, kind))
}
