//go:build verif || verif_c10

package cacheutil

import (
	"fmt"
	"runtime"
	"sort"
	"strings"
	"testing"
	"time"

	"github.com/containerd/stargz-snapshotter/internal/verifutil"
)

// C10 harness.  Drives the REAL TTLCache / LRUCache with scripted and random histories of
// Add / Get / Remove / timer expiry / done(evict or not, repeated), prints one op line and one
// canonical result line per operation (compared with the Lean model by the check), and evaluates
// the property predicate itself on what the real code answered (the oracle, independent of the
// Lean model).

// Everything in this file uses the exported API of the package only.  The three observations that
// need package internals (timer-path expiry, entry count, side-effect-free lookup) live in
// zz_verif_c10shim_test.go; when that file does not compile against the tree under test (a refactor
// renamed an unexported identifier) the check builds zz_verif_c10noshim_test.go instead, which
// answers them through the exported API / not at all.

// verifVal is the payload stored in the cache (pointer identity = value identity).
type verifVal struct {
	id     int
	key    int
	calls  int  // OnEvicted runs
	cached bool // oracle: is in the cache according to the API results so far
	held   int  // oracle: closures obtained for it and not yet called
}

type verifTok struct {
	v        *verifVal
	released bool
	fn       func(evict bool)
}

// verifCache abstracts the two caches.
type verifCache interface {
	add(k int, v *verifVal) (*verifVal, func(bool), bool)
	get(k int) (*verifVal, func(bool), bool)
	remove(k int)
	// expire makes the entry under k expire.  viaTimer: the PRODUCTION timer function of the entry
	// ran (on the timer goroutine); ok=false: it was made to fire but the entry is still cached.
	expire(k int) (viaTimer bool, ok bool)
	// length returns the number of cached entries, or (_, false) if it cannot be observed.
	length() (int, bool)
	// peek returns the value the real cache currently stores under k without side effects, or
	// (nil, false) if the implementation offers no such view.
	peek(k int) (*verifVal, bool, bool)
}

func verifKey(k int) string { return fmt.Sprintf("k%d", k) }

type verifTTL struct {
	c *TTLCache
	// real: expiry is driven by firing the entry's own timer, so that the function the tree under
	// test gave to time.AfterFunc runs (not a copy of what it did when the shim was written)
	real bool
}

// verifAwait waits until cond holds.  No fixed time limit decides: after a short spin it measures how
// late timers and goroutines currently run by round trips of canary timers that take the same way
// as the awaited function (time.AfterFunc(0) -> new goroutine); it gives up only when 50 canaries armed
// AFTER the awaited timer have fired and run and 5 s have passed, i.e. machine load alone
// cannot make it return false.
func verifAwait(cond func() bool) bool {
	start := time.Now()
	canaries := 0
	for i := 0; ; i++ {
		if cond() {
			return true
		}
		if i < 200 {
			runtime.Gosched()
			continue
		}
		ch := make(chan struct{})
		time.AfterFunc(0, func() { close(ch) })
		<-ch
		canaries++
		if cond() {
			return true
		}
		if canaries >= 50 && time.Since(start) > 5*time.Second {
			return false
		}
		time.Sleep(100 * time.Microsecond)
	}
}

func (t verifTTL) add(k int, v *verifVal) (*verifVal, func(bool), bool) {
	r, d, a := t.c.Add(verifKey(k), v)
	return r.(*verifVal), d, a
}
func (t verifTTL) get(k int) (*verifVal, func(bool), bool) {
	r, d, ok := t.c.Get(verifKey(k))
	if !ok {
		return nil, nil, false
	}
	return r.(*verifVal), d, true
}
func (t verifTTL) remove(k int) { t.c.Remove(verifKey(k)) }
func (t verifTTL) expire(k int) (bool, bool) {
	if t.real {
		if gone, armed := verifC10FireTimer(t.c, verifKey(k)); armed {
			return true, verifAwait(gone)
		}
	}
	verifC10Expire(t.c, verifKey(k)) // key not cached (or no access to the timer): the copy of the timer function
	return false, true
}
func (t verifTTL) length() (int, bool) { return verifC10TTLLen(t.c) }
func (t verifTTL) peek(k int) (*verifVal, bool, bool) {
	v, ok, can := verifC10TTLPeek(t.c, verifKey(k))
	if !can || !ok {
		return nil, false, can
	}
	return v.(*verifVal), true, true
}

type verifLRU struct{ c *LRUCache }

func (l verifLRU) add(k int, v *verifVal) (*verifVal, func(bool), bool) {
	r, d, a := l.c.Add(verifKey(k), v)
	return r.(*verifVal), func(bool) { d() }, a
}
func (l verifLRU) get(k int) (*verifVal, func(bool), bool) {
	r, d, ok := l.c.Get(verifKey(k))
	if !ok {
		return nil, nil, false
	}
	return r.(*verifVal), func(bool) { d() }, true
}
func (l verifLRU) remove(k int)                       { l.c.Remove(verifKey(k)) }
func (l verifLRU) expire(k int) (bool, bool)          { panic("no timer in LRUCache") }
func (l verifLRU) length() (int, bool)                { return verifC10LRULen(l.c) }
func (l verifLRU) peek(k int) (*verifVal, bool, bool) { return nil, false, false }

// verifHist is one history on one fresh cache, with the oracle's view of it.
type verifHist struct {
	out         *verifutil.Out
	c           verifCache
	lru         bool
	cap         int
	pfx         string
	vals        []*verifVal
	nextID      int
	toks        []*verifTok
	cur         map[int]*verifVal // oracle: key -> cached value
	order       []int             // oracle (LRU only): keys, most recently used first
	fired       []*verifVal       // callbacks during the current operation
	lastDropped *verifVal         // what the last drop() took out of the cache (nil: nothing)
	shape       strings.Builder
	desc        string
}

func (h *verifHist) onEvicted(key string, value any) {
	v := value.(*verifVal)
	if key != verifKey(v.key) {
		h.out.Fail("callback-wrong-key", fmt.Sprintf("%s: OnEvicted(%s, value %d of key %d)", h.desc, key, v.id, v.key))
	}
	v.calls++
	h.fired = append(h.fired, v)
}

func verifNewTTL(out *verifutil.Out, desc string) *verifHist { return verifNewTTLx(out, desc, true) }

// verifNewTTLx: real = expiry through the entry's production timer (see verifTTL.real).
func verifNewTTLx(out *verifutil.Out, desc string, real bool) *verifHist {
	h := &verifHist{out: out, pfx: "t", cur: map[int]*verifVal{}, desc: desc}
	c := NewTTLCache(1000 * time.Hour)
	c.OnEvicted = h.onEvicted
	h.c = verifTTL{c, real}
	out.Comment(desc)
	out.Emit("t.new", "ok")
	return h
}

func verifNewLRU(out *verifutil.Out, cap int, desc string) *verifHist {
	h := &verifHist{out: out, pfx: "l", lru: true, cap: cap, cur: map[int]*verifVal{}, desc: desc}
	c := NewLRUCache(cap)
	c.OnEvicted = h.onEvicted
	h.c = verifLRU{c}
	out.Comment(desc)
	out.Emit(fmt.Sprintf("l.new %d", cap), "ok")
	return h
}

func (h *verifHist) fail(sig, what string) {
	h.out.Fail(sig, h.desc+": "+what)
}

// ---- oracle bookkeeping -------------------------------------------------------------------

func (h *verifHist) touch(k int) { // LRU: move key to front
	if !h.lru {
		return
	}
	for i, x := range h.order {
		if x == k {
			h.order = append(h.order[:i], h.order[i+1:]...)
			break
		}
	}
	h.order = append([]int{k}, h.order...)
}

func (h *verifHist) drop(k int) { // value under k leaves the cache
	h.lastDropped = nil
	if v, ok := h.cur[k]; ok {
		h.lastDropped = v
		v.cached = false
		delete(h.cur, k)
	}
	for i, x := range h.order {
		if x == k {
			h.order = append(h.order[:i], h.order[i+1:]...)
			break
		}
	}
}

// finish is called after the real operation and after the oracle state was updated for it:
// emits the lines and evaluates the predicate.
func (h *verifHist) finish(op, res string) {
	sort.Slice(h.fired, func(i, j int) bool { return h.fired[i].id < h.fired[j].id })
	var ids []string
	for _, v := range h.fired {
		ids = append(ids, fmt.Sprint(v.id))
	}
	f := "-"
	if len(ids) > 0 {
		f = strings.Join(ids, ",")
	}
	n, canLen := h.c.length()
	if !canLen {
		n = len(h.cur) // not observable on this tree: the oracle's expectation stands in
	}
	h.out.Emit(op, fmt.Sprintf("%s len=%d fired=%s", res, n, f))
	for _, v := range h.fired {
		if v.calls > 1 {
			h.fail("callback-twice", fmt.Sprintf("OnEvicted ran %d times for value %d (key %d) at %q", v.calls, v.id, v.key, op))
		}
		if v.held > 0 {
			h.fail("callback-while-held", fmt.Sprintf("OnEvicted ran for value %d (key %d) with %d unreleased holders at %q", v.id, v.key, v.held, op))
		}
		if v.cached {
			h.fail("callback-while-cached", fmt.Sprintf("OnEvicted ran for value %d (key %d) which is still cached at %q", v.id, v.key, op))
		}
	}
	if len(h.fired) > 0 {
		h.shape.WriteByte('!')
	}
	h.fired = h.fired[:0]
	for _, v := range h.vals {
		if !v.cached && v.held == 0 && v.calls == 0 {
			h.fail("dead-without-callback", fmt.Sprintf("value %d (key %d) is out of the cache and unheld after %q but OnEvicted did not run", v.id, v.key, op))
			v.calls = -1 << 20 // report once
		}
	}
	if n != len(h.cur) {
		h.fail("len-mismatch", fmt.Sprintf("cache holds %d entries, API results imply %d, after %q", n, len(h.cur), op))
	}
	if h.lru && h.cap > 0 && n > h.cap {
		h.fail("lru-over-capacity", fmt.Sprintf("%d entries with MaxEntries=%d after %q", n, h.cap, op))
	}
	for k, v := range h.cur {
		if pv, ok, can := h.c.peek(k); can && (!ok || pv != v) {
			h.fail("membership-mismatch", fmt.Sprintf("key %d should hold value %d after %q", k, v.id, op))
		}
	}
}

// ---- operations ---------------------------------------------------------------------------

func (h *verifHist) add(k int) int {
	nv := &verifVal{id: h.nextID, key: k} // a fresh payload for every Add call
	h.nextID++
	op := fmt.Sprintf("%s.add %d %d", h.pfx, k, nv.id)
	old, had := h.cur[k]
	rv, done, added := h.c.add(k, nv)
	tok := len(h.toks)
	if added {
		h.vals = append(h.vals, nv) // h.vals: the values that entered the cache
		if rv != nv {
			h.fail("add-returned-other-value", fmt.Sprintf("%q: added=true but returned value %d", op, rv.id))
		}
		if had {
			h.fail("add-replaced-existing", fmt.Sprintf("%q replaced cached value %d", op, old.id))
			h.drop(k)
		}
		nv.cached = true
		h.cur[k] = nv
		h.touch(k)
		if h.lru && h.cap > 0 && len(h.order) > h.cap { // capacity eviction of the least recently used
			h.drop(h.order[len(h.order)-1])
		}
	} else {
		if !had {
			h.fail("add-not-added", fmt.Sprintf("%q: added=false but the key was not cached", op))
		} else if rv != old {
			h.fail("add-returned-other-value", fmt.Sprintf("%q: cached value is %d, returned %d", op, old.id, rv.id))
		}
		if rv == nv {
			h.fail("add-returned-other-value", fmt.Sprintf("%q: added=false but returned the new value", op))
		}
		h.touch(k)
	}
	rv.held++
	h.toks = append(h.toks, &verifTok{v: rv, fn: done})
	h.shape.WriteByte(map[bool]byte{true: 'A', false: 'a'}[added])
	h.out.Count(h.pfx + ".add")
	h.finish(op, fmt.Sprintf("v=%d tok=%d added=%s", rv.id, tok, verifB(added)))
	return tok
}

func verifB(b bool) string {
	if b {
		return "1"
	}
	return "0"
}

func (h *verifHist) get(k int) int {
	op := fmt.Sprintf("%s.get %d", h.pfx, k)
	want, had := h.cur[k]
	rv, done, ok := h.c.get(k)
	h.out.Count(h.pfx + ".get")
	if !ok {
		if had {
			h.fail("get-missed-cached", fmt.Sprintf("%q: value %d should be cached", op, want.id))
			h.drop(k)
		}
		h.shape.WriteByte('g')
		h.finish(op, "miss")
		return -1
	}
	if !had {
		h.fail("get-hit-uncached", fmt.Sprintf("%q returned value %d which left the cache", op, rv.id))
	} else if rv != want {
		h.fail("get-wrong-value", fmt.Sprintf("%q returned value %d, cached is %d", op, rv.id, want.id))
	}
	if rv.calls > 0 {
		h.fail("get-returned-finalised", fmt.Sprintf("%q returned value %d whose OnEvicted already ran", op, rv.id))
	}
	tok := len(h.toks)
	rv.held++
	h.toks = append(h.toks, &verifTok{v: rv, fn: done})
	h.touch(k)
	h.shape.WriteByte('G')
	h.finish(op, fmt.Sprintf("v=%d tok=%d ok=1", rv.id, tok))
	return tok
}

func (h *verifHist) remove(k int) {
	h.c.remove(k)
	h.drop(k)
	h.shape.WriteByte('R')
	h.out.Count(h.pfx + ".remove")
	h.finish(fmt.Sprintf("%s.remove %d", h.pfx, k), "unit")
}

func (h *verifHist) expire(k int) {
	// the callbacks of an expiry run on the timer goroutine; verifAwait's lock round trip orders them
	// before the reads below
	viaTimer, ok := h.c.expire(k)
	if !ok {
		h.fail("timer-expiry-no-effect", fmt.Sprintf("the timer of key %d fired (and 50 later timers ran) but the entry is still cached", k))
	}
	h.drop(k)
	if viaTimer {
		h.shape.WriteByte('x')
		h.out.Count(h.pfx + ".expire-real-timer")
		if v := h.lastDropped; v != nil && v.held > 0 {
			h.out.Count(h.pfx + ".expire-real-timer-while-held")
		}
	} else {
		h.shape.WriteByte('X')
	}
	h.out.Count(h.pfx + ".expire")
	h.finish(fmt.Sprintf("%s.expire %d", h.pfx, k), "unit")
}

func (h *verifHist) done(tok int, evict bool) {
	if tok < 0 { // a scripted Get that should have hit missed (already reported): nothing to release
		return
	}
	t := h.toks[tok]
	// the holder looks at its value right before giving it up: it must still be open
	if !t.released && t.v.calls > 0 {
		h.fail("closed-under-holder", fmt.Sprintf("value %d finalised while token %d still held", t.v.id, tok))
	}
	t.fn(evict)
	again := t.released
	if !t.released {
		t.released = true
		t.v.held--
	}
	if evict && !h.lru {
		if h.cur[t.v.key] == t.v { // evicting release removes only this very value
			h.drop(t.v.key)
		}
	}
	switch {
	case again && evict:
		h.shape.WriteByte('E')
		h.out.Count(h.pfx + ".done-again-evict")
	case again:
		h.shape.WriteByte('d')
		h.out.Count(h.pfx + ".done-again")
	case evict:
		h.shape.WriteByte('V')
		h.out.Count(h.pfx + ".done-evict")
	default:
		h.shape.WriteByte('D')
		h.out.Count(h.pfx + ".done")
	}
	if h.lru {
		h.finish(fmt.Sprintf("l.done %d", tok), "unit")
	} else {
		h.finish(fmt.Sprintf("t.done %d %s", tok, verifB(evict)), "unit")
	}
}

// drain releases everything and removes every key; afterwards every value that was ever cached
// must have been finalised exactly once.
func (h *verifHist) drain(nkeys int) {
	for i, t := range h.toks {
		if !t.released {
			h.done(i, false)
		}
	}
	for k := 0; k < nkeys; k++ {
		h.remove(k)
	}
	for _, v := range h.vals {
		if v.calls < 0 { // already reported as dead-without-callback
			continue
		}
		if v.calls == 0 {
			h.fail("leak", fmt.Sprintf("value %d (key %d) never finalised after all holders released and all keys removed", v.id, v.key))
		} else if v.calls != 1 {
			h.fail("callback-twice", fmt.Sprintf("value %d (key %d) finalised %d times", v.id, v.key, v.calls))
		}
	}
	if n, can := h.c.length(); can && n != 0 {
		h.fail("len-mismatch", fmt.Sprintf("%d entries left after removing every key", n))
	}
	h.out.Distinct(fmt.Sprintf("%s/%d/%s", h.pfx, h.cap, h.shape.String()))
}

// ---- scripted edge scenarios --------------------------------------------------------------

func verifScenarios(out *verifutil.Out) {
	var h *verifHist

	h = verifNewTTL(out, "ttl: re-add while an older value of the key is still held")
	t0 := h.add(0)
	h.remove(0)
	t1 := h.add(0) // must be added (new value) although value 0 is still held
	h.done(t0, false)
	t2 := h.get(0)
	h.done(t1, false)
	h.done(t2, false)
	h.remove(0)
	h.drain(2)

	h = verifNewTTL(out, "ttl: double done, with and without evict")
	t0 = h.add(0)
	h.done(t0, false)
	h.done(t0, false)
	t1 = h.get(0)
	h.done(t1, true)
	h.done(t1, true)
	h.done(t0, true)
	h.drain(2)

	h = verifNewTTL(out, "ttl: done(true) by the old holder after expiry and re-add must spare the newer value")
	t0 = h.add(0)
	h.expire(0)
	t1 = h.add(0)
	h.done(t0, true)
	t2 = h.get(0)
	h.done(t0, true)
	h.get(0)
	h.drain(2)

	h = verifNewTTL(out, "ttl: expiry of a held value (production timer)")
	t0 = h.add(1)
	t1 = h.get(1)
	h.expire(1)
	h.get(1)
	h.done(t0, false)
	h.done(t1, false)
	h.drain(2)

	h = verifNewTTL(out, "ttl: remove / expire / get of a missing key")
	h.remove(0)
	h.expire(1)
	h.get(2)
	t0 = h.add(0)
	h.remove(1)
	h.get(0)
	h.drain(3)

	h = verifNewTTL(out, "ttl: evicting release while another holder exists")
	t0 = h.add(0)
	t1 = h.get(0)
	h.done(t0, true)
	h.get(0)
	h.done(t1, false)
	h.drain(1)

	h = verifNewTTL(out, "ttl: add of an existing key returns the cached value")
	t0 = h.add(0)
	t1 = h.add(0)
	h.done(t0, false)
	h.done(t1, false)
	h.add(0)
	h.drain(1)

	h = verifNewTTL(out, "ttl: released token used again with evict drops the membership")
	t0 = h.add(0)
	h.done(t0, false)
	h.done(t0, true)
	h.get(0)
	h.add(0)
	h.drain(1)

	// --- a value that is HELD when its ttl fires, and is asked for again before its last holder
	// lets go (expiry through the production timer function; all orders of the same shape)
	h = verifNewTTL(out, "ttl: held across expiry, Get, every holder done(false), Get")
	t0 = h.add(0)
	h.expire(0)
	t1 = h.get(0) // the value left the cache: miss
	h.done(t0, false)
	if t1 >= 0 {
		h.done(t1, false)
		h.done(t1, false)
	}
	h.get(0)
	h.add(0)
	h.drain(1)

	h = verifNewTTL(out, "ttl: held across expiry, Add, every holder done(false), Get")
	t0 = h.add(0)
	t1 = h.get(0)
	h.expire(0)
	t2 = h.add(0) // a NEW value is added, the expired one is not handed out again
	h.done(t0, false)
	h.done(t1, false)
	h.done(t2, false)
	t2 = h.get(0)
	h.done(t2, false)
	h.get(0)
	h.drain(1)

	h = verifNewTTL(out, "ttl: held across expiry, Get + Add, second expiry, releases, Get")
	t0 = h.add(0)
	h.expire(0)
	h.get(0)
	t1 = h.add(0)
	h.expire(0)
	h.get(0)
	h.done(t1, false)
	h.done(t0, false)
	h.get(0)
	h.add(0)
	h.expire(0)
	h.drain(1)

	h = verifNewTTL(out, "ttl: held across expiry, Add, old holder done(true), new holder done(false), Get")
	t0 = h.add(0)
	h.expire(0)
	t1 = h.add(0)
	h.done(t0, true)
	h.done(t1, false)
	t2 = h.get(0)
	h.done(t2, false)
	h.get(0)
	h.drain(1)

	h = verifNewTTL(out, "ttl: held across expiry, Get, Remove, releases, Get, Add")
	t0 = h.add(1)
	h.expire(1)
	t1 = h.get(1)
	h.remove(1)
	h.done(t0, false)
	if t1 >= 0 {
		h.done(t1, false)
	}
	h.get(1)
	h.add(1)
	h.get(1)
	h.drain(2)

	h = verifNewTTL(out, "ttl: two keys held across expiry, asked for crosswise")
	t0 = h.add(0)
	t1 = h.add(1)
	h.expire(1)
	h.expire(0)
	h.get(1)
	t2 = h.add(0)
	h.done(t1, false)
	h.done(t0, false)
	h.done(t2, false)
	h.get(0)
	h.get(1)
	h.drain(2)

	h = verifNewLRU(out, 1, "lru cap 1: capacity eviction while held")
	t0 = h.add(0)
	t1 = h.add(1)
	h.get(0)
	h.done(t0, false)
	h.done(t1, false)
	h.drain(2)

	h = verifNewLRU(out, 0, "lru cap 0: unbounded")
	for k := 0; k < 5; k++ {
		h.add(k)
	}
	h.get(0)
	h.drain(5)

	h = verifNewLRU(out, 2, "lru cap 2: get and add-existing move to front")
	h.add(0)
	h.add(1)
	h.get(0)
	h.add(2) // evicts key 1
	h.get(1)
	h.add(0) // existing: to front
	h.add(1) // evicts key 2
	h.get(2)
	h.drain(3)

	h = verifNewLRU(out, 1, "lru cap 1: re-add while the older value is held")
	t0 = h.add(0)
	h.add(1)
	t2 = h.add(0)
	h.done(t0, false)
	h.get(0)
	h.done(t2, false)
	h.done(t2, false)
	h.drain(2)

	h = verifNewLRU(out, 3, "lru cap 3: remove of a missing key, double done")
	h.remove(0)
	t0 = h.add(0)
	h.remove(1)
	h.done(t0, false)
	h.done(t0, false)
	h.remove(0)
	h.remove(0)
	h.drain(2)
}

// ---- random histories ---------------------------------------------------------------------

func verifRandomHistory(out *verifutil.Out, rnd *verifutil.Rand, n int) {
	nkeys := 3 + rnd.Intn(3)
	var h *verifHist
	lru := rnd.Bool()
	if lru {
		h = verifNewLRU(out, rnd.Intn(4), fmt.Sprintf("random lru history %d", n))
	} else {
		// two histories in three drive expiry through the production timer, the third through the
		// shim's copy of it (also reaches a stale timer hitting a re-added key)
		h = verifNewTTLx(out, fmt.Sprintf("random ttl history %d", n), n%3 != 0)
	}
	nops := 5 + rnd.Intn(60)
	// per-history bias so that some histories are release-heavy, others add-heavy
	wAdd, wGet, wDone, wRem, wExp := 2+rnd.Intn(5), 1+rnd.Intn(4), 2+rnd.Intn(6), rnd.Intn(3), rnd.Intn(3)
	if lru {
		wExp = 0
	}
	for i := 0; i < nops; i++ {
		switch rnd.Pick(wAdd, wGet, wDone, wRem, wExp) {
		case 0:
			h.add(rnd.Intn(nkeys))
		case 1:
			h.get(rnd.Intn(nkeys))
		case 2:
			if len(h.toks) == 0 {
				h.add(rnd.Intn(nkeys))
				continue
			}
			// prefer unreleased closures, but call released ones again one time in four
			tok := rnd.Intn(len(h.toks))
			if rnd.Intn(4) != 0 {
				var live []int
				for j, t := range h.toks {
					if !t.released {
						live = append(live, j)
					}
				}
				if len(live) > 0 {
					tok = live[rnd.Intn(len(live))]
				}
			}
			h.done(tok, !lru && rnd.Intn(5) < 2)
		case 3:
			h.remove(rnd.Intn(nkeys))
		default:
			h.expire(rnd.Intn(nkeys))
		}
	}
	h.drain(nkeys)
}

// TestVerifC10 : scripted edge scenarios, then random histories.
func TestVerifC10(t *testing.T) {
	rnd := verifutil.NewRand(verifutil.Seed())
	out := verifutil.OpenOut()
	defer out.Close()
	verifScenarios(out)
	nhist := verifutil.EnvInt("VERIF_N", 2000)
	for n := 0; n < nhist; n++ {
		verifRandomHistory(out, rnd, n)
	}
}
