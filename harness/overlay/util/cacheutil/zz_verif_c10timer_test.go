//go:build verif || verif_c10

package cacheutil

import (
	"fmt"
	"strings"
	"sync"
	"sync/atomic"
	"testing"
	"time"

	"github.com/containerd/stargz-snapshotter/internal/verifutil"
)

// TestVerifC10Timer : histories on TTLCaches with a REAL, short ttl, through the exported API only
// (so it also runs in the no-shim fallback).  Nothing here calls an eviction function on behalf of the
// timer: whatever the tree under test does when a ttl runs out is what runs, on the timer goroutine,
// with whatever state it keeps for later operations.  One client goroutine per cache performs
//
//	add / get / ask (= Get, on a miss Add of a new value: what every user of the cache does) /
//	done(evict or not, sometimes repeated) / remove / wait (= sleep past the ttl + one timer round trip)
//
// so that values are held across their expiry, asked for again before / after their last holder let
// go, expire a second time, ...  Scripted orders of that shape first, then random ones.
//
// When exactly a timer fires is not observable through the API without disturbing the history, and it
// is NOT assumed: the oracle is sound for every timing (a late timer under machine load can not raise
// an alarm):
//   - a value handed out by Add/Get belongs to the key, was accepted by an Add, and is not finalised
//     when handed out nor until its holder begins to release it;
//   - OnEvicted never runs twice for a value, never while somebody holds it, never for a value no
//     Add accepted;
//   - at the end (every closure called, every key removed - both synchronous): every value an Add
//     accepted was finalised exactly once.
//
// The timing only decides which branch a history takes (counted as timer.* statistics).
func TestVerifC10Timer(t *testing.T) {
	out := verifutil.OpenOut()
	defer out.Close()
	out.Comment("oracle-only histories on real short-ttl caches; nothing to compare with the model")
	out.Emit("t.new", "ok")
	nrand := verifutil.EnvInt("VERIF_N", 96)
	var hs []*verifTHist
	ttls := []time.Duration{8 * time.Millisecond, 30 * time.Millisecond}
	for i, sc := range verifTimerScripts {
		for _, ttl := range ttls {
			hs = append(hs, &verifTHist{out: out, desc: fmt.Sprintf("timer script %d (%s) ttl=%v", i, sc.name, ttl), ttl: ttl, steps: sc.steps})
		}
	}
	for n := 0; n < nrand; n++ {
		rnd := verifutil.NewRand(verifutil.Seed()*1000003 + 77777 + uint64(n))
		ttl := time.Duration(5+rnd.Intn(40)) * time.Millisecond
		hs = append(hs, &verifTHist{out: out, desc: fmt.Sprintf("timer random %d ttl=%v", n, ttl), ttl: ttl, steps: verifTimerRandom(rnd)})
	}
	// the histories mostly sleep: run them side by side (bounded), each on its own cache
	sem := make(chan struct{}, 48)
	var wg sync.WaitGroup
	for _, h := range hs {
		wg.Add(1)
		sem <- struct{}{}
		go func(h *verifTHist) {
			defer wg.Done()
			defer func() { <-sem }()
			h.run()
		}(h)
	}
	wg.Wait()
	for _, h := range hs {
		out.Distinct("timer/" + h.shape.String())
		for k, n := range h.stats {
			out.Stats[k] += n
		}
	}
}

type verifTStep struct {
	op    byte // 'A' add, 'G' get, 'Q' ask, 'D' done, 'R' remove, 'W' wait, 'Z' done for every open holder
	k     int  // key; for 'D': index into the open holders (mod their number)
	evict bool
	twice bool
}

type verifTScript struct {
	name  string
	steps []verifTStep
}

var verifTimerScripts = []verifTScript{
	{"held across expiry, ask, all done(false), get", []verifTStep{
		{op: 'A'}, {op: 'W'}, {op: 'Q'}, {op: 'Z'}, {op: 'G'}, {op: 'Z'}, {op: 'G'}}},
	{"held across expiry, get, all done(false), get", []verifTStep{
		{op: 'A'}, {op: 'W'}, {op: 'G'}, {op: 'Z'}, {op: 'G'}, {op: 'Z'}, {op: 'Q'}}},
	{"held across expiry, add, all done(false), get", []verifTStep{
		{op: 'A'}, {op: 'G'}, {op: 'W'}, {op: 'A'}, {op: 'Z'}, {op: 'G'}, {op: 'Z'}, {op: 'G'}}},
	{"held across expiry, ask, done twice each, ask", []verifTStep{
		{op: 'A'}, {op: 'W'}, {op: 'Q'}, {op: 'D', k: 1, twice: true}, {op: 'D', k: 0, twice: true}, {op: 'Q'}, {op: 'Z'}, {op: 'G'}}},
	{"held across expiry, ask, old holder done(true), rest done(false), get", []verifTStep{
		{op: 'A'}, {op: 'W'}, {op: 'Q'}, {op: 'D', k: 0, evict: true}, {op: 'Z'}, {op: 'G'}, {op: 'Z'}, {op: 'G'}}},
	{"held across expiry, ask, second expiry, all done(false), ask, get", []verifTStep{
		{op: 'A'}, {op: 'W'}, {op: 'Q'}, {op: 'W'}, {op: 'Z'}, {op: 'Q'}, {op: 'Z'}, {op: 'G'}}},
	{"held across expiry, ask, remove, all done(false), get, ask", []verifTStep{
		{op: 'A'}, {op: 'W'}, {op: 'Q'}, {op: 'R'}, {op: 'Z'}, {op: 'G'}, {op: 'Q'}, {op: 'Z'}, {op: 'G'}}},
	{"unheld at expiry, ask, done, get", []verifTStep{
		{op: 'A'}, {op: 'Z'}, {op: 'W'}, {op: 'Q'}, {op: 'Z'}, {op: 'G'}}},
	{"two keys held across expiry, asked crosswise", []verifTStep{
		{op: 'A', k: 0}, {op: 'A', k: 1}, {op: 'W'}, {op: 'G', k: 1}, {op: 'Q', k: 0}, {op: 'Z'}, {op: 'G', k: 0}, {op: 'G', k: 1}, {op: 'Z'}, {op: 'Q', k: 1}}},
}

const verifTimerKeys = 2

func verifTimerRandom(rnd *verifutil.Rand) []verifTStep {
	n := 6 + rnd.Intn(10)
	waits := 0
	steps := []verifTStep{{op: 'A', k: rnd.Intn(verifTimerKeys)}}
	for i := 0; i < n; i++ {
		k := rnd.Intn(verifTimerKeys)
		switch rnd.Pick(3, 4, 3, 6, 1, 3, 2) {
		case 0:
			steps = append(steps, verifTStep{op: 'A', k: k})
		case 1:
			steps = append(steps, verifTStep{op: 'G', k: k})
		case 2:
			steps = append(steps, verifTStep{op: 'Q', k: k})
		case 3:
			steps = append(steps, verifTStep{op: 'D', k: rnd.Intn(8), evict: rnd.Intn(5) == 0, twice: rnd.Intn(5) == 0})
		case 4:
			steps = append(steps, verifTStep{op: 'R', k: k})
		case 5:
			if waits < 3 {
				waits++
				steps = append(steps, verifTStep{op: 'W'})
			}
		default:
			steps = append(steps, verifTStep{op: 'Z'})
		}
	}
	return steps
}

type verifTVal struct {
	id      int
	key     int
	calls   atomic.Int32
	holders atomic.Int32 // holders that have got it and have not begun to release it
	in      atomic.Bool  // an Add of it reported added=true
}

type verifTHold struct {
	v    *verifTVal
	done func(bool)
}

type verifTHist struct {
	out   *verifutil.Out
	desc  string
	ttl   time.Duration
	steps []verifTStep
	c     *TTLCache
	vals  []*verifTVal
	open  []verifTHold
	shape strings.Builder
	stats map[string]int
	mu    sync.Mutex // log (read by OnEvicted on the timer goroutine)
	log   []string
}

func (h *verifTHist) note(s string) {
	h.mu.Lock()
	h.log = append(h.log, s)
	h.mu.Unlock()
}

// fail reports with the executed history (ops and their outcomes) - the concrete failing input.
func (h *verifTHist) fail(sig, what string) {
	h.mu.Lock()
	l := strings.Join(h.log, " ")
	h.mu.Unlock()
	h.out.Fail(sig, fmt.Sprintf("%s: %s; history so far: %s", h.desc, what, l))
}

func (h *verifTHist) onEvicted(key string, value any) {
	v, ok := value.(*verifTVal)
	if !ok {
		h.fail("callback-foreign-value", fmt.Sprintf("OnEvicted(%s) got a value nobody added", key))
		return
	}
	if key != verifKey(v.key) {
		h.fail("callback-wrong-key", fmt.Sprintf("OnEvicted(%s, value %d of key %d)", key, v.id, v.key))
	}
	if n := v.calls.Add(1); n > 1 {
		h.fail("callback-twice", fmt.Sprintf("real ttl: value %d finalised %d times", v.id, n))
	}
	if n := v.holders.Load(); n > 0 {
		h.fail("callback-while-held", fmt.Sprintf("real ttl: value %d finalised while %d holders hold it", v.id, n))
	}
	if !v.in.Load() {
		h.fail("callback-for-never-added", fmt.Sprintf("real ttl: value %d finalised although no Add accepted it", v.id))
	}
}

func (h *verifTHist) acquired(v *verifTVal, done func(bool), how string) {
	v.holders.Add(1)
	if v.calls.Load() != 0 {
		h.fail("get-returned-finalised", fmt.Sprintf("real ttl: %s handed out value %d whose OnEvicted already ran", how, v.id))
	}
	if !v.in.Load() {
		h.fail("get-returned-never-added", fmt.Sprintf("real ttl: %s handed out value %d although no Add accepted it", how, v.id))
	}
	h.open = append(h.open, verifTHold{v, done})
}

func (h *verifTHist) add(k int) {
	nv := &verifTVal{id: len(h.vals), key: k}
	h.vals = append(h.vals, nv)
	rv, d, added := h.c.Add(verifKey(k), nv)
	v, ok := rv.(*verifTVal)
	if !ok {
		h.fail("add-returned-other-value", "real ttl: Add returned a value nobody added")
		return
	}
	h.note(fmt.Sprintf("add(k%d,v%d)->v%d,added=%v", k, nv.id, v.id, added))
	if v.key != k {
		h.fail("add-returned-other-value", fmt.Sprintf("real ttl: Add(k%d) returned value %d of key %d", k, v.id, v.key))
	}
	if added {
		if v != nv {
			h.fail("add-returned-other-value", "real ttl: added=true with another value")
		}
		nv.in.Store(true)
		h.shape.WriteByte('A')
	} else {
		if v == nv {
			h.fail("add-returned-other-value", "real ttl: added=false with the new value")
		}
		h.shape.WriteByte('a')
	}
	h.acquired(v, d, "Add")
}

func (h *verifTHist) get(k int) bool {
	rv, d, ok := h.c.Get(verifKey(k))
	if !ok {
		h.note(fmt.Sprintf("get(k%d)->miss", k))
		h.shape.WriteByte('g')
		return false
	}
	v, isv := rv.(*verifTVal)
	if !isv {
		h.fail("get-wrong-value", "real ttl: Get returned a value nobody added")
		return true
	}
	h.note(fmt.Sprintf("get(k%d)->v%d", k, v.id))
	if v.key != k {
		h.fail("get-wrong-value", fmt.Sprintf("real ttl: Get(k%d) returned value %d of key %d", k, v.id, v.key))
	}
	h.shape.WriteByte('G')
	h.acquired(v, d, "Get")
	return true
}

func (h *verifTHist) release(i int, evict, twice bool) {
	x := h.open[i]
	h.open = append(h.open[:i], h.open[i+1:]...)
	// the holder looks at its value one last time: it must still be open
	if x.v.calls.Load() != 0 {
		h.fail("closed-under-holder", fmt.Sprintf("real ttl: value %d finalised while held", x.v.id))
	}
	x.v.holders.Add(-1)
	h.note(fmt.Sprintf("done(v%d,%v)", x.v.id, evict))
	x.done(evict)
	if twice {
		h.note(fmt.Sprintf("done-again(v%d,false)", x.v.id))
		x.done(false) // releasing twice is harmless
	}
	h.shape.WriteByte(map[bool]byte{true: 'V', false: 'D'}[evict])
}

// wait sleeps past the ttl and then lets one timer armed afterwards fire and run, so that - unless
// the machine is so loaded that timers of this process run late, which is tolerated - the ttl of
// everything cached before has run out.
func (h *verifTHist) wait() {
	time.Sleep(h.ttl + h.ttl/4)
	ch := make(chan struct{})
	time.AfterFunc(0, func() { close(ch) })
	<-ch
	h.note("wait(ttl)")
	h.shape.WriteByte('W')
}

func (h *verifTHist) run() {
	h.stats = map[string]int{}
	h.c = NewTTLCache(h.ttl)
	h.c.OnEvicted = h.onEvicted
	waited := map[int]bool{} // keys added before the last wait and not asked for since
	for _, s := range h.steps {
		switch s.op {
		case 'A':
			h.add(s.k)
			h.stats["timer.add"]++
		case 'G', 'Q':
			hit := h.get(s.k)
			if waited[s.k] {
				// informational only: which way did the history go
				h.stats[map[bool]string{true: "timer.hit-after-wait", false: "timer.miss-after-wait"}[hit]]++
				delete(waited, s.k)
			}
			if !hit && s.op == 'Q' {
				h.add(s.k)
			}
			h.stats["timer.get"]++
		case 'D':
			if len(h.open) > 0 {
				h.release(s.k%len(h.open), s.evict, s.twice)
				h.stats["timer.done"]++
			}
		case 'Z':
			for len(h.open) > 0 {
				h.release(0, false, false)
				h.stats["timer.done"]++
			}
		case 'R':
			h.c.Remove(verifKey(s.k))
			h.note(fmt.Sprintf("remove(k%d)", s.k))
			h.shape.WriteByte('R')
			h.stats["timer.remove"]++
		case 'W':
			held := false
			for _, x := range h.open {
				if x.v.calls.Load() == 0 {
					held = true
				}
			}
			h.wait()
			for k := 0; k < verifTimerKeys; k++ {
				waited[k] = true
			}
			h.stats["timer.wait"]++
			if held {
				h.stats["timer.wait-while-held"]++
			}
		}
	}
	// drain: every closure called, every key removed; both are synchronous, no timer is needed
	for len(h.open) > 0 {
		h.release(0, false, false)
	}
	for k := 0; k < verifTimerKeys; k++ {
		h.c.Remove(verifKey(k))
	}
	h.note("drain")
	for k := 0; k < verifTimerKeys; k++ {
		if _, d, ok := h.c.Get(verifKey(k)); ok {
			h.fail("get-hit-uncached", fmt.Sprintf("real ttl: key %d still cached after it was removed", k))
			d(false)
		}
	}
	for _, v := range h.vals {
		calls := v.calls.Load()
		switch {
		case v.in.Load() && calls == 0:
			h.fail("leak", fmt.Sprintf("real ttl: value %d never finalised after every holder released and every key was removed", v.id))
		case v.in.Load() && calls != 1:
			h.fail("callback-twice", fmt.Sprintf("real ttl: value %d finalised %d times", v.id, calls))
		case !v.in.Load() && calls != 0:
			h.fail("callback-for-never-added", fmt.Sprintf("real ttl: value %d finalised although no Add accepted it", v.id))
		}
	}
	h.stats["timer.histories"]++
	h.stats["timer.values"] += len(h.vals)
}
