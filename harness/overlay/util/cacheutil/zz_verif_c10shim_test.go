//go:build (verif || verif_c10) && !verif_c10_noshim

package cacheutil

// Package-internal observations for the C10 harness.  This is the ONLY C10 file that names
// unexported identifiers of the package (TTLCache.mu, TTLCache.m, TTLCache.evictLocked,
// refCounter.v, LRUCache.mu, LRUCache.cache).  If it stops compiling the check falls back to
// zz_verif_c10noshim_test.go.

const verifC10HasShim = true

// verifC10Expire is what the entry's time.AfterFunc function does: lock + evictLocked(key).
func verifC10Expire(c *TTLCache, key string) {
	c.mu.Lock()
	defer c.mu.Unlock()
	c.evictLocked(key)
}

func verifC10TTLLen(c *TTLCache) (int, bool) {
	c.mu.Lock()
	defer c.mu.Unlock()
	return len(c.m), true
}

// verifC10TTLPeek returns the payload stored under key without taking a reference.
func verifC10TTLPeek(c *TTLCache, key string) (v any, ok bool, can bool) {
	c.mu.Lock()
	defer c.mu.Unlock()
	rc, ok := c.m[key]
	if !ok {
		return nil, false, true
	}
	return rc.v, true, true
}

func verifC10LRULen(c *LRUCache) (int, bool) {
	c.mu.Lock()
	defer c.mu.Unlock()
	return c.cache.Len(), true
}
