//go:build (verif || verif_c10) && !verif_c10_noshim

package cacheutil

// Package-internal observations for the C10 harness.  This is the ONLY C10 file that names
// unexported identifiers of the package (TTLCache.mu, TTLCache.m, TTLCache.evictLocked,
// refCounter.v, refCounterWithTimer.t, LRUCache.mu, LRUCache.cache).  If it stops compiling the check falls back to
// zz_verif_c10noshim_test.go.

const verifC10HasShim = true

// verifC10Expire is what the entry's time.AfterFunc function does: lock + evictLocked(key).
func verifC10Expire(c *TTLCache, key string) {
	c.mu.Lock()
	defer c.mu.Unlock()
	c.evictLocked(key)
}

// verifC10FireTimer makes the PRODUCTION timer of the entry cached under key fire now
// (Timer.Reset(0) on the entry's own *time.Timer): the expiry then runs on the timer goroutine
// through whatever function the tree under test handed to time.AfterFunc - not through a copy of
// it.  `gone` reports (without side effects) whether that entry has left c.m or was replaced.
// armed=false: the key is not cached (nothing to fire).
func verifC10FireTimer(c *TTLCache, key string) (gone func() bool, armed bool) {
	c.mu.Lock()
	rc, ok := c.m[key]
	c.mu.Unlock()
	if !ok {
		return nil, false
	}
	rc.t.Reset(0)
	return func() bool {
		c.mu.Lock()
		defer c.mu.Unlock()
		cur, ok := c.m[key]
		return !ok || cur != rc
	}, true
}

func verifC10TTLLen(c *TTLCache) (int, bool) {
	c.mu.Lock()
	defer c.mu.Unlock()
	return len(c.m), true
}

// verifC10TTLPeek returns the payload stored under key without taking a reference.
func verifC10TTLPeek(c *TTLCache, key string) (v any, ok bool, can bool) {
	c.mu.Lock()
	defer c.mu.Unlock()
	rc, ok := c.m[key]
	if !ok {
		return nil, false, true
	}
	return rc.v, true, true
}

func verifC10LRULen(c *LRUCache) (int, bool) {
	c.mu.Lock()
	defer c.mu.Unlock()
	return c.cache.Len(), true
}
