//go:build verif

package db

import (
	"archive/tar"
	"fmt"
	"sync"
	"testing"
	"time"

	"github.com/containerd/stargz-snapshotter/internal/verifc02"
	"github.com/containerd/stargz-snapshotter/internal/verifutil"
)

// C15 over the db metadata store (exported API of fs/layer only, oracle-only for the cache contents):
// after Prefetch the files of the prefetched range, after BackgroundFetch every regular file, are
// read completely with the registry unreachable and without a single blob fetch; a no-prefetch
// landmark means no registry traffic; failures and stalls during prefetch leave waits returning.

func (s *verifDBStack) readOffline(out *verifutil.Out, rnd *verifutil.Rand, p, sig, why string) {
	data := s.view[p].Content
	step := int(rnd.Range(1, int64(len(data))+3))
	s.rt.ResetLog()
	for off := int64(0); ; off += int64(step) {
		if !s.opRead(out, p, off, step, true, "offline-") {
			out.Fail(sig, fmt.Sprintf("db store, %s: reading %q at %d+%d with the registry unreachable failed [%s | %s]", why, p, off, step, s.opts, s.cfgStr))
			return
		}
		if off >= int64(len(data)) {
			break
		}
	}
	if n, _ := s.rt.Snapshot(); n != 0 {
		out.Fail(sig+"-fetched", fmt.Sprintf("db store, %s: reading %q completely issued %d blob fetch request(s)", why, p, n))
	}
	out.Count("offline-file")
}

func verifWatchDB(out *verifutil.Out, what string, d time.Duration, f func()) {
	done := make(chan struct{})
	go func() { defer close(done); f() }()
	select {
	case <-done:
	case <-time.After(d):
		out.Fail("hang-"+what, fmt.Sprintf("%s did not return within %v (db store)", what, d))
		out.Close()
		panic("hang: " + what)
	}
}

// TestVerifC15DB — C15 over the db metadata store.
func TestVerifC15DB(t *testing.T) {
	rnd := verifutil.NewRand(verifc02.MixSeed(verifutil.Seed(), 16))
	out := verifutil.OpenOut()
	defer out.Close()
	nhist := verifutil.EnvInt("VERIF_N", 16)
	kinds := []string{"normal", "normal", "fail", "stall"}
	for h := 0; h < nhist; h++ {
		ents := verifc02.GenTar(rnd, verifc02.GenParams{MaxEntries: 8, ChunkHint: []int64{64, 500}[rnd.Intn(2)], MaxFile: 3000, NoLateDirs: true})
		for i := 0; i < 3; i++ {
			ents = append(ents, verifc02.Ent{Name: fmt.Sprintf("data%d", i), Type: tar.TypeReg, Mode: 0o644,
				Size: rnd.Range(1, 1500), Kind: rnd.Intn(2), Salt: int64(900 + i), MTime: 1700000000})
		}
		opts := verifc02.GenBuildOpts(rnd, ents)
		switch h % 3 {
		case 0:
			if len(opts.Prioritized) == 0 {
				opts.Prioritized = []string{"data0", "./data2"}
			}
		case 1:
			opts.Prioritized = nil
		case 2:
			opts.Plain, opts.Prioritized = true, nil
		}
		kind := kinds[(h/3+h)%len(kinds)]
		if h < 3 {
			// regression (46fe897, eb6fe18): files with several chunks in one stream, background fetch on the db store
			ents = []verifc02.Ent{{Name: "a", Type: tar.TypeReg, Mode: 0o644, Size: 300, Salt: 1}, {Name: "e", Type: tar.TypeReg, Mode: 0o644, Salt: 2},
				{Name: "b", Type: tar.TypeReg, Mode: 0o644, Size: 700, Kind: 1, Salt: 3}}
			opts = verifc02.BuildOpts{ChunkSize: 64, MinChunkSize: 100000, Plain: h == 2}
			if h == 0 {
				opts.Prioritized = []string{"a", "e"}
			}
			kind = "normal"
		}
		s, err := verifNewDBStack(rnd, ents, opts, true, 1, 0)
		if err != nil {
			out.Fail("db-stack-setup-failed", fmt.Sprintf("history %d: %v [%s]", h, err, opts))
			continue
		}
		size := int64(len(s.blob))
		cfgSize := []int64{0, size + 10, rnd.Range(0, size), rnd.Range(0, size)}[rnd.Intn(4)]
		r, doPrefetch := cfgSize, true
		if s.noPrefetch {
			doPrefetch = false
		} else if s.prefetchOff >= 0 {
			r = s.prefetchOff
		} else if r > size {
			r = size
		}
		out.Comment(fmt.Sprintf("db history %d: %s cfg=%d range=%d prefetch=%v, %s, %s", h, kind, cfgSize, r, doPrefetch, s.opts, s.cfgStr))
		s.rt.ResetLog()
		var perr error
		switch kind {
		case "normal":
			verifWatchDB(out, "prefetch", 120*time.Second, func() { perr = s.lr.Prefetch(cfgSize) })
			if perr != nil {
				out.Fail("db-prefetch-failed-without-fault", fmt.Sprintf("Prefetch(%d): %v [%s | %s]", cfgSize, perr, s.opts, s.cfgStr))
			}
		case "fail":
			s.rt.Set(true)
			verifWatchDB(out, "prefetch", 120*time.Second, func() { perr = s.lr.Prefetch(cfgSize) })
			s.rt.Set(false)
		case "stall":
			gate := make(chan struct{})
			s.rt.SetStall(gate)
			pdone := make(chan struct{})
			go func() { perr = s.lr.Prefetch(cfgSize); close(pdone) }()
			for i := 0; i < 3000 && s.rt.StalledCount() == 0; i++ {
				select {
				case <-pdone:
					i = 3000
				default:
					time.Sleep(time.Millisecond)
				}
			}
			// prefetch_timeout_sec = 1: the waits must return although the prefetch is stalled
			var wg sync.WaitGroup
			for i := 0; i < 2; i++ {
				wg.Add(1)
				go func() { defer wg.Done(); s.lr.WaitForPrefetchCompletion() }()
			}
			verifWatchDB(out, "wait", 60*time.Second, wg.Wait)
			close(gate)
			s.rt.SetStall(nil)
			verifWatchDB(out, "prefetch-after-stall", 120*time.Second, func() { <-pdone })
			out.Count("wait-returned-during-stall")
		}
		nfetch, _ := s.rt.Snapshot()
		// once Prefetch has returned, waiting returns nil
		var werr error
		verifWatchDB(out, "wait", 60*time.Second, func() { werr = s.lr.WaitForPrefetchCompletion() })
		if werr != nil {
			out.Fail("wait-error-after-prefetch-returned", fmt.Sprintf("db store: WaitForPrefetchCompletion after Prefetch had returned (err=%v): %v [%s]", perr, werr, kind))
		}
		if !doPrefetch && (nfetch != 0 || perr != nil) {
			out.Fail("noprefetch-traffic", fmt.Sprintf("db store, no-prefetch landmark: Prefetch caused %d registry fetch(es), err=%v", nfetch, perr))
		}
		if doPrefetch && perr == nil {
			for _, p := range s.regs() {
				n := s.view[p]
				f := s.files[n.Path]
				if f == nil || len(f.Chunks) == 0 || f.Chunks[0].Offset < r {
					s.readOffline(out, rnd, p, "prioritized-read-not-local", fmt.Sprintf("after Prefetch (range [0,%d), landmark at %d)", r, s.prefetchOff))
				}
			}
			out.Count("prefetch-ok")
		}
		// second Prefetch: no traffic
		s.rt.ResetLog()
		if err := s.lr.Prefetch(cfgSize + 3); err != nil {
			out.Fail("second-prefetch-not-a-noop", fmt.Sprintf("db store: second Prefetch returned %v", err))
		}
		if n, _ := s.rt.Snapshot(); n != 0 {
			out.Fail("second-prefetch-not-a-noop", fmt.Sprintf("db store: second Prefetch issued %d fetches", n))
		}
		// background fetch, then everything offline
		var bgerr error
		verifWatchDB(out, "bgfetch", 180*time.Second, func() { bgerr = s.lr.BackgroundFetch() })
		if bgerr != nil {
			out.Fail("bgfetch-failed-without-fault", fmt.Sprintf("db store: BackgroundFetch: %v [%s | %s]", bgerr, s.opts, s.cfgStr))
		} else {
			for _, p := range s.regs() {
				s.readOffline(out, rnd, p, "offline-read-failed-after-bgfetch", "after a successful BackgroundFetch")
			}
			out.Count("bgfetch-ok")
		}
		if err := s.lr.BackgroundFetch(); err != nil {
			out.Fail("second-bgfetch-not-a-noop", fmt.Sprintf("db store: second BackgroundFetch returned %v", err))
		}
		out.Distinct(fmt.Sprintf("db/%s/%d/%v/%d/%s/%s", kind, cfgSize, s.noPrefetch, s.prefetchOff, s.opts, s.cfgStr))
		s.close()
	}
}
