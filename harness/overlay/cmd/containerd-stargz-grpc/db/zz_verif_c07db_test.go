//go:build verif

package db

// C07 over the db (bbolt) metadata store.  The db store lives in the cmd module, so the layer is served
// through the exported API only: a real layer.Resolver with `metadataStore = db` over the scripted
// registry, layer.RootNode, and the go-fuse node interfaces.  Generator, schedule and oracle are the ones
// of the memory-store harness (internal/verifc07); the same Lean driver answers the op lines.
//
// What node.go reads (ids, children, attributes) is taken from an independent db reader over the same
// blob (the db store numbers entries in TOC order, so both readers agree on ids).
// Not compared on this store: the root node's own Getattr (the db store's root attribute block is read
// before it is initialised: db-root-attr-read-before-init, recorded under C02/C05).  Link counts are not
// part of the C07 canonical form at all.

import (
	"bytes"
	"context"
	"io"
	"os"
	"testing"
	"time"

	"github.com/containerd/containerd/v2/pkg/reference"
	"github.com/containerd/stargz-snapshotter/estargz"
	"github.com/containerd/stargz-snapshotter/fs/config"
	"github.com/containerd/stargz-snapshotter/fs/layer"
	"github.com/containerd/stargz-snapshotter/internal/verifc07"
	"github.com/containerd/stargz-snapshotter/internal/verifreg"
	"github.com/containerd/stargz-snapshotter/metadata"
	"github.com/containerd/stargz-snapshotter/task"
	digest "github.com/opencontainers/go-digest"
	ocispec "github.com/opencontainers/image-spec/specs-go/v1"
	bolt "go.etcd.io/bbolt"
)

func verifC07DBStore(dir string) metadata.Store {
	return func(sr *io.SectionReader, opts ...metadata.Option) (metadata.Reader, error) {
		f, err := os.CreateTemp(dir, "verifc07db")
		if err != nil {
			return nil, err
		}
		f.Close()
		db, err := bolt.Open(f.Name(), 0600, nil)
		if err != nil {
			return nil, err
		}
		r, err := NewReader(db, sr, opts...)
		if err != nil {
			db.Close()
			return nil, err
		}
		return &readCloser{Reader: r, closeFn: func() error { db.Close(); return os.Remove(f.Name()) }}, nil
	}
}

type verifC07DB struct{}

func (verifC07DB) Name() string   { return "db" }
func (verifC07DB) Consts() string { return "" } // node.go's constants are unexported; the fs/layer harness compares them

func (verifC07DB) Serve(t verifc07.T, sgz *io.SectionReader, tocDgst digest.Digest, base uint32, om string, size, fetched int64) *verifc07.Served {
	blob, err := io.ReadAll(io.NewSectionReader(sgz, 0, sgz.Size()))
	if err != nil {
		t.Fatalf("read blob: %v", err)
	}
	root, err := os.MkdirTemp(os.Getenv("VERIF_WORK"), "c07db-")
	if err != nil {
		t.Fatalf("mkdtemp: %v", err)
	}
	reg := verifreg.New()
	dgst := digest.FromBytes(blob)
	reg.AddBlob(dgst.String(), blob)
	opq := map[string]layer.OverlayOpaqueType{"all": layer.OverlayOpaqueAll, "trusted": layer.OverlayOpaqueTrusted, "user": layer.OverlayOpaqueUser}[om]
	fcfg := config.Config{
		BlobConfig: config.BlobConfig{ChunkSize: 50000, ValidInterval: 3600, FetchTimeoutSec: 20, MaxRetries: 1, MinWaitMSec: 1, MaxWaitMSec: 2},
		DirectoryCacheConfig: config.DirectoryCacheConfig{MaxLRUCacheEntry: 2, MaxCacheFds: 2, SyncAdd: true},
		FSCacheType:          "memory",
		HTTPCacheType:        "memory",
	}
	res, err := layer.NewResolver(root, task.NewBackgroundTaskManager(2, time.Millisecond), fcfg, nil, verifC07DBStore(root), opq, nil)
	if err != nil {
		t.Fatalf("NewResolver: %v", err)
	}
	refspec, err := reference.Parse(reg.RegHost + "/img/test:latest")
	if err != nil {
		t.Fatalf("reference: %v", err)
	}
	lr, err := res.Resolve(context.Background(), reg.Hosts(nil), refspec, ocispec.Descriptor{Digest: dgst, Size: int64(len(blob))})
	if err != nil {
		t.Fatalf("Resolve: %v", err)
	}
	if err := lr.Verify(tocDgst); err != nil {
		t.Fatalf("Verify: %v", err)
	}
	mk := func() verifc07.Node {
		rn, err := lr.RootNode(base)
		if err != nil {
			t.Fatalf("RootNode: %v", err)
		}
		return verifc07.InitRoot(rn) // initializes the root inode
	}
	mr, err := verifC07DBStore(root)(io.NewSectionReader(bytes.NewReader(blob), 0, int64(len(blob))),
		metadata.WithDecompressors(&estargz.GzipDecompressor{}))
	if err != nil {
		t.Fatalf("independent db reader: %v", err)
	}
	return &verifc07.Served{
		Root:               mk(),
		FreshRoot:          mk,
		Meta:               mr,
		Digest:             dgst.String(),
		Size:               int64(len(blob)),
		Fetched:            func() int64 { return lr.Info().FetchedSize },
		RootAttrUnreliable: true,
		Close: func() {
			mr.Close()
			lr.Close()
			os.RemoveAll(root)
		},
	}
}

// TestVerifC07DB — main stream over the db metadata store.
func TestVerifC07DB(t *testing.T) { verifc07.Run(t, verifC07DB{}, false) }

// TestVerifC07DBFindings — regression stream (whiteouts whose target can never be looked up) over the db store.
func TestVerifC07DBFindings(t *testing.T) { verifc07.Run(t, verifC07DB{}, true) }
