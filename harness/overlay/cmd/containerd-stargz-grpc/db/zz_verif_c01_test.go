//go:build verif

package db

// C01 harness over the db (bbolt) metadata store: the same scenarios, op lines and oracle as the
// fs/reader harness (internal/verifc01), the verifiable reader being reached through the exported
// API of fs/reader only.

import (
	"crypto/sha256"
	"fmt"
	"io"
	"os"
	"testing"

	"github.com/containerd/stargz-snapshotter/cache"
	fsreader "github.com/containerd/stargz-snapshotter/fs/reader"
	"github.com/containerd/stargz-snapshotter/internal/verifc01"
	"github.com/containerd/stargz-snapshotter/internal/verifutil"
	"github.com/containerd/stargz-snapshotter/metadata"
	digest "github.com/opencontainers/go-digest"
	bolt "go.etcd.io/bbolt"
)

type verifC01VR struct{ vr *fsreader.VerifiableReader }

func (a *verifC01VR) VerifyTOC(d digest.Digest) error { _, err := a.vr.VerifyTOC(d); return err }
func (a *verifC01VR) Skip()                          { a.vr.SkipVerify() }
func (a *verifC01VR) Cache(filter func(int64) bool) error {
	return a.vr.Cache(fsreader.WithFilter(filter))
}
func (a *verifC01VR) CacheReader(sr *io.SectionReader) error {
	return a.vr.Cache(fsreader.WithReader(sr))
}
func (a *verifC01VR) ReadAndCache(id uint32, r io.Reader, off, size int64, dgst string) (error, bool) {
	return nil, false
}
func (a *verifC01VR) OpenFile(id uint32) (io.ReaderAt, error) { return a.vr.SkipVerify().OpenFile(id) }
func (a *verifC01VR) Passthrough(ra io.ReaderAt, mergeBuf int64, workers int) (uintptr, cache.Reader, error) {
	g, ok := ra.(fsreader.PassthroughFdGetter)
	if !ok {
		return 0, nil, fmt.Errorf("not a PassthroughFdGetter")
	}
	return g.GetPassthroughFd(mergeBuf, workers)
}

// the cache key of fs/reader (genID), replicated: sha256 of "<id>-<offset>-<size>"
func (a *verifC01VR) GenID(id uint32, off, size int64) string {
	sum := sha256.Sum256(fmt.Appendf(nil, "%d-%d-%d", id, off, size))
	return fmt.Sprintf("%x", sum)
}
func (a *verifC01VR) Close() error { return a.vr.Close() }

// verifC01Store is newStore of reader_test.go, except that the database file is also removed when
// the (altered) blob is refused.
func verifC01Store(sr *io.SectionReader, opts ...metadata.Option) (metadata.Reader, error) {
	f, err := os.CreateTemp("", "verifc01db")
	if err != nil {
		return nil, err
	}
	f.Close()
	db, err := bolt.Open(f.Name(), 0600, nil)
	if err != nil {
		os.Remove(f.Name())
		return nil, err
	}
	r, err := NewReader(db, sr, opts...)
	if err != nil {
		db.Close()
		os.Remove(f.Name())
		return nil, err
	}
	return &readCloser{
		Reader: r,
		closeFn: func() error {
			db.Close()
			return os.Remove(f.Name())
		},
	}, nil
}

func TestVerifC01DB(t *testing.T) {
	rnd := verifutil.NewRand(verifutil.Seed() + 4242)
	out := verifutil.OpenOut()
	defer out.Close()
	cfg := verifc01.Config{
		Stack: verifc01.Stack{
			Name:  "db",
			Store: verifC01Store,
			NewReader: func(mr metadata.Reader, c cache.BlobCache) (verifc01.VR, error) {
				vr, err := fsreader.NewReader(mr, c, digest.FromString("verif-c01"))
				if err != nil {
					return nil, err
				}
				return &verifC01VR{vr}, nil
			},
		},
		N:        verifutil.EnvInt("VERIF_N", 50),
		Races:    verifutil.EnvInt("VERIF_RACES", 15),
		Thorough: os.Getenv("VERIF_TIER") == "thorough",
		Caches:   []string{"mem", "dirdirect"},
		Single:   false,
		// With a min-chunk-size the db store fails to read multi-chunk files at all ("discard of
		// remaining -N bytes", also on pristine blobs; reported under C02/C05): fail-closed, no C01
		// matter, but nothing to compare either.
		NoMinChunk: true,
	}
	if err := verifc01.Run(out, rnd, cfg); err != nil {
		t.Fatalf("harness: %v", err)
	}
}
