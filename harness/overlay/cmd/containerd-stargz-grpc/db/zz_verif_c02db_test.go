//go:build verif

package db

import (
	"archive/tar"
	"bytes"
	"context"
	"fmt"
	"io"
	"os"
	"path/filepath"
	"sort"
	"strings"
	"testing"
	"time"

	"github.com/containerd/containerd/v2/pkg/reference"
	"github.com/containerd/stargz-snapshotter/estargz"
	"github.com/containerd/stargz-snapshotter/estargz/zstdchunked"
	"github.com/containerd/stargz-snapshotter/fs/config"
	"github.com/containerd/stargz-snapshotter/fs/layer"
	"github.com/containerd/stargz-snapshotter/internal/verifc02"
	"github.com/containerd/stargz-snapshotter/internal/verifreg"
	"github.com/containerd/stargz-snapshotter/internal/verifutil"
	"github.com/containerd/stargz-snapshotter/metadata"
	"github.com/containerd/stargz-snapshotter/task"
	digest "github.com/opencontainers/go-digest"
	ocispec "github.com/opencontainers/image-spec/specs-go/v1"
	bolt "go.etcd.io/bbolt"
)

// The db metadata store lives in the cmd module, so its harness can only use the exported API of
// fs/layer: real layer.Resolver over the scripted registry with `metadata_store = db`, the layer's
// nodes through the go-fuse node API.  Metadata (stat / ls / xattr) and the chunk lookup of the db
// store are compared with the Lean model; reads, prefetch and background fetch are oracle-only here
// (the instrumented chunk cache needs in-package access, see the fs/layer harness).

type verifDBStack struct {
	ents        []verifc02.Ent
	view        map[string]*verifc02.Node
	opts        verifc02.BuildOpts
	blob        []byte
	files       map[string]*verifc02.TocFile
	lines       []verifc02.TocLine
	noPrefetch  bool
	prefetchOff int64
	rt          *verifc02.RT
	root        string
	lr          layer.Layer
	tree        *verifc02.Tree
	meta        *verifc02.Meta
	mr          metadata.Reader // an independent db reader over the same blob, for the chunk lookup
	names       []string        // regular files (clean names) in index order
	cfgStr      string
}

// verifDBReadCloser closes the bolt file together with the reader (own type: the package's test
// helpers are not part of any API).
type verifDBReadCloser struct {
	metadata.Reader
	closeFn func() error
}

func (r *verifDBReadCloser) Close() error {
	err := r.Reader.Close()
	r.closeFn()
	return err
}

func verifDBStore(dir string) metadata.Store {
	return func(sr *io.SectionReader, opts ...metadata.Option) (metadata.Reader, error) {
		f, err := os.CreateTemp(dir, "verifdb")
		if err != nil {
			return nil, err
		}
		f.Close()
		db, err := bolt.Open(f.Name(), 0600, nil)
		if err != nil {
			return nil, err
		}
		r, err := NewReader(db, sr, opts...)
		if err != nil {
			db.Close()
			return nil, err
		}
		return &verifDBReadCloser{Reader: r, closeFn: func() error { db.Close(); return os.Remove(f.Name()) }}, nil
	}
}

// verifDBTweak, when set, adjusts the resolver configuration of the next stack (passthrough scenarios).
var verifDBTweak func(*config.Config)

func verifNewDBStack(rnd *verifutil.Rand, ents []verifc02.Ent, opts verifc02.BuildOpts, verify bool, timeoutSec int64, asyncSize int64) (*verifDBStack, error) {
	if opts.Plain {
		ents = verifc02.DedupLast(ents)
	}
	tarBytes, err := verifc02.WriteTar(ents)
	if err != nil {
		return nil, err
	}
	blob, tocDgst, err := verifc02.Build(tarBytes, opts)
	if err != nil {
		return nil, fmt.Errorf("build: %w", err)
	}
	toc, err := verifc02.ParseTOC(blob, opts.Zstd)
	if err != nil {
		return nil, err
	}
	s := &verifDBStack{ents: ents, view: verifc02.View(ents), opts: opts, blob: blob}
	s.files, s.lines, s.noPrefetch, s.prefetchOff = verifc02.TocLayout(toc, int64(len(blob)))
	reg := verifreg.New()
	dgst := digest.FromBytes(blob)
	reg.AddBlob(dgst.String(), blob)
	s.rt = &verifc02.RT{Reg: reg}
	s.root, err = os.MkdirTemp(os.Getenv("VERIF_WORK"), "c02db-")
	if err != nil {
		return nil, err
	}
	fcfg := config.Config{
		BlobConfig: config.BlobConfig{ChunkSize: []int64{16, 64, 512, 50000}[rnd.Intn(4)], PrefetchChunkSize: []int64{0, 128}[rnd.Intn(2)],
			ValidInterval: 3600, FetchTimeoutSec: 20, MaxRetries: 1, MinWaitMSec: 1, MaxWaitMSec: 2},
		DirectoryCacheConfig: config.DirectoryCacheConfig{MaxLRUCacheEntry: 1 + rnd.Intn(3), MaxCacheFds: 1 + rnd.Intn(3),
			SyncAdd: true, Direct: rnd.Intn(3) == 0},
		PrefetchTimeoutSec: timeoutSec,
		PrefetchAsyncSize:  asyncSize,
	}
	if rnd.Bool() {
		fcfg.FSCacheType = "memory"
	}
	if rnd.Bool() {
		fcfg.HTTPCacheType = "memory"
	}
	if verifDBTweak != nil {
		verifDBTweak(&fcfg)
	}
	s.cfgStr = fmt.Sprintf("regchunk=%d pchunk=%d fs=%q http=%q lru=%d direct=%v verify=%v", fcfg.ChunkSize, fcfg.PrefetchChunkSize,
		fcfg.FSCacheType, fcfg.HTTPCacheType, fcfg.MaxLRUCacheEntry, fcfg.Direct, verify)
	res, err := layer.NewResolver(s.root, task.NewBackgroundTaskManager(2, time.Millisecond), fcfg, nil,
		verifDBStore(s.root), layer.OverlayOpaqueAll, nil)
	if err != nil {
		s.close()
		return nil, err
	}
	refspec, err := reference.Parse(reg.RegHost + "/img/test:latest")
	if err != nil {
		s.close()
		return nil, err
	}
	s.lr, err = res.Resolve(context.Background(), s.rt.Hosts(), refspec, ocispec.Descriptor{Digest: dgst, Size: int64(len(blob))})
	if err != nil {
		s.close()
		return nil, fmt.Errorf("resolve: %w", err)
	}
	if verify {
		if err := s.lr.Verify(tocDgst); err != nil {
			s.close()
			return nil, fmt.Errorf("verify: %w", err)
		}
	} else {
		s.lr.SkipVerify()
	}
	rootNode, err := s.lr.RootNode(9)
	if err != nil {
		s.close()
		return nil, err
	}
	s.tree = verifc02.NewTree(rootNode)
	s.meta = &verifc02.Meta{T: s.tree, View: s.view, Ctx: opts.String(), SkipRootAttr: true}
	// independent db reader for ChunkEntryForOffset
	var d metadata.Decompressor = &estargz.GzipDecompressor{}
	if opts.Zstd {
		d = &zstdchunked.Decompressor{}
	}
	s.mr, err = verifDBStore(s.root)(io.NewSectionReader(bytes.NewReader(blob), 0, int64(len(blob))), metadata.WithDecompressors(d))
	if err != nil {
		s.close()
		return nil, fmt.Errorf("db reader: %w", err)
	}
	for n := range s.files {
		if n != estargz.TOCTarName {
			s.names = append(s.names, n)
		}
	}
	sort.Strings(s.names)
	return s, nil
}

func (s *verifDBStack) close() {
	if s.mr != nil {
		s.mr.Close()
	}
	if s.lr != nil {
		s.lr.Close()
	}
	if s.root != "" {
		os.RemoveAll(s.root)
	}
}

func (s *verifDBStack) lookupID(name string) (uint32, error) {
	id := s.mr.RootID()
	if name == "" {
		return id, nil
	}
	for _, c := range strings.Split(name, "/") {
		cid, _, err := s.mr.GetChild(id, c)
		if err != nil {
			return 0, err
		}
		id = cid
	}
	return id, nil
}

func (s *verifDBStack) emitLayout(out *verifutil.Out, verify bool) {
	v := 0
	if verify {
		v = 1
	}
	np, po := 0, "-"
	if s.noPrefetch {
		np = 1
	}
	if s.prefetchOff >= 0 {
		po = fmt.Sprint(s.prefetchOff)
	}
	out.Emit(fmt.Sprintf("layer d %d %d %d %s", v, len(s.blob), np, po), "ok")
	idx := map[string]int{}
	for i, n := range s.names {
		idx[n] = i
	}
	for _, l := range s.lines {
		d, fi := 0, 0
		if l.Data {
			d, fi = 1, idx[l.File]
		}
		out.Emit(fmt.Sprintf("toc %d %d %d %d %d %d", d, fi, l.ChunkOffset, l.ChunkSize, l.Offset, l.InnerOffset), "ok")
	}
	for fi, n := range s.names {
		f := s.files[n]
		var cs []string
		for _, c := range f.Chunks {
			cs = append(cs, fmt.Sprintf("%d:%d", c.ChunkOffset, c.ChunkSize))
		}
		tbl := "-"
		if len(cs) > 0 {
			tbl = strings.Join(cs, ",")
		}
		kind, salt := 2, int64(0)
		for _, e := range s.ents {
			if verifc02.Clean(e.Name) == n && e.Type == tar.TypeReg {
				kind, salt = e.Kind, e.Salt
			}
		}
		first := int64(0)
		if len(f.Chunks) > 0 {
			first = f.Chunks[0].Offset
		}
		out.Emit(fmt.Sprintf("file %d %d %d %d %d %s", fi, f.Size, kind, salt, first, tbl), "ok")
	}
}

func (s *verifDBStack) opLookup(out *verifutil.Out, fi int, x int64) {
	name := s.names[fi]
	f := s.files[name]
	id, err := s.lookupID(name)
	if err != nil {
		out.Fail("db-lookup-failed", fmt.Sprintf("%q: %v", name, err))
		return
	}
	mf, err := s.mr.OpenFile(id)
	if err != nil {
		out.Fail("metadata-openfile-failed", fmt.Sprintf("db OpenFile(%q): %v", name, err))
		return
	}
	off, size, _, ok := mf.ChunkEntryForOffset(x)
	res := "none"
	if ok {
		res = fmt.Sprintf("%d:%d", off, size)
	}
	out.Emit(fmt.Sprintf("lookup %d %d", fi, x), res)
	if x >= f.Size {
		if ok {
			out.Fail("chunk-lookup-past-eof", fmt.Sprintf("db %q size %d: offset %d -> chunk (%d,%d)", name, f.Size, x, off, size))
		}
	} else if !ok || !(off <= x && x < off+size) {
		out.Fail("chunk-lookup-wrong", fmt.Sprintf("db %q size %d: offset %d -> ok=%v chunk (%d,%d)", name, f.Size, x, ok, off, size))
	}
	out.Count("lookup")
}

// regular paths of the view (hardlink names included) with their payload
func (s *verifDBStack) regs() []string {
	var ps []string
	for _, p := range verifc02.Paths(s.view) {
		if n := s.view[p]; n.Type == tar.TypeReg {
			ps = append(ps, p)
		}
	}
	return ps
}

// opRead is oracle-only: bytes == tar payload slice, short at EOF.
func (s *verifDBStack) opRead(out *verifutil.Out, p string, off int64, n int, fail bool, sigPrefix string) bool {
	s.rt.Set(fail)
	got, errno := s.tree.Read(p, off, n)
	s.rt.Set(false)
	data := s.view[p].Content
	ctx := fmt.Sprintf("db store: file %q (size %d) off=%d n=%d [%s | %s]", p, len(data), off, n, s.opts, s.cfgStr)
	out.Comment(fmt.Sprintf("read %s %d %d fail=%v -> errno=%d k=%d", verifc02.Hex(p), off, n, fail, int(errno), len(got)))
	if errno != 0 {
		if !fail {
			out.Fail(sigPrefix+"read-failed-without-fault", ctx+fmt.Sprintf(": errno %v with a healthy registry", errno))
		}
		out.Count("read-err")
		return false
	}
	var want []byte
	if off < int64(len(data)) {
		e := off + int64(n)
		if e > int64(len(data)) {
			e = int64(len(data))
		}
		want = data[off:e]
	}
	if len(got) != len(want) {
		out.Fail(sigPrefix+"read-length", fmt.Sprintf("%s: got %d bytes, the tar has %d", ctx, len(got), len(want)))
	} else if !bytes.Equal(got, want) {
		out.Fail(sigPrefix+"read-bytes-differ", ctx+": bytes differ from the tar payload")
	}
	out.Count("read-ok")
	return true
}

func verifDBPickRead(rnd *verifutil.Rand, size int64) (int64, int) {
	switch rnd.Intn(5) {
	case 0:
		return 0, int(size + rnd.Range(0, 5))
	case 1:
		return size, 3
	case 2:
		return rnd.Range(0, size+2), int(rnd.Range(0, 6))
	}
	off := rnd.Range(0, size)
	return off, int(rnd.Range(0, size-off+2))
}

func (s *verifDBStack) dropCaches(out *verifutil.Out) {
	for _, d := range []string{"httpcache", "fscache"} {
		filepath.Walk(filepath.Join(s.root, d), func(p string, info os.FileInfo, err error) error {
			if err == nil && !info.IsDir() && !strings.Contains(p, "/wip/") {
				os.Remove(p)
			}
			return nil
		})
	}
	out.Comment("drop-caches")
	out.Count("drop-caches")
}

// verifDBPassthrough: FUSE passthrough over the db store — node.Open merges the file into one backing
// file; its whole content is compared with the tar.  Chunk sizes dividing and NOT dividing the merge
// buffer (a chunk straddling a batch boundary must take the sequential path, 6332cf7).
func verifDBPassthrough(out *verifutil.Out, rnd *verifutil.Rand) {
	geo := [][3]int64{{3, 8, 20}, {5, 12, 40}, {4, 6, 10}, {7, 16, 50}, {16, 32, 128}, {7, 21, 70}, {3, 8, 9}, {5, 12, 15}, {4, 6, 8}}
	for k, g := range geo {
		chunk, mbs, size := g[0], g[1], g[2]
		ents := []verifc02.Ent{{Name: "g/big", Type: tar.TypeReg, Mode: 0o644, Size: size, Kind: k % 2, Salt: int64(70 + k)},
			{Name: "tail", Type: tar.TypeReg, Mode: 0o644, Size: chunk + 1, Salt: int64(90 + k)}}
		opts := verifc02.BuildOpts{ChunkSize: int(chunk), Zstd: k%3 == 2}
		if k%2 == 1 {
			opts.MinChunkSize = 100
		}
		workers := 1 + k%3
		verifDBTweak = func(c *config.Config) {
			c.FSCacheType = ""
			c.Direct = true
			c.PassThrough = true
			c.MergeBufferSize = mbs
			c.MergeWorkerCount = workers
		}
		s, err := verifNewDBStack(rnd, ents, opts, true, 2, 0)
		verifDBTweak = nil
		if err != nil {
			out.Fail("db-stack-setup-failed", fmt.Sprintf("passthrough geometry %d: %v", k, err))
			continue
		}
		out.Comment(fmt.Sprintf("db passthrough geometry %d: chunk %d, merge buffer %d, file %d", k, chunk, mbs, size))
		for round := 0; round < 2; round++ {
			for _, p := range []string{"g/big", "tail"} {
				fmt.Fprintf(os.Stderr, "verif-c02db: passthrough open of %q (size %d) chunk-size=%d min-chunk-size=%d merge_buffer_size=%d merge_worker_count=%d\n",
					p, len(s.view[p].Content), chunk, opts.MinChunkSize, mbs, workers)
				fh, errno := s.tree.Open(p)
				if errno != 0 {
					out.Fail("open-failed", fmt.Sprintf("db store: open %q: %v", p, errno))
					continue
				}
				want := s.view[p].Content
				got, has := verifc02.PassthroughContent(fh, int64(len(want))+16)
				ctx := fmt.Sprintf("db store: file %q (size %d) chunk-size %d, merge buffer %d, %d workers [%s]", p, len(want), chunk, mbs, workers, s.opts)
				if !has {
					out.Fail("passthrough-fd-missing", ctx+": node.Open did not provide a passthrough fd")
				} else if len(got) != len(want) {
					out.Fail("passthrough-length-differs", fmt.Sprintf("%s: the passthrough file holds %d bytes, the tar %d", ctx, len(got), len(want)))
				} else if !bytes.Equal(got, want) {
					out.Fail("passthrough-bytes-differ", ctx+": the passthrough file differs from the tar payload")
				}
				// on-demand reads through the same handle put single chunks into the chunk cache
				if b, e := verifc02.ReadFH(fh, chunk+1, int(chunk)); e == 0 && !bytes.Equal(b, want[min(int(chunk+1), len(want)):min(int(2*chunk+1), len(want))]) {
					out.Fail("read-bytes-differ", ctx+": read through the passthrough handle differs from the tar")
				}
				verifc02.ReleaseFH(fh)
				out.Count("passthrough-fd")
			}
			// second round: the merged files are rebuilt from a partly filled chunk cache
			s.dropMerged()
		}
		out.Distinct(fmt.Sprintf("db-passthrough-geo/%d/%d/%d", chunk, mbs, size))
		s.close()
	}
}

// dropMerged removes the biggest files of the chunk-cache directory (the merged backing files are the
// only entries larger than a chunk), so that the next open rebuilds them.
func (s *verifDBStack) dropMerged() {
	filepath.Walk(filepath.Join(s.root, "fscache"), func(p string, info os.FileInfo, err error) error {
		if err == nil && !info.IsDir() && !strings.Contains(p, "/wip/") && info.Size() > 16 {
			os.Remove(p)
		}
		return nil
	})
}

// TestVerifC02DB — C02 over the db metadata store.
func TestVerifC02DB(t *testing.T) {
	rnd := verifutil.NewRand(verifc02.MixSeed(verifutil.Seed(), 3))
	out := verifutil.OpenOut()
	defer out.Close()
	nhist := verifutil.EnvInt("VERIF_N", 20)
	nops := verifutil.EnvInt("VERIF_OPS", 30)
	reg := func(name string, size int64, salt int64) verifc02.Ent {
		return verifc02.Ent{Name: name, Type: tar.TypeReg, Mode: 0o644, Size: size, Salt: salt, MTime: 1700000000}
	}
	verifDBPassthrough(out, rnd)
	// regression scenarios first (layouts of the defects repaired by 46fe897 and 8686934)
	fixed := []struct {
		ents []verifc02.Ent
		opts verifc02.BuildOpts
	}{
		{[]verifc02.Ent{reg("a", 10, 1), reg("b", 12, 3)}, verifc02.BuildOpts{ChunkSize: 4, MinChunkSize: 100000}},
		{[]verifc02.Ent{reg("a", 10, 1), reg("e", 0, 2), reg("b", 12, 3)}, verifc02.BuildOpts{ChunkSize: 4, MinChunkSize: 100000, Prioritized: []string{"a", "e", "b"}}},
		{[]verifc02.Ent{reg("d/p", 300, 4), reg("q", 700, 5), reg("d/r", 40, 6)}, verifc02.BuildOpts{ChunkSize: 64, MinChunkSize: 2000, Zstd: true}},
	}
	for h := 0; h < nhist+len(fixed); h++ {
		var ents []verifc02.Ent
		var opts verifc02.BuildOpts
		if h < len(fixed) {
			ents, opts = fixed[h].ents, fixed[h].opts
		} else {
			ents = verifc02.GenTar(rnd, verifc02.GenParams{MaxEntries: 12, ChunkHint: []int64{7, 33, 64, 500}[rnd.Intn(4)], MaxFile: 3000, NoLateDirs: true})
			opts = verifc02.GenBuildOpts(rnd, ents)
			if rnd.Intn(6) == 0 {
				opts.Plain, opts.Prioritized = true, nil
			}
		}
		verify := rnd.Intn(5) != 0
		s, err := verifNewDBStack(rnd, ents, opts, verify, 2, 0)
		if err != nil {
			out.Fail("db-stack-setup-failed", fmt.Sprintf("history %d: %v [%s]", h, err, opts))
			continue
		}
		out.Comment(fmt.Sprintf("db history %d: %d tar entries, %s, %s", h, len(s.ents), s.opts, s.cfgStr))
		s.meta.Out = out
		s.emitLayout(out, verify)
		verifc02.EmitTar(out, s.ents)
		paths := verifc02.Paths(s.view)
		regs := s.regs()
		pending := append([]string(nil), paths...)
		for i := len(pending) - 1; i > 0; i-- {
			j := rnd.Intn(i + 1)
			pending[i], pending[j] = pending[j], pending[i]
		}
		bg, pf := false, false
		for i := 0; i < nops || len(pending) > 0; i++ {
			kind := rnd.Pick(8, 3, 6, 1, 1, 1)
			if i >= nops {
				kind = 2
			}
			switch kind {
			case 0:
				if len(regs) == 0 {
					continue
				}
				p := regs[rnd.Intn(len(regs))]
				off, n := verifDBPickRead(rnd, int64(len(s.view[p].Content)))
				s.opRead(out, p, off, n, rnd.Intn(10) == 0, "")
			case 1:
				if len(s.names) == 0 {
					continue
				}
				fi := rnd.Intn(len(s.names))
				f := s.files[s.names[fi]]
				x := rnd.Range(0, f.Size+2)
				if len(f.Chunks) > 0 && rnd.Bool() {
					c := f.Chunks[rnd.Intn(len(f.Chunks))]
					x = c.ChunkOffset + []int64{0, 1, c.ChunkSize - 1, c.ChunkSize}[rnd.Intn(4)]
				}
				s.opLookup(out, fi, x)
			case 2:
				var p string
				if len(pending) > 0 {
					p, pending = pending[0], pending[1:]
				} else if rnd.Intn(4) == 0 {
					p = []string{"nope", "a/nope", ".prefetch.landmark", ".no.prefetch.landmark", "stargz.index.json"}[rnd.Intn(5)]
					if _, ok := s.view[p]; ok {
						continue
					}
				} else {
					p = paths[rnd.Intn(len(paths))]
				}
				// the root's link count is the one place where the two stores are known to disagree
				// (C05); it is checked by the oracle (either value), not sent to the model
				s.meta.Stat(p, p != "")
				if n, ok := s.view[p]; ok && n.Type == tar.TypeDir {
					s.meta.Ls(p, true)
				}
				if n, ok := s.view[p]; ok {
					names := []string{"user.foo", "user.none", "user.empty"}
					for k := range n.Xattrs {
						names = append(names, k)
					}
					sort.Strings(names)
					s.meta.Xattr(p, names[rnd.Intn(len(names))], p != "")
				}
			case 3:
				if !pf {
					pf = true
					if err := s.lr.Prefetch(int64(rnd.Range(0, int64(len(s.blob))))); err != nil {
						out.Fail("db-prefetch-failed-without-fault", fmt.Sprintf("Prefetch: %v [%s | %s]", err, s.opts, s.cfgStr))
					}
					out.Comment("prefetch")
					out.Count("prefetch")
				}
			case 4:
				if !bg {
					bg = true
					if err := s.lr.BackgroundFetch(); err != nil {
						out.Fail("db-bgfetch-failed-without-fault", fmt.Sprintf("BackgroundFetch: %v [%s | %s]", err, s.opts, s.cfgStr))
					}
					out.Comment("bgfetch")
					out.Count("bgfetch")
				}
			case 5:
				s.dropCaches(out)
			}
		}
		out.Distinct(fmt.Sprintf("db/%s/%s/%d", s.opts, s.cfgStr, len(s.ents)))
		s.close()
	}
}

// TestVerifC02DBKnown — the witnesses of the two KNOWN findings of the db store
// (findings/known_findings.txt), in a pass of their own so that the main pass keeps a strict oracle
// and a strict correspondence.  Nothing here is sent to the model.
func TestVerifC02DBKnown(t *testing.T) {
	rnd := verifutil.NewRand(verifc02.MixSeed(verifutil.Seed(), 4))
	out := verifutil.OpenOut()
	defer out.Close()
	reg := func(name string, size int64, salt int64) verifc02.Ent {
		return verifc02.Ent{Name: name, Type: tar.TypeReg, Mode: 0o644, Size: size, Salt: salt, MTime: 1700000000}
	}
	// (3) a directory entry after an entry below it
	{
		ents := []verifc02.Ent{reg("x/y/f", 5, 1), {Name: "x/y/", Type: tar.TypeDir, Mode: 0o755}}
		s, err := verifNewDBStack(rnd, ents, verifc02.BuildOpts{ChunkSize: 64}, true, 2, 0)
		if err != nil {
			out.Fail("witness-setup-failed", err.Error())
		} else {
			out.Comment("witness " + verifc02.SigDBLateDir)
			a, errno := s.tree.Getattr("x")
			if errno != 0 || a.Nlink != 3 {
				out.Fail(verifc02.SigDBLateDir, fmt.Sprintf("db store, tar [x/y/f, x/y/ (directory entry after its content)]: getattr \"x\" gives errno=%v nlink=%d, "+
					"the tar describes one subdirectory (nlink 3)", errno, a.Nlink))
			} else {
				out.Count("witness-db-late-dir-ok")
			}
			s.close()
		}
	}
	// (2) the root's attributes
	{
		ents := []verifc02.Ent{{Name: "./", Type: tar.TypeDir, Mode: 0o711, UID: 7, GID: 8, MTime: 86400, Xattrs: [][2]string{{"user.k", "v"}}},
			{Name: "./d/", Type: tar.TypeDir, Mode: 0o755}, reg("./d/f", 5, 1)}
		s, err := verifNewDBStack(rnd, ents, verifc02.BuildOpts{ChunkSize: 64}, true, 2, 0)
		if err != nil {
			out.Fail("witness-setup-failed", err.Error())
		} else {
			out.Comment("witness " + verifc02.SigDBRootAttr)
			s.meta.Out = out
			s.meta.SkipRootAttr, s.meta.RootSig = false, verifc02.SigDBRootAttr
			s.meta.Stat("", false)
			s.meta.Xattr("", "user.k", false)
			s.close()
		}
	}
}
