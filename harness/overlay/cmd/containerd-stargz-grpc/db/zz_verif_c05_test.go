//go:build verif

package db

// C05 harness, part 2: canonical dump of the whole metadata.Reader surface of both stores, the
// property oracle (mem-impl vs db-impl, layer isolation, accept/reject agreement) and the op
// stream for the Lean interpreters (svdriver_c05).

import (
	"bytes"
	"crypto/sha256"
	"fmt"
	"io"
	"math/big"
	"os"
	"path/filepath"
	"sort"
	"strings"
	"syscall"
	"testing"
	"time"

	"github.com/containerd/stargz-snapshotter/internal/verifutil"
	"github.com/containerd/stargz-snapshotter/metadata"
	"github.com/containerd/stargz-snapshotter/metadata/memory"
	digest "github.com/opencontainers/go-digest"
	bolt "go.etcd.io/bbolt"
)

// verifLine is one query of the canonical dump: `verb`, the arguments after "<store> <layer>",
// and the implementation's answer.
type verifLine struct {
	verb, args, res string
}

func (l verifLine) key() string { return l.verb + " " + l.args }

func verifSysMode(m os.FileMode) uint32 {
	res := uint32(m & os.ModePerm)
	switch m & os.ModeType {
	case os.ModeDevice:
		res |= syscall.S_IFBLK
	case os.ModeDevice | os.ModeCharDevice:
		res |= syscall.S_IFCHR
	case os.ModeDir:
		res |= syscall.S_IFDIR
	case os.ModeNamedPipe:
		res |= syscall.S_IFIFO
	case os.ModeSymlink:
		res |= syscall.S_IFLNK
	case os.ModeSocket:
		res |= syscall.S_IFSOCK
	default:
		res |= syscall.S_IFREG
	}
	if m&os.ModeSetuid != 0 {
		res |= syscall.S_ISUID
	}
	if m&os.ModeSetgid != 0 {
		res |= syscall.S_ISGID
	}
	if m&os.ModeSticky != 0 {
		res |= syscall.S_ISVTX
	}
	return res
}

// verifAttrStr is the FUSE-normalised rendering of an Attr (fs/layer/node.go entryToAttr):
// symlink size = len(target), nlink 0 == 1, system mode bits.
func verifAttrStr(a metadata.Attr) string {
	size := a.Size
	if a.Mode&os.ModeSymlink != 0 {
		size = int64(len(a.LinkName))
	}
	nlink := uint32(a.NumLink)
	if nlink == 0 {
		nlink = 1
	}
	mt := verifInstant(a.ModTime)
	xs := "-"
	if len(a.Xattrs) > 0 {
		var ks []string
		for k := range a.Xattrs {
			ks = append(ks, k)
		}
		sort.Strings(ks)
		var parts []string
		for _, k := range ks {
			parts = append(parts, verifHex(k)+":"+verifHex(string(a.Xattrs[k])))
		}
		xs = strings.Join(parts, ",")
	}
	return fmt.Sprintf("mode=%o size=%d uid=%d gid=%d dev=%d:%d nlink=%d link=%s mtime=%s xattrs=%s",
		verifSysMode(a.Mode), size, a.UID, a.GID, a.DevMajor, a.DevMinor, nlink, verifHex(a.LinkName), mt, xs)
}

// verifInstant renders a time BY INSTANT as an unbounded decimal number of nanoseconds since the
// Unix epoch (seconds*1e9 + nanoseconds, computed with math/big): Time.UnixNano() is only defined
// for 1677-09-21..2262-04-11 and would wrap identically on both sides of a comparison. The zone is
// not part of the instant; "z" is the zero time (what `IsZero` reports; FUSE gets Unix() of it).
func verifInstant(t time.Time) string {
	if t.IsZero() {
		return "z"
	}
	n := new(big.Int).Mul(big.NewInt(t.Unix()), big.NewInt(1000000000))
	n.Add(n, big.NewInt(int64(t.Nanosecond())))
	return n.String()
}

func verifTypeChar(m os.FileMode) string {
	switch {
	case m.IsDir():
		return "d"
	case m&os.ModeSymlink != 0:
		return "l"
	case m&os.ModeCharDevice != 0:
		return "c"
	case m&os.ModeDevice != 0:
		return "b"
	case m&os.ModeNamedPipe != 0:
		return "p"
	}
	return "f"
}

func verifAttrEq(a, b metadata.Attr) bool { return verifAttrStr(a) == verifAttrStr(b) }

type verifDumper struct {
	r       metadata.Reader
	l       *verifLayer
	lines   []verifLine
	rep     map[uint32]string // id -> first path reaching it (sorted DFS order)
	incons  []string          // inconsistencies inside one store's own surface
	pre     map[string][]string
	readAll bool
}

func (d *verifDumper) add(verb, args, res string) {
	d.lines = append(d.lines, verifLine{verb, args, res})
}

const verifMaxDepth = 40

func (d *verifDumper) walk(p string, id uint32, depth int) {
	r := d.r
	ph := verifHex(p)
	attr, err := r.GetAttr(id)
	if err != nil {
		d.add("stat", ph, "err")
		return
	}
	same := p
	if q, ok := d.rep[id]; ok {
		same = q
	} else {
		d.rep[id] = p
	}
	d.add("stat", ph, verifAttrStr(attr)+" same="+verifHex(same))
	if off, err := r.GetOffset(id); err != nil {
		d.add("off", ph, "err")
	} else {
		d.add("off", ph, fmt.Sprintf("%d", off))
	}
	if same != p {
		return // already described under its first name
	}
	// children
	type ch struct {
		id   uint32
		mode os.FileMode
	}
	kids := map[string]ch{}
	if err := r.ForeachChild(id, func(name string, cid uint32, mode os.FileMode) bool {
		if _, dup := kids[name]; dup {
			d.incons = append(d.incons, fmt.Sprintf("foreach-dup-name %q under %q", name, p))
		}
		kids[name] = ch{cid, mode}
		return true
	}); err != nil {
		d.add("ls", ph, "err")
	} else if len(kids) > 0 || attr.Mode.IsDir() {
		var names []string
		for n := range kids {
			names = append(names, n)
		}
		sort.Strings(names)
		var parts []string
		for _, n := range names {
			parts = append(parts, verifHex(n)+":"+verifTypeChar(kids[n].mode))
		}
		res := fmt.Sprintf("n=%d", len(names))
		if len(parts) > 0 {
			res += " " + strings.Join(parts, ",")
		}
		d.add("ls", ph, res)
		// a name that is not there
		if _, _, err := r.GetChild(id, "\x01verif-missing"); err == nil {
			d.incons = append(d.incons, fmt.Sprintf("getchild-missing-name-found under %q", p))
		}
		if depth >= verifMaxDepth {
			d.add("deep", ph, "deep")
			return
		}
		for _, n := range names {
			cid, cattr, err := r.GetChild(id, n)
			if err != nil {
				d.incons = append(d.incons, fmt.Sprintf("getchild-fails %q under %q: %v", n, p, err))
				continue
			}
			if cid != kids[n].id {
				d.incons = append(d.incons, fmt.Sprintf("getchild-id-differs %q under %q", n, p))
			}
			if ga, err := r.GetAttr(cid); err != nil || !verifAttrEq(ga, cattr) {
				d.incons = append(d.incons, fmt.Sprintf("getchild-attr-differs %q under %q", n, p))
			}
			if cattr.Mode != kids[n].mode {
				d.incons = append(d.incons, fmt.Sprintf("foreach-mode-differs %q under %q", n, p))
			}
			cp := n
			if p != "" {
				cp = p + "/" + n
			}
			d.walk(cp, cid, depth+1)
		}
	}
	// file surface
	f, err := r.OpenFile(id)
	if err != nil {
		d.add("fopen", ph, "err")
		return
	}
	d.add("fopen", ph, "ok")
	// chunk table walk + probes at every boundary +-1
	probes := map[int64]bool{-1: true, 0: true, 1: true, attr.Size - 1: true, attr.Size: true, attr.Size + 1: true}
	off := int64(0)
	for i := 0; i < 2000; i++ {
		co, cs, _, ok := f.ChunkEntryForOffset(off)
		if !ok {
			break
		}
		for _, x := range []int64{co - 1, co, co + 1, co + cs - 1, co + cs, co + cs + 1} {
			probes[x] = true
		}
		if cs <= 0 || co+cs <= off {
			break
		}
		off = co + cs
	}
	var ps []int64
	for x := range probes {
		ps = append(ps, x)
	}
	sort.Slice(ps, func(i, j int) bool { return ps[i] < ps[j] })
	for _, x := range ps {
		co, cs, dg, ok := f.ChunkEntryForOffset(x)
		if !ok {
			d.add("chunk", fmt.Sprintf("%s %d", ph, x), "none")
		} else {
			d.add("chunk", fmt.Sprintf("%s %d", ph, x), fmt.Sprintf("%d %d %s", co, cs, verifHex(dg)))
		}
	}
	if d.readAll {
		d.add("read", ph, verifReadChunks(f, attr.Size))
		// the pre-reader variant must serve the same bytes; the chunks handed to the callback are
		// recorded by the node they belong to.
		var pre []string
		f2, err := r.OpenFileWithPreReader(id, func(nid uint32, co, cs int64, dg string, cr io.Reader) error {
			b, _ := io.ReadAll(cr)
			pre = append(pre, fmt.Sprintf("%d:%d:%d:%s:%x", nid, co, cs, dg, sha256.Sum256(b)))
			return nil
		})
		if err != nil {
			d.add("readpre", ph, "err")
		} else {
			d.add("readpre", ph, verifReadChunks(f2, attr.Size))
			d.pre[p] = pre
		}
	}
}

// verifReadChunks reads the file the way fs/reader does: chunk by chunk, each ReadAt inside one
// chunk, plus one short read in the middle of every chunk.
func verifReadChunks(f metadata.File, size int64) (res string) {
	defer func() {
		if e := recover(); e != nil {
			res = "panic"
		}
	}()
	if size < 0 || size > 1<<22 {
		return "skipped"
	}
	if size == 0 {
		return "empty"
	}
	buf := make([]byte, size)
	off := int64(0)
	for i := 0; off < size; i++ {
		co, cs, _, ok := f.ChunkEntryForOffset(off)
		if !ok || co != off || cs <= 0 || co+cs > size || i > 5000 {
			return fmt.Sprintf("badchunk@%d", off)
		}
		n, err := f.ReadAt(buf[co:co+cs], co)
		if (err != nil && err != io.EOF) || int64(n) != cs {
			return fmt.Sprintf("err@%d", off)
		}
		if cs > 2 {
			small := make([]byte, min(cs-1, 5))
			n, err := f.ReadAt(small, co+1)
			if (err != nil && err != io.EOF) || n != len(small) || !bytes.Equal(small, buf[co+1:co+1+int64(n)]) {
				return fmt.Sprintf("partial-differs@%d", off)
			}
		}
		off = co + cs
	}
	return fmt.Sprintf("ok %d %x", size, sha256.Sum256(buf))
}

// verifDump produces the canonical dump of one reader.
func verifDump(r metadata.Reader, l *verifLayer, readAll bool) *verifDumper {
	d := &verifDumper{r: r, l: l, rep: map[uint32]string{}, readAll: readAll, pre: map[string][]string{}}
	d.walk("", r.RootID(), 0)
	return d
}

func verifSR(b []byte) *io.SectionReader {
	return io.NewSectionReader(bytes.NewReader(b), 0, int64(len(b)))
}

// verifSpan tells which prefix of the TOC stream a digest covers.
func verifSpanOf(l *verifLayer, store string, d digest.Digest) string {
	if store == "mem" && l.compr == "zstd" && len(l.tocStream) > l.jsonLen {
		return "unspec" // candidate finding toc-digest-span-zstd: depends on the decoder's read-ahead
	}
	return verifSpan(l, d)
}

func verifSpan(l *verifLayer, d digest.Digest) string {
	if d == digest.FromBytes(l.tocStream) {
		return "whole"
	}
	if d == digest.FromBytes(l.tocStream[:l.jsonLen]) {
		return "json"
	}
	return "other"
}

type verifOpen struct {
	l        *verifLayer
	tag      string
	mem, db  metadata.Reader
	memErr   error
	dbErr    error
	memDump  *verifDumper
	dbDump   *verifDumper
	dbClosed bool
}

func verifField(key string) string {
	f := strings.Fields(key)
	return f[0]
}

// verifCompare is the core of the oracle: the two implementations' dumps must be identical.
func verifCompare(out *verifutil.Out, o *verifOpen, sigPrefix string) int {
	a, b := o.memDump.lines, o.dbDump.lines
	am := map[string]string{}
	for _, x := range a {
		am[x.key()] = x.res
	}
	bm := map[string]string{}
	for _, x := range b {
		bm[x.key()] = x.res
	}
	nfail := 0
	fail := func(field, what string) {
		nfail++
		sig := sigPrefix + field
		if (o.l.class == "cand" || o.l.class == "note") && len(o.l.candidates) > 0 {
			sig = o.l.candidates[0] // every disagreement of a candidate layer carries the candidate's name
		}
		if o.l.class == "note" {
			out.Count("note:" + sig + ":stores-differ") // outside the property's domain: evidence only
			return
		}
		if nfail <= 6 {
			out.Fail(sig, fmt.Sprintf("layer %s [%s]: %s", o.tag, o.l.label, what))
		}
	}
	for _, x := range a {
		y, ok := bm[x.key()]
		if ok && y != x.res {
			if c := verifClassify(o.l, x, y); c == "ignore" {
				continue
			} else if c != "" && o.l.class != "cand" && o.l.class != "note" {
				nfail++
				out.Fail(c, fmt.Sprintf("layer %s [%s]: %s: mem=%q db=%q", o.tag, o.l.label, x.key(), x.res, y))
				continue
			}
		}
		if !ok {
			fail(verifDiffField(x.verb, x.res, ""), fmt.Sprintf("%s: mem=%q db=<absent>", x.key(), x.res))
		} else if y != x.res {
			fail(verifDiffField(x.verb, x.res, y), fmt.Sprintf("%s: mem=%q db=%q", x.key(), x.res, y))
		}
	}
	for _, x := range b {
		if _, ok := am[x.key()]; !ok {
			fail(verifDiffField(x.verb, "", x.res), fmt.Sprintf("%s: mem=<absent> db=%q", x.key(), x.res))
		}
	}
	return nfail
}

// verifClassify recognises the disagreements whose input class is a reported candidate finding
// and gives them their own signature, so that any other disagreement keeps the generic one.
// "ignore": outside the property (negative file offsets).
func verifClassify(l *verifLayer, x verifLine, dbRes string) string {
	switch x.verb {
	case "chunk":
		f := strings.Fields(x.args)
		if len(f) == 2 && strings.HasPrefix(f[1], "-") {
			return "ignore" // a negative number is not a file offset
		}
	case "stat":
		if x.args == "-" && verifHasRootEntry(l) && verifNlinkOffByOne(x.res, dbRes) {
			return "root-entry-nlink"
		}
	}
	return ""
}

func verifHasRootEntry(l *verifLayer) bool {
	for i := range l.ents {
		if l.ents[i].Type != "chunk" && verifClean(l.ents[i].Name) == "" {
			return true
		}
	}
	return false
}

func verifHasRepeatedName(l *verifLayer) bool {
	seen := map[string]bool{}
	for i := range l.ents {
		if l.ents[i].Type == "chunk" {
			continue
		}
		n := verifClean(l.ents[i].Name)
		if seen[n] {
			return true
		}
		seen[n] = true
	}
	return false
}

// verifNlinkOffByOne: the only difference is nlink, and db = mem + 1.
func verifNlinkOffByOne(a, b string) bool {
	if !verifOnlyFieldDiffers(a, b, "nlink") {
		return false
	}
	var x, y int
	for _, f := range strings.Fields(a) {
		if strings.HasPrefix(f, "nlink=") {
			fmt.Sscanf(f, "nlink=%d", &x)
		}
	}
	for _, f := range strings.Fields(b) {
		if strings.HasPrefix(f, "nlink=") {
			fmt.Sscanf(f, "nlink=%d", &y)
		}
	}
	return y == x+1
}

func verifOnlyFieldDiffers(a, b, field string) bool {
	fa, fb := strings.Fields(a), strings.Fields(b)
	if len(fa) != len(fb) {
		return false
	}
	n := 0
	for i := range fa {
		if fa[i] != fb[i] {
			if !strings.HasPrefix(fa[i], field+"=") {
				return false
			}
			n++
		}
	}
	return n == 1
}

// verifDiffField names the first differing field of two result lines (e.g. stat:nlink).
func verifDiffField(verb, a, b string) string {
	if verb != "stat" || a == "" || b == "" {
		return verb
	}
	fa, fb := strings.Fields(a), strings.Fields(b)
	for i := range fa {
		if i < len(fb) && fa[i] != fb[i] {
			return "stat:" + strings.SplitN(fa[i], "=", 2)[0]
		}
	}
	return verb
}

type verifSession struct {
	t    *testing.T
	out  *verifutil.Out
	db   *bolt.DB
	open map[string]*verifOpen
	seq  int
}

// openLayer opens the blob with both stores, emits the TOC to the model and the accept/reject
// agreement to the oracle.
func (s *verifSession) openLayer(l *verifLayer) *verifOpen {
	out := s.out
	s.seq++
	tag := fmt.Sprintf("L%d", s.seq)
	o := &verifOpen{l: l, tag: tag}
	out.Comment(fmt.Sprintf("layer %s kind=%s class=%s %s", tag, l.kind, l.class, l.label))
	out.Emit(fmt.Sprintf("layer %s %d", tag, len(l.blob)), "ok")
	for i := range l.ents {
		out.Emit(verifEntryOp(tag, &l.ents[i]), "ok")
	}
	o.mem, o.memErr = memory.NewReader(verifSR(l.blob), metadata.WithDecompressors(l.newDecomp()))
	// Every tenth open runs with a long bolt batch delay: the background initNodes cannot commit
	// before the clone below has been used, whatever the scheduler does.
	verifOpenCount++
	wide := verifOpenCount%10 == 1
	oldDelay := s.db.MaxBatchDelay
	if wide {
		s.db.MaxBatchDelay = 250 * time.Millisecond
	}
	o.db, o.dbErr = NewReader(s.db, verifSR(l.blob), metadata.WithDecompressors(l.newDecomp()))
	if o.dbErr == nil {
		// a Clone taken before any other call on the new reader, and used at once (what prefetch
		// and the background fetch do through fs/reader Cache(WithReader))
		early := verifEarlyClone(o.db, l)
		// the db store parses in the background; a failure surfaces on the first access
		if err := o.db.(*reader).waitInit(); err != nil {
			o.dbErr = err
		}
		s.db.MaxBatchDelay = oldDelay
		s.earlyCloneCheck(o, early, wide)
		if o.dbErr != nil {
			o.db.Close()
			o.db = nil
		}
	}
	s.db.MaxBatchDelay = oldDelay
	res := func(err error) string {
		if err != nil {
			return "err"
		}
		return "ok"
	}
	if l.class == "conf" && !verifHasRootEntry(l) {
		// the layer lies inside the fragment of the Lean theorems (decided by the model's own
		// predicate SpecConformingR: directories may be announced again with the same attributes)
		out.Emit("spec "+tag, "conf")
		out.Count("in-proved-fragment")
		if verifHasRepeatedName(l) {
			out.Count("in-proved-fragment-repeated-dir")
		}
	}
	out.Emit("open mem "+tag, res(o.memErr))
	out.Emit("open db "+tag, res(o.dbErr))
	if os.Getenv("VERIF_EXPLORE") != "" {
		fmt.Printf("OPEN %s [%s] mem=%s db=%s\n", tag, l.label, res(o.memErr), res(o.dbErr))
	}
	out.Count("open-mem-" + res(o.memErr))
	out.Count("open-db-" + res(o.dbErr))
	if (o.memErr == nil) != (o.dbErr == nil) {
		sig := "accept-reject-differ" + verifClassSuffix(l)
		if l.class == "nonconf" && o.memErr != nil && o.dbErr == nil && verifHardlinkSourceHasChildren(l) {
			// whatever the generator called the layer: the input class is the one of f3cca50
			sig = "accept-reject-differ:hardlink-source-has-children"
		}
		if l.class == "cand" && len(l.candidates) > 0 {
			sig = l.candidates[0] // every disagreement of a candidate layer carries the candidate's name
		}
		if l.class == "note" {
			out.Count("note:" + l.candidates[0] + ":accept-reject-differ")
		} else {
			out.Fail(sig, fmt.Sprintf("layer %s [%s]: memErr=%v dbErr=%v", tag, l.label, o.memErr, o.dbErr))
		}
	}
	s.open[tag] = o
	return o
}

// verifHardlinkSourceHasChildren: some hardlink resolves (by names) to an entry whose name is a
// proper prefix of another entry's name.
func verifHardlinkSourceHasChildren(l *verifLayer) bool {
	byName := map[string]*verifEnt{}
	for i := range l.ents {
		if l.ents[i].Type != "chunk" {
			byName[verifClean(l.ents[i].Name)] = &l.ents[i]
		}
	}
	for i := range l.ents {
		if l.ents[i].Type != "hardlink" {
			continue
		}
		e := &l.ents[i]
		for n := 0; e != nil && e.Type == "hardlink" && n <= len(l.ents); n++ {
			e = byName[verifClean(e.LinkName)]
		}
		if e == nil || e.Type == "hardlink" {
			continue
		}
		src := verifClean(e.Name) + "/"
		for k := range byName {
			if strings.HasPrefix(k, src) {
				return true
			}
		}
	}
	return false
}

func verifClassSuffix(l *verifLayer) string {
	if l.class == "conf" {
		return ""
	}
	// signatures name the input class, not the scenario
	switch l.variant {
	case "hardlink-source-gets-children-later":
		return ":hardlink-source-has-children"
	}
	if l.variant != "" {
		return ":" + l.variant
	}
	return ":" + l.class
}

func (s *verifSession) emitDump(store, tag string, d *verifDumper) {
	for _, x := range d.lines {
		if x.verb == "read" || x.verb == "readpre" {
			continue // file bytes are not part of the model; the oracle checks them
		}
		s.out.Emit(fmt.Sprintf("%s %s %s %s", x.verb, store, tag, x.args), x.res)
		s.out.Count("q-" + x.verb)
	}
}

// dumpBoth dumps both stores, feeds the dumps to the model stream and evaluates the oracle.
func (s *verifSession) dumpBoth(o *verifOpen, readAll bool) {
	out := s.out
	l := o.l
	if o.mem != nil {
		o.memDump = verifDump(o.mem, l, readAll)
		s.emitDump("mem", o.tag, o.memDump)
		out.Emit(fmt.Sprintf("tocspan mem %s %s %d %d", o.tag, l.compr, l.jsonLen, len(l.tocStream)-l.jsonLen), verifSpanOf(l, "mem", o.mem.TOCDigest()))
		for _, in := range o.memDump.incons {
			out.Fail("surface-inconsistent:mem", fmt.Sprintf("layer %s [%s]: %s", o.tag, l.label, in))
		}
	}
	if o.db != nil && !o.dbClosed {
		o.dbDump = verifDump(o.db, l, readAll)
		s.emitDump("db", o.tag, o.dbDump)
		out.Emit(fmt.Sprintf("tocspan db %s %s %d %d", o.tag, l.compr, l.jsonLen, len(l.tocStream)-l.jsonLen), verifSpanOf(l, "db", o.db.TOCDigest()))
		for _, in := range o.dbDump.incons {
			out.Fail("surface-inconsistent:db", fmt.Sprintf("layer %s [%s]: %s", o.tag, l.label, in))
		}
	}
	s.cloneCheck(o)
	if o.mem == nil || o.db == nil || o.dbClosed {
		return
	}
	if l.class == "nonconf" {
		return // only accept/reject agreement is required outside the spec
	}
	pre := "stores-differ:"
	if l.class == "cand" && len(l.candidates) > 0 {
		pre = l.candidates[0] + ":"
	}
	if o.mem.TOCDigest() != o.db.TOCDigest() && l.class != "note" {
		sig := pre + "toc-digest"
		if l.compr == "zstd" && len(l.tocStream) > l.jsonLen {
			sig = "toc-digest-span-zstd"
		}
		out.Fail(sig, fmt.Sprintf("layer %s [%s]: mem=%s(%s) db=%s(%s) jsonLen=%d streamLen=%d", o.tag, l.label,
			o.mem.TOCDigest(), verifSpan(l, o.mem.TOCDigest()), o.db.TOCDigest(), verifSpan(l, o.db.TOCDigest()), l.jsonLen, len(l.tocStream)))
	}
	if o.mem.RootID() == 0 || o.db.RootID() == 0 {
		out.Fail(pre+"rootid", "root id 0")
	}
	n := verifCompare(out, o, pre)
	if n == 0 && o.mem.TOCDigest() == o.db.TOCDigest() {
		out.Count("layers-agree")
		if l.class == "cand" {
			out.Count("cand-agrees:" + pre)
		}
	}
	// file bytes against the source
	if readAll && l.files != nil {
		for _, d := range []*verifDumper{o.memDump, o.dbDump} {
			for _, x := range d.lines {
				if x.verb != "read" && x.verb != "readpre" {
					continue
				}
				p := verifUnhex(x.args)
				q := d.rep[0]
				_ = q
				want, ok := l.files[verifResolve(d, p)]
				if !ok {
					continue
				}
				exp := "empty"
				if len(want) > 0 {
					exp = fmt.Sprintf("ok %d %x", len(want), sha256.Sum256(want))
				}
				if x.res != exp {
					out.Fail("bytes-differ", fmt.Sprintf("layer %s [%s]: %s %q: got %s want %s", o.tag, l.label, x.verb, p, x.res, exp))
				}
				out.Count("bytes-checked")
			}
		}
	}
}

var verifOpenCount int

// verifEarly is what a Clone taken right after NewReader showed when it was used immediately.
type verifEarly struct {
	err    error // Clone failed
	rootID uint32
	dig    digest.Digest
	names  []string // recursive listing: path, type bits, size
	lsErr  error
}

// verifNames lists the whole tree: one line per path with what does not depend on node ids or
// link counts.  A node id is descended into once.
func verifNames(r metadata.Reader) ([]string, error) {
	var lines []string
	seen := map[uint32]bool{}
	var firstErr error
	var walk func(p string, id uint32, depth int)
	walk = func(p string, id uint32, depth int) {
		a, err := r.GetAttr(id)
		if err != nil {
			if firstErr == nil {
				firstErr = err
			}
			lines = append(lines, fmt.Sprintf("%q attr-err", p))
			return
		}
		lines = append(lines, fmt.Sprintf("%q %v %d %q", p, a.Mode, a.Size, a.LinkName))
		if seen[id] || depth > 40 {
			return
		}
		seen[id] = true
		type kid struct {
			name string
			id   uint32
		}
		var kids []kid
		if err := r.ForeachChild(id, func(name string, cid uint32, mode os.FileMode) bool {
			kids = append(kids, kid{name, cid})
			return true
		}); err != nil {
			if firstErr == nil {
				firstErr = err
			}
			lines = append(lines, fmt.Sprintf("%q ls-err", p))
			return
		}
		sort.Slice(kids, func(i, j int) bool { return kids[i].name < kids[j].name })
		for _, k := range kids {
			walk(p+"/"+k.name, k.id, depth+1)
		}
	}
	walk("", r.RootID(), 0)
	return lines, firstErr
}

func verifEarlyClone(r metadata.Reader, l *verifLayer) *verifEarly {
	e := &verifEarly{}
	c, err := r.Clone(verifSR(l.blob))
	if err != nil {
		e.err = err
		return e
	}
	e.rootID, e.dig = c.RootID(), c.TOCDigest()
	e.names, e.lsErr = verifNames(c)
	return e
}

func verifSameLines(a, b []string) string {
	for i := 0; i < len(a) || i < len(b); i++ {
		x, y := "<end>", "<end>"
		if i < len(a) {
			x = a[i]
		}
		if i < len(b) {
			y = b[i]
		}
		if x != y {
			return fmt.Sprintf("line %d: %s  vs  %s", i, x, y)
		}
	}
	return ""
}

// earlyCloneCheck: a Clone taken right after NewReader is the same filesystem as its origin once
// that has finished parsing — in particular it fails (at Clone or on first use) when the TOC is
// rejected, and it does not show the buckets half filled.  For conforming layers it is also
// compared with the memory store directly.
func (s *verifSession) earlyCloneCheck(o *verifOpen, e *verifEarly, wide bool) {
	out, l := s.out, o.l
	out.Count("clone-db-early")
	if wide {
		out.Count("clone-db-early-long-batch-delay")
	}
	where := fmt.Sprintf("layer %s [%s]", o.tag, l.label)
	if o.dbErr != nil {
		// the TOC is rejected: the clone must not serve it
		out.Count("clone-db-early-of-rejected")
		if e.err == nil && e.lsErr == nil {
			out.Fail("clone-differs:db:early-accepts-rejected", fmt.Sprintf("%s: the db reader rejects the TOC (%v) but a Clone taken before the first use serves it: %q", where, o.dbErr, e.names))
		}
		return
	}
	if e.err != nil {
		out.Fail("clone-differs:db:early-err", fmt.Sprintf("%s: Clone right after NewReader fails (%v), the reader itself works", where, e.err))
		return
	}
	if e.rootID != o.db.RootID() || e.dig != o.db.TOCDigest() {
		out.Fail("clone-differs:db:early-ids", fmt.Sprintf("%s: clone root=%d digest=%s, origin root=%d digest=%s", where, e.rootID, e.dig, o.db.RootID(), o.db.TOCDigest()))
	}
	names, err := verifNames(o.db)
	if d := verifSameLines(e.names, names); d != "" || (e.lsErr == nil) != (err == nil) {
		out.Fail("clone-differs:db:early-listing", fmt.Sprintf("%s: a Clone taken right after NewReader and used at once shows another tree than the reader after initialization (%d vs %d paths; %s; errs %v / %v)", where, len(e.names), len(names), d, e.lsErr, err))
		return
	}
	if l.class == "conf" && o.mem != nil {
		mn, _ := verifNames(o.mem)
		if d := verifSameLines(e.names, mn); d != "" {
			out.Fail("clone-differs:db:early-vs-mem", fmt.Sprintf("%s: early db clone vs memory store: %s", where, d))
		}
	}
}

// cloneCheck: a Clone over another SectionReader of the same blob must be the same filesystem:
// same root id, same TOC digest, same dump (file bytes included).  Clones are not closed: a db
// clone shares the filesystem bucket of its origin.
func (s *verifSession) cloneCheck(o *verifOpen) {
	check := func(store string, r metadata.Reader, orig *verifDumper) {
		if r == nil || orig == nil {
			return
		}
		res := "same"
		c, err := r.Clone(verifSR(o.l.blob))
		if err != nil {
			res = "err"
		} else {
			if c.RootID() != r.RootID() {
				res = "rootid"
			} else if c.TOCDigest() != r.TOCDigest() {
				res = "tocdigest"
			} else {
				cd := verifDump(c, o.l, true)
				if len(cd.lines) != len(orig.lines) {
					res = "dump"
				} else {
					for i := range cd.lines {
						if cd.lines[i] != orig.lines[i] {
							res = "dump:" + cd.lines[i].verb
							break
						}
					}
				}
			}
		}
		s.out.Emit(fmt.Sprintf("clone %s %s", store, o.tag), res)
		s.out.Count("clone-" + store)
		if res != "same" {
			s.out.Fail("clone-differs:"+store+":"+res, fmt.Sprintf("layer %s [%s]: Clone of the %s reader differs in %s", o.tag, o.l.label, store, res))
		}
	}
	check("mem", o.mem, o.memDump)
	if !o.dbClosed {
		check("db", o.db, o.dbDump)
	}
}

func verifUnhex(s string) string {
	if s == "-" {
		return ""
	}
	var b []byte
	fmt.Sscanf(s, "%x", &b)
	return string(b)
}

// verifResolve maps a dumped path to the cleaned name of the file it was generated as (identity
// for plain files; hardlinks are dumped under their first name only).
func verifResolve(d *verifDumper, p string) string { return p }

func (s *verifSession) closeLayer(o *verifOpen) {
	out := s.out
	if o.mem != nil {
		r := "ok"
		if err := o.mem.Close(); err != nil {
			r = "err"
		}
		out.Emit("close mem "+o.tag, r)
	}
	if o.db != nil && !o.dbClosed {
		r := "ok"
		if err := o.db.Close(); err != nil {
			r = "err"
		}
		o.dbClosed = true
		out.Emit("close db "+o.tag, r)
		// the closed layer is gone
		if _, err := o.db.GetAttr(o.db.RootID()); err == nil {
			out.Fail("closed-layer-still-readable", fmt.Sprintf("layer %s: GetAttr(root) succeeds after Close", o.tag))
			out.Emit("stat db "+o.tag+" -", "ok")
		} else {
			out.Emit("stat db "+o.tag+" -", "closed")
		}
	}
}

func verifNewSession(t *testing.T, out *verifutil.Out, dir string, n int) *verifSession {
	dbf := filepath.Join(dir, fmt.Sprintf("meta-%d.db", n))
	db, err := bolt.Open(dbf, 0600, nil)
	if err != nil {
		t.Fatalf("bolt open: %v", err)
	}
	return &verifSession{t: t, out: out, db: db, open: map[string]*verifOpen{}}
}

func (s *verifSession) end() {
	s.db.Close()
}

// verifIsolation re-dumps every still-open layer and requires the dumps to be what they were.
func (s *verifSession) verifIsolation(why string) {
	var tags []string
	for t := range s.open {
		tags = append(tags, t)
	}
	sort.Strings(tags)
	for _, t := range tags {
		o := s.open[t]
		if o.db == nil || o.dbClosed || o.dbDump == nil {
			continue
		}
		before := o.dbDump
		after := verifDump(o.db, o.l, false)
		bm := map[string]string{}
		for _, x := range before.lines {
			if x.verb != "read" && x.verb != "readpre" {
				bm[x.key()] = x.res
			}
		}
		bad := ""
		for _, x := range after.lines {
			if bm[x.key()] != x.res {
				bad = fmt.Sprintf("%s: before=%q after=%q", x.key(), bm[x.key()], x.res)
				break
			}
			delete(bm, x.key())
		}
		if bad == "" && len(bm) > 0 {
			for k := range bm {
				bad = "line vanished: " + k
				break
			}
		}
		if bad != "" {
			s.out.Fail("layer-not-isolated", fmt.Sprintf("layer %s changed after %s: %s", t, why, bad))
		}
		// the model is asked again as well (same answers expected from the unchanged Tree)
		s.emitDump("db", t, after)
		s.out.Count("isolation-redump")
	}
}

// verifRunLayers opens the layers in sessions of 1-4 (sometimes the SAME blob twice: images share
// layers, every reader must get its own filesystem in the database), dumps both stores, and closes
// them in random order with re-dumps of the survivors.
func verifRunLayers(t *testing.T, rnd *verifutil.Rand, out *verifutil.Out, dir string, layers []*verifLayer) {
	explore := os.Getenv("VERIF_EXPLORE") != ""
	sess := 0
	for len(layers) > 0 {
		k := 1 + rnd.Intn(4)
		if k > len(layers) {
			k = len(layers)
		}
		batch := append([]*verifLayer{}, layers[:k]...)
		layers = layers[k:]
		sess++
		if sess == 1 || rnd.Intn(3) == 0 {
			batch = append(batch, batch[rnd.Intn(len(batch))]) // the same blob once more
			out.Count("same-blob-twice")
		}
		s := verifNewSession(t, out, dir, sess)
		var opened []*verifOpen
		for _, l := range batch {
			o := s.openLayer(l)
			opened = append(opened, o)
			out.Distinct(l.kind + "|" + l.label[strings.Index(l.label, " ")+1:])
		}
		for _, o := range opened {
			s.dumpBoth(o, true)
		}
		// close in random order, re-dumping the survivors
		for len(opened) > 0 {
			i := rnd.Intn(len(opened))
			o := opened[i]
			opened = append(opened[:i], opened[i+1:]...)
			s.closeLayer(o)
			delete(s.open, o.tag)
			s.verifIsolation("close " + o.tag)
		}
		s.end()
		if explore {
			fmt.Printf("session %d done\n", sess)
		}
	}
}

// TestVerifC05 is the main pass: regression inputs of the repaired defects, spec-conforming and
// builder-made layers, non-conforming TOCs (accept/reject agreement).
func TestVerifC05(t *testing.T) {
	rnd := verifutil.NewRand(verifutil.Seed())
	out := verifutil.OpenOut()
	defer out.Close()
	dir, err := os.MkdirTemp("", "verif-c05-")
	if err != nil {
		t.Fatal(err)
	}
	defer os.RemoveAll(dir)
	n := verifutil.EnvInt("VERIF_N", 60)

	var layers []*verifLayer
	layers = append(layers, verifRegressionScenarios()...)
	bl, err := verifBuilderScenarios() // inputs of 46fe897 and 8686934: must agree now
	if err != nil {
		t.Fatalf("builder scenarios: %v", err)
	}
	layers = append(layers, bl...)
	layers = append(layers, verifNonConformingScenarios()...)
	if os.Getenv("VERIF_ONLY_SCENARIOS") != "" {
		n = 0
	}
	for i := 0; i < n; i++ {
		compr := []string{"gzip", "zstd", "ext"}[rnd.Pick(3, 2, 1)]
		switch rnd.Pick(9, 7, 3) {
		case 0:
			layers = append(layers, verifGenConforming(rnd, fmt.Sprintf("gen#%d", i), compr))
		case 1:
			l, err := verifGenBuilder(rnd, fmt.Sprintf("build#%d", i))
			if err != nil {
				t.Fatalf("builder: %v", err)
			}
			layers = append(layers, l)
		default:
			k := verifNonconfKinds[rnd.Intn(len(verifNonconfKinds))]
			layers = append(layers, verifGenVariant(rnd, fmt.Sprintf("nonconf#%d", i), compr, k))
		}
	}
	verifRunLayers(t, rnd, out, dir, layers)
}

// TestVerifC05Known is the separate pass over the inputs of the known findings (each disagreement
// carries the finding's signature) and of the two input classes outside the property's domain
// (recorded as evidence notes, never a failure).
func TestVerifC05Known(t *testing.T) {
	rnd := verifutil.NewRand(verifutil.Seed() + 7919)
	out := verifutil.OpenOut()
	defer out.Close()
	dir, err := os.MkdirTemp("", "verif-c05k-")
	if err != nil {
		t.Fatal(err)
	}
	defer os.RemoveAll(dir)
	n := verifutil.EnvInt("VERIF_N", 20)
	var layers []*verifLayer
	layers = append(layers, verifCandidateScenarios()...)
	for i := 0; i < n; i++ {
		compr := []string{"gzip", "zstd", "ext"}[rnd.Pick(3, 2, 1)]
		if rnd.Intn(4) == 0 {
			k := verifNoteKinds[rnd.Intn(len(verifNoteKinds))]
			layers = append(layers, verifGenVariant(rnd, fmt.Sprintf("note#%d", i), compr, k))
		} else {
			k := verifCandKinds[rnd.Intn(len(verifCandKinds))]
			layers = append(layers, verifGenVariant(rnd, fmt.Sprintf("cand#%d", i), compr, k))
		}
	}
	verifRunLayers(t, rnd, out, dir, layers)
}
