//go:build verif

package db

// C05 harness, part 1: TOC entries as the harness sees them, generators (spec-conforming stream,
// non-conforming stream, candidate-finding stream), hand-serialised blobs around real payload,
// and blobs from the real builder.

import (
	"archive/tar"
	"bytes"
	"compress/gzip"
	"crypto/sha256"
	"encoding/base64"
	"encoding/binary"
	"encoding/hex"
	stdjson "encoding/json"
	"fmt"
	"io"
	"path"
	"sort"
	"strings"
	"time"

	"github.com/containerd/stargz-snapshotter/estargz"
	"github.com/containerd/stargz-snapshotter/estargz/externaltoc"
	"github.com/containerd/stargz-snapshotter/estargz/zstdchunked"
	"github.com/containerd/stargz-snapshotter/internal/verifutil"
	"github.com/containerd/stargz-snapshotter/metadata"
	tutil "github.com/containerd/stargz-snapshotter/util/testutil"
	"github.com/klauspost/compress/zstd"
)

type verifKV struct {
	K string
	V []byte
}

// verifEnt is one TOC entry (the JSON-visible fields only).
type verifEnt struct {
	Name        string
	Type        string
	Size        int64
	ModTime     string
	LinkName    string
	Mode        int64
	UID, GID    int
	Offset      int64
	InnerOffset int64
	DevMajor    int
	DevMinor    int
	Xattrs      []verifKV
	Digest      string
	ChunkOffset int64
	ChunkSize   int64
	ChunkDigest string

	data []byte // harness only: payload of this reg/chunk entry
}

// verifLayer is one blob together with everything the harness knows about it.
type verifLayer struct {
	label      string
	kind       string // builder-gzip, builder-zstd, builder-ext, hand-gzip, hand-zstd, hand-ext
	class      string // conf | nonconf | cand
	compr      string // gzip | zstd | ext
	blob       []byte
	tocStream  []byte // the decompressed TOC stream (JSON + whatever follows)
	jsonLen    int    // length of the JSON value inside tocStream
	ents       []verifEnt
	files      map[string][]byte // expected content by cleaned path (conforming layers only)
	newDecomp  func() metadata.Decompressor
	candidates []string // sigs this layer is expected to trip (candidate stream)
	variant    string   // generator variant (non-conforming kinds name the accept/reject signature)
}

func verifHex(s string) string {
	if s == "" {
		return "-"
	}
	return hex.EncodeToString([]byte(s))
}

// verifEntryOp renders the `entry` op line of one TOC entry.
func verifEntryOp(l string, e *verifEnt) string {
	xs := "-"
	if len(e.Xattrs) > 0 {
		var parts []string
		for _, kv := range e.Xattrs {
			parts = append(parts, verifHex(kv.K)+":"+verifHex(string(kv.V)))
		}
		xs = strings.Join(parts, ",")
	}
	return fmt.Sprintf("entry %s %s %s %d %s %d %d %d %d %d %d %d %d %d %s %s %s %s",
		l, verifHex(e.Name), verifHex(e.Type), e.Size, verifHex(e.LinkName), e.Mode, e.UID, e.GID,
		e.DevMajor, e.DevMinor, e.Offset, e.InnerOffset, e.ChunkOffset, e.ChunkSize,
		verifHex(e.Digest), verifHex(e.ChunkDigest), verifMtime(e.ModTime), xs)
}

// verifMtime is the harness-side parse of the modtime field (same call both stores use); the model
// receives the instant, not the spelling.
func verifMtime(s string) string {
	t, _ := time.Parse(time.RFC3339, s)
	return verifInstant(t)
}

// ---------------------------------------------------------------- JSON (de)serialisation

type verifJSONStyle struct {
	explicitZeros bool
	compact       bool
	trailing      string
	version       bool
}

func verifJSONString(s string) string {
	b, _ := stdjson.Marshal(s)
	return string(b)
}

func verifSerialiseTOC(ents []verifEnt, st verifJSONStyle) []byte {
	var sb strings.Builder
	nl, ind := "\n", "\t"
	if st.compact {
		nl, ind = "", ""
	}
	sb.WriteString("{" + nl)
	if st.version {
		sb.WriteString(ind + `"version": 1,` + nl)
	}
	sb.WriteString(ind + `"entries": [` + nl)
	for i := range ents {
		e := &ents[i]
		var f []string
		add := func(k, v string) { f = append(f, fmt.Sprintf("%q: %s", k, v)) }
		add("name", verifJSONString(e.Name))
		add("type", verifJSONString(e.Type))
		num := func(k string, v int64) {
			if v != 0 || st.explicitZeros {
				add(k, fmt.Sprintf("%d", v))
			}
		}
		str := func(k, v string) {
			if v != "" || st.explicitZeros {
				add(k, verifJSONString(v))
			}
		}
		num("size", e.Size)
		str("modtime", e.ModTime)
		str("linkName", e.LinkName)
		num("mode", e.Mode)
		num("uid", int64(e.UID))
		num("gid", int64(e.GID))
		num("offset", e.Offset)
		num("innerOffset", e.InnerOffset)
		num("devMajor", int64(e.DevMajor))
		num("devMinor", int64(e.DevMinor))
		if len(e.Xattrs) > 0 {
			var xs []string
			for _, kv := range e.Xattrs {
				xs = append(xs, verifJSONString(kv.K)+": "+verifJSONString(base64.StdEncoding.EncodeToString(kv.V)))
			}
			add("xattrs", "{"+strings.Join(xs, ", ")+"}")
		}
		str("digest", e.Digest)
		num("chunkOffset", e.ChunkOffset)
		num("chunkSize", e.ChunkSize)
		str("chunkDigest", e.ChunkDigest)
		sb.WriteString(ind + ind + "{" + strings.Join(f, ", ") + "}")
		if i != len(ents)-1 {
			sb.WriteString(",")
		}
		sb.WriteString(nl)
	}
	sb.WriteString(ind + "]" + nl + "}")
	sb.WriteString(st.trailing)
	return []byte(sb.String())
}

// verifParseTOC re-reads a TOC stream with encoding/json: the op lines given to the model are what
// a JSON decoder sees, whatever produced the stream.  Returns the entries and the length of the JSON
// value.
func verifParseTOC(stream []byte) ([]verifEnt, int, error) {
	dec := stdjson.NewDecoder(bytes.NewReader(stream))
	var toc struct {
		Entries []struct {
			Name        string            `json:"name"`
			Type        string            `json:"type"`
			Size        int64             `json:"size"`
			ModTime     string            `json:"modtime"`
			LinkName    string            `json:"linkName"`
			Mode        int64             `json:"mode"`
			UID         int               `json:"uid"`
			GID         int               `json:"gid"`
			Offset      int64             `json:"offset"`
			InnerOffset int64             `json:"innerOffset"`
			DevMajor    int               `json:"devMajor"`
			DevMinor    int               `json:"devMinor"`
			Xattrs      map[string][]byte `json:"xattrs"`
			Digest      string            `json:"digest"`
			ChunkOffset int64             `json:"chunkOffset"`
			ChunkSize   int64             `json:"chunkSize"`
			ChunkDigest string            `json:"chunkDigest"`
		} `json:"entries"`
	}
	if err := dec.Decode(&toc); err != nil {
		return nil, 0, err
	}
	n := int(dec.InputOffset())
	var out []verifEnt
	for _, e := range toc.Entries {
		v := verifEnt{Name: e.Name, Type: e.Type, Size: e.Size, ModTime: e.ModTime, LinkName: e.LinkName,
			Mode: e.Mode, UID: e.UID, GID: e.GID, Offset: e.Offset, InnerOffset: e.InnerOffset,
			DevMajor: e.DevMajor, DevMinor: e.DevMinor, Digest: e.Digest, ChunkOffset: e.ChunkOffset,
			ChunkSize: e.ChunkSize, ChunkDigest: e.ChunkDigest}
		var ks []string
		for k := range e.Xattrs {
			ks = append(ks, k)
		}
		sort.Strings(ks)
		for _, k := range ks {
			v.Xattrs = append(v.Xattrs, verifKV{k, e.Xattrs[k]})
		}
		out = append(out, v)
	}
	return out, n, nil
}

// ---------------------------------------------------------------- blob assembly (hand-serialised)

func verifSha(b []byte) string { return fmt.Sprintf("sha256:%x", sha256.Sum256(b)) }

func verifGzipMember(p []byte) []byte {
	var b bytes.Buffer
	zw, _ := gzip.NewWriterLevel(&b, gzip.BestSpeed)
	zw.Write(p)
	zw.Close()
	return b.Bytes()
}

func verifZstdFrame(p []byte) []byte {
	var b bytes.Buffer
	zw, _ := zstd.NewWriter(&b, zstd.WithEncoderLevel(zstd.SpeedFastest))
	zw.Write(p)
	zw.Close()
	return b.Bytes()
}

func verifTOCTarGz(tocStream []byte) []byte {
	var b bytes.Buffer
	zw, _ := gzip.NewWriterLevel(&b, gzip.BestSpeed)
	tw := tar.NewWriter(zw)
	tw.WriteHeader(&tar.Header{Typeflag: tar.TypeReg, Name: estargz.TOCTarName, Size: int64(len(tocStream))})
	tw.Write(tocStream)
	tw.Close()
	zw.Close()
	return b.Bytes()
}

func verifGzipFooter(tocOff int64) []byte {
	header := make([]byte, 4)
	header[0], header[1] = 'S', 'G'
	subfield := fmt.Sprintf("%016xSTARGZ", tocOff)
	binary.LittleEndian.PutUint16(header[2:4], uint16(len(subfield)))
	return estargz.CreateGzipFooter(append(header, []byte(subfield)...))
}

func verifExtFooter() []byte {
	header := make([]byte, 4)
	header[0], header[1] = 'S', 'G'
	subfield := "STARGZEXTERNALTOC"
	binary.LittleEndian.PutUint16(header[2:4], uint16(len(subfield)))
	return estargz.CreateGzipFooter(append(header, []byte(subfield)...))
}

func verifSkippable(b []byte) []byte {
	out := []byte{0x50, 0x2a, 0x4d, 0x18, 0, 0, 0, 0}
	binary.LittleEndian.PutUint32(out[4:], uint32(len(b)))
	return append(out, b...)
}

func verifZstdFooter(tocOff, rawSize, compSize uint64) []byte {
	footer := make([]byte, 40)
	binary.LittleEndian.PutUint64(footer, tocOff)
	binary.LittleEndian.PutUint64(footer[8:], compSize)
	binary.LittleEndian.PutUint64(footer[16:], rawSize)
	binary.LittleEndian.PutUint64(footer[24:], 1)
	copy(footer[32:40], []byte{0x47, 0x6e, 0x55, 0x6c, 0x49, 0x6e, 0x55, 0x78})
	return footer
}

// verifStream is one compressed member of the payload area: the chunks (indices into ents) stored
// in it, in order, each preceded by `gap` junk bytes.
type verifStream struct {
	idx []int
	gap []int
}

// verifAssemble lays the payload streams out, fills Offset/InnerOffset of the entries, serialises
// the TOC and appends TOC member + footer.  `fixOffsets=false` keeps the offsets the generator put.
func verifAssemble(label, class, compr string, ents []verifEnt, streams []verifStream, st verifJSONStyle, rnd *verifutil.Rand) *verifLayer {
	var blob bytes.Buffer
	// leading member so that no data stream starts at offset 0 (offset 0 means "no offset")
	lead := []byte("verif-lead")
	if compr == "zstd" {
		blob.Write(verifZstdFrame(lead))
	} else {
		blob.Write(verifGzipMember(lead))
	}
	for _, s := range streams {
		var raw bytes.Buffer
		off := int64(blob.Len())
		for k, i := range s.idx {
			raw.Write(bytes.Repeat([]byte{0xEE}, s.gap[k]))
			ents[i].Offset = off
			ents[i].InnerOffset = int64(raw.Len())
			raw.Write(ents[i].data)
		}
		raw.Write([]byte("tail"))
		if compr == "zstd" {
			blob.Write(verifZstdFrame(raw.Bytes()))
		} else {
			blob.Write(verifGzipMember(raw.Bytes()))
		}
	}
	tocStream := verifSerialiseTOC(ents, st)
	l := &verifLayer{label: label, kind: "hand-" + compr, class: class, compr: compr, tocStream: tocStream}
	tocOff := int64(blob.Len())
	switch compr {
	case "gzip":
		blob.Write(verifTOCTarGz(tocStream))
		blob.Write(verifGzipFooter(tocOff))
		l.newDecomp = func() metadata.Decompressor { return tutil.GzipCompressionWithLevel(gzip.BestSpeed)() }
	case "zstd":
		c := verifZstdFrame(tocStream)
		blob.Write(verifSkippable(c))
		blob.Write(verifSkippable(verifZstdFooter(uint64(tocOff)+8, uint64(len(tocStream)), uint64(len(c)))))
		l.newDecomp = func() metadata.Decompressor { return tutil.ZstdCompressionWithLevel(zstd.SpeedFastest)() }
	case "ext":
		ext := verifTOCTarGz(tocStream)
		blob.Write(verifExtFooter())
		l.newDecomp = func() metadata.Decompressor {
			return externaltoc.NewGzipDecompressor(func() ([]byte, error) { return ext, nil })
		}
	}
	l.blob = blob.Bytes()
	var err error
	l.ents, l.jsonLen, err = verifParseTOC(tocStream)
	if err != nil {
		panic("verif: own TOC does not parse: " + err.Error())
	}
	return l
}

// ---------------------------------------------------------------- name spellings

func verifClean(name string) string {
	return strings.TrimPrefix(path.Clean("/"+name), "/")
}

var verifNamePool = []string{"a", "b", "c", "d", "e", "f", "bin", "lib", "etc", "x.txt", "y", "z", "..x", ".hidden", "a b", "ü", "日本", "A", "0", "lib64", "usr"}

// verifSpell renders a cleaned path in one of the spellings a tar/TOC may carry.
func verifSpell(rnd *verifutil.Rand, clean string, isDir bool, fancy bool) string {
	comps := []string{}
	if clean != "" {
		comps = strings.Split(clean, "/")
	}
	var sb strings.Builder
	switch rnd.Pick(6, 3, 2, 1, 1) {
	case 1:
		sb.WriteString("./")
	case 2:
		sb.WriteString("/")
	case 3:
		sb.WriteString("../")
	case 4:
		sb.WriteString("./../")
	}
	for i, c := range comps {
		if fancy {
			switch rnd.Pick(12, 1, 1, 1) {
			case 1:
				sb.WriteString("./")
			case 2:
				sb.WriteString("q/../")
			case 3:
				sb.WriteString("/")
			}
		}
		sb.WriteString(c)
		if i != len(comps)-1 {
			sb.WriteString("/")
		}
	}
	if isDir && (clean == "" || rnd.Intn(4) != 0) {
		if clean == "" && sb.Len() == 0 {
			sb.WriteString("./")
		} else if !strings.HasSuffix(sb.String(), "/") {
			sb.WriteString("/")
		}
		if fancy && rnd.Intn(8) == 0 {
			sb.WriteString(".")
		}
	}
	return sb.String()
}

// ---------------------------------------------------------------- the generator of TOCs

type verifGen struct {
	rnd     *verifutil.Rand
	ents    []verifEnt
	streams []verifStream
	dirs    []string          // cleaned names usable as parents ("" = root)
	used    map[string]string // cleaned name -> kind ("dir","file","implicit")
	targets []string          // cleaned names hardlinks may point at (earlier non-dir entries, incl. hardlinks)
	files   map[string][]byte
	open    *verifStream // stream shared by small files (inner offsets)
	feat    map[string]bool
	fancy   bool
}

func verifNewGen(rnd *verifutil.Rand) *verifGen {
	return &verifGen{rnd: rnd, dirs: []string{""}, used: map[string]string{"": "implicit"}, files: map[string][]byte{},
		feat: map[string]bool{}, fancy: rnd.Intn(3) == 0}
}

func (g *verifGen) freshName(parent string) string {
	for i := 0; i < 50; i++ {
		n := verifNamePool[g.rnd.Intn(len(verifNamePool))]
		if g.rnd.Intn(4) == 0 {
			n = fmt.Sprintf("%s%d", n, g.rnd.Intn(30))
		}
		full := n
		if parent != "" {
			full = parent + "/" + n
		}
		if _, ok := g.used[full]; !ok {
			return full
		}
	}
	full := fmt.Sprintf("n%d", len(g.used))
	if parent != "" {
		full = parent + "/" + full
	}
	return full
}

// verifEdgeTimes: every RFC3339 instant is a valid modtime (years 0001..9999, any zone, nanosecond
// fractions). The list covers what an encoding of the time attribute can get wrong: outside the
// int64-nanosecond range (before 1677-09-21T00:12:43.145224192Z / after 2262-04-11T23:47:16.854775807Z)
// and exactly at its borders, before the Unix epoch (negative seconds, with and without a fraction),
// the epoch itself (Unix()==0 but not IsZero), year 1 / the zero time and instants around it that
// are zero or pre-zero only in UTC, sub-second precision, non-UTC zones (incl. odd minute offsets),
// 32-bit time_t borders, year 9999.
var verifEdgeTimes = []string{
	"2300-01-02T03:04:05Z", "1600-06-07T08:09:10Z", "9999-12-31T23:59:59.999999999Z", "0001-01-01T00:00:01Z",
	"2262-04-11T23:47:16.854775807Z", "2262-04-11T23:47:16.854775808Z", "2262-04-11T23:47:17Z",
	"1677-09-21T00:12:43.145224192Z", "1677-09-21T00:12:43.145224191Z", "1677-09-21T00:12:43Z",
	"1969-12-31T23:59:59Z", "1969-12-31T23:59:59.5Z", "1970-01-01T00:00:00Z", "1970-01-01T00:00:00.000000001Z",
	"1970-01-01T09:00:00+09:00", "1901-12-13T20:45:51Z", "2038-01-19T03:14:08Z", "2106-02-07T06:28:16Z",
	"0001-01-01T00:00:00Z", "0001-01-01T00:00:00.000000001Z", "0001-01-01T09:00:00+09:00", "0001-01-01T00:00:00+09:00",
	"0000-12-31T19:00:00-05:00", "0001-01-01T00:00:00-05:00",
	"2554-07-21T23:34:33.709551615Z", "2554-07-21T23:34:33.709551616Z", "1385-06-12T00:25:26.290448384Z",
	"2021-03-04T05:06:07.000000001-07:00", "2500-02-28T23:59:59.999+05:45", "1500-07-01T12:00:00.25-03:30",
	"2021-03-04T05:06:07+14:00", "2021-03-04T05:06:07-12:00", "2021-03-04T05:06:07.9Z",
}

func verifEdgeTime(r *verifutil.Rand) string {
	if r.Intn(3) != 0 {
		return verifEdgeTimes[r.Intn(len(verifEdgeTimes))]
	}
	// random instant anywhere in years 0001..9999, random fraction, random zone
	const y1, y9999 = -62135596800, 253402300799
	sec := y1 + int64(r.Intn(1<<30))*int64(r.Intn(1<<9)) // up to ~5.5e11
	if sec > y9999 {
		sec = y9999 - int64(r.Intn(1<<30))
	}
	var ns int64
	if r.Intn(2) == 0 {
		ns = int64(r.Intn(1000000000))
	}
	t := time.Unix(sec, ns).UTC()
	if r.Intn(2) == 0 {
		off := (r.Intn(26*60) - 12*60) * 60
		z := t.In(time.FixedZone("", off))
		if y := z.Year(); y >= 1 && y <= 9999 {
			t = z
		}
	}
	return t.Format(time.RFC3339Nano)
}

func (g *verifGen) attrs(e *verifEnt) {
	r := g.rnd
	switch r.Pick(3, 2, 1) {
	case 0:
		e.Mode = []int64{0644, 0755, 0600, 0777, 0, 0400}[r.Intn(6)]
	case 1:
		e.Mode = int64(r.Intn(010000))
	default:
		e.Mode = int64(r.Intn(010000)) | []int64{0, 040000, 0100000, 0120000}[r.Intn(4)]
	}
	if r.Intn(3) == 0 {
		e.UID = r.Intn(70000)
	}
	if r.Intn(3) == 0 {
		e.GID = r.Intn(70000)
	}
	switch r.Pick(4, 3, 1, 1, 1, 3) {
	case 1:
		e.ModTime = time.Unix(int64(r.Intn(2000000000)), 0).UTC().Format(time.RFC3339)
	case 2:
		e.ModTime = "2021-03-04T05:06:07+09:00"
	case 3:
		e.ModTime = "2021-03-04T05:06:07.123456789Z"
	case 4:
		e.ModTime = "not-a-time"
	case 5:
		e.ModTime = verifEdgeTime(r)
		g.feat["mtime-edge"] = true
	}
	if r.Intn(3) == 0 {
		n := 1 + r.Intn(4)
		seen := map[string]bool{}
		for i := 0; i < n; i++ {
			k := []string{"user.a", "user.b", "user.c", "security.capability", "trusted.overlay.opaque", "user.ü"}[r.Intn(6)]
			if seen[k] {
				continue
			}
			seen[k] = true
			var v []byte
			switch r.Pick(3, 2, 1) {
			case 0:
				v = []byte(fmt.Sprintf("v%d", r.Intn(100)))
			case 1:
				v = []byte{}
				g.feat["xattr-empty"] = true
			default:
				v = r.Bytes(1 + r.Intn(6))
			}
			e.Xattrs = append(e.Xattrs, verifKV{k, v})
		}
		sort.Slice(e.Xattrs, func(i, j int) bool { return e.Xattrs[i].K < e.Xattrs[j].K })
		g.feat["xattrs"] = true
	}
}

func (g *verifGen) parent() string { return g.dirs[g.rnd.Intn(len(g.dirs))] }

func (g *verifGen) spell(clean string, isDir bool) string {
	return verifSpell(g.rnd, clean, isDir, g.fancy)
}

func (g *verifGen) addDir(explicit bool) {
	p := g.parent()
	name := g.freshName(p)
	if !explicit && g.rnd.Intn(2) == 0 {
		// a deeper implicit chain
		name = name + "/" + verifNamePool[g.rnd.Intn(len(verifNamePool))]
	}
	for d := name; d != "" && g.used[d] == ""; d = path.Dir(d) {
		if d == "." {
			break
		}
		g.used[d] = "implicit"
		g.dirs = append(g.dirs, d)
	}
	if explicit {
		e := verifEnt{Name: g.spell(name, true), Type: "dir"}
		g.attrs(&e)
		g.used[name] = "dir"
		g.ents = append(g.ents, e)
		if g.rnd.Intn(6) == 0 {
			// repeated, identical directory entry (possibly another spelling)
			e2 := e
			e2.Name = g.spell(name, true)
			g.ents = append(g.ents, e2)
			g.feat["dir-repeated"] = true
		}
	} else {
		g.feat["dir-implicit"] = true
	}
}

// repeatDir announces an existing directory once more, anywhere after its first entry: same
// attributes, possibly another spelling of the name (inside the proved fragment SpecConformingR).
func (g *verifGen) repeatDir() {
	var idx []int
	for i := range g.ents {
		if g.ents[i].Type == "dir" && verifClean(g.ents[i].Name) != "" {
			idx = append(idx, i)
		}
	}
	if len(idx) == 0 {
		g.addDir(true)
		return
	}
	e := g.ents[idx[g.rnd.Intn(len(idx))]]
	e.Name = g.spell(verifClean(e.Name), true)
	e.Xattrs = append([]verifKV(nil), e.Xattrs...)
	g.ents = append(g.ents, e)
	g.feat["dir-repeated-late"] = true
}

func (g *verifGen) addFile() {
	r := g.rnd
	name := g.freshName(g.parent())
	g.used[name] = "file"
	size := []int{0, 1, 2, 5, 9, 16, 33, 100, 257}[r.Intn(9)]
	if r.Intn(3) == 0 {
		size = r.Intn(300)
	}
	content := make([]byte, size)
	for i := range content {
		content[i] = byte('a' + (i*7+len(g.ents)*13+i/11)%26)
	}
	g.files[name] = content
	e := verifEnt{Name: g.spell(name, false), Type: "reg", Size: int64(size)}
	g.attrs(&e)
	if size > 0 && r.Intn(5) != 0 {
		e.Digest = verifSha(content)
	} else if size > 0 {
		g.feat["no-file-digest"] = true
	}
	if size == 0 {
		if r.Intn(2) == 0 {
			e.Digest = verifSha(nil)
		}
		g.ents = append(g.ents, e)
		g.targets = append(g.targets, name)
		return
	}
	// chunking
	chunk := size
	if size > 1 && r.Intn(2) == 0 {
		chunk = 1 + r.Intn(size)
	}
	first := len(g.ents)
	for off := 0; off < size; off += chunk {
		n := chunk
		if off+n > size {
			n = size - off
		}
		var c verifEnt
		if off == 0 {
			c = e
		} else {
			c = verifEnt{Name: e.Name, Type: "chunk"}
			if r.Intn(4) == 0 {
				c.Name = g.spell(name, false)
			}
		}
		c.ChunkOffset = int64(off)
		if off+n < size {
			c.ChunkSize = int64(n)
		} else if r.Intn(3) == 0 {
			c.ChunkSize = int64(n) // explicit size of the last chunk
		}
		c.data = content[off : off+n]
		c.ChunkDigest = verifSha(c.data)
		g.ents = append(g.ents, c)
	}
	nch := len(g.ents) - first
	if nch > 1 {
		g.feat["chunked"] = true
	}
	// stream placement
	for k := first; k < len(g.ents); k++ {
		share := r.Intn(3) == 0
		if share && g.open != nil && len(g.open.idx) < 5 {
			g.open.idx = append(g.open.idx, k)
			g.open.gap = append(g.open.gap, r.Intn(4))
			g.feat["inner-offset"] = true
		} else {
			g.flushStream()
			g.open = &verifStream{idx: []int{k}, gap: []int{0}}
			if r.Intn(6) == 0 {
				g.open.gap[0] = 1 + r.Intn(5) // non-zero inner offset of the only chunk in a stream
				g.feat["inner-offset-single"] = true
			}
		}
	}
	g.targets = append(g.targets, name)
}

func (g *verifGen) flushStream() {
	if g.open != nil {
		g.streams = append(g.streams, *g.open)
		g.open = nil
	}
}

func (g *verifGen) addSpecial() {
	r := g.rnd
	name := g.freshName(g.parent())
	g.used[name] = "file"
	e := verifEnt{Name: g.spell(name, false)}
	g.attrs(&e)
	switch r.Pick(3, 1, 1, 1) {
	case 0:
		e.Type = "symlink"
		e.LinkName = []string{"target", "../x", "/abs/path", "a/b", "ü"}[r.Intn(5)]
	case 1:
		e.Type = "char"
		e.DevMajor, e.DevMinor = r.Intn(300), r.Intn(300)
	case 2:
		e.Type = "block"
		e.DevMajor, e.DevMinor = r.Intn(5000), r.Intn(70000)
	default:
		e.Type = "fifo"
	}
	g.ents = append(g.ents, e)
	g.targets = append(g.targets, name)
}

func (g *verifGen) addHardlink() {
	if len(g.targets) == 0 {
		g.addFile()
		return
	}
	r := g.rnd
	t := g.targets[r.Intn(len(g.targets))]
	name := g.freshName(g.parent())
	g.used[name] = "file"
	e := verifEnt{Name: g.spell(name, false), Type: "hardlink", LinkName: verifSpell(r, t, false, g.fancy)}
	if r.Intn(2) == 0 {
		g.attrs(&e) // attributes of a hardlink entry are ignored by both stores
	}
	g.ents = append(g.ents, e)
	if r.Intn(2) == 0 {
		g.targets = append(g.targets, name) // hardlink to hardlink later
		g.feat["hardlink-chain-possible"] = true
	}
	g.feat["hardlink"] = true
}

// verifGenConforming produces a TOC inside the SpecConforming fragment (see SV/Props/C05.lean).
func verifGenConforming(rnd *verifutil.Rand, label, compr string) *verifLayer {
	return verifGenVariant(rnd, label, compr, "")
}

var verifCandKinds = []string{"root-entry-nlink", "toc-digest-span-zstd", "repeated-dir-attr-merge",
	"dir-after-child-nlink", "chunk-digest-fallback"}

// outside the property's domain (a path named twice is not a valid layer, GetOffset of an entry
// without data is not container-visible, a hardlink to a LATER entry and a chunk before its file are
// not valid TOCs): differences are recorded as evidence notes only
var verifNoteKinds = []string{"dup-name", "getoffset-no-data", "hardlink-forward", "chunk-first"}

var verifNonconfKinds = []string{"hardlink-missing", "hardlink-to-dir",
	"file-under-file", "unknown-type", "chunks-unsorted", "two-bad-hardlinks", "hardlink-source-has-children"}

func (g *verifGen) insertFront(e verifEnt) {
	g.ents = append([]verifEnt{e}, g.ents...)
	for i := range g.streams {
		for k := range g.streams[i].idx {
			g.streams[i].idx[k]++
		}
	}
}

// verifGenVariant: kind "" = spec-conforming; a candidate kind = conforming-looking input of a class
// on which the current stores disagree; a non-conforming kind = outside the spec.
func verifGenVariant(rnd *verifutil.Rand, label, compr, kind string) *verifLayer {
	g := verifNewGen(rnd)
	class := "conf"
	n := 1 + rnd.Intn(14)
	late := 0
	if kind == "" {
		late = 2 // directories announced again later: only in the plain conforming stream
	}
	for i := 0; i < n; i++ {
		switch rnd.Pick(3, 2, 5, 2, 3, late) {
		case 0:
			g.addDir(true)
		case 1:
			g.addDir(false)
		case 2:
			g.addFile()
		case 3:
			g.addSpecial()
		case 4:
			g.addHardlink()
		default:
			g.repeatDir()
		}
	}
	if len(g.ents) == 0 {
		g.addFile() // an empty TOC is its own candidate class (root NumLink)
	}
	g.flushStream()
	st := verifJSONStyle{explicitZeros: rnd.Intn(4) == 0, compact: rnd.Intn(3) == 0, version: rnd.Intn(4) != 0}
	if compr != "zstd" {
		st.trailing = []string{"", "", "\n", " \n\t ", "   "}[rnd.Intn(5)]
	}
	var cands []string
	isIn := func(k string, l []string) bool {
		for _, x := range l {
			if x == k {
				return true
			}
		}
		return false
	}
	if isIn(kind, verifCandKinds) {
		class = "cand"
		cands = []string{kind}
	} else if isIn(kind, verifNoteKinds) {
		class = "note"
		cands = []string{kind}
	} else if kind != "" {
		class = "nonconf"
	}
	firstOf := func(pred func(e *verifEnt) bool) int {
		var idx []int
		for i := range g.ents {
			if pred(&g.ents[i]) {
				idx = append(idx, i)
			}
		}
		if len(idx) == 0 {
			return -1
		}
		return idx[rnd.Intn(len(idx))]
	}
	someFile := func() string { // cleaned name of an existing non-dir entry, "" if none
		i := firstOf(func(e *verifEnt) bool { return e.Type != "dir" && e.Type != "chunk" })
		if i < 0 {
			return ""
		}
		return verifClean(g.ents[i].Name)
	}
	switch kind {
	case "":
	case "root-entry-nlink":
		// explicit root directory entry, as `tar -C dir .` emits
		g.insertFront(verifEnt{Name: []string{"./", "/", ".", "", "../"}[rnd.Intn(5)], Type: "dir", Mode: 0755})
	case "toc-digest-span-zstd":
		compr = "zstd"
		st.trailing = strings.Repeat(" ", 5000+rnd.Intn(5000)) + "\n"
	case "repeated-dir-attr-merge":
		i := firstOf(func(e *verifEnt) bool { return e.Type == "dir" })
		if i < 0 {
			g.ents = append(g.ents, verifEnt{Name: "rd/", Type: "dir", Mode: 0700, UID: 7, Xattrs: []verifKV{{"user.a", []byte("1")}}})
			i = len(g.ents) - 1
		}
		e2 := verifEnt{Name: g.ents[i].Name, Type: "dir", Mode: g.ents[i].Mode ^ 0111}
		if g.ents[i].UID == 0 && g.ents[i].ModTime == "" && len(g.ents[i].Xattrs) == 0 {
			e2.UID = 1 // the later header has an attribute the earlier lacks: both stores show it
			g.ents[i].GID = 9
		}
		g.ents = append(g.ents, e2)
	case "dir-after-child-nlink":
		var imp []string
		for d, k := range g.used {
			if k == "implicit" && d != "" {
				imp = append(imp, d)
			}
		}
		sort.Strings(imp)
		if len(imp) == 0 {
			g.ents = append(g.ents, vFile("late/dir/f", "x", nil)...)
			g.streams = append(g.streams, verifStream{idx: []int{len(g.ents) - 1}, gap: []int{0}})
			imp = []string{"late/dir"}
		}
		d := imp[rnd.Intn(len(imp))]
		g.ents = append(g.ents, verifEnt{Name: d + "/", Type: "dir", Mode: 0711})
	case "chunk-digest-fallback":
		i := firstOf(func(e *verifEnt) bool { return e.Type == "reg" && e.Size > 0 })
		if i < 0 {
			g.ents = append(g.ents, vFile("legacy", "legacy-content", nil)...)
			g.streams = append(g.streams, verifStream{idx: []int{len(g.ents) - 1}, gap: []int{0}})
			i = len(g.ents) - 1
		}
		if g.ents[i].Digest == "" {
			g.ents[i].Digest = verifSha([]byte("whatever"))
		}
		g.ents[i].ChunkDigest = ""
	case "dup-name":
		nm := someFile()
		if nm == "" {
			nm = "dupf"
			g.ents = append(g.ents, verifEnt{Name: nm, Type: "symlink", LinkName: "x"})
		}
		switch rnd.Intn(3) {
		case 0:
			g.ents = append(g.ents, verifEnt{Name: nm, Type: "symlink", LinkName: "elsewhere", UID: 3})
		case 1:
			g.ents = append(g.ents, verifEnt{Name: nm + "/", Type: "dir", Mode: 0700})
		default:
			g.ents = append(g.ents, vFile(nm, "second-version", nil, vOwner(2, 2))...)
			g.streams = append(g.streams, verifStream{idx: []int{len(g.ents) - 1}, gap: []int{0}})
		}
	case "getoffset-no-data":
		g.ents = append(g.ents, verifEnt{Name: "off-on-dir/", Type: "dir", Offset: 88}, verifEnt{Name: "off-on-empty", Type: "reg", Offset: 77})
	case "hardlink-missing":
		g.ents = append(g.ents, verifEnt{Name: "hl-missing", Type: "hardlink", LinkName: "does/not/exist"})
	case "two-bad-hardlinks":
		g.ents = append(g.ents, verifEnt{Name: "hl-missing", Type: "hardlink", LinkName: "does/not/exist"})
		g.addFile()
		g.flushStream()
		g.ents = append(g.ents, verifEnt{Name: "hl-missing2", Type: "hardlink", LinkName: "nor/this"})
	case "hardlink-to-dir":
		var ds []string
		for d := range g.used {
			if g.used[d] != "file" {
				ds = append(ds, d)
			}
		}
		sort.Strings(ds)
		g.ents = append(g.ents, verifEnt{Name: "hl-to-dir", Type: "hardlink", LinkName: "/" + ds[rnd.Intn(len(ds))]})
	case "hardlink-forward":
		nm := someFile()
		if nm == "" {
			nm = "nothing"
			kind = "hardlink-missing" // nothing to point forward at: the target is simply missing
		}
		g.insertFront(verifEnt{Name: "hl-forward", Type: "hardlink", LinkName: nm})
	case "chunk-first":
		g.insertFront(verifEnt{Name: "x", Type: "chunk", ChunkOffset: 1, ChunkSize: 1})
	case "file-under-file":
		i := firstOf(func(e *verifEnt) bool { return e.Type == "reg" || e.Type == "symlink" })
		if i < 0 {
			g.ents = append(g.ents, verifEnt{Name: "plain", Type: "symlink", LinkName: "x"})
			i = len(g.ents) - 1
		}
		g.ents = append(g.ents, verifEnt{Name: verifClean(g.ents[i].Name) + "/below", Type: "symlink", LinkName: "y"})
	case "hardlink-source-has-children":
		// f3cca50: a non-directory that is a hardlink source is used as a parent
		g.ents = append(g.ents, verifEnt{Name: "hsrc", Type: "symlink", LinkName: "x"},
			verifEnt{Name: "hsrc/b", Type: "symlink", LinkName: "y"},
			verifEnt{Name: "hsrc/b/c", Type: "hardlink", LinkName: "hsrc"})
	case "unknown-type":
		g.ents = append(g.ents, verifEnt{Name: "sock", Type: "socket", Mode: 0644}, verifEnt{Name: "notype", Type: ""})
	case "chunks-unsorted":
		done := false
		for i := 0; i+2 < len(g.ents); i++ {
			if g.ents[i].Type == "reg" && g.ents[i+1].Type == "chunk" && g.ents[i+2].Type == "chunk" {
				g.ents[i+1].ChunkOffset, g.ents[i+2].ChunkOffset = g.ents[i+2].ChunkOffset, g.ents[i+1].ChunkOffset
				done = true
				break
			}
		}
		if !done {
			ents := vFile("unsorted", "0123456789", []int{3, 6})
			ents[1].ChunkOffset, ents[2].ChunkOffset = ents[2].ChunkOffset, ents[1].ChunkOffset
			base := len(g.ents)
			g.ents = append(g.ents, ents...)
			for k := range ents {
				g.streams = append(g.streams, verifStream{idx: []int{base + k}, gap: []int{0}})
			}
		}
	default:
		panic("verif: unknown variant " + kind)
	}
	l := verifAssemble(label, class, compr, g.ents, g.streams, st, rnd)
	l.candidates = cands
	l.variant = kind
	if class == "conf" {
		l.files = g.files
	}
	var fs []string
	for k := range g.feat {
		fs = append(fs, k)
	}
	sort.Strings(fs)
	if st.trailing != "" {
		fs = append(fs, "toc-trailing-ws")
	}
	l.label += " feat=" + strings.Join(fs, "+")
	if kind != "" {
		l.label += " variant=" + kind
	}
	return l
}

// ---------------------------------------------------------------- blobs from the real builder

type verifTarEnt struct {
	h    tar.Header
	data []byte
}

func verifBuildTar(ents []verifTarEnt) []byte {
	var b bytes.Buffer
	tw := tar.NewWriter(&b)
	for i := range ents {
		h := ents[i].h
		h.Format = tar.FormatPAX
		if err := tw.WriteHeader(&h); err != nil {
			panic(fmt.Sprintf("verif: tar header %q: %v", h.Name, err))
		}
		tw.Write(ents[i].data)
	}
	tw.Close()
	return b.Bytes()
}

// verifGenBuilder makes a random tar, runs the real builder under random options and returns the
// layer (TOC re-read from the blob).
func verifGenBuilder(rnd *verifutil.Rand, label string) (*verifLayer, error) {
	g := verifNewGen(rnd)
	var tents []verifTarEnt
	files := map[string][]byte{}
	var regNames []string
	var targets []string
	if rnd.Intn(4) == 0 {
		tents = append(tents, verifTarEnt{h: tar.Header{Typeflag: tar.TypeDir, Name: "./", Mode: 0755}})
		g.feat["root-entry"] = true
	}
	hdrAttrs := func(h *tar.Header) {
		var e verifEnt
		g.attrs(&e)
		h.Mode = e.Mode & 07777
		h.Uid, h.Gid = e.UID, e.GID
		if e.ModTime != "" {
			if t, err := time.Parse(time.RFC3339, e.ModTime); err == nil {
				h.ModTime = t // PAX keeps sub-second precision and any year; the builder rounds to seconds
			}
		}
		if len(e.Xattrs) > 0 {
			h.PAXRecords = map[string]string{}
			for _, kv := range e.Xattrs {
				if bytes.IndexByte(kv.V, 0) >= 0 || !isASCIIPrintable(kv.V) {
					kv.V = []byte("bin")
				}
				h.PAXRecords["SCHILY.xattr."+kv.K] = string(kv.V)
			}
		}
	}
	n := 1 + rnd.Intn(14)
	for i := 0; i < n; i++ {
		switch rnd.Pick(3, 2, 6, 2, 3) {
		case 0, 1:
			explicit := rnd.Intn(3) != 0
			p := g.parent()
			name := g.freshName(p)
			for d := name; d != "" && d != "." && g.used[d] == ""; d = path.Dir(d) {
				g.used[d] = "implicit"
				g.dirs = append(g.dirs, d)
			}
			if explicit {
				h := tar.Header{Typeflag: tar.TypeDir, Name: g.spell(name, true)}
				if !strings.HasSuffix(h.Name, "/") {
					h.Name += "/"
				}
				hdrAttrs(&h)
				tents = append(tents, verifTarEnt{h: h})
				if rnd.Intn(6) == 0 {
					tents = append(tents, verifTarEnt{h: h})
					g.feat["dir-repeated"] = true
				}
			} else {
				g.feat["dir-implicit"] = true
			}
		case 2:
			name := g.freshName(g.parent())
			g.used[name] = "file"
			size := []int{0, 1, 3, 10, 100, 1000, 5000, 20000}[rnd.Intn(8)]
			content := make([]byte, size)
			for k := range content {
				content[k] = byte((k*31 + i*7 + k/253) % 251)
			}
			if rnd.Intn(2) == 0 {
				copy(content, rnd.Bytes(size)) // incompressible
			}
			h := tar.Header{Typeflag: tar.TypeReg, Name: g.spell(name, false), Size: int64(size)}
			hdrAttrs(&h)
			tents = append(tents, verifTarEnt{h: h, data: content})
			files[name] = content
			regNames = append(regNames, name)
			targets = append(targets, name)
		case 3:
			name := g.freshName(g.parent())
			g.used[name] = "file"
			h := tar.Header{Name: g.spell(name, false)}
			hdrAttrs(&h)
			switch rnd.Pick(3, 1, 1, 1) {
			case 0:
				h.Typeflag = tar.TypeSymlink
				h.Linkname = []string{"target", "../x", "/abs/path"}[rnd.Intn(3)]
			case 1:
				h.Typeflag = tar.TypeChar
				h.Devmajor, h.Devminor = int64(rnd.Intn(300)), int64(rnd.Intn(300))
			case 2:
				h.Typeflag = tar.TypeBlock
				h.Devmajor, h.Devminor = int64(rnd.Intn(300)), int64(rnd.Intn(300))
			default:
				h.Typeflag = tar.TypeFifo
			}
			tents = append(tents, verifTarEnt{h: h})
			targets = append(targets, name)
		default:
			if len(targets) == 0 {
				continue
			}
			t := targets[rnd.Intn(len(targets))]
			name := g.freshName(g.parent())
			g.used[name] = "file"
			h := tar.Header{Typeflag: tar.TypeLink, Name: g.spell(name, false), Linkname: verifSpell(rnd, t, false, g.fancy)}
			tents = append(tents, verifTarEnt{h: h})
			if rnd.Intn(2) == 0 {
				targets = append(targets, name)
			}
			g.feat["hardlink"] = true
		}
	}
	tarBytes := verifBuildTar(tents)

	var opts []estargz.Option
	var optDesc []string
	var cf tutil.CompressionFactory
	compr := []string{"gzip", "zstd", "ext"}[rnd.Pick(3, 2, 2)]
	switch compr {
	case "gzip":
		cf = tutil.GzipCompressionWithLevel([]int{gzip.BestSpeed, gzip.NoCompression, gzip.BestCompression}[rnd.Intn(3)])
	case "zstd":
		cf = tutil.ZstdCompressionWithLevel(zstd.SpeedFastest)
	default:
		cf = tutil.ExternalTOCGzipCompressionWithLevel(gzip.BestSpeed)
	}
	comp := cf()
	opts = append(opts, estargz.WithCompression(comp))
	if rnd.Intn(3) != 0 {
		cs := []int{1, 3, 64, 1000, 4096, 50000}[rnd.Intn(6)]
		// keep the number of chunks bounded
		if cs < 64 {
			for _, c := range files {
				if len(c) > 300*cs {
					cs = 1000
				}
			}
		}
		opts = append(opts, estargz.WithChunkSize(cs))
		optDesc = append(optDesc, fmt.Sprintf("chunk=%d", cs))
	}
	if rnd.Intn(3) == 0 {
		m := []int{100, 3000, 8000, 100000}[rnd.Intn(4)]
		opts = append(opts, estargz.WithMinChunkSize(m))
		optDesc = append(optDesc, fmt.Sprintf("minchunk=%d", m))
	}
	if rnd.Intn(3) == 0 && len(regNames) > 0 {
		var pr []string
		for k := 0; k < 1+rnd.Intn(3); k++ {
			pr = append(pr, regNames[rnd.Intn(len(regNames))])
		}
		opts = append(opts, estargz.WithPrioritizedFiles(pr))
		var missed []string // a prioritized file below an implicit directory cannot be moved; tolerated
		opts = append(opts, estargz.WithAllowPrioritizeNotFound(&missed))
		optDesc = append(optDesc, fmt.Sprintf("prio=%d", len(pr)))
	}
	l, err := verifBuilderLayer(label, tarBytes, comp, compr, opts, files)
	if err != nil {
		return nil, err
	}
	var fs []string
	for k := range g.feat {
		fs = append(fs, k)
	}
	sort.Strings(fs)
	l.label += " opts=" + strings.Join(optDesc, ",") + " feat=" + strings.Join(fs, "+")
	return l, nil
}

// verifBuilderLayer runs the real builder on a tar and re-reads the TOC from the blob.
func verifBuilderLayer(label string, tarBytes []byte, comp tutil.Compression, compr string, opts []estargz.Option, files map[string][]byte) (*verifLayer, error) {
	rc, err := estargz.Build(io.NewSectionReader(bytes.NewReader(tarBytes), 0, int64(len(tarBytes))), opts...)
	if err != nil {
		return nil, fmt.Errorf("build: %w", err)
	}
	defer rc.Close()
	blob, err := io.ReadAll(rc)
	if err != nil {
		return nil, fmt.Errorf("build read: %w", err)
	}
	l := &verifLayer{label: label, kind: "builder-" + compr, class: "conf", compr: compr, blob: blob, files: files}
	switch compr {
	case "ext":
		ec := comp.(interface{ WriteTOCTo(io.Writer) (int, error) })
		var eb bytes.Buffer
		if _, err := ec.WriteTOCTo(&eb); err != nil {
			return nil, err
		}
		ext := eb.Bytes()
		l.newDecomp = func() metadata.Decompressor {
			return externaltoc.NewGzipDecompressor(func() ([]byte, error) { return ext, nil })
		}
	case "zstd":
		l.newDecomp = func() metadata.Decompressor { return &verifZstdDecomp{&zstdchunked.Decompressor{}} }
	default:
		l.newDecomp = func() metadata.Decompressor { return tutil.GzipCompressionWithLevel(gzip.BestSpeed)() }
	}
	if err := verifReadTOC(l); err != nil {
		return nil, err
	}
	return l, nil
}

// verifBuilderScenarios: fixed tars through the real builder; the inputs of the candidate findings
// that only builder-made blobs show.
func verifBuilderScenarios() ([]*verifLayer, error) {
	var ls []*verifLayer
	content := bytes.Repeat([]byte("0123456789"), 10)
	// two prioritized files (the second one empty) + min-chunk-size: the first stream starts at blob
	// offset 0 and the empty regular file (Offset 0 by omission) follows it in the TOC
	{
		tents := []verifTarEnt{
			{h: tar.Header{Typeflag: tar.TypeReg, Name: "first", Size: int64(len(content)), Mode: 0644}, data: content},
			{h: tar.Header{Typeflag: tar.TypeReg, Name: "empty", Size: 0, Mode: 0644}},
			{h: tar.Header{Typeflag: tar.TypeReg, Name: "later", Size: int64(len(content)), Mode: 0644}, data: content},
		}
		comp := tutil.GzipCompressionWithLevel(gzip.BestSpeed)()
		opts := []estargz.Option{estargz.WithCompression(comp), estargz.WithMinChunkSize(100000), estargz.WithPrioritizedFiles([]string{"first", "empty"})}
		l, err := verifBuilderLayer("builder-stream-at-offset-0 opts=minchunk=100000,prio=2", verifBuildTar(tents), comp, "gzip", opts,
			map[string][]byte{"first": content, "empty": {}, "later": content})
		if err != nil {
			return nil, err
		}
		ls = append(ls, l)
	}
	// chunk-size below min-chunk-size: several chunks of one file in one stream
	{
		big := bytes.Repeat([]byte("abcdefghij"), 500)
		tents := []verifTarEnt{
			{h: tar.Header{Typeflag: tar.TypeDir, Name: "d/", Mode: 0755}},
			{h: tar.Header{Typeflag: tar.TypeReg, Name: "d/big", Size: int64(len(big)), Mode: 0644}, data: big},
			{h: tar.Header{Typeflag: tar.TypeReg, Name: "small", Size: int64(len(content)), Mode: 0644}, data: content},
		}
		comp := tutil.GzipCompressionWithLevel(gzip.BestSpeed)()
		opts := []estargz.Option{estargz.WithCompression(comp), estargz.WithChunkSize(1000), estargz.WithMinChunkSize(8000)}
		l, err := verifBuilderLayer("builder-chunks-share-stream opts=chunk=1000,minchunk=8000", verifBuildTar(tents), comp, "gzip", opts,
			map[string][]byte{"d/big": big, "small": content})
		if err != nil {
			return nil, err
		}
		ls = append(ls, l)
	}
	// tar (PAX) modification times at the edges of every plausible time encoding, on every node kind,
	// through the real builder (which rounds to seconds and writes RFC3339 into the TOC)
	for ci, compr := range []string{"gzip", "zstd"} {
		var tents []verifTarEnt
		files := map[string][]byte{}
		for i, ts := range verifEdgeTimes {
			mt, err := time.Parse(time.RFC3339, ts)
			if err != nil {
				return nil, fmt.Errorf("edge time %q: %v", ts, err)
			}
			if i%8 == 0 {
				tents = append(tents, verifTarEnt{h: tar.Header{Typeflag: tar.TypeDir, Name: fmt.Sprintf("t%d/", i/8), Mode: 0755, ModTime: mt}})
			}
			name := fmt.Sprintf("t%d/e%02d", i/8, i)
			switch (i + ci) % 5 {
			case 1:
				tents = append(tents, verifTarEnt{h: tar.Header{Typeflag: tar.TypeSymlink, Name: name, Linkname: "e00", Mode: 0777, ModTime: mt}})
			case 3:
				tents = append(tents, verifTarEnt{h: tar.Header{Typeflag: tar.TypeChar, Name: name, Devmajor: 1, Devminor: 3, Mode: 0600, ModTime: mt}})
			default:
				c := []byte(ts)
				tents = append(tents, verifTarEnt{h: tar.Header{Typeflag: tar.TypeReg, Name: name, Size: int64(len(c)), Mode: 0644, ModTime: mt}, data: c})
				files[name] = c
			}
		}
		var comp tutil.Compression
		if compr == "zstd" {
			comp = tutil.ZstdCompressionWithLevel(zstd.SpeedFastest)()
		} else {
			comp = tutil.GzipCompressionWithLevel(gzip.BestSpeed)()
		}
		l, err := verifBuilderLayer("builder-mtime-edges-"+compr+" opts= feat=mtime-edge", verifBuildTar(tents), comp, compr,
			[]estargz.Option{estargz.WithCompression(comp)}, files)
		if err != nil {
			return nil, err
		}
		ls = append(ls, l)
	}
	return ls, nil
}

type verifZstdDecomp struct{ *zstdchunked.Decompressor }

func isASCIIPrintable(b []byte) bool {
	for _, c := range b {
		if c < 0x20 || c > 0x7e {
			return false
		}
	}
	return true
}

// verifReadTOC extracts the decompressed TOC stream of a blob the way a store would locate it.
func verifReadTOC(l *verifLayer) error {
	d := l.newDecomp()
	fs := d.FooterSize()
	if int64(len(l.blob)) < fs {
		return fmt.Errorf("blob too small")
	}
	_, tocOff, tocSize, err := d.ParseFooter(l.blob[int64(len(l.blob))-fs:])
	if err != nil {
		return fmt.Errorf("footer: %w", err)
	}
	var rc io.ReadCloser
	if tocOff < 0 {
		rc, err = d.DecompressTOC(nil)
	} else {
		if tocSize <= 0 {
			tocSize = int64(len(l.blob)) - tocOff - fs
		}
		rc, err = d.DecompressTOC(bytes.NewReader(l.blob[tocOff : tocOff+tocSize]))
	}
	if err != nil {
		return fmt.Errorf("decompress toc: %w", err)
	}
	defer rc.Close()
	l.tocStream, err = io.ReadAll(rc)
	if err != nil {
		return err
	}
	l.ents, l.jsonLen, err = verifParseTOC(l.tocStream)
	return err
}

// ---------------------------------------------------------------- hand-written scenarios

type verifEntOpt func(*verifEnt)

func vE(name, typ string, opts ...verifEntOpt) verifEnt {
	e := verifEnt{Name: name, Type: typ}
	for _, o := range opts {
		o(&e)
	}
	return e
}

func vMode(m int64) verifEntOpt   { return func(e *verifEnt) { e.Mode = m } }
func vOwner(u, g int) verifEntOpt { return func(e *verifEnt) { e.UID, e.GID = u, g } }
func vLink(t string) verifEntOpt  { return func(e *verifEnt) { e.LinkName = t } }
func vMtime(s string) verifEntOpt { return func(e *verifEnt) { e.ModTime = s } }
func vDev(a, b int) verifEntOpt   { return func(e *verifEnt) { e.DevMajor, e.DevMinor = a, b } }
func vX(kv ...string) verifEntOpt {
	return func(e *verifEnt) {
		for i := 0; i+1 < len(kv); i += 2 {
			e.Xattrs = append(e.Xattrs, verifKV{kv[i], []byte(kv[i+1])})
		}
	}
}

// vFile makes the reg entry (+ chunk entries) of a file with the given content, cut at `cuts`.
func vFile(name, content string, cuts []int, opts ...verifEntOpt) []verifEnt {
	e := vE(name, "reg", opts...)
	e.Size = int64(len(content))
	if len(content) > 0 {
		e.Digest = verifSha([]byte(content))
	}
	if len(content) == 0 {
		return []verifEnt{e}
	}
	bounds := append([]int{0}, cuts...)
	bounds = append(bounds, len(content))
	var out []verifEnt
	for i := 0; i+1 < len(bounds); i++ {
		c := verifEnt{Name: name, Type: "chunk"}
		if i == 0 {
			c = e
		}
		c.ChunkOffset = int64(bounds[i])
		if i+2 < len(bounds) {
			c.ChunkSize = int64(bounds[i+1] - bounds[i])
		}
		c.data = []byte(content[bounds[i]:bounds[i+1]])
		c.ChunkDigest = verifSha(c.data)
		out = append(out, c)
	}
	return out
}

func vCat(parts ...[]verifEnt) []verifEnt {
	var out []verifEnt
	for _, p := range parts {
		out = append(out, p...)
	}
	return out
}

func vOne(e verifEnt) []verifEnt { return []verifEnt{e} }

// verifScenario assembles a hand-written TOC: every data-carrying entry gets its own stream unless
// `share` lists groups of entry indices to be packed into one stream.
func verifScenario(label, class, compr string, ents []verifEnt, share [][]int, st verifJSONStyle, cands ...string) *verifLayer {
	groupOf := map[int][]int{}
	for _, g := range share {
		for _, i := range g {
			groupOf[i] = g
		}
	}
	var streams []verifStream
	for i := range ents {
		if g, ok := groupOf[i]; ok {
			if g[0] == i { // blob order must follow TOC order
				s := verifStream{}
				for _, k := range g {
					s.idx = append(s.idx, k)
					s.gap = append(s.gap, 0)
				}
				streams = append(streams, s)
			}
			continue
		}
		if len(ents[i].data) > 0 {
			streams = append(streams, verifStream{idx: []int{i}, gap: []int{0}})
		}
	}
	files := map[string][]byte{}
	last := ""
	for i := range ents {
		if ents[i].Type == "reg" {
			last = verifClean(ents[i].Name)
			files[last] = append([]byte{}, ents[i].data...)
		} else if ents[i].Type == "chunk" && last != "" {
			files[last] = append(files[last], ents[i].data...)
		}
	}
	l := verifAssemble(label, class, compr, ents, streams, st, nil)
	l.files = files
	l.candidates = cands
	return l
}

var verifStd = verifJSONStyle{version: true}

// verifRegressionScenarios pins the inputs of the three repaired C05 defects and a few hand-made
// TOCs that exercise every clause of SpecConforming.
func verifRegressionScenarios() []*verifLayer {
	var ls []*verifLayer
	// 351ec0e + f5f558b: tar -C dir . with xattrs user.a="1", user.b="", user.c=""
	for _, compr := range []string{"gzip", "zstd", "ext"} {
		ls = append(ls, verifScenario("regress-rootentry-emptyxattr", "conf", compr, vCat(
			vOne(vE("./", "dir", vMode(0755))),
			vOne(vE("./d/", "dir", vMode(0755), vX("user.a", "1", "user.b", "", "user.c", ""))),
			vFile("./d/f", "hello", nil, vMode(0644), vX("user.a", "1", "user.b", "", "user.c", "")),
		), nil, verifStd))
	}
	// f5f558b: only empty-valued xattrs, in every count
	ls = append(ls, verifScenario("regress-emptyxattr-only", "conf", "gzip", vCat(
		vFile("f1", "x", nil, vX("user.a", "")),
		vFile("f2", "y", nil, vX("user.a", "", "user.b", "")),
		vOne(vE("d", "dir", vX("user.a", "", "user.b", "", "user.c", "", "user.d", "v"))),
		vOne(vE("s", "symlink", vLink("f1"), vX("user.z", ""))),
	), nil, verifStd))
	// 5e57727: bytes after the JSON value inside the TOC entry (gzip, externaltoc)
	for _, compr := range []string{"gzip", "ext"} {
		for _, tr := range []string{"\n", " \n\t \n", strings.Repeat(" ", 5000)} {
			st := verifStd
			st.trailing = tr
			ls = append(ls, verifScenario(fmt.Sprintf("regress-toc-trailing-%d", len(tr)), "conf", compr, vCat(
				vFile("a", "aaaa", nil), vOne(vE("b/", "dir")), vFile("b/c", "cccccccc", []int{3}),
			), nil, st))
		}
	}
	// hardlinks to earlier entries, hardlink to hardlink, via other spellings
	ls = append(ls, verifScenario("hardlink-chain", "conf", "gzip", vCat(
		vFile("foo", "foofoo", nil, vOwner(1000, 1000)),
		vOne(vE("bar/", "dir")),
		vOne(vE("bar/l1", "hardlink", vLink("foo"))),
		vOne(vE("bar/l2", "hardlink", vLink("./bar/../bar/l1"))),
		vOne(vE("l3", "hardlink", vLink("/bar/l2"), vOwner(5, 5), vMode(0777))),
		vOne(vE("sym", "symlink", vLink("bar/l2"))),
		vOne(vE("l4", "hardlink", vLink("sym"))),
		vOne(vE("deep/er/l5", "hardlink", vLink("l4"))),
	), nil, verifStd))
	// implicit parents, ./ and ../ spellings, repeated identical directory entry
	ls = append(ls, verifScenario("implicit-and-spellings", "conf", "zstd", vCat(
		vFile("a/b/c/d.txt", "dddd", nil),
		vOne(vE("../a/b/x/", "dir", vMode(0700))),
		vOne(vE("./a//b/./x", "dir", vMode(0700))),
		vFile("/a/b/x/../x/y", "yy", nil),
		vOne(vE("q/../z/", "dir")),
		vOne(vE("z/fifo", "fifo")),
		vOne(vE("z/c", "char", vDev(10, 11))),
		vOne(vE("z/b", "block", vDev(100, 101))),
	), nil, verifStd))
	// directories announced again later — after children, after hardlinks into them, nested, three
	// times, by other spellings — with the same attributes (memory keeps the last entry, db the first)
	ls = append(ls, verifScenario("dir-repeated-late", "conf", "gzip", vCat(
		vOne(vE("p/", "dir", vMode(0750), vOwner(7, 8))),
		vOne(vE("p/q/", "dir", vMode(0711))),
		vFile("p/q/f", "ffff", nil),
		vOne(vE("./p", "dir", vMode(0750), vOwner(7, 8))),
		vOne(vE("p/q/l", "hardlink", vLink("p/q/f"))),
		vOne(vE("p/../p/q", "dir", vMode(0711))),
		vFile("p/g", "gggggggg", []int{4}),
		vOne(vE("imp/deep/d/", "dir")),
		vOne(vE("p/q/", "dir", vMode(0711))),
		vOne(vE("imp/deep/d", "dir")),
		vOne(vE("imp/deep/d/s", "symlink", vLink("../../../p"))),
		vOne(vE("/p/", "dir", vMode(0750), vOwner(7, 8))),
	), nil, verifStd))
	// chunked files, files without per-file digest, several chunks and files in one stream
	{
		ents := vCat(
			vFile("small", "ab", nil),
			vFile("large", "qwertyuiopasdfghjk", []int{4, 8, 12, 16}),
			vFile("foo2", "bb", nil),
			vFile("foo22", "ccc", nil),
			vFile("empty", "", nil),
			vFile("last", "0123456789", []int{5}),
		)
		ents[1].Digest = ""
		ls = append(ls, verifScenario("chunks-and-streams", "conf", "gzip", ents, [][]int{{6, 7}, {9}}, verifStd))
	}
	// modification times at the edges of every plausible encoding of the time attribute (hand-serialised
	// RFC3339 strings incl. fractions and zones), on files, directories, symlinks, devices and hardlinks
	for ci, compr := range []string{"gzip", "zstd"} {
		var ents [][]verifEnt
		for i, ts := range verifEdgeTimes {
			if i%8 == 0 {
				ents = append(ents, vOne(vE(fmt.Sprintf("t%d/", i/8), "dir", vMode(0755), vMtime(ts))))
			}
			name := fmt.Sprintf("t%d/e%02d", i/8, i)
			switch (i + ci) % 5 {
			case 1:
				ents = append(ents, vOne(vE(name, "symlink", vLink("e00"), vMtime(ts))))
			case 3:
				ents = append(ents, vOne(vE(name, "char", vDev(1, 3), vMtime(ts))))
			default:
				ents = append(ents, vFile(name, ts, nil, vMtime(ts), vMode(0644)))
			}
		}
		ents = append(ents, vOne(vE("hl", "hardlink", vLink("t0/e00"))))
		ls = append(ls, verifScenario("mtime-edges-"+compr, "conf", compr, vCat(ents...), nil, verifStd))
	}
	// the other attributes at the edges of their encodings (varint uid/gid/dev, uvarint mode, xattr split)
	ls = append(ls, verifScenario("attr-extremes", "conf", "gzip", vCat(
		vFile("u31", "a", nil, vOwner(2147483647, 2147483647), vMode(07777)),
		vFile("u32", "b", nil, vOwner(4294967295, 4294967294), vMode(0)),
		vFile("u33", "c", nil, vOwner(4294967296+5, 1<<40), vMode(01000)),
		vFile("neg", "d", nil, vOwner(-1, -2), vMode(04755)),
		vOne(vE("devbig", "block", vDev(2147483647, 4294967295), vOwner(0, 1))),
		vOne(vE("devneg", "char", vDev(-1, 1<<33), vMode(0600))),
		vOne(vE("dx/", "dir", vMode(0), vOwner(1<<31, 0), vX("user.a", "", "user.b", "\x00\xff", "user.c", "c"))),
	), nil, verifStd))
	return ls
}

// verifCandidateScenarios: spec-conforming looking inputs on which the CURRENT stores disagree
// (each tagged with the signature it is expected to trip), kept apart from the conforming stream
// so that every other disagreement is still reported under a generic signature.
func verifCandidateScenarios() []*verifLayer {
	var ls []*verifLayer
	// zstd:chunked: bytes after the TOC JSON inside the zstd TOC frame
	for _, tr := range []string{"\n", "   \n", strings.Repeat(" ", 9000)} {
		st := verifStd
		st.trailing = tr
		ls = append(ls, verifScenario(fmt.Sprintf("cand-zstd-toc-trailing-%d", len(tr)), "cand", "zstd", vCat(
			vFile("a", "aaaa", nil), vOne(vE("b/", "dir")),
		), nil, st, "toc-digest-span-zstd"))
	}
	// a TOC without any entry: the memory store's fallback root has NumLink 1, the db root 2
	ls = append(ls, verifScenario("cand-empty-toc", "cand", "gzip", nil, nil, verifStd, "empty-toc-root-nlink"))
	// repeated directory entry with different attributes (tar: the later header wins)
	ls = append(ls, verifScenario("cand-repeated-dir-attrs", "cand", "gzip", vCat(
		vOne(vE("d/", "dir", vMode(0700), vOwner(5, 6), vMtime("2020-01-02T03:04:05Z"), vX("user.a", "1", "user.b", "2"))),
		vFile("d/f", "x", nil),
		vOne(vE("d/", "dir", vMode(0755))),
	), nil, verifStd, "repeated-dir-attr-merge"))
	// a directory entry that follows one of its children
	ls = append(ls, verifScenario("cand-dir-after-child", "cand", "gzip", vCat(
		vFile("p/d/f", "x", nil),
		vOne(vE("p/d/", "dir", vMode(0700))),
		vOne(vE("p/", "dir", vMode(0711))),
	), nil, verifStd, "dir-after-child-nlink"))
	// legacy stargz: file digest but no chunk digest
	{
		ents := vFile("legacy", "legacy-content", nil)
		ents[0].ChunkDigest = ""
		ls = append(ls, verifScenario("cand-no-chunk-digest", "cand", "gzip", ents, nil, verifStd, "chunk-digest-fallback"))
	}
	// same name twice (tar: the later entry replaces the earlier one)
	ls = append(ls, verifScenario("note-dup-file", "note", "gzip", vCat(
		vFile("f", "first", nil, vOwner(1, 1)),
		vFile("f", "second!", []int{3}, vOwner(2, 2)),
	), nil, verifStd, "dup-name"))
	ls = append(ls, verifScenario("note-file-then-dir", "note", "gzip", vCat(
		vFile("n", "first", nil),
		vOne(vE("n/", "dir", vMode(0700))),
		vFile("n/x", "x", nil),
	), nil, verifStd, "dup-name"))
	ls = append(ls, verifScenario("note-dir-then-file", "note", "gzip", vCat(
		vOne(vE("n/", "dir", vMode(0700), vOwner(3, 3), vX("user.a", "1"))),
		vFile("n", "now-a-file", nil),
	), nil, verifStd, "dup-name"))
	// a hardlink to a later entry, a chunk before any file (not valid TOCs: notes)
	ls = append(ls, verifScenario("note-hardlink-forward", "note", "gzip", vCat(vOne(vE("l", "hardlink", vLink("f"))), vFile("f", "x", nil)), nil, verifStd, "hardlink-forward"))
	ls = append(ls, verifScenario("note-chunk-first", "note", "gzip", vCat(vOne(verifEnt{Name: "c", Type: "chunk", ChunkOffset: 0, ChunkSize: 1}), vFile("f", "x", nil)), nil, verifStd, "chunk-first"))
	{
		ents := vFile("f", "0123456789", []int{5})
		ents[0], ents[1] = ents[1], ents[0] // chunk before its reg
		ls = append(ls, verifScenario("note-chunk-before-reg", "note", "gzip", ents, nil, verifStd, "chunk-first"))
	}
	// offsets on entries that carry no data
	{
		ents := vCat(vFile("e", "", nil), vOne(vE("d/", "dir")), vFile("z", "zz", nil))
		l := verifScenario("note-offset-on-empty", "note", "gzip", ents, nil, verifStd, "getoffset-no-data")
		_ = l
		ents[0].Offset = 77
		ents[1].Offset = 88
		l2 := verifAssembleKeep("note-offset-on-empty", "note", "gzip", ents, verifStd, "getoffset-no-data")
		ls = append(ls, l2)
	}
	return ls
}

// verifAssembleKeep is verifScenario for entries whose Offset fields must be kept as given for
// entries without data.
func verifAssembleKeep(label, class, compr string, ents []verifEnt, st verifJSONStyle, cands ...string) *verifLayer {
	keep := map[int]int64{}
	for i := range ents {
		if len(ents[i].data) == 0 && ents[i].Offset != 0 {
			keep[i] = ents[i].Offset
		}
	}
	var streams []verifStream
	for i := range ents {
		if len(ents[i].data) > 0 {
			streams = append(streams, verifStream{idx: []int{i}, gap: []int{0}})
		}
	}
	// verifAssemble serialises after laying out; offsets of data-less entries are untouched
	l := verifAssemble(label, class, compr, ents, streams, st, nil)
	l.candidates = cands
	return l
}

// verifNonConformingScenarios: TOCs outside the spec; only accept/reject agreement is required.
func verifNonConformingScenarios() []*verifLayer {
	mk := func(label string, ents []verifEnt) *verifLayer {
		l := verifScenario("nonconf-"+label, "nonconf", "gzip", ents, nil, verifStd)
		l.variant = label
		return l
	}
	var ls []*verifLayer
	ls = append(ls, mk("hardlink-missing", vCat(vFile("f", "x", nil), vOne(vE("l", "hardlink", vLink("nope"))))))
	ls = append(ls, mk("hardlink-to-dir", vCat(vOne(vE("d/", "dir")), vOne(vE("l", "hardlink", vLink("d"))))))
	ls = append(ls, mk("hardlink-to-implicit-dir", vCat(vFile("d/f", "x", nil), vOne(vE("l", "hardlink", vLink("d"))))))
	ls = append(ls, mk("hardlink-to-root", vCat(vFile("f", "x", nil), vOne(vE("l", "hardlink", vLink("/"))))))
	ls = append(ls, mk("hardlink-self", vCat(vOne(vE("l", "hardlink", vLink("l"))))))
	ls = append(ls, mk("hardlink-cycle", vCat(vOne(vE("a", "hardlink", vLink("b"))), vOne(vE("b", "hardlink", vLink("a"))))))
	ls = append(ls, mk("chunk-after-dir", vCat(vOne(vE("d/", "dir")), vOne(verifEnt{Name: "d", Type: "chunk", ChunkOffset: 1, ChunkSize: 1}))))
	ls = append(ls, mk("file-under-file", vCat(vFile("a", "x", nil), vFile("a/b", "y", nil))))
	ls = append(ls, mk("hardlink-source-has-children", vCat(vFile("a", "x", nil), vFile("a/b", "y", nil), vOne(vE("a/b/c", "hardlink", vLink("a"))))))
	ls = append(ls, mk("hardlink-source-gets-children-later", vCat(vFile("a", "x", nil), vOne(vE("l", "hardlink", vLink("a"))), vFile("a/b", "y", nil))))
	ls = append(ls, mk("unknown-type", vCat(vOne(vE("u", "socket")), vOne(vE("v", "")))))
	ls = append(ls, mk("root-is-file", vCat(vFile("./", "x", nil), vFile("f", "y", nil))))
	ls = append(ls, mk("root-is-symlink", vCat(vOne(vE("/", "symlink", vLink("x"))), vFile("f", "y", nil))))
	ls = append(ls, mk("root-is-hardlink", vCat(vFile("f", "y", nil), vOne(vE("/", "hardlink", vLink("f"))))))
	ls = append(ls, mk("only-root", vOne(vE("./", "dir"))))
	{
		ents := vFile("f", "0123456789", []int{3, 6})
		ents[1], ents[2] = ents[2], ents[1] // unsorted chunks
		ls = append(ls, mk("chunks-unsorted", ents))
	}
	{
		ents := vFile("f", "0123456789", []int{3, 6})
		ents[1].ChunkOffset = 4 // gap
		ls = append(ls, mk("chunks-gap", ents))
	}
	{
		ents := vFile("f", "0123456789", []int{5})
		ents[0].ChunkSize = 0 // chunked file whose first entry has no chunkSize
		ls = append(ls, mk("reg-no-chunksize-then-chunk", ents))
	}
	{
		ents := vFile("f", "0123456789", nil)
		ents[0].Size = -5
		ls = append(ls, mk("negative-size", ents))
	}
	{
		ents := vCat(vFile("f", "0123456789", []int{5}), vOne(vE("d/", "dir")))
		ents[1].ChunkSize = -3
		ls = append(ls, mk("negative-chunksize", ents))
	}
	return ls
}
