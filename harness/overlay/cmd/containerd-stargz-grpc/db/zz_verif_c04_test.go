//go:build verif

package db

// C04 for the bolt-backed metadata store: db.NewReader + full metadata.Reader walk + fs/reader on
// top of it, every input in a crash-isolated child (see internal/verifc04).  Only the exported
// NewReader and the metadata.Reader interface are used.

import (
	"bytes"
	"fmt"
	"io"
	"os"
	"path/filepath"
	"testing"

	"github.com/containerd/stargz-snapshotter/internal/verifc04"
	"github.com/containerd/stargz-snapshotter/internal/verifutil"
	"github.com/containerd/stargz-snapshotter/metadata"
	bolt "go.etcd.io/bbolt"
)

var verifC04DB *bolt.DB
var verifC04Dir string

func verifC04Run(in *verifc04.Input, rec *verifc04.Rec) {
	if in.Kind != "blob" {
		return
	}
	if verifC04DB == nil {
		d, err := os.MkdirTemp("", "verifc04db")
		if err != nil {
			rec.Fail("harness-tempdir", err.Error())
			return
		}
		verifC04Dir = d
		if verifC04DB, err = bolt.Open(filepath.Join(d, "meta.db"), 0600, &bolt.Options{NoFreelistSync: true, NoSync: true}); err != nil {
			rec.Fail("harness-bolt-open", err.Error())
			return
		}
	}
	sr := io.NewSectionReader(bytes.NewReader(in.Data), 0, int64(len(in.Data)))
	var mr metadata.Reader
	cl := rec.Try("db", func() (err error) {
		mr, err = NewReader(verifC04DB, sr, metadata.WithDecompressors(verifc04.Decompressors(in)...))
		if err != nil {
			return err
		}
		// The TOC entries are loaded by a background goroutine; its verdict belongs to opening.  Every
		// query of a node other than the root waits for it and hands its error on (exported API only).
		err = mr.ForeachChild(mr.RootID(), func(string, uint32, os.FileMode) bool { return false })
		rec.Settle() // a panic of that goroutine releases the waiters through the deferred Done
		return err
	})
	if cl != "ok" {
		if mr != nil {
			rec.Try("db.close", func() error { return mr.Close() })
		}
		return
	}
	var regs []uint32
	rec.Try("db.walk", func() error {
		regs = verifc04.WalkMetadata("db", mr, rec)
		// diagnostics API of the store, when it has them (not part of metadata.Reader)
		if n, ok := mr.(interface{ NumOfNodes() (int, error) }); ok {
			n.NumOfNodes()
		}
		if n, ok := mr.(interface{ NumOfChunks(uint32) (int, error) }); ok {
			for _, id := range regs {
				n.NumOfChunks(id)
			}
		}
		return nil
	})
	pd := filepath.Join(verifC04Dir, "pass")
	verifc04.ExerciseReader("db", mr, regs, rec, pd)
	os.RemoveAll(pd)
	rec.Try("db.close", func() error { return mr.Close() })
}

// TestVerifC04Child is the crash-isolated executor; it does nothing unless started by TestVerifC04.
func TestVerifC04Child(t *testing.T) {
	verifc04.ChildMain(verifC04Run)
	if verifC04DB != nil {
		verifC04DB.Close()
		os.RemoveAll(verifC04Dir)
	}
}

func TestVerifC04(t *testing.T) {
	out := verifutil.OpenOut()
	defer out.Close()
	bases, err := verifc04.BuildBases()
	if err != nil {
		t.Fatalf("cannot build the valid base blobs: %v", err)
	}
	g := &verifc04.Gen{R: verifutil.NewRand(verifutil.Seed()), Bases: bases}
	inputs := verifc04.Plan(g, true)
	out.Comment(fmt.Sprintf("C04 db binary: %d inputs", len(inputs)))
	sum := verifc04.Run(out, inputs, verifc04.DefaultConfig())
	out.Comment(fmt.Sprintf("inputs=%d crashes=%d hangs=%d", sum.Inputs, sum.Crashes, sum.Hangs))
	t.Logf("C04 db: %d inputs, %d crashes, %d hangs", sum.Inputs, sum.Crashes, sum.Hangs)
}
