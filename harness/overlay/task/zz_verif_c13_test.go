//go:build verif

package task

// C13 harness: runs the REAL BackgroundTaskManager under random schedules, records the
// linearised event trace through the VerifTrace hook and emits it as op lines for the Lean trace
// acceptor (svdriver_c13; expected answer for every line: "ok").  Independently of the model the
// harness evaluates the C13 predicate with its own instrumentation inside the bodies (oracle).
//
// Every oracle condition is a SAFETY fact that holds under any timing on correct code (see the
// comment at each check); the two liveness checks use bounds that are orders of magnitude above
// the millisecond scale of the scenarios.

import (
	"context"
	"fmt"
	"hash/fnv"
	"os"
	"runtime"
	"strings"
	"sync"
	"sync/atomic"
	"testing"
	"time"

	"github.com/containerd/stargz-snapshotter/internal/verifutil"
)

type verifEv struct {
	ev string
	id int // invocation index 0..n-1 in order of first appearance, -1 for prio events
	v  int64
}

const (
	verifKindInstant  = iota // returns at once
	verifKindObedient        // works, returns as soon as ctx is cancelled
	verifKindLate            // works, reacts LATE to ctx.Done
	verifKindDeaf            // ignores ctx completely
	verifKindSpin            // busy loop with Gosched, polls ctx.Err
	verifKindWaiter          // long work (so that it is usually cancelled), small latency
	verifKindStubborn        // waits for the cancellation, then STAYS ALIVE until the harness lets it go
	verifKindBlocker         // occupies its slot for `work` (or until the oracle has seen a violation), deaf to ctx
	verifNumKinds
)

type verifBodyCfg struct {
	kind    int
	work    time.Duration
	latency time.Duration
}

type verifPrioPair struct{ before, hold time.Duration }

type verifCfg struct {
	name     string
	conc     int
	period   time.Duration
	procs    int
	invDelay []time.Duration  // one per invocation
	invKinds [][]verifBodyCfg // per invocation: behaviour of execution 1,2,... (last one repeats)
	prio     [][]verifPrioPair
	// stubborn scenarios: the prioritized goroutines start only after this many stubborn bodies are running
	prioWaitStub int
	// per invocation (nil = defaults): the `timeout` argument of InvokeBackgroundTask (0 = 10 minutes) and the
	// wave (wave-1 invocations are started when every wave-0 invocation has returned)
	invTimeout []time.Duration
	invWave    []int
	// per invocation: call InvokeBackgroundTask only after this many blocker/stubborn bodies are running
	invWaitStub []int
}

func (c *verifCfg) timeout(k int) time.Duration {
	if k < len(c.invTimeout) && c.invTimeout[k] > 0 {
		return c.invTimeout[k]
	}
	return 10 * time.Minute
}

func (c *verifCfg) wave(k int) int {
	if k < len(c.invWave) {
		return c.invWave[k]
	}
	return 0
}

type verifFailure struct{ sig, what string }

type verifScenario struct {
	cfg verifCfg
	ts  *BackgroundTaskManager

	mu           sync.Mutex // the one harness mutex: trace, id map, hook-snapshot bookkeeping
	trace        []verifEv
	idmap        map[int64]int
	lastDecide   map[int]int64
	lastDoneCall time.Time
	anyDone      bool
	fails        []verifFailure
	failSeen     map[string]int

	// own instrumentation (oracle), all atomics
	active     int64 // prioritized tasks whose Do has returned and whose Done is not yet being called
	beginSeq   int64 // incremented BEFORE each DoPrioritizedTask call
	doneSeqMax int64 // largest sequence number whose DoPrioritizedTask has returned
	aliveAll   int64
	aliveInv   []int64
	returned   []int32
	execs      []int64
	maxAlive   int64

	// stubborn bodies: once cancelled they stay alive until stubRelease is closed (by the oracle, when it
	// sees something that must not happen while they are alive) or until `hold` has elapsed
	hold        time.Duration
	stubRelease chan struct{}
	stubOnce    sync.Once
	stubEntered int64
	stubHeld    int64 // stubborn bodies that were cancelled and held
	prioOver    int32 // all prioritized goroutines have finished
}

// manager -> scenario; several scenarios may run in parallel
var verifScens sync.Map

// after the first not-cancelled failure the bodies stop waiting long (the run only has to end)
var verifShortWait atomic.Bool

func (sc *verifScenario) fail(sig, what string) {
	sc.mu.Lock()
	sc.failLocked(sig, what)
	sc.mu.Unlock()
	switch sig {
	case "self-overlap", "over-cap", "alive-at-return", "no-progress", "manager-panic":
		// the violation is on record: let the stubborn bodies go so that the scenario can end
		sc.stubOnce.Do(func() { close(sc.stubRelease) })
	}
}

func (sc *verifScenario) failLocked(sig, what string) {
	if sc.failSeen[sig] < 3 {
		sc.fails = append(sc.fails, verifFailure{sig, what})
	}
	sc.failSeen[sig]++
}

// verifHook is installed as VerifTrace.
func verifHook(ts *BackgroundTaskManager, ev string, id, v int64) {
	x, ok := verifScens.Load(ts)
	if !ok {
		return
	}
	sc := x.(*verifScenario)
	sc.mu.Lock()
	defer sc.mu.Unlock()
	k := -1
	if id != 0 {
		var ok bool
		if k, ok = sc.idmap[id]; !ok {
			k = len(sc.idmap)
			sc.idmap[id] = k
		}
	}
	sc.trace = append(sc.trace, verifEv{ev, k, v})
	switch ev {
	case "bg.decide":
		sc.lastDecide[k] = v
		if v == 0 {
			// We are inside the notify critical section, after the read of the counter.
			// A task counted in `active` finished its DoPrioritizedTask critical section before this
			// one began and has not called DonePrioritizedTask yet, so the read must have seen it.
			if a := atomic.LoadInt64(&sc.active); a > 0 {
				sc.failLocked("start-while-prio", fmt.Sprintf("start decision read tasks=0 while %d prioritized tasks are in progress", a))
			}
			// A task whose DonePrioritizedTask was called at lastDoneCall (timestamp taken BEFORE the
			// call) is counted until Sleep(period) is over; Sleep never returns early.
			if sc.anyDone && sc.cfg.period > 0 {
				if d := time.Since(sc.lastDoneCall); d < sc.cfg.period-200*time.Microsecond {
					sc.failLocked("start-in-silence", fmt.Sprintf("start decision read tasks=0 only %v after a prioritized task ended (silence period %v)", d, sc.cfg.period))
				}
			}
		}
	case "body.start":
		if d := sc.lastDecide[k]; d > 0 {
			sc.failLocked("start-while-prio", fmt.Sprintf("body of invocation %d started although its start decision read tasks=%d", k, d))
		}
	}
}

func verifAtomicMax(p *int64, v int64) {
	for {
		o := atomic.LoadInt64(p)
		if v <= o || atomic.CompareAndSwapInt64(p, o, v) {
			return
		}
	}
}

// body returns the closure passed to InvokeBackgroundTask for invocation k.
func (sc *verifScenario) body(k int) func(context.Context) {
	return func(ctx context.Context) {
		// ---- oracle: entry ----
		if n := atomic.AddInt64(&sc.aliveInv[k], 1); n > 1 {
			sc.fail("self-overlap", fmt.Sprintf("invocation %d: %d executions of its body alive at once", k, n))
		}
		a := atomic.AddInt64(&sc.aliveAll, 1)
		if a > int64(sc.cfg.conc) {
			sc.fail("over-cap", fmt.Sprintf("%d bodies alive at once, concurrency %d", a, sc.cfg.conc))
		}
		verifAtomicMax(&sc.maxAlive, a)
		if atomic.LoadInt32(&sc.returned[k]) != 0 {
			sc.fail("alive-at-return", fmt.Sprintf("invocation %d: body entered after InvokeBackgroundTask returned", k))
		}
		// Any DoPrioritizedTask with a sequence number > s0 is CALLED after this point, hence after the
		// start decision of this execution read the notify channel: it closes that very channel.
		s0 := atomic.LoadInt64(&sc.beginSeq)
		x := int(atomic.AddInt64(&sc.execs[k], 1)) - 1
		defer func() {
			// ---- oracle: exit ----
			if atomic.LoadInt32(&sc.returned[k]) != 0 {
				sc.fail("alive-at-return", fmt.Sprintf("invocation %d: body still running after InvokeBackgroundTask returned", k))
			}
			atomic.AddInt64(&sc.aliveAll, -1)
			atomic.AddInt64(&sc.aliveInv[k], -1)
		}()
		kinds := sc.cfg.invKinds[k]
		if x >= len(kinds) {
			x = len(kinds) - 1
		}
		b := kinds[x]
		cancelled := false
		switch b.kind {
		case verifKindInstant:
		case verifKindDeaf:
			time.Sleep(b.work)
		case verifKindBlocker:
			// Holds its slot.  While every slot is held by a blocker no other body may start (entry check above).
			atomic.AddInt64(&sc.stubEntered, 1)
			t := time.NewTimer(b.work)
			select {
			case <-sc.stubRelease:
			case <-t.C:
			}
			t.Stop()
		case verifKindStubborn:
			atomic.AddInt64(&sc.stubEntered, 1)
			tick := time.NewTicker(time.Millisecond)
		wait:
			for {
				select {
				case <-ctx.Done():
					cancelled = true
					break wait
				case <-tick.C:
					// no prioritized task began after this body started and none will: nothing to wait for
					if atomic.LoadInt32(&sc.prioOver) != 0 && atomic.LoadInt64(&sc.doneSeqMax) <= s0 {
						break wait
					}
					if atomic.LoadInt64(&sc.doneSeqMax) > s0 {
						break wait // the generic check below waits (bounded) for the cancellation
					}
				}
			}
			tick.Stop()
			if !cancelled && atomic.LoadInt64(&sc.doneSeqMax) > s0 {
				t := time.NewTimer(20 * time.Second)
				select {
				case <-ctx.Done():
					cancelled = true
				case <-t.C:
				}
				t.Stop()
			}
			if cancelled {
				// The context is cancelled and the body is still alive.  While it is, the manager may neither
				// start another execution of this invocation, nor return, nor give the slot to somebody else;
				// the entry / return checks of the oracle fire (and release this body) if it does.
				atomic.AddInt64(&sc.stubHeld, 1)
				t := time.NewTimer(sc.hold)
				select {
				case <-sc.stubRelease:
				case <-t.C:
				}
				t.Stop()
			}
		case verifKindSpin:
			end := time.Now().Add(b.work)
			for time.Now().Before(end) {
				if ctx.Err() != nil {
					cancelled = true
					break
				}
				runtime.Gosched()
			}
		default:
			t := time.NewTimer(b.work)
			select {
			case <-ctx.Done():
				cancelled = true
			case <-t.C:
			}
			t.Stop()
		}
		if cancelled && b.latency > 0 {
			time.Sleep(b.latency) // reacts late
		}
		// ---- oracle: a body that is running when a prioritized task begins gets its ctx cancelled ----
		// The body is alive (done not closed), a DoPrioritizedTask called after the body's entry has
		// returned, so the manager's select has `ch` ready and nothing else: it must cancel.
		if !cancelled && atomic.LoadInt64(&sc.doneSeqMax) > s0 && ctx.Err() == nil {
			bound := 20 * time.Second
			if verifShortWait.Load() {
				bound = 20 * time.Millisecond
			}
			t := time.NewTimer(bound)
			select {
			case <-ctx.Done():
			case <-t.C:
				verifShortWait.Store(true)
				sc.fail("not-cancelled", fmt.Sprintf("invocation %d: a prioritized task began while the body was running but its context was not cancelled within %v", k, bound))
			}
			t.Stop()
		}
		if err := ctx.Err(); err == context.DeadlineExceeded && sc.cfg.timeout(k) >= 10*time.Minute {
			sc.fail("harness-timeout", "context deadline of the harness exceeded (machine too slow?)")
		}
	}
}

func verifSleep(d time.Duration) {
	if d > 0 {
		time.Sleep(d)
	}
}

func verifWaitTimeout(wg *sync.WaitGroup, d time.Duration) bool {
	ch := make(chan struct{})
	go func() { wg.Wait(); close(ch) }()
	t := time.NewTimer(d)
	defer t.Stop()
	select {
	case <-ch:
		return true
	case <-t.C:
		return false
	}
}

func verifHold() time.Duration {
	def := 2500
	if os.Getenv("VERIF_TIER") == "thorough" {
		def = 15000
	}
	return time.Duration(verifutil.EnvInt("VERIF_C13_HOLD_MS", def)) * time.Millisecond
}

// verifRun executes one scenario against a fresh manager and emits its trace.  Returns false when
// the run must stop (goroutines are stuck).
func verifRun(out *verifutil.Out, cfg verifCfg) bool {
	sc, cont := verifExec(cfg)
	verifEmit(out, sc, cont)
	return cont
}

// verifExec runs one scenario (cfg.procs == 0: GOMAXPROCS is left alone, so that such scenarios can
// run in parallel).
func verifExec(cfg verifCfg) (*verifScenario, bool) {
	n := len(cfg.invDelay)
	sc := &verifScenario{cfg: cfg, idmap: map[int64]int{}, lastDecide: map[int]int64{}, failSeen: map[string]int{},
		aliveInv: make([]int64, n), returned: make([]int32, n), execs: make([]int64, n),
		hold: verifHold(), stubRelease: make(chan struct{})}
	sc.ts = NewBackgroundTaskManager(int64(cfg.conc), cfg.period)
	if cfg.procs > 0 {
		old := runtime.GOMAXPROCS(cfg.procs)
		defer runtime.GOMAXPROCS(old)
	}
	verifScens.Store(sc.ts, sc)
	defer verifScens.Delete(sc.ts)

	var wgP, wgI sync.WaitGroup
	start := make(chan struct{})
	for _, pairs := range cfg.prio {
		wgP.Add(1)
		go func(pairs []verifPrioPair) {
			defer wgP.Done()
			<-start
			if cfg.prioWaitStub > 0 {
				deadline := time.Now().Add(20 * time.Second)
				for atomic.LoadInt64(&sc.stubEntered) < int64(cfg.prioWaitStub) && time.Now().Before(deadline) {
					time.Sleep(100 * time.Microsecond)
				}
			}
			for _, p := range pairs {
				verifSleep(p.before)
				seq := atomic.AddInt64(&sc.beginSeq, 1)
				sc.ts.DoPrioritizedTask()
				verifAtomicMax(&sc.doneSeqMax, seq)
				atomic.AddInt64(&sc.active, 1)
				verifSleep(p.hold)
				sc.mu.Lock()
				sc.trace = append(sc.trace, verifEv{"prio.done", -1, 0})
				sc.lastDoneCall = time.Now()
				sc.anyDone = true
				sc.mu.Unlock()
				atomic.AddInt64(&sc.active, -1)
				sc.ts.DonePrioritizedTask()
			}
		}(pairs)
	}
	var wgW0 sync.WaitGroup
	wave0Done := make(chan struct{})
	for k := 0; k < n; k++ {
		if cfg.wave(k) == 0 {
			wgW0.Add(1)
		}
	}
	go func() { wgW0.Wait(); close(wave0Done) }()
	for k := 0; k < n; k++ {
		wgI.Add(1)
		go func(k int) {
			defer wgI.Done()
			if cfg.wave(k) == 0 {
				defer wgW0.Done()
			}
			// a panic of the manager (e.g. "semaphore: released more than held") is a finding, not a harness crash
			defer func() {
				if r := recover(); r != nil {
					sc.fail("manager-panic", fmt.Sprintf("invocation %d: InvokeBackgroundTask panicked: %v", k, r))
				}
			}()
			<-start
			if cfg.wave(k) != 0 {
				<-wave0Done
			}
			if k < len(cfg.invWaitStub) && cfg.invWaitStub[k] > 0 {
				deadline := time.Now().Add(20 * time.Second)
				for atomic.LoadInt64(&sc.stubEntered) < int64(cfg.invWaitStub[k]) && time.Now().Before(deadline) {
					time.Sleep(100 * time.Microsecond)
				}
			}
			verifSleep(cfg.invDelay[k])
			sc.ts.InvokeBackgroundTask(sc.body(k), cfg.timeout(k))
			// ---- oracle: nothing of this invocation is alive once it has returned ----
			atomic.StoreInt32(&sc.returned[k], 1)
			if a := atomic.LoadInt64(&sc.aliveInv[k]); a != 0 {
				sc.fail("alive-at-return", fmt.Sprintf("invocation %d: %d bodies alive when InvokeBackgroundTask returned", k, a))
			}
		}(k)
	}
	close(start)
	wgP.Wait() // prioritized work has stopped (every Do has its Done)
	atomic.StoreInt32(&sc.prioOver, 1)
	cont := true
	// ---- oracle: once prioritized work stops every invoked task completes ----
	if !verifWaitTimeout(&wgI, 40*time.Second+sc.hold) {
		sc.fail("no-progress", fmt.Sprintf("an invocation did not complete within %v after prioritized work stopped", 40*time.Second+sc.hold))
		cont = false
	}
	if cont {
		deadline := time.Now().Add(20 * time.Second)
		for atomic.LoadInt64(&sc.ts.prioritizedTasks) != 0 {
			if time.Now().After(deadline) {
				sc.fail("prio-count-stuck", fmt.Sprintf("prioritizedTasks=%d 20s after the last prioritized task ended", atomic.LoadInt64(&sc.ts.prioritizedTasks)))
				break
			}
			time.Sleep(200 * time.Microsecond)
		}
	}
	// ---- oracle: without prioritized work nothing is ever cancelled, so every body runs exactly once ----
	if cont && len(cfg.prio) == 0 {
		for k := 0; k < n; k++ {
			if x := atomic.LoadInt64(&sc.execs[k]); x != 1 {
				sc.fail("body-not-once", fmt.Sprintf("invocation %d: body executed %d times although no prioritized task ever began", k, x))
			}
		}
	}
	verifScens.Delete(sc.ts)
	return sc, cont
}

// verifEmit writes the recorded trace of a finished scenario as op lines for the Lean acceptor and
// reports the oracle's findings.
func verifEmit(out *verifutil.Out, sc *verifScenario, cont bool) {
	cfg := sc.cfg
	n := len(cfg.invDelay)
	sc.mu.Lock()
	defer sc.mu.Unlock()
	out.Comment(fmt.Sprintf("scenario %s conc=%d period=%v procs=%d inv=%d prio=%d timeouts=%v", cfg.name, cfg.conc, cfg.period, cfg.procs, n, len(cfg.prio), cfg.invTimeout))
	lines := make([]string, 0, len(sc.trace)+2)
	lines = append(lines, fmt.Sprintf("init %d %d", cfg.conc, n))
	ncancel, nbackoff, nstart := 0, 0, 0
	for _, e := range sc.trace {
		switch e.ev {
		case "prio.begin":
			lines = append(lines, fmt.Sprintf("prio.begin %d", e.v))
		case "prio.done", "prio.silence_end":
			lines = append(lines, e.ev)
		case "bg.decide":
			lines = append(lines, fmt.Sprintf("bg.decide %d %d", e.id, e.v))
			if e.v > 0 {
				nbackoff++
			} else {
				nstart++
			}
		default:
			if e.ev == "bg.cancel" {
				ncancel++
			}
			lines = append(lines, fmt.Sprintf("%s %d", e.ev, e.id))
		}
		out.Count(e.ev)
	}
	if cont {
		lines = append(lines, "end")
	}
	h := fnv.New64a()
	for _, l := range lines {
		out.Emit(l, "ok")
		h.Write([]byte(l))
		h.Write([]byte{'\n'})
	}
	out.Count("scenario")
	if ncancel > 0 {
		out.Count("scenario-with-cancel")
	}
	if nbackoff > 0 {
		out.Count("scenario-with-backoff")
	}
	if ncancel+nbackoff > 0 {
		out.Distinct(fmt.Sprintf("%x", h.Sum64()))
	}
	out.Stats[fmt.Sprintf("max-alive=%d/conc=%d", atomic.LoadInt64(&sc.maxAlive), cfg.conc)]++
	if cfg.prioWaitStub > 0 {
		out.Stats["stubborn-bodies-held"] += int(atomic.LoadInt64(&sc.stubHeld))
		if atomic.LoadInt64(&sc.stubHeld) == 0 {
			out.Stats["stubborn-scenario-not-exercised"]++
		}
	}
	for _, f := range sc.fails {
		tr := strings.Join(lines, "; ")
		if len(tr) > 6000 {
			tr = tr[:6000] + " ..."
		}
		out.Fail(f.sig, fmt.Sprintf("%s | scenario %s conc=%d period=%v inv-kinds=%v timeouts=%v prio=%v | trace: %s", f.what, cfg.name, cfg.conc, cfg.period, cfg.invKinds, cfg.invTimeout, cfg.prio, tr))
	}
}

// verifSlotTimeoutCfgs: every slot is held by a blocking body for >= 10x the (small) timeout of one more
// invocation.  That invocation must wait for a slot however long it takes: its body may not start while all
// slots are held, afterwards it runs exactly once; then cap+1 further invocations (wave 1) with blocking bodies
// show that the semaphore still admits only cap bodies.
func verifSlotTimeoutCfgs() []verifCfg {
	ms := time.Millisecond
	var cfgs []verifCfg
	for _, c := range []int{1, 2} {
		to := time.Duration(30+10*c) * ms
		cfg := verifCfg{name: fmt.Sprintf("slot-timeout-cap%d", c), conc: c, period: 0}
		add := func(delay time.Duration, b verifBodyCfg, timeout time.Duration, wave int) {
			waitStub := 0
			if timeout > 0 {
				waitStub = c // all slots are held when the invocation with the small timeout is made
			}
			cfg.invWaitStub = append(cfg.invWaitStub, waitStub)
			cfg.invDelay = append(cfg.invDelay, delay)
			cfg.invKinds = append(cfg.invKinds, []verifBodyCfg{b})
			cfg.invTimeout = append(cfg.invTimeout, timeout)
			cfg.invWave = append(cfg.invWave, wave)
		}
		for i := 0; i < c; i++ {
			add(0, verifBodyCfg{verifKindBlocker, 12 * to, 0}, 0, 0)
		}
		add(0, verifBodyCfg{verifKindObedient, ms, 0}, to, 0) // the invocation with the small timeout
		for i := 0; i < c+1; i++ {
			add(0, verifBodyCfg{verifKindBlocker, 100 * ms, 0}, 0, 1)
		}
		cfgs = append(cfgs, cfg)
	}
	return cfgs
}

// verifStubbornCfgs: a body that, once cancelled, stays alive for VERIF_C13_HOLD_MS (or until the oracle
// has seen a violation).  Prioritized work ends (and its silence period elapses) right at the start of
// the hold, so a manager that gives up waiting for the body is free to retry / hand the slot on.
func verifStubbornCfgs() []verifCfg {
	ms := time.Millisecond
	stub := []verifBodyCfg{{verifKindStubborn, 0, 0}, {verifKindObedient, ms, 0}}
	short := []verifBodyCfg{{verifKindObedient, ms, 0}}
	return []verifCfg{
		{name: "stubborn-cap1-alone", conc: 1, period: 2 * ms, invDelay: []time.Duration{0},
			invKinds: [][]verifBodyCfg{stub}, prio: [][]verifPrioPair{{{ms, ms}}}, prioWaitStub: 1},
		{name: "stubborn-cap1-waiter", conc: 1, period: 0, invDelay: []time.Duration{0, ms},
			invKinds: [][]verifBodyCfg{stub, short}, prio: [][]verifPrioPair{{{2 * ms, ms}}}, prioWaitStub: 1},
		{name: "stubborn-cap2-waiter", conc: 2, period: ms, invDelay: []time.Duration{0, 0, ms},
			invKinds: [][]verifBodyCfg{stub, stub, short}, prio: [][]verifPrioPair{{{2 * ms, ms}, {0, 0}}}, prioWaitStub: 2},
	}
}

func verifUs(rnd *verifutil.Rand, lo, hi int64) time.Duration {
	return time.Duration(rnd.Range(lo, hi)) * time.Microsecond
}

func verifRandBody(rnd *verifutil.Rand) verifBodyCfg {
	b := verifBodyCfg{kind: rnd.Pick(1, 4, 4, 2, 2, 3)}
	switch b.kind {
	case verifKindWaiter:
		b.work = verifUs(rnd, 5000, 30000)
		b.latency = verifUs(rnd, 0, 300)
	case verifKindLate:
		b.work = verifUs(rnd, 200, 6000)
		b.latency = verifUs(rnd, 300, 5000)
	case verifKindSpin:
		b.work = verifUs(rnd, 50, 3000)
		if rnd.Bool() {
			b.latency = verifUs(rnd, 100, 2000)
		}
	default:
		b.work = verifUs(rnd, 0, 4000)
	}
	return b
}

func verifRandCfg(rnd *verifutil.Rand, i int) verifCfg {
	cfg := verifCfg{name: fmt.Sprintf("rnd%d", i)}
	cfg.conc = 1 + rnd.Pick(4, 3, 2)
	cfg.period = []time.Duration{0, 0, time.Millisecond, 2 * time.Millisecond, 3 * time.Millisecond}[rnd.Intn(5)]
	cfg.procs = []int{1, 2, 4, runtime.NumCPU()}[rnd.Intn(4)]
	n := 1 + rnd.Pick(2, 3, 3, 2, 1)
	for k := 0; k < n; k++ {
		cfg.invDelay = append(cfg.invDelay, verifUs(rnd, 0, 2500))
		var ks []verifBodyCfg
		for x := 0; x < 3; x++ {
			ks = append(ks, verifRandBody(rnd))
		}
		// the executions after the third are short so that a scenario always ends soon
		ks = append(ks, verifBodyCfg{kind: verifKindObedient, work: verifUs(rnd, 0, 1000)})
		cfg.invKinds = append(cfg.invKinds, ks)
		// sometimes a timeout so small that waiting for a slot / running the body outlasts it
		to := time.Duration(0)
		if rnd.Intn(4) == 0 {
			to = verifUs(rnd, 200, 8000)
		}
		cfg.invTimeout = append(cfg.invTimeout, to)
	}
	np := rnd.Pick(1, 3, 3, 2)
	for p := 0; p < np; p++ {
		var pairs []verifPrioPair
		for j, m := 0, 1+rnd.Intn(4); j < m; j++ {
			pairs = append(pairs, verifPrioPair{before: verifUs(rnd, 0, 3000), hold: verifUs(rnd, 0, 2000)})
		}
		cfg.prio = append(cfg.prio, pairs)
	}
	return cfg
}

func verifHandCfgs() []verifCfg {
	ms := time.Millisecond
	one := func(b verifBodyCfg) []verifBodyCfg { return []verifBodyCfg{b} }
	return []verifCfg{
		// the schedule of the defect repaired by 2a04ad3: body reacts 5 ms after ctx.Done, retry follows at once
		{name: "late-body-retry", conc: 1, period: 0, procs: 4, invDelay: []time.Duration{0},
			invKinds: [][]verifBodyCfg{{{verifKindWaiter, 60 * ms, 5 * ms}, {verifKindObedient, ms, 0}}},
			prio:     [][]verifPrioPair{{{3 * ms, ms}}}},
		{name: "late-body-retry-cap2", conc: 2, period: ms, procs: 4, invDelay: []time.Duration{0, 0, ms},
			invKinds: [][]verifBodyCfg{{{verifKindWaiter, 60 * ms, 4 * ms}, {verifKindObedient, ms, 0}},
				{{verifKindWaiter, 60 * ms, 2 * ms}, {verifKindDeaf, ms, 0}}, one(verifBodyCfg{verifKindLate, 2 * ms, 3 * ms})},
			prio: [][]verifPrioPair{{{3 * ms, ms}, {4 * ms, 0}}}},
		{name: "serial-cap1", conc: 1, period: 0, procs: 4, invDelay: []time.Duration{0, 0, 0},
			invKinds: [][]verifBodyCfg{one(verifBodyCfg{verifKindObedient, 2 * ms, 0}), one(verifBodyCfg{verifKindDeaf, 2 * ms, 0}), one(verifBodyCfg{verifKindSpin, ms, 0})}},
		{name: "wait-for-silence", conc: 2, period: 3 * ms, procs: 2, invDelay: []time.Duration{ms, ms},
			invKinds: [][]verifBodyCfg{one(verifBodyCfg{verifKindObedient, ms, 0}), one(verifBodyCfg{verifKindInstant, 0, 0})},
			prio:     [][]verifPrioPair{{{0, 3 * ms}}}},
		{name: "deaf-bodies", conc: 3, period: 0, procs: runtime.NumCPU(), invDelay: []time.Duration{0, 0, 0, 0, 0},
			invKinds: [][]verifBodyCfg{one(verifBodyCfg{verifKindDeaf, 3 * ms, 0}), one(verifBodyCfg{verifKindDeaf, 3 * ms, 0}),
				one(verifBodyCfg{verifKindDeaf, 2 * ms, 0}), one(verifBodyCfg{verifKindDeaf, ms, 0}), one(verifBodyCfg{verifKindDeaf, ms, 0})},
			prio: [][]verifPrioPair{{{ms, ms}, {ms, ms}, {ms, 0}}, {{2 * ms, 0}, {ms, ms}, {0, 0}}}},
		{name: "spin-single-proc", conc: 2, period: 2 * ms, procs: 1, invDelay: []time.Duration{0, 0, ms},
			invKinds: [][]verifBodyCfg{one(verifBodyCfg{verifKindSpin, 3 * ms, ms}), one(verifBodyCfg{verifKindSpin, 2 * ms, 0}), one(verifBodyCfg{verifKindSpin, ms, 2 * ms})},
			prio:     [][]verifPrioPair{{{ms, ms}, {2 * ms, ms}}}},
		{name: "no-prio", conc: 3, period: 2 * ms, procs: 4, invDelay: []time.Duration{0, 0, 0, 0},
			invKinds: [][]verifBodyCfg{one(verifBodyCfg{verifKindInstant, 0, 0}), one(verifBodyCfg{verifKindObedient, ms, 0}), one(verifBodyCfg{verifKindLate, ms, ms}), one(verifBodyCfg{verifKindDeaf, ms, 0})}},
	}
}

// TestVerifC13 drives the real BackgroundTaskManager; see the file comment.
func TestVerifC13(t *testing.T) {
	rnd := verifutil.NewRand(verifutil.Seed())
	out := verifutil.OpenOut()
	defer out.Close()
	VerifTrace = verifHook
	defer func() { VerifTrace = nil }()
	// the stubborn-body scenarios run in parallel (each holds for VERIF_C13_HOLD_MS on correct code)
	stubs := append(verifStubbornCfgs(), verifSlotTimeoutCfgs()...)
	res := make([]*verifScenario, len(stubs))
	conts := make([]bool, len(stubs))
	var wg sync.WaitGroup
	for i := range stubs {
		wg.Add(1)
		go func(i int) {
			defer wg.Done()
			res[i], conts[i] = verifExec(stubs[i])
		}(i)
	}
	wg.Wait()
	stop := false
	for i := range stubs {
		verifEmit(out, res[i], conts[i])
		stop = stop || !conts[i]
	}
	if stop {
		return
	}
	for _, cfg := range verifHandCfgs() {
		if !verifRun(out, cfg) {
			return
		}
	}
	n := verifutil.EnvInt("VERIF_N", 300)
	for i := 0; i < n; i++ {
		if !verifRun(out, verifRandCfg(rnd, i)) {
			return
		}
	}
}
