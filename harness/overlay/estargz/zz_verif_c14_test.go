//go:build verif

package estargz

// C14 harness: prioritized files are laid out first, in order, ahead of a single landmark.
//
//  (a) in-package: the REAL sortEntries (importTar + moveRec) on generated tars; the resulting
//      entry order is printed canonically (`sort` ops) and must be reproduced exactly by the Lean model.
//  (b) end-to-end: the REAL Build(...) -> decompress -> tar entry order -> Open -> TOC offsets (`build` ops).
//  (c) a separate, clearly labelled REGRESSION stream of tars whose parent/hardlink graph has a CYCLE, each run
//      in a child process with a small stack and a timeout: the call must return quickly, with an error when a
//      listed path runs into the cycle (oracle signature `moverec-link-cycle`: it used to overflow the stack).
//
// The oracle below is written against the property text only (it never looks at the model's answer).

import (
	"archive/tar"
	"bytes"
	"compress/gzip"
	"context"
	"encoding/hex"
	"fmt"
	"io"
	"os"
	"os/exec"
	"runtime/debug"
	"sort"
	"strconv"
	"strings"
	"testing"
	"time"

	"github.com/containerd/stargz-snapshotter/estargz/internal/verifutil"
)

// ---------------------------------------------------------------------------------------------
// inputs

type verifEnt struct {
	typ  byte // 'r' regular, 'l' hardlink, 'd' directory, 's' symlink, 'o' other (fifo)
	name string
	link string
	size int
}

type verifCase struct {
	ents  []verifEnt
	prio  []string
	label string
}

func verifHex(s string) string {
	if s == "" {
		return "-"
	}
	return hex.EncodeToString([]byte(s))
}

func verifHexList(pfx string, l []string) string {
	h := make([]string, len(l))
	for i, s := range l {
		h[i] = verifHex(s)
	}
	return pfx + strings.Join(h, ",")
}

func verifEntsField(ents []verifEnt) string {
	p := make([]string, len(ents))
	for i, e := range ents {
		p[i] = fmt.Sprintf("%c:%s:%s:%d", e.typ, verifHex(e.name), verifHex(e.link), e.size)
	}
	return "E=" + strings.Join(p, ";")
}

func verifContent(i, n int) []byte {
	b := make([]byte, n)
	x := uint32(i*2654435761 + 12345)
	for j := range b {
		x = x*1664525 + 1013904223
		b[j] = byte(x >> 24)
	}
	return b
}

// verifBuildTar writes the entries with archive/tar (Uid = 1-based position = identity tag) and
// reads the archive back: what the model is given is what tar.Reader delivers.
func verifBuildTar(ents []verifEnt) ([]byte, []verifEnt, error) {
	var buf bytes.Buffer
	tw := tar.NewWriter(&buf)
	for i, e := range ents {
		h := &tar.Header{Name: e.name, Uid: i + 1, Mode: 0644}
		switch e.typ {
		case 'r':
			h.Typeflag = tar.TypeReg
			h.Size = int64(e.size)
		case 'd':
			h.Typeflag = tar.TypeDir
			h.Mode = 0755
		case 'l':
			h.Typeflag = tar.TypeLink
			h.Linkname = e.link
		case 's':
			h.Typeflag = tar.TypeSymlink
			h.Linkname = e.link
		default:
			h.Typeflag = tar.TypeFifo
		}
		if err := tw.WriteHeader(h); err != nil {
			return nil, nil, err
		}
		if e.typ == 'r' && e.size > 0 {
			if _, err := tw.Write(verifContent(i, e.size)); err != nil {
				return nil, nil, err
			}
		}
	}
	if err := tw.Close(); err != nil {
		return nil, nil, err
	}
	var back []verifEnt
	tr := tar.NewReader(bytes.NewReader(buf.Bytes()))
	for {
		h, err := tr.Next()
		if err == io.EOF {
			break
		}
		if err != nil {
			return nil, nil, err
		}
		if h.Uid != len(back)+1 {
			return nil, nil, fmt.Errorf("identity tag lost: entry %d has uid %d", len(back)+1, h.Uid)
		}
		b := verifEnt{name: h.Name, size: int(h.Size)}
		switch h.Typeflag {
		case tar.TypeReg:
			b.typ = 'r'
		case tar.TypeDir:
			b.typ = 'd'
		case tar.TypeLink:
			b.typ = 'l'
			b.link = h.Linkname
		case tar.TypeSymlink:
			b.typ = 's'
			b.link = h.Linkname
		default:
			b.typ = 'o'
		}
		if b.typ != 'r' {
			b.size = 0
		}
		back = append(back, b)
	}
	return buf.Bytes(), back, nil
}

// ---------------------------------------------------------------------------------------------
// results

type verifOutEnt struct {
	id   int // Uid: 1-based input position, 0 = entry created by the builder
	name string
}

type verifRes struct {
	err    bool
	order  []verifOutEnt
	missed []string
}

func verifShowEnt(e verifOutEnt) string {
	if e.id != 0 {
		return strconv.Itoa(e.id)
	}
	switch e.name {
	case PrefetchLandmark:
		return "L1"
	case NoPrefetchLandmark:
		return "L0"
	}
	return "L?"
}

func verifShowOrder(o []verifOutEnt) string {
	p := make([]string, len(o))
	for i, e := range o {
		p[i] = verifShowEnt(e)
	}
	return strings.Join(p, ",")
}

func verifBool(b bool) string {
	if b {
		return "1"
	}
	return "0"
}

// verifRunSort calls the real sortEntries.
func verifRunSort(tarb []byte, prio []string, allow bool) verifRes {
	var missed []string
	var mp *[]string
	if allow {
		mp = &missed
	}
	es, err := sortEntries(bytes.NewReader(tarb), prio, mp)
	if err != nil {
		return verifRes{err: true}
	}
	var r verifRes
	for _, e := range es {
		r.order = append(r.order, verifOutEnt{id: e.header.Uid, name: e.header.Name})
	}
	r.missed = missed
	return r
}

type verifChunk struct {
	key         string // cleaned name
	id          int    // input id, 0 = landmark, -1 unknown
	off         int64
	inner       int64
	chunkOffset int64
}

type verifBuildCfg struct {
	chunkSize, minChunk, workers, level int
}

func verifReadTOC(data []byte) ([]*TOCEntry, bool, error) {
	sr := io.NewSectionReader(bytes.NewReader(data), 0, int64(len(data)))
	if r, err := Open(sr); err == nil {
		return r.toc.Entries, true, nil
	}
	// Open refuses some archives (hardlink to a missing name, ...): read the TOC without the tree.
	d := new(GzipDecompressor)
	fs := d.FooterSize()
	if int64(len(data)) < fs {
		return nil, false, fmt.Errorf("blob shorter than a footer")
	}
	_, tocOff, _, err := d.ParseFooter(data[int64(len(data))-fs:])
	if err != nil {
		return nil, false, err
	}
	toc, _, err := d.ParseTOC(io.NewSectionReader(sr, tocOff, int64(len(data))-tocOff-fs))
	if err != nil {
		return nil, false, err
	}
	return toc.Entries, false, nil
}

// verifRunBuild calls the real Build and reads the result back.
func verifRunBuild(tarb []byte, prio []string, allow bool, cfg verifBuildCfg) (verifRes, []verifChunk, bool, error) {
	var missed []string
	opts := []Option{WithPrioritizedFiles(prio), WithChunkSize(cfg.chunkSize), WithMinChunkSize(cfg.minChunk),
		WithParallelism(cfg.workers), WithCompressionLevel(cfg.level)}
	if allow {
		opts = append(opts, WithAllowPrioritizeNotFound(&missed))
	}
	blob, err := Build(io.NewSectionReader(bytes.NewReader(tarb), 0, int64(len(tarb))), opts...)
	if err != nil {
		return verifRes{err: true}, nil, false, nil
	}
	defer blob.Close()
	data, err := io.ReadAll(blob)
	if err != nil {
		return verifRes{}, nil, false, fmt.Errorf("reading blob: %v", err)
	}
	zr, err := gzip.NewReader(bytes.NewReader(data))
	if err != nil {
		return verifRes{}, nil, false, fmt.Errorf("gunzip: %v", err)
	}
	var r verifRes
	r.missed = missed
	tr := tar.NewReader(zr)
	for {
		h, err := tr.Next()
		if err == io.EOF {
			break
		}
		if err != nil {
			return verifRes{}, nil, false, fmt.Errorf("reading output tar: %v", err)
		}
		if h.Name == TOCTarName {
			continue // the table of contents the builder appends
		}
		r.order = append(r.order, verifOutEnt{id: h.Uid, name: h.Name})
	}
	ents, opened, err := verifReadTOC(data)
	if err != nil {
		return verifRes{}, nil, false, fmt.Errorf("reading TOC: %v", err)
	}
	var chunks []verifChunk
	for _, e := range ents {
		if (e.Type == "reg" && e.Size > 0) || e.Type == "chunk" {
			chunks = append(chunks, verifChunk{key: verifClean(e.Name), id: -1, off: e.Offset, inner: e.InnerOffset, chunkOffset: e.ChunkOffset})
		}
	}
	return r, chunks, opened, nil
}

// ---------------------------------------------------------------------------------------------
// the property oracle (independent of the model and of path.Clean)

// verifClean: cleaned name relative to the root; "" is the root.
func verifClean(name string) string {
	var st []string
	for _, c := range strings.Split(name, "/") {
		switch c {
		case "", ".":
		case "..":
			if len(st) > 0 {
				st = st[:len(st)-1]
			}
		default:
			st = append(st, c)
		}
	}
	return strings.Join(st, "/")
}

func verifParent(k string) string {
	i := strings.LastIndexByte(k, '/')
	if i < 0 {
		return ""
	}
	return k[:i]
}

func verifIsLandmarkKey(k string) bool { return k == PrefetchLandmark || k == NoPrefetchLandmark }

type verifWorld struct {
	ents []verifEnt
	surv map[string]int  // cleaned name -> id (1-based) of the LAST entry with that name, landmarks excluded
	skip map[string]bool // surviving names that never reach the blob (the reserved TOC name, end-to-end only)
}

func verifNewWorld(ents []verifEnt, dropTOC bool) *verifWorld {
	w := &verifWorld{ents: ents, surv: map[string]int{}, skip: map[string]bool{}}
	for i, e := range ents {
		k := verifClean(e.name)
		if verifIsLandmarkKey(k) {
			continue
		}
		if dropTOC && k == TOCTarName {
			w.skip[k] = true
		}
		w.surv[k] = i + 1
	}
	return w
}

// deps: what has to be placed before the entry named k (only called for existing, non-root k).
func (w *verifWorld) deps(k string) []string {
	d := []string{verifParent(k)}
	if e := w.ents[w.surv[k]-1]; e.typ == 'l' {
		d = append(d, verifClean(e.link))
	}
	return d
}

// hasCycle reports a cycle in the parent/hardlink graph of the surviving entries.
func (w *verifWorld) hasCycle() bool {
	color := map[string]int{}
	var visit func(k string) bool
	visit = func(k string) bool {
		if k == "" {
			return false
		}
		if _, ok := w.surv[k]; !ok {
			return false
		}
		switch color[k] {
		case 1:
			return true
		case 2:
			return false
		}
		color[k] = 1
		for _, d := range w.deps(k) {
			if visit(d) {
				return true
			}
		}
		color[k] = 2
		return false
	}
	keys := make([]string, 0, len(w.surv))
	for k := range w.surv {
		keys = append(keys, k)
	}
	sort.Strings(keys)
	for _, k := range keys {
		if visit(k) {
			return true
		}
	}
	return false
}

// verifAnyReadingCycle reports a cycle in the parent/hardlink graph built from ALL entries, overridden
// duplicates included.  The main streams only use tars without such a cycle, so that the real code
// terminates on them whichever duplicate it lets win (a wrong choice must show up as an oracle
// failure, not as a stack overflow that takes the harness down).
func verifAnyReadingCycle(ents []verifEnt) bool {
	deps := map[string][]string{}
	for _, e := range ents {
		k := verifClean(e.name)
		if k == "" || verifIsLandmarkKey(k) {
			continue
		}
		deps[k] = append(deps[k], verifParent(k))
		if e.typ == 'l' {
			deps[k] = append(deps[k], verifClean(e.link))
		}
	}
	color := map[string]int{}
	var visit func(k string) bool
	visit = func(k string) bool {
		ds, ok := deps[k]
		if !ok {
			return false
		}
		switch color[k] {
		case 1:
			return true
		case 2:
			return false
		}
		color[k] = 1
		for _, d := range ds {
			if visit(d) {
				return true
			}
		}
		color[k] = 2
		return false
	}
	keys := make([]string, 0, len(deps))
	for k := range deps {
		keys = append(keys, k)
	}
	sort.Strings(keys)
	for _, k := range keys {
		if visit(k) {
			return true
		}
	}
	return false
}

// resolvable: the path and everything that must precede it exist (acyclic worlds only).
func (w *verifWorld) resolvable(k string, depth int) bool {
	if k == "" {
		return true
	}
	if _, ok := w.surv[k]; !ok {
		return false
	}
	if depth > len(w.ents)+2 {
		return false
	}
	for _, d := range w.deps(k) {
		if !w.resolvable(d, depth+1) {
			return false
		}
	}
	return true
}

// reach: every name the placement of k may touch (k, its ancestors, hardlink targets, theirs, ...).
func (w *verifWorld) reach(k string, acc map[string]bool) {
	if acc[k] {
		return
	}
	acc[k] = true
	if k == "" {
		return
	}
	if _, ok := w.surv[k]; !ok {
		return
	}
	for _, d := range w.deps(k) {
		w.reach(d, acc)
	}
}

// verifOracle evaluates the C14 predicate on what the real code returned.  `what` describes the input.
func verifOracle(out *verifutil.Out, w *verifWorld, prio []string, allow bool, res verifRes, what string) (group map[int]bool, ok bool) {
	fail := func(sig, msg string) {
		ok = false
		out.Fail(sig, msg+" :: "+what)
	}
	ok = true
	var unresolved []string
	for _, l := range prio {
		if !w.resolvable(verifClean(l), 0) {
			unresolved = append(unresolved, l)
		}
	}
	// a listed path that does not exist aborts the build or is reported back, as selected
	if !allow {
		if len(unresolved) > 0 && !res.err {
			fail("missing-path-not-aborted", fmt.Sprintf("paths %q cannot be placed but the call succeeded", unresolved))
		}
		if len(unresolved) == 0 && res.err {
			fail("abort-without-missing-path", "every listed path exists but the call failed")
		}
		if len(res.missed) != 0 {
			fail("missed-reported-without-option", fmt.Sprintf("missed=%q", res.missed))
		}
	} else {
		if res.err {
			fail("abort-despite-allow-not-found", "the call failed although missing paths are allowed")
		} else if strings.Join(res.missed, "\x00") != strings.Join(unresolved, "\x00") || len(res.missed) != len(unresolved) {
			fail("missed-list-wrong", fmt.Sprintf("reported %q, expected %q", res.missed, unresolved))
		}
	}
	if res.err {
		return nil, ok
	}
	// exactly one landmark, of the right kind
	lm := -1
	nlm := 0
	for i, e := range res.order {
		if e.id == 0 {
			nlm++
			if lm < 0 {
				lm = i
			}
		} else if verifIsLandmarkKey(verifClean(e.name)) {
			fail("input-landmark-kept", fmt.Sprintf("input entry %d (%q) is a landmark and was kept", e.id, e.name))
		}
	}
	if nlm != 1 {
		fail("landmark-count", fmt.Sprintf("%d landmarks in %s", nlm, verifShowOrder(res.order)))
		if nlm == 0 {
			return nil, ok
		}
	}
	wantLm := PrefetchLandmark
	if len(prio) == 0 {
		wantLm = NoPrefetchLandmark
	}
	if res.order[lm].name != wantLm {
		fail("landmark-kind", fmt.Sprintf("landmark %q, expected %q", res.order[lm].name, wantLm))
	}
	// nothing lost, nothing duplicated, last duplicate wins
	pos := map[int]int{}
	for i, e := range res.order {
		if e.id == 0 {
			continue
		}
		if _, dup := pos[e.id]; dup {
			fail("entry-duplicated", fmt.Sprintf("entry %d occurs twice in %s", e.id, verifShowOrder(res.order)))
		}
		pos[e.id] = i
		if e.id < 1 || e.id > len(w.ents) {
			fail("entry-unknown", fmt.Sprintf("entry %d is not an input entry", e.id))
			continue
		}
		if k := verifClean(w.ents[e.id-1].name); w.surv[k] != e.id {
			fail("stale-duplicate-kept", fmt.Sprintf("entry %d (%q) is overridden by entry %d but was kept", e.id, k, w.surv[k]))
		}
		if verifClean(e.name) != verifClean(w.ents[e.id-1].name) {
			fail("entry-renamed", fmt.Sprintf("entry %d is now called %q", e.id, e.name))
		}
	}
	skeys := make([]string, 0, len(w.surv))
	for k := range w.surv {
		skeys = append(skeys, k)
	}
	sort.Strings(skeys)
	for _, k := range skeys {
		if _, there := pos[w.surv[k]]; there && w.skip[k] {
			fail("reserved-name-kept", fmt.Sprintf("entry %d (%q) carries the reserved TOC name and reached the blob", w.surv[k], k))
		}
		if _, there := pos[w.surv[k]]; !there && !w.skip[k] {
			fail("entry-lost", fmt.Sprintf("entry %d (%q) is missing from %s", w.surv[k], k, verifShowOrder(res.order)))
		}
	}
	posOf := func(k string) (int, bool) { // position of the surviving entry named k
		id, okk := w.surv[k]
		if !okk {
			return 0, false
		}
		p, okk := pos[id]
		return p, okk
	}
	// everything after the landmark keeps its original relative order
	prev := 0
	for _, e := range res.order[lm+1:] {
		if e.id != 0 && e.id < prev {
			fail("rest-order-changed", fmt.Sprintf("entry %d after entry %d behind the landmark: %s", e.id, prev, verifShowOrder(res.order)))
			break
		}
		if e.id != 0 {
			prev = e.id
		}
	}
	// leading group: parents and hardlink targets first
	group = map[int]bool{}
	for _, e := range res.order[:lm] {
		group[e.id] = true
	}
	for i, e := range res.order[:lm] {
		if e.id < 1 || e.id > len(w.ents) {
			continue
		}
		k := verifClean(w.ents[e.id-1].name)
		if k == "" || w.surv[k] != e.id {
			continue
		}
		pk := verifParent(k)
		if p, there := posOf(pk); there && p >= i {
			fail("parent-after-child", fmt.Sprintf("%q (entry %d) is placed before its parent %q: %s", k, e.id, pk, verifShowOrder(res.order)))
		}
		if w.ents[e.id-1].typ == 'l' {
			tk := verifClean(w.ents[e.id-1].link)
			if p, there := posOf(tk); there && p >= i {
				fail("linktarget-after-link", fmt.Sprintf("hardlink %q (entry %d) is placed before its target %q: %s", k, e.id, tk, verifShowOrder(res.order)))
			}
		}
	}
	// the group holds nothing but the listed paths and what has to precede them
	reachUpTo := make([]map[string]bool, len(prio))
	acc := map[string]bool{}
	for i, l := range prio {
		w.reach(verifClean(l), acc)
		cp := make(map[string]bool, len(acc))
		for k := range acc {
			cp[k] = true
		}
		reachUpTo[i] = cp
	}
	for _, e := range res.order[:lm] {
		if e.id < 1 || e.id > len(w.ents) {
			continue
		}
		if k := verifClean(w.ents[e.id-1].name); !acc[k] {
			fail("unlisted-in-group", fmt.Sprintf("%q (entry %d) is ahead of the landmark but no listed path needs it: %s", k, e.id, verifShowOrder(res.order)))
		}
	}
	// listed paths are in the group, in the order given
	type placed struct {
		i   int
		key string
		pos int
	}
	var pl []placed
	for i, l := range prio {
		k := verifClean(l)
		if !w.resolvable(k, 0) {
			continue
		}
		p, there := posOf(k)
		if !there {
			if k != "" && !w.skip[k] {
				fail("prioritized-not-in-output", fmt.Sprintf("listed path %q has no entry in the output", l))
			}
			continue
		}
		if p >= lm {
			fail("prioritized-not-in-group", fmt.Sprintf("listed path %q (entry %d) is behind the landmark: %s", l, w.surv[k], verifShowOrder(res.order)))
			continue
		}
		pl = append(pl, placed{i, k, p})
	}
	for a := 0; a < len(pl); a++ {
		for b := a + 1; b < len(pl); b++ {
			if pl[a].key == pl[b].key || pl[b].pos > pl[a].pos {
				continue
			}
			// the later path sits earlier: fine only if an earlier-or-same listed path needed it first
			if !reachUpTo[pl[a].i][pl[b].key] {
				fail("prioritized-order-violated", fmt.Sprintf("listed path %q is placed before the earlier listed %q without being needed by it: %s",
					prio[pl[b].i], prio[pl[a].i], verifShowOrder(res.order)))
			}
		}
	}
	return group, ok
}

// verifOracleOffsets: data of every leading-group file lies strictly before the landmark's offset, no
// other file's data does, and the landmark begins its own compressed stream.
func verifOracleOffsets(out *verifutil.Out, w *verifWorld, group map[int]bool, chunks []verifChunk, what string) {
	lmOff := int64(-1)
	nlm := 0
	for i := range chunks {
		c := &chunks[i]
		if verifIsLandmarkKey(c.key) {
			c.id = 0
			nlm++
			lmOff = c.off
			if c.inner != 0 {
				out.Fail("landmark-shares-stream", fmt.Sprintf("landmark data at offset %d has inner offset %d (no stream boundary) :: %s", c.off, c.inner, what))
			}
			continue
		}
		if id, ok := w.surv[c.key]; ok {
			c.id = id
		}
	}
	if nlm != 1 {
		out.Fail("landmark-toc-count", fmt.Sprintf("%d landmark data chunks in the TOC :: %s", nlm, what))
		return
	}
	for _, c := range chunks {
		if c.id == 0 {
			continue
		}
		if c.id < 0 {
			out.Fail("toc-entry-unknown", fmt.Sprintf("TOC chunk of %q matches no input entry :: %s", c.key, what))
			continue
		}
		if group[c.id] && !(c.off < lmOff) {
			out.Fail("prioritized-data-not-before-landmark", fmt.Sprintf("%q (entry %d) is in the leading group but its chunk@%d has offset %d >= landmark offset %d :: %s",
				c.key, c.id, c.chunkOffset, c.off, lmOff, what))
		}
		if !group[c.id] && c.off < lmOff {
			out.Fail("unprioritized-data-before-landmark", fmt.Sprintf("%q (entry %d) is behind the landmark but its chunk@%d has offset %d < landmark offset %d :: %s",
				c.key, c.id, c.chunkOffset, c.off, lmOff, what))
		}
	}
}

// ---------------------------------------------------------------------------------------------
// generators

var verifRootSpellings = []string{"./", "/", ".", "../", "..", "//", "./."}

func verifSpell(rnd *verifutil.Rand, clean string, dir bool) string {
	if clean == "" {
		return verifRootSpellings[rnd.Intn(len(verifRootSpellings))]
	}
	s := clean
	switch rnd.Pick(12, 1, 1, 1) {
	case 1:
		s = strings.Replace(s, "/", "//", 1)
	case 2:
		s = strings.Replace(s, "/", "/./", 1)
	case 3:
		s = "zz/../" + s
	}
	pfx := []string{"", "", "", "", "/", "./", "../", "./../", "//", "/./", "../../"}[rnd.Intn(11)]
	if dir && rnd.Intn(4) != 0 {
		s += "/"
	}
	return pfx + s
}

var verifDirPool = []string{"a", "b", "a/c", "a/c/d", "b/e", "u"}
var verifLeafPool = []string{"f", "g", "h", "k", "m", "n"}

// verifGenCase makes a mostly well-formed tar (parents before children, hardlinks to existing files)
// with a share of every irregularity the property quantifies over.
func verifGenCase(rnd *verifutil.Rand, allowCycle bool) verifCase {
	for attempt := 0; ; attempt++ {
		c := verifGenCaseOnce(rnd, attempt >= 8)
		if allowCycle || !verifAnyReadingCycle(c.ents) {
			return c
		}
	}
}

func verifGenCaseOnce(rnd *verifutil.Rand, noLinks bool) verifCase {
	var ents []verifEnt
	have := map[string]bool{}
	var keys []string // cleaned names in the tar so far (may repeat)
	add := func(e verifEnt) {
		ents = append(ents, e)
		k := verifClean(e.name)
		keys = append(keys, k)
		have[k] = true
	}
	size := func() int {
		switch rnd.Pick(2, 6, 2, 1) {
		case 0:
			return 0
		case 1:
			return int(rnd.Range(1, 40))
		case 2:
			return int(rnd.Range(41, 300))
		}
		return int(rnd.Range(301, 3000))
	}
	if rnd.Intn(4) == 0 {
		add(verifEnt{typ: 'd', name: verifSpell(rnd, "", true)})
	}
	// directories
	var dirs []string
	for _, d := range verifDirPool {
		if rnd.Intn(2) == 0 {
			continue
		}
		if p := verifParent(d); p != "" && !have[p] && rnd.Intn(8) != 0 {
			continue // mostly no orphans; 1/8 of the time an implicit parent
		}
		dirs = append(dirs, d)
		add(verifEnt{typ: 'd', name: verifSpell(rnd, d, true)})
	}
	where := func() string {
		switch {
		case len(dirs) > 0 && rnd.Intn(4) != 0:
			return dirs[rnd.Intn(len(dirs))] + "/"
		case rnd.Intn(6) == 0:
			return verifDirPool[rnd.Intn(len(verifDirPool))] + "/" // possibly a directory without an entry
		}
		return ""
	}
	// files
	nf := int(rnd.Range(0, 7))
	for i := 0; i < nf; i++ {
		k := where() + verifLeafPool[rnd.Intn(len(verifLeafPool))]
		switch rnd.Pick(10, 1, 1) {
		case 0:
			add(verifEnt{typ: 'r', name: verifSpell(rnd, k, false), size: size()})
		case 1:
			add(verifEnt{typ: 's', name: verifSpell(rnd, k, false), link: "../x"})
		default:
			add(verifEnt{typ: 'o', name: verifSpell(rnd, k, false)})
		}
	}
	// hardlinks (to files, to other hardlinks, to directories, to the root, to nothing)
	if !noLinks {
		nl := int(rnd.Range(0, 3))
		for i := 0; i < nl; i++ {
			k := where() + []string{"l1", "l2", "l3", "f", "g"}[rnd.Intn(5)]
			var t string
			switch {
			case len(keys) > 0 && rnd.Intn(8) != 0:
				t = keys[rnd.Intn(len(keys))]
			case rnd.Intn(3) == 0:
				t = ""
			default:
				t = where() + "nothere"
			}
			add(verifEnt{typ: 'l', name: verifSpell(rnd, k, false), link: verifSpell(rnd, t, false)})
		}
	}
	// duplicates: the same cleaned name again, another spelling, maybe another type
	for n := rnd.Pick(5, 3, 1); n > 0 && len(keys) > 0; n-- {
		k := keys[rnd.Intn(len(keys))]
		switch rnd.Pick(4, 2, 1) {
		case 0:
			add(verifEnt{typ: 'r', name: verifSpell(rnd, k, false), size: size()})
		case 1:
			add(verifEnt{typ: 'd', name: verifSpell(rnd, k, true)})
		default:
			if !noLinks && len(keys) > 1 {
				add(verifEnt{typ: 'l', name: verifSpell(rnd, k, false), link: verifSpell(rnd, keys[rnd.Intn(len(keys))], false)})
			}
		}
	}
	// landmarks and a table of contents already in the input
	if rnd.Intn(6) == 0 {
		nm := []string{PrefetchLandmark, NoPrefetchLandmark, "./" + PrefetchLandmark, "/" + NoPrefetchLandmark, "a/../" + PrefetchLandmark}[rnd.Intn(5)]
		ents = append(ents, verifEnt{typ: 'r', name: nm, size: 1})
	}
	if rnd.Intn(12) == 0 {
		add(verifEnt{typ: 'r', name: "a/" + PrefetchLandmark, size: 3}) // not a landmark: it is not in the root
	}
	if rnd.Intn(12) == 0 {
		add(verifEnt{typ: 'r', name: []string{TOCTarName, "./" + TOCTarName}[rnd.Intn(2)], size: int(rnd.Range(1, 20))})
	}
	// order: archive order, or partly / fully shuffled (children before parents, links before targets)
	switch rnd.Pick(5, 2, 2) {
	case 1:
		for n := 0; n < 2 && len(ents) > 1; n++ {
			i, j := rnd.Intn(len(ents)), rnd.Intn(len(ents))
			ents[i], ents[j] = ents[j], ents[i]
		}
	case 2:
		for i := len(ents) - 1; i > 0; i-- {
			j := rnd.Intn(i + 1)
			ents[i], ents[j] = ents[j], ents[i]
		}
	}
	// the prioritized list
	var prio []string
	if rnd.Intn(7) != 0 {
		np := int(rnd.Range(1, 5))
		for i := 0; i < np; i++ {
			var k string
			dir := false
			switch {
			case len(keys) > 0 && rnd.Intn(7) != 0:
				k = keys[rnd.Intn(len(keys))]
			case rnd.Intn(3) == 0:
				k = ""
			default:
				k = where() + []string{"nothere", "f", "zz"}[rnd.Intn(3)]
			}
			if rnd.Intn(5) == 0 {
				dir = true
			}
			prio = append(prio, verifSpell(rnd, k, dir))
		}
		if len(prio) > 0 && rnd.Intn(6) == 0 {
			prio = append(prio, prio[rnd.Intn(len(prio))]) // listed twice
		}
	}
	return verifCase{ents: ents, prio: prio, label: "random"}
}

// verifScenarios: hand-written edge cases, run before the random ones.
func verifScenarios() []verifCase {
	r := func(n string, sz int) verifEnt { return verifEnt{typ: 'r', name: n, size: sz} }
	d := func(n string) verifEnt { return verifEnt{typ: 'd', name: n} }
	l := func(n, t string) verifEnt { return verifEnt{typ: 'l', name: n, link: t} }
	return []verifCase{
		{label: "empty tar, empty list"},
		{label: "empty tar, listed path", prio: []string{"a"}},
		{label: "empty tar, root listed", prio: []string{"/"}},
		{label: "no list", ents: []verifEnt{d("a/"), r("a/f", 10), r("g", 3)}},
		{label: "plain", ents: []verifEnt{d("a/"), r("a/f", 10), r("g", 3), r("h", 7)}, prio: []string{"h", "a/f"}},
		{label: "spellings", ents: []verifEnt{d("./a/"), r("./a/f", 10), r("/g", 3), r("../h", 7), r("k", 1)},
			prio: []string{"/h", "./a/f", "../g", "a/../k"}},
		{label: "directory listed", ents: []verifEnt{d("a/"), d("a/c/"), r("a/c/f", 10), r("a/g", 3)}, prio: []string{"a/c/", "a/c"}},
		{label: "child before parent in the list", ents: []verifEnt{d("a/"), d("a/c/"), r("a/c/f", 10), r("a/g", 3)}, prio: []string{"a/c/f", "a", "a/c", "a/g"}},
		{label: "hardlink and target", ents: []verifEnt{d("a/"), r("a/f", 10), d("b/"), l("b/l1", "a/f"), r("g", 3)}, prio: []string{"b/l1"}},
		{label: "hardlink chain", ents: []verifEnt{l("l3", "l2"), l("l2", "./l1"), l("l1", "/a/f"), d("a/"), r("a/f", 10), r("g", 5)}, prio: []string{"l3", "g"}},
		{label: "target listed after its hardlink", ents: []verifEnt{r("f", 10), l("l1", "f"), r("g", 5)}, prio: []string{"l1", "f", "g"}},
		{label: "hardlink to a missing name", ents: []verifEnt{d("a/"), l("a/l1", "nothere"), r("g", 5)}, prio: []string{"a/l1", "g"}},
		{label: "hardlink to the root", ents: []verifEnt{d("./"), l("l1", "/"), r("g", 5)}, prio: []string{"l1"}},
		{label: "hardlink to the root, no root entry", ents: []verifEnt{l("l1", "."), r("g", 5)}, prio: []string{"l1"}},
		{label: "hardlink to its parent directory", ents: []verifEnt{d("a/"), l("a/l1", "a"), r("g", 5)}, prio: []string{"a/l1"}},
		{label: "duplicates", ents: []verifEnt{r("f", 10), r("g", 3), r("./f", 20), d("a/"), r("/g", 1), d("a")}, prio: []string{"g"}},
		{label: "duplicate changes type", ents: []verifEnt{d("a/"), r("a/f", 10), r("a", 4), r("g", 3)}, prio: []string{"a/f"}},
		{label: "duplicate replaces hardlink", ents: []verifEnt{r("f", 10), l("l1", "nothere"), l("./l1", "f")}, prio: []string{"l1"}},
		{label: "listed twice", ents: []verifEnt{r("f", 10), r("g", 3)}, prio: []string{"g", "./g", "f", "g"}},
		{label: "missing", ents: []verifEnt{r("f", 10), r("g", 3)}, prio: []string{"nothere", "g", "a/nothere"}},
		{label: "all missing", ents: []verifEnt{r("f", 10), r("g", 3)}, prio: []string{"nothere", "zz"}},
		{label: "implicit parent directory", ents: []verifEnt{r("a/f", 10), r("g", 3)}, prio: []string{"a/f", "g"}},
		{label: "root listed, root entry", ents: []verifEnt{d("./"), d("./a/"), r("./a/f", 10)}, prio: []string{"/", "a/f"}},
		{label: "root listed late", ents: []verifEnt{d("/"), d("a/"), r("a/f", 10)}, prio: []string{"a/f", ".", ".."}},
		{label: "root listed, no root entry", ents: []verifEnt{d("a/"), r("a/f", 10)}, prio: []string{"", "./", "a/f"}},
		{label: "root entry moved with its children", ents: []verifEnt{r("g", 2), d("./"), r("./f", 10)}, prio: []string{"f"}},
		{label: "landmarks in the input", ents: []verifEnt{r(PrefetchLandmark, 1), r("f", 10), r("./"+NoPrefetchLandmark, 1), r("g", 3), r("a/../"+PrefetchLandmark, 5)}, prio: []string{"g"}},
		{label: "landmarks in the input, no list", ents: []verifEnt{r("f", 10), r(NoPrefetchLandmark, 1), r(PrefetchLandmark, 1)}},
		{label: "landmark listed", ents: []verifEnt{r(PrefetchLandmark, 1), r("f", 10)}, prio: []string{PrefetchLandmark, "f"}},
		{label: "landmark name in a subdirectory", ents: []verifEnt{d("a/"), r("a/"+PrefetchLandmark, 9), r("f", 10)}, prio: []string{"f"}},
		{label: "landmark name in a subdirectory listed", ents: []verifEnt{d("a/"), r("f", 10), r("a/"+NoPrefetchLandmark, 9)}, prio: []string{"a/" + NoPrefetchLandmark}},
		{label: "table of contents in the input", ents: []verifEnt{r("f", 10), r(TOCTarName, 12), r("g", 3)}, prio: []string{TOCTarName, "g"}},
		{label: "file as parent", ents: []verifEnt{r("a", 6), r("a/f", 10), r("g", 3)}, prio: []string{"a/f"}},
		{label: "file as parent of a dangling hardlink", ents: []verifEnt{r("a", 6), l("a/l1", "nothere"), r("g", 3)}, prio: []string{"a/l1"}},
		{label: "empty files", ents: []verifEnt{r("f", 0), r("g", 0), r("h", 5)}, prio: []string{"g"}},
		{label: "only empty prioritized", ents: []verifEnt{r("f", 50), r("g", 0), r("h", 50), r("k", 50)}, prio: []string{"g"}},
		{label: "big neighbours", ents: []verifEnt{r("f", 500), r("g", 400), r("h", 300), r("k", 200)}, prio: []string{"h", "f"}},
		{label: "rest not in name order", ents: []verifEnt{r("z", 4), d("y/"), r("y/x", 9), r("b", 5), r("a", 6), r("./m", 2)}, prio: []string{"b"}},
		{label: "symlink and fifo", ents: []verifEnt{{typ: 's', name: "s", link: "f"}, {typ: 'o', name: "p"}, r("f", 10)}, prio: []string{"s", "p"}},
	}
}

// verifCycleScenarios: tars whose parent/hardlink graph has a cycle (separate regression stream).
func verifCycleScenarios(rnd *verifutil.Rand) []verifCase {
	r := func(n string, sz int) verifEnt { return verifEnt{typ: 'r', name: n, size: sz} }
	d := func(n string) verifEnt { return verifEnt{typ: 'd', name: n} }
	l := func(n, t string) verifEnt { return verifEnt{typ: 'l', name: n, link: t} }
	cs := []verifCase{
		{label: "cycle a<->b, untouched (control)", ents: []verifEnt{l("a", "b"), l("b", "a"), r("c", 4)}, prio: []string{"c"}},
		{label: "overridden hardlink would close a cycle (control)", ents: []verifEnt{l("l1", "l2"), l("l2", "l1"), r("./l1", 5), r("c", 4)}, prio: []string{"l2", "c"}},
		{label: "overridden hardlink to its own child (control)", ents: []verifEnt{l("d", "d/x"), r("d/x", 4), d("d/")}, prio: []string{"d/x"}},
		{label: "cycle a<->b", ents: []verifEnt{l("a", "b"), l("b", "a"), r("c", 4)}, prio: []string{"a"}},
		{label: "hardlink to itself", ents: []verifEnt{r("c", 4), l("a", "./a")}, prio: []string{"c", "a"}},
		{label: "hardlink to its own child", ents: []verifEnt{l("d", "d/x"), r("d/x", 4)}, prio: []string{"d/x"}},
		{label: "cycle of three below a directory", ents: []verifEnt{d("x/"), l("x/a", "x/b"), l("x/b", "/x/c"), l("x/c", "./x/a"), r("f", 3)}, prio: []string{"f", "x/b"}},
		{label: "missing parent directory found before the cycle", ents: []verifEnt{l("d/x", "d/y"), l("d/y", "d/x"), r("c", 4)}, prio: []string{"d/x", "c"}},
		{label: "cycle behind a listed path that is placed first", ents: []verifEnt{r("c", 4), l("a", "b"), l("b", "a")}, prio: []string{"c", "nothere", "b"}},
		{label: "cycle reached through a chain", ents: []verifEnt{r("f", 3), l("l1", "l2"), l("l2", "l3"), l("l3", "l2")}, prio: []string{"l1"}},
	}
	for len(cs) < verifutil.EnvInt("VERIF_NCYCLE", 14) {
		c := verifGenCaseOnce(rnd, false)
		if len(c.ents) > 0 {
			// close a cycle through a fresh pair of hardlinks and list one of them
			c.ents = append(c.ents, l("cyc1", "cyc2"), l("cyc2", "cyc1"))
			switch rnd.Intn(4) {
			case 0: // the cycle is in the tar but no listed path needs it
			case 1:
				c.prio = append([]string{"./cyc1"}, c.prio...)
			default:
				c.prio = append(c.prio, "cyc2")
			}
		}
		if verifNewWorld(c.ents, false).hasCycle() {
			c.label = "random tar with a cycle"
			cs = append(cs, c)
		}
	}
	return cs
}

// ---------------------------------------------------------------------------------------------
// the test

func verifSortOp(c verifCase, back []verifEnt, allow bool) string {
	return fmt.Sprintf("sort %s %s %s", verifBool(allow), verifHexList("P=", c.prio), verifEntsField(back))
}

func verifResLine(r verifRes) string {
	if r.err {
		return "err"
	}
	return fmt.Sprintf("ok order=%s missed=%s", verifShowOrder(r.order), verifHexList("", r.missed))
}

func verifDescribe(c verifCase, allow bool) string {
	var sb strings.Builder
	fmt.Fprintf(&sb, "[%s] allow-not-found=%v prioritized=%q tar=[", c.label, allow, c.prio)
	for i, e := range c.ents {
		if i > 0 {
			sb.WriteString(" ")
		}
		fmt.Fprintf(&sb, "%d:%c:%q", i+1, e.typ, e.name)
		if e.typ == 'l' {
			fmt.Fprintf(&sb, "->%q", e.link)
		}
		if e.typ == 'r' {
			fmt.Fprintf(&sb, "(%d)", e.size)
		}
	}
	sb.WriteString("]")
	return sb.String()
}

func verifDoSort(out *verifutil.Out, c verifCase, allow bool) {
	tarb, back, err := verifBuildTar(c.ents)
	if err != nil {
		out.Count("tar-writer-refused: " + err.Error())
		return
	}
	c.ents = back
	res := verifRunSort(tarb, c.prio, allow)
	line := verifResLine(res)
	out.Emit(verifSortOp(c, back, allow), line)
	out.Count("sort")
	if res.err {
		out.Count("sort-err")
	}
	if len(res.missed) > 0 {
		out.Count("sort-missed")
	}
	verifOracle(out, verifNewWorld(back, false), c.prio, allow, res, verifDescribe(c, allow))
	out.Distinct("sort/" + verifBool(allow) + "/" + line + "/" + verifHexList("", c.prio))
}

func verifDoBuild(out *verifutil.Out, c verifCase, allow bool, cfg verifBuildCfg) {
	tarb, back, err := verifBuildTar(c.ents)
	if err != nil {
		out.Count("tar-writer-refused: " + err.Error())
		return
	}
	c.ents = back
	what := fmt.Sprintf("%s chunk=%d minchunk=%d workers=%d level=%d", verifDescribe(c, allow), cfg.chunkSize, cfg.minChunk, cfg.workers, cfg.level)
	res, chunks, opened, err := verifRunBuild(tarb, c.prio, allow, cfg)
	if err != nil {
		out.Fail("build-output-unreadable", err.Error()+" :: "+what)
		return
	}
	w := verifNewWorld(back, true)
	line := "err"
	if !res.err {
		parts := make([]string, 0, len(chunks))
		for _, ch := range chunks {
			id := "?"
			if verifIsLandmarkKey(ch.key) {
				id = "L1"
				if ch.key == NoPrefetchLandmark {
					id = "L0"
				}
			} else if n, ok := w.surv[ch.key]; ok {
				id = strconv.Itoa(n)
			}
			parts = append(parts, fmt.Sprintf("%s@%d", id, ch.chunkOffset))
		}
		line = fmt.Sprintf("ok tar=%s missed=%s toc=%s", verifShowOrder(res.order), verifHexList("", res.missed), strings.Join(parts, ","))
	}
	out.Emit(fmt.Sprintf("build %s %d %d %d %s %s", verifBool(allow), cfg.chunkSize, cfg.minChunk, cfg.workers,
		verifHexList("P=", c.prio), verifEntsField(back)), line)
	out.Count("build")
	if res.err {
		out.Count("build-err")
	} else if opened {
		out.Count("build-opened")
	} else {
		out.Count("build-open-refused")
	}
	if cfg.minChunk > 0 {
		out.Count("build-minchunk")
	}
	group, _ := verifOracle(out, w, c.prio, allow, res, what)
	if !res.err && group != nil {
		verifOracleOffsets(out, w, group, chunks, what)
		shared := 0
		for _, ch := range chunks {
			if ch.inner > 0 {
				shared++
			}
		}
		if shared > 0 {
			out.Count("build-shared-streams")
		}
	}
	out.Distinct(fmt.Sprintf("build/%s/%d/%d/%d/%s/%s", verifBool(allow), cfg.chunkSize, cfg.minChunk, cfg.workers, line, verifHexList("", c.prio)))
}

func verifGenCfg(rnd *verifutil.Rand) verifBuildCfg {
	cfg := verifBuildCfg{
		chunkSize: []int{0, 1, 2, 3, 7, 16, 64, 1000}[rnd.Intn(8)],
		workers:   []int{0, 1, 1, 2, 3, 4, 8}[rnd.Intn(7)],
		level:     []int{gzip.BestSpeed, gzip.NoCompression, gzip.BestCompression, gzip.DefaultCompression}[rnd.Intn(4)],
	}
	if rnd.Intn(2) == 0 {
		cfg.minChunk = []int{1, 10, 100, 600, 5000, 1 << 20}[rnd.Intn(6)]
	}
	return cfg
}

const verifChildEnv = "VERIF_C14_CYCLE_CASE"

// TestVerifC14CycleChild runs ONE cyclic scenario in this (child) process; it does nothing unless
// the parent asked for it.
func TestVerifC14CycleChild(t *testing.T) {
	s := os.Getenv(verifChildEnv)
	if s == "" {
		return
	}
	idx, err := strconv.Atoi(s)
	if err != nil {
		t.Fatal(err)
	}
	debug.SetMaxStack(32 << 20)
	cs := verifCycleScenarios(verifutil.NewRand(verifutil.Seed() ^ 0xc14c))
	if idx < 0 || idx >= 2*len(cs) {
		t.Fatalf("no such scenario %d", idx)
	}
	c := cs[idx/2]
	tarb, _, err := verifBuildTar(c.ents)
	if err != nil {
		fmt.Println("VERIFC14RESULT tar-writer-refused")
		return
	}
	res := verifRunSort(tarb, c.prio, idx%2 == 1)
	fmt.Println("VERIFC14RESULT " + verifResLine(res))
}

// reachesCycle: some name needed by k (through entries of the tar) lies on a cycle of the
// parent/hardlink graph.
func (w *verifWorld) reachesCycle(k string) bool {
	acc := map[string]bool{}
	w.reach(k, acc)
	keys := make([]string, 0, len(acc))
	for d := range acc {
		keys = append(keys, d)
	}
	sort.Strings(keys)
	for _, d := range keys {
		if d == "" {
			continue
		}
		if _, ok := w.surv[d]; !ok {
			continue
		}
		// d is on a cycle iff d is needed by one of its own prerequisites
		for _, dd := range w.deps(d) {
			sub := map[string]bool{}
			w.reach(dd, sub)
			if sub[d] {
				return true
			}
		}
	}
	return false
}

func verifRunCycleStream(out *verifutil.Out) {
	out.Comment("---- regression stream: tars with a parent/hardlink CYCLE (each in a child process, small stack, timeout) ----")
	cs := verifCycleScenarios(verifutil.NewRand(verifutil.Seed() ^ 0xc14c))
	for i := 0; i < 2*len(cs); i++ {
		c := cs[i/2]
		allow := i%2 == 1
		_, back, err := verifBuildTar(c.ents)
		if err != nil {
			continue
		}
		c.ents = back
		ctx, cancel := context.WithTimeout(context.Background(), 60*time.Second)
		cmd := exec.CommandContext(ctx, os.Args[0], "-test.run", "^TestVerifC14CycleChild$", "-test.count=1")
		cmd.Env = append(os.Environ(), verifChildEnv+"="+strconv.Itoa(i))
		b, err := cmd.CombinedOutput()
		timedOut := ctx.Err() != nil
		cancel()
		result := ""
		for _, ln := range strings.Split(string(b), "\n") {
			if strings.HasPrefix(ln, "VERIFC14RESULT ") {
				result = strings.TrimPrefix(ln, "VERIFC14RESULT ")
			}
		}
		out.Count("cycle-case")
		control := strings.Contains(c.label, "control")
		what := verifDescribe(c, allow)
		if err != nil || result == "" {
			how := "crashed"
			switch {
			case timedOut:
				how = "timed out"
			case strings.Contains(string(b), "stack overflow"):
				how = "stack overflow (fatal, not recoverable)"
			}
			out.Emit(verifSortOp(c, back, allow), "diverge")
			out.Count("cycle-diverged")
			if control {
				out.Fail("diverged-on-acyclic-input", "sortEntries "+how+" on a tar without a reachable cycle :: "+what)
			} else {
				out.Fail("moverec-link-cycle", "sortEntries/moveRec does not terminate: "+how+" :: "+what)
			}
			continue
		}
		// the call returned: the model must give the same answer
		out.Emit(verifSortOp(c, back, allow), result)
		out.Distinct("cycle/" + verifBool(allow) + "/" + result + "/" + verifHexList("", c.prio))
		w := verifNewWorld(back, false)
		if control {
			out.Count("cycle-control")
			if result == "err" || strings.HasPrefix(result, "ok ") {
				// no cycle is reached: the ordinary predicate applies; re-run in-process to get the structured result
				tarb, _, _ := verifBuildTar(c.ents)
				verifOracle(out, w, c.prio, allow, verifRunSort(tarb, c.prio, allow), what)
			}
			continue
		}
		// independent necessary conditions on a cyclic tar
		if result == "err" {
			out.Count("cycle-reported")
			if allow {
				// with allow-not-found the only error left is the cycle: some listed path must run into one
				hit := false
				for _, l := range c.prio {
					if w.reachesCycle(verifClean(l)) {
						hit = true
					}
				}
				if !hit {
					out.Fail("cycle-error-without-cycle", "error although missing paths are allowed and no listed path runs into a cycle :: "+what)
				}
			}
			continue
		}
		// success: every listed path that was not reported back has been placed with everything it
		// needs, so none of them may run into a cycle
		out.Count("cycle-ok")
		missed := map[string]bool{}
		if i := strings.Index(result, " missed="); i >= 0 {
			for _, h := range strings.Split(result[i+len(" missed="):], ",") {
				missed[h] = true
			}
		}
		for _, l := range c.prio {
			if !missed[verifHex(l)] && w.reachesCycle(verifClean(l)) {
				out.Fail("cycle-not-reported", fmt.Sprintf("listed path %q runs into a cycle of hardlinks but the call succeeded without reporting it :: %s", l, what))
			}
		}
	}
}

func TestVerifC14(t *testing.T) {
	rnd := verifutil.NewRand(verifutil.Seed())
	out := verifutil.OpenOut()
	defer out.Close()
	nsort := verifutil.EnvInt("VERIF_N", 1500)
	nbuild := verifutil.EnvInt("VERIF_NBUILD", 250)

	out.Comment("---- stream: hand-written scenarios ----")
	fixedCfgs := []verifBuildCfg{
		{chunkSize: 0, minChunk: 0, workers: 1, level: gzip.BestSpeed},
		{chunkSize: 4, minChunk: 0, workers: 3, level: gzip.BestCompression},
		{chunkSize: 64, minChunk: 1 << 20, workers: 1, level: gzip.BestSpeed},
		{chunkSize: 7, minChunk: 100, workers: 2, level: gzip.NoCompression},
	}
	for _, c := range verifScenarios() {
		for _, allow := range []bool{false, true} {
			verifDoSort(out, c, allow)
			for _, cfg := range fixedCfgs {
				verifDoBuild(out, c, allow, cfg)
			}
		}
	}
	out.Comment("---- stream: generated tars, in-package sortEntries ----")
	for i := 0; i < nsort; i++ {
		c := verifGenCase(rnd, false)
		verifDoSort(out, c, rnd.Intn(2) == 0)
	}
	out.Comment("---- stream: generated tars, end-to-end Build ----")
	for i := 0; i < nbuild; i++ {
		c := verifGenCase(rnd, false)
		verifDoBuild(out, c, rnd.Intn(2) == 0, verifGenCfg(rnd))
	}
	verifRunCycleStream(out)
}
