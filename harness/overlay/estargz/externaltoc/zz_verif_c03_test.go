//go:build verif

package externaltoc

// C03 harness, external-TOC gzip format (see estargz/zz_verif_c03_test.go and internal/verifc03).

import (
	"bytes"
	"fmt"
	"io"
	"runtime"
	"testing"

	"github.com/containerd/stargz-snapshotter/estargz"
	"github.com/containerd/stargz-snapshotter/estargz/internal/verifc03"
	"github.com/containerd/stargz-snapshotter/estargz/internal/verifutil"
	digest "github.com/opencontainers/go-digest"
)

type verifC03Comp struct {
	estargz.Compression
	rec *verifc03.Recorder
}

func (c *verifC03Comp) Writer(w io.Writer) (estargz.WriteFlushCloser, error) {
	if err := c.rec.OpenErr(); err != nil { // injected fault (fault stream)
		return nil, err
	}
	s := c.rec.NewStream(w)
	inner, err := c.Compression.Writer(s)
	if err != nil {
		return nil, err
	}
	return &verifC03WFC{inner: inner, s: s}, nil
}

type verifC03WFC struct {
	inner estargz.WriteFlushCloser
	s     *verifc03.Stream
}

func (w *verifC03WFC) Write(p []byte) (int, error) { return w.inner.Write(p) }
func (w *verifC03WFC) Flush() error                { err := w.inner.Flush(); w.s.Flushed(); return err }
func (w *verifC03WFC) Close() error                { err := w.inner.Close(); w.s.Closed(); return err }

func verifC03Section(b []byte) *io.SectionReader {
	return io.NewSectionReader(bytes.NewReader(b), 0, int64(len(b)))
}

// verifC03New: a fresh compressor per blob (it keeps the TOC it wrote).
func verifC03New(level int, rec *verifc03.Recorder) (*GzipCompression, estargz.Compression) {
	gc := &GzipCompression{NewGzipCompressorWithLevel(level), NewGzipDecompressor(nil)}
	gc.GzipDecompressor = NewGzipDecompressor(func() ([]byte, error) {
		var buf bytes.Buffer
		if _, err := gc.GzipCompressor.WriteTOCTo(&buf); err != nil {
			return nil, err
		}
		return buf.Bytes(), nil
	})
	return gc, &verifC03Comp{gc, rec}
}

func verifC03TOC(gc *GzipCompression) ([]byte, error) {
	var buf bytes.Buffer
	if _, err := gc.GzipCompressor.WriteTOCTo(&buf); err != nil {
		return nil, err
	}
	return buf.Bytes(), nil
}

func verifC03Target() *verifc03.Target {
	return &verifc03.Target{
		Fmt:      "e",
		Workers0: runtime.GOMAXPROCS(0),
		Build: func(in []byte, o verifc03.Opts, rec *verifc03.Recorder) (*verifc03.Result, error) {
			gc, comp := verifC03New(o.Level, rec)
			opts := []estargz.Option{estargz.WithChunkSize(o.Chunk), estargz.WithMinChunkSize(o.MinChunk),
				estargz.WithParallelism(o.Workers), estargz.WithCompression(comp)}
			if len(o.Prio) > 0 {
				opts = append(opts, estargz.WithPrioritizedFiles(o.Prio))
			}
			blob, err := estargz.Build(verifC03Section(in), opts...)
			if err != nil {
				return nil, err
			}
			b, err := io.ReadAll(blob)
			if err != nil {
				blob.Close()
				return nil, err
			}
			if err := blob.Close(); err != nil {
				return nil, err
			}
			sz, err := blob.UncompressedSize()
			if err != nil {
				return nil, err
			}
			toc, err := verifC03TOC(gc)
			if err != nil {
				return nil, err
			}
			return &verifc03.Result{Blob: b, TOCDigest: blob.TOCDigest().String(), DiffID: blob.DiffID().String(), UncompressedSize: sz, ExtTOC: toc}, nil
		},
		Write: func(ins [][]byte, o verifc03.Opts, lossless bool, rec *verifc03.Recorder) (*verifc03.Result, error) {
			var buf bytes.Buffer
			gc, comp := verifC03New(o.Level, rec)
			w := estargz.NewWriterWithCompressor(&buf, comp)
			w.ChunkSize = o.Chunk
			w.MinChunkSize = o.MinChunk
			for _, in := range ins {
				var err error
				rec.Mark()
				if lossless {
					err = w.AppendTarLossLess(bytes.NewReader(in))
				} else {
					err = w.AppendTar(bytes.NewReader(in))
				}
				if err != nil {
					return nil, err
				}
			}
			d, err := w.Close()
			if err != nil {
				return nil, err
			}
			toc, err := verifC03TOC(gc)
			if err != nil {
				return nil, err
			}
			return &verifc03.Result{Blob: buf.Bytes(), TOCDigest: d.String(), DiffID: w.DiffID(), UncompressedSize: -1, ExtTOC: toc}, nil
		},
		OpenRead: func(blob, extTOC []byte, tocDigest string, names []string) (map[string][]byte, error, error) {
			d := NewGzipDecompressor(func() ([]byte, error) { return extTOC, nil })
			r, err := estargz.Open(verifC03Section(blob), estargz.WithDecompressors(d))
			if err != nil {
				return nil, nil, fmt.Errorf("Open: %v", err)
			}
			_, verr := r.VerifyTOC(digest.Digest(tocDigest))
			out := map[string][]byte{}
			for _, n := range names {
				e, ok := r.Lookup(n)
				if !ok {
					return nil, verr, fmt.Errorf("Lookup(%q) failed", n)
				}
				fr, err := r.OpenFile(n)
				if err != nil {
					return nil, verr, fmt.Errorf("OpenFile(%q): %v", n, err)
				}
				b := make([]byte, e.Size)
				if e.Size > 0 {
					if k, err := fr.ReadAt(b, 0); (err != nil && err != io.EOF) || int64(k) != e.Size {
						return nil, verr, fmt.Errorf("ReadAt(%q): %d of %d bytes, %v", n, k, e.Size, err)
					}
				}
				out[n] = b
			}
			return out, verr, nil
		},
		Unpack: func(blob, extTOC []byte) ([]byte, error) {
			d := NewGzipDecompressor(func() ([]byte, error) { return extTOC, nil })
			rc, err := estargz.Unpack(verifC03Section(blob), d)
			if err != nil {
				return nil, err
			}
			defer rc.Close()
			return io.ReadAll(rc)
		},
	}
}

func TestVerifC03(t *testing.T) {
	out := verifutil.OpenOut()
	defer out.Close()
	verifc03.RunAll(out, verifC03Target(), verifutil.EnvInt("VERIF_N", 60), verifutil.EnvInt("VERIF_MAXCHECK", 60000))
}
