package verifc03

// The fault stream (VERIF_C03_STREAM=faults): HISTORIES of sessions in one process.  The property is
// quantified over every blob the builder / writer produces - also the one produced right after another
// Writer / Build of the same process FAILED (truncated input tar, destination write error in the middle of
// a chunk, Compression.Writer refusing to open a member, an entry the writer rejects after good ones) or
// while other sessions fail concurrently.  Every round:
//
//	reference  the victim case on the real code (quiet)                      -> TOCDigest / DiffID
//	fault      one or several sessions that are made to fail                 -> m.fault ... / err
//	victim     the same case again through the FULL oracle + model + checker -> must be judged like any
//	           other blob, and must report the same TOCDigest / DiffID as the reference
//
// A failed session must leave nothing behind in the process (package-level pools, caches, counters):
// the model's m.fault is the identity on everything that follows (Props/C03x).

import (
	"archive/tar"
	"fmt"
	"sync"
	"time"

	"github.com/containerd/stargz-snapshotter/estargz/internal/verifutil"
)

// SigFaultLeaks: a blob built after a failed session differs from the blob the same input gives otherwise.
const SigFaultLeaks = "result-depends-on-earlier-failed-session"

// SigFaultNotReported: a session that was made to fail (truncated tar, write error...) returned a blob.
const SigFaultNotReported = "fault-not-reported"

var faultKinds = []string{
	"trunc-payload-W", "trunc-payload-L", "dst-error-W", "conc-dst-error", "trunc-payload-B", "trunc-header-W",
	"dst-error-B", "open-error-W", "refused-late-W", "trunc-lastbyte-W", "open-error-B", "conc-trunc",
}

// faultTar: small file, a big incompressible file of 3c+17 bytes, a third file.
func faultTar(r *verifutil.Rand, c int) ([]byte, []TarItem) {
	big := 3*c + 17
	if c <= 0 {
		big = 150000
	}
	ents := []Ent{reg("p0", pat(10, 1)), reg("p1", r.Bytes(big)), reg("p2", pat(33, 2))}
	b, err := BuildTar(ents, tar.FormatUnknown, 0)
	if err != nil {
		panic(err)
	}
	items, err := ScanTar(b)
	if err != nil {
		panic(err)
	}
	return b, items
}

// oneFault runs one failing session; it returns a description and whether the real code reported an error
// (true as well when an injected write / open fault was never reached, e.g. fewer members than k).
func oneFault(r *verifutil.Rand, t *Target, kind string) (string, int64, bool) {
	c := []int{64, 512, 4096, 0}[r.Intn(4)]
	full, items := faultTar(r, c)
	p1 := items[1]
	size := int64(len(p1.Content))
	o := Opts{Chunk: c, Level: 1, Workers: 1}
	if r.Intn(3) == 0 {
		o.MinChunk = 1000
	}
	rec := NewRecorder()
	var err error
	var n int64
	switch kind {
	case "trunc-payload-W", "trunc-payload-L", "trunc-payload-B", "conc-trunc":
		// cut inside the payload of p1: in the first chunk, one byte into the second, or anywhere
		first := size
		if c > 0 && int64(c) < size {
			first = int64(c)
		}
		n = []int64{1 + int64(r.Intn(int(first-1))), min64(size-1, int64(c)+1), 1 + int64(r.Intn(int(size-1)))}[r.Intn(3)]
		in := full[:p1.DataStart+n]
		switch kind {
		case "trunc-payload-B":
			o.Workers = 2
			_, err = t.Build(in, o, rec)
		case "trunc-payload-L":
			_, err = t.Write([][]byte{in}, o, true, rec)
		default:
			_, err = t.Write([][]byte{in}, o, false, rec)
		}
	case "trunc-lastbyte-W":
		n = size - 1
		_, err = t.Write([][]byte{full[:p1.DataStart+n]}, o, r.Bool(), rec)
	case "trunc-header-W":
		n = items[2].Start + 100
		_, err = t.Write([][]byte{full[:n]}, o, false, rec)
	case "dst-error-W", "conc-dst-error":
		n = 11 + int64(r.Intn(200))
		rec.FailAfter = n
		_, err = t.Write([][]byte{full}, o, r.Bool(), rec)
	case "dst-error-B":
		n = 11 + int64(r.Intn(200))
		rec.FailAfter = n
		o.Workers = 3
		_, err = t.Build(full, o, rec)
	case "open-error-W":
		n = 1 + int64(r.Intn(4))
		rec.FailOpenAt = int(n)
		_, err = t.Write([][]byte{full}, o, false, rec)
	case "open-error-B":
		n = 1 + int64(r.Intn(3))
		rec.FailOpenAt = int(n)
		o.Workers = 2
		_, err = t.Build(full, o, rec)
	case "refused-late-W":
		ents := []Ent{reg("q0", r.Bytes(3*max(c, 100)+5)), {Global: true}, reg("q1", pat(5, 1))}
		b, berr := BuildTar(ents, tar.FormatPAX, 0)
		if berr != nil {
			panic(berr)
		}
		_, err = t.Write([][]byte{b}, o, false, rec)
	default:
		panic("unknown fault kind " + kind)
	}
	injected := rec.Injected() || (rec.FailAfter < 0 && rec.FailOpenAt == 0)
	return fmt.Sprintf("%s chunk=%d min=%d n=%d", kind, c, o.MinChunk, n), n, err != nil || !injected
}

// concFaults: k sessions that fail concurrently.  Write-error variant: all of them sit in the MIDDLE of
// copying a chunk at the same time (each blocks in the write below its compressor until all have arrived -
// channels, no sleeps; a barrier that is not reached within 20 s under load is given up silently) and then
// fail together.  Truncated variant: k sessions on truncated inputs, schedule left to the runtime.
func concFaults(r *verifutil.Rand, t *Target, k int, truncated bool) (string, bool) {
	var mu sync.Mutex
	arrived := 0
	all := make(chan struct{})
	gate := func() {
		mu.Lock()
		arrived++
		if arrived == k {
			close(all)
		}
		mu.Unlock()
		select {
		case <-all:
		case <-time.After(20 * time.Second):
		}
	}
	type job struct {
		in  []byte
		rec *Recorder
		o   Opts
	}
	var jobs []job
	for i := 0; i < k; i++ {
		full, items := faultTar(r, 0)
		rec := NewRecorder()
		if truncated {
			full = full[:items[1].DataStart+100000+int64(r.Intn(1000))]
		} else {
			rec.FailAfter = 11 + int64(r.Intn(100))
			rec.Gate = gate
		}
		jobs = append(jobs, job{full, rec, Opts{Chunk: 0, Level: 1, Workers: 1}})
	}
	errs := make([]error, k)
	var wg sync.WaitGroup
	for i := range jobs {
		wg.Add(1)
		go func(i int) {
			defer wg.Done()
			_, errs[i] = t.Write([][]byte{jobs[i].in}, jobs[i].o, false, jobs[i].rec)
		}(i)
	}
	wg.Wait()
	ok := true
	for i, e := range errs {
		if e == nil && (truncated || jobs[i].rec.Injected()) {
			ok = false
		}
	}
	return fmt.Sprintf("%d concurrent sessions, truncated=%v", k, truncated), ok
}

func min64(a, b int64) int64 {
	if a < b {
		return a
	}
	return b
}

// realRun: the case on the real code without oracle (the reference of the isolation oracle).
func realRun(t *Target, c *Case) (*Result, error, bool) {
	var ins [][]byte
	for _, ents := range c.Calls {
		p, err := BuildTar(ents, c.Format, c.Trailing)
		if err != nil {
			return nil, nil, false
		}
		ins = append(ins, Compress(c.InComp, p))
	}
	o := Opts{Chunk: c.Chunk, MinChunk: c.MinChunk, Level: c.Level, Workers: c.Workers, Prio: c.Prio, NeedsOpen: c.NeedsOpen}
	if c.Mode == "B" {
		if len(ins) != 1 {
			return nil, nil, false
		}
		res, err := t.Build(ins[0], o, NewRecorder())
		return res, err, true
	}
	res, err := t.Write(ins, o, c.Mode == "L", NewRecorder())
	return res, err, true
}

// faultVictim: many chunks, several files, every mode; every third one is a generated case.
func faultVictim(r *verifutil.Rand, t *Target, i int) Case {
	if i%3 == 2 {
		c := Generate(r, t, i, false)
		c.Label = fmt.Sprintf("fgen%d", i)
		return c
	}
	c := []int{64, 7, 512, 100}[r.Intn(4)]
	ents := []Ent{dir("v/"), reg("v/a", pat(10, 1)), reg("v/b", pat(c, 2)), sym("v/s", "a"), reg("v/c", pat(c+1, 5)),
		reg("v/d", content(r, 3*c+17)), reg("v/e", nil), reg("v/f", content(r, 1+r.Intn(4*c)))}
	cs := Case{Label: fmt.Sprintf("fvictim%d", i), Chunk: c, Level: []int{1, 6, 9}[r.Intn(3)], Workers: 1 + r.Intn(4)}
	switch r.Intn(4) {
	case 0, 1:
		cs.Mode = "B"
		if r.Bool() {
			cs.Prio = []string{"v/d"}
		}
	case 2:
		cs.Mode = "W"
	default:
		cs.Mode = "L"
	}
	if r.Intn(3) == 0 {
		cs.MinChunk = []int{c, 3 * c, 10000}[r.Intn(3)]
	}
	if cs.Mode != "B" && r.Intn(3) == 0 {
		cs.Calls = [][]Ent{ents[:4], ents[4:]}
	} else {
		cs.Calls = [][]Ent{ents}
	}
	return cs
}

// RunFaults runs `rounds` rounds of reference / fault(s) / victim.
func RunFaults(out *verifutil.Out, t *Target, rounds, maxCheck int) {
	r := verifutil.NewRand(verifutil.Seed()*15485863 + uint64(t.Fmt[0]))
	for i := 0; i < rounds; i++ {
		kind := faultKinds[i%len(faultKinds)]
		c := faultVictim(r, t, i)
		ref, referr, refok := realRun(t, &c)
		// ---- the fault(s)
		var desc string
		reported := true
		nfaults := 1
		switch kind {
		case "conc-dst-error", "conc-trunc":
			nfaults = 3
			desc, reported = concFaults(r, t, nfaults, kind == "conc-trunc")
			desc = kind + ": " + desc
		default:
			if r.Intn(4) == 0 {
				nfaults = 2 // the same kind twice in a row
			}
			for k := 0; k < nfaults; k++ {
				var rep bool
				desc, _, rep = oneFault(r, t, kind)
				reported = reported && rep
			}
		}
		out.Count("fault-" + kind)
		res := "err"
		if !reported {
			res = "ok"
		}
		out.Comment("fault round " + fmt.Sprint(i) + ": " + desc)
		out.Emit(fmt.Sprintf("m.fault %s %d", kind, nfaults), res)
		if !reported {
			out.Fail(SigFaultNotReported, fmt.Sprintf("round %d fmt=%s: a session that was made to fail (%s) returned a blob and no error", i, t.Fmt, desc))
		}
		// ---- the victim, judged like every other blob
		c.Label = fmt.Sprintf("%s-after[%s]", c.Label, desc)
		rn := runCase(out, t, &c, maxCheck, false)
		// ---- isolation: same reported digests as before the fault
		if refok && referr == nil && ref != nil && rn.res != nil {
			if ref.TOCDigest != rn.res.TOCDigest || ref.DiffID != rn.res.DiffID {
				out.Fail(SigFaultLeaks, fmt.Sprintf("%s [fmt=%s mode=%s chunk=%d min=%d workers=%d]: before the failed session(s) the case gave TOCDigest %s DiffID %s, "+
					"right after them TOCDigest %s DiffID %s", c.Label, t.Fmt, c.Mode, c.Chunk, c.MinChunk, c.Workers, ref.TOCDigest, ref.DiffID, rn.res.TOCDigest, rn.res.DiffID))
			}
			out.Count("isolation-compared")
		}
		// ---- the per-chunk digester discipline against the model (fresh state per chunk): the bytes the
		// recorded chunkDigest is the SHA-256 of are the chunk's bytes
		out.Emit("d.begin", "ok")
		nd := 0
		for _, d := range rn.digRecs {
			if len(d.data) > 300 || nd >= 24 {
				continue
			}
			nd++
			want := "rec " + hxb(d.data)
			if !d.ok {
				want = "rec-other-bytes"
			}
			out.Emit("d.chunk "+hxb(d.data), want)
		}
		out.Distinct(fmt.Sprintf("fault/%s/%s/%s/c%d/m%d/w%d", t.Fmt, kind, c.Mode, c.Chunk, c.MinChunk, c.Workers))
	}
}
