// Package verifc03 holds the generator, the independent blob readers (frame scan, footer, TOC, tar)
// and the property oracle of the C03 harnesses (eStargz writer / builder).  It is shared by the
// harnesses of estargz (gzip), estargz/zstdchunked and estargz/externaltoc, must not import any of
// them (the code under test is reached through the closures of Target), and is injected with
// `go test -overlay` like every harness file.
//
// Everything in this file reads a blob by the rules of docs/estargz.md with the standard library
// only (compress/gzip, archive/tar, encoding/json) plus klauspost zstd for decoding single frames.
package verifc03

import (
	"archive/tar"
	"bytes"
	"compress/gzip"
	"encoding/binary"
	"encoding/json"
	"fmt"
	"io"
	"path"
	"strconv"
	"strings"

	"github.com/klauspost/compress/zstd"
)

const (
	TOCTarName         = "stargz.index.json"
	PrefetchLandmark   = ".prefetch.landmark"
	NoPrefetchLandmark = ".no.prefetch.landmark"
)

// Mem is one frame of the blob: a gzip member or a zstd (data or skippable) frame.
type Mem struct {
	Off       int64
	Clen      int64
	Payload   []byte
	Skippable bool   // zstd skippable frame
	Raw       []byte // skippable frame: its user data
	Extra     []byte // gzip: the Extra header field
}

// ScanGzip splits b into gzip members by decoding one member at a time from a byte reader
// (bytes.Reader is an io.ByteReader, so the decoder never reads past the member).
func ScanGzip(b []byte) ([]Mem, error) {
	var out []Mem
	off := 0
	for off < len(b) {
		br := bytes.NewReader(b[off:])
		zr, err := gzip.NewReader(br)
		if err != nil {
			return out, fmt.Errorf("member at %d: %v", off, err)
		}
		zr.Multistream(false)
		p, err := io.ReadAll(zr)
		if err != nil {
			return out, fmt.Errorf("member at %d: %v", off, err)
		}
		extra := append([]byte(nil), zr.Extra...)
		zr.Close()
		n := len(b[off:]) - br.Len()
		if n <= 0 {
			return out, fmt.Errorf("member at %d: no progress", off)
		}
		out = append(out, Mem{Off: int64(off), Clen: int64(n), Payload: p, Extra: extra})
		off += n
	}
	return out, nil
}

// ScanZstd walks the zstd frame format (RFC 8878) by hand: frame header, block headers, optional
// checksum; skippable frames by their size field.  Each data frame is then decoded on its own.
func ScanZstd(b []byte) ([]Mem, error) {
	var out []Mem
	off := 0
	dec, err := zstd.NewReader(nil)
	if err != nil {
		return nil, err
	}
	defer dec.Close()
	for off < len(b) {
		if len(b)-off < 4 {
			return out, fmt.Errorf("frame at %d: truncated magic", off)
		}
		magic := binary.LittleEndian.Uint32(b[off:])
		if magic&0xFFFFFFF0 == 0x184D2A50 {
			if len(b)-off < 8 {
				return out, fmt.Errorf("frame at %d: truncated skippable header", off)
			}
			n := int(binary.LittleEndian.Uint32(b[off+4:]))
			if off+8+n > len(b) {
				return out, fmt.Errorf("frame at %d: skippable frame overruns blob", off)
			}
			out = append(out, Mem{Off: int64(off), Clen: int64(8 + n), Skippable: true, Raw: b[off+8 : off+8+n]})
			off += 8 + n
			continue
		}
		if magic != 0xFD2FB528 {
			return out, fmt.Errorf("frame at %d: bad magic %08x", off, magic)
		}
		p := off + 4
		if p >= len(b) {
			return out, fmt.Errorf("frame at %d: truncated", off)
		}
		fhd := b[p]
		p++
		fcsFlag := fhd >> 6
		single := fhd&0x20 != 0
		checksum := fhd&0x04 != 0
		did := fhd & 0x03
		if !single {
			p++ // window descriptor
		}
		p += []int{0, 1, 2, 4}[did]
		switch fcsFlag {
		case 0:
			if single {
				p++
			}
		case 1:
			p += 2
		case 2:
			p += 4
		case 3:
			p += 8
		}
		for {
			if p+3 > len(b) {
				return out, fmt.Errorf("frame at %d: truncated block header", off)
			}
			bh := uint32(b[p]) | uint32(b[p+1])<<8 | uint32(b[p+2])<<16
			p += 3
			last := bh&1 == 1
			typ := (bh >> 1) & 3
			size := int(bh >> 3)
			switch typ {
			case 1:
				p++
			case 3:
				return out, fmt.Errorf("frame at %d: reserved block type", off)
			default:
				p += size
			}
			if p > len(b) {
				return out, fmt.Errorf("frame at %d: block overruns blob", off)
			}
			if last {
				break
			}
		}
		if checksum {
			p += 4
		}
		if p > len(b) {
			return out, fmt.Errorf("frame at %d: checksum overruns blob", off)
		}
		payload, err := dec.DecodeAll(b[off:p], nil)
		if err != nil {
			return out, fmt.Errorf("frame at %d: %v", off, err)
		}
		out = append(out, Mem{Off: int64(off), Clen: int64(p - off), Payload: payload})
		off = p
	}
	return out, nil
}

// FullDecompress decodes the whole blob with the stock streaming decoder of its format.
func FullDecompress(fmtc string, b []byte) ([]byte, error) {
	if fmtc == "z" {
		zr, err := zstd.NewReader(bytes.NewReader(b))
		if err != nil {
			return nil, err
		}
		defer zr.Close()
		return io.ReadAll(zr)
	}
	zr, err := gzip.NewReader(bytes.NewReader(b))
	if err != nil {
		return nil, err
	}
	defer zr.Close()
	return io.ReadAll(zr)
}

// JTOC / JEnt: the TOC JSON as documented in docs/estargz.md.
type JTOC struct {
	Version int     `json:"version"`
	Entries []*JEnt `json:"entries"`
}

type JEnt struct {
	Name        string            `json:"name"`
	Type        string            `json:"type"`
	Size        int64             `json:"size"`
	ModTime3339 string            `json:"modtime"`
	LinkName    string            `json:"linkName"`
	Mode        int64             `json:"mode"`
	UID         int               `json:"uid"`
	GID         int               `json:"gid"`
	Uname       string            `json:"userName"`
	Gname       string            `json:"groupName"`
	Offset      int64             `json:"offset"`
	InnerOffset int64             `json:"innerOffset"`
	DevMajor    int               `json:"devMajor"`
	DevMinor    int               `json:"devMinor"`
	Xattrs      map[string][]byte `json:"xattrs"`
	Digest      string            `json:"digest"`
	ChunkOffset int64             `json:"chunkOffset"`
	ChunkSize   int64             `json:"chunkSize"`
	ChunkDigest string            `json:"chunkDigest"`
}

// Parsed is a blob read by the documented rules.
type Parsed struct {
	Members  []Mem  // every frame before the footer, in order (gzip: incl. the TOC member; zstd: incl. the skippable TOC frame)
	NData    int    // how many of Members carry layer data (the rest is the TOC frame)
	Footer   []byte // the format's footer bytes
	TOCOff   int64  // TOC offset stored in the footer (-1: external)
	TOCJSON  []byte
	TOC      *JTOC
	TOCTar   []byte // gzip / external: the tar stream holding the TOC JSON
	Stream   []byte // full decompression of the layer blob
	DataOnly []byte // decompression of the data members only (what Unpack must return)
}

func tocFromTar(tt []byte) ([]byte, error) {
	tr := tar.NewReader(bytes.NewReader(tt))
	h, err := tr.Next()
	if err != nil {
		return nil, fmt.Errorf("TOC tar: %v", err)
	}
	if h.Name != TOCTarName {
		return nil, fmt.Errorf("TOC tar entry is named %q", h.Name)
	}
	j, err := io.ReadAll(tr)
	if err != nil {
		return nil, err
	}
	if _, err := tr.Next(); err != io.EOF {
		return nil, fmt.Errorf("TOC tar holds more than one entry (%v)", err)
	}
	return j, nil
}

// ParseBlob: footer -> TOC -> members.  sig is a stable failure signature ("" = ok).
func ParseBlob(fmtc string, b []byte, extTOC []byte) (p *Parsed, sig string, err error) {
	p = &Parsed{TOCOff: -1}
	var ms []Mem
	if fmtc == "z" {
		ms, err = ScanZstd(b)
	} else {
		ms, err = ScanGzip(b)
	}
	if err != nil {
		return nil, "blob-not-valid-stream", err
	}
	if len(ms) == 0 {
		return nil, "blob-not-valid-stream", fmt.Errorf("no frames")
	}
	foot := ms[len(ms)-1]
	p.Members = ms[:len(ms)-1]
	p.NData = len(p.Members)
	boundary := func(off int64) int {
		for i, m := range ms {
			if m.Off == off {
				return i
			}
		}
		return -1
	}
	switch fmtc {
	case "g":
		if foot.Clen != 51 || len(foot.Payload) != 0 || int64(len(b))-foot.Off != 51 {
			return nil, "footer-bad", fmt.Errorf("last member: %d bytes, payload %d", foot.Clen, len(foot.Payload))
		}
		p.Footer = b[foot.Off:]
		x := foot.Extra
		if len(x) != 4+16+6 || x[0] != 'S' || x[1] != 'G' || binary.LittleEndian.Uint16(x[2:4]) != 22 ||
			string(x[20:]) != "STARGZ" {
			return nil, "footer-bad", fmt.Errorf("extra field %q", x)
		}
		off, e := strconv.ParseInt(string(x[4:20]), 16, 64)
		if e != nil {
			return nil, "footer-bad", e
		}
		p.TOCOff = off
		i := boundary(off)
		if i < 0 || i != len(ms)-2 {
			return nil, "toc-offset-not-boundary", fmt.Errorf("TOC offset %d is not the start of the last member before the footer", off)
		}
		p.NData = i
		p.TOCTar = ms[i].Payload
		if p.TOCJSON, err = tocFromTar(p.TOCTar); err != nil {
			return nil, "toc-parse", err
		}
	case "e":
		if foot.Clen != 46 || len(foot.Payload) != 0 {
			return nil, "footer-bad", fmt.Errorf("last member: %d bytes", foot.Clen)
		}
		p.Footer = b[foot.Off:]
		x := foot.Extra
		if len(x) != 4+17 || x[0] != 'S' || x[1] != 'G' || binary.LittleEndian.Uint16(x[2:4]) != 17 ||
			string(x[4:]) != "STARGZEXTERNALTOC" {
			return nil, "footer-bad", fmt.Errorf("extra field %q", x)
		}
		tms, e := ScanGzip(extTOC)
		if e != nil || len(tms) != 1 {
			return nil, "toc-parse", fmt.Errorf("external TOC is not one gzip member: %v", e)
		}
		p.TOCTar = tms[0].Payload
		if p.TOCJSON, err = tocFromTar(p.TOCTar); err != nil {
			return nil, "toc-parse", err
		}
	case "z":
		if !foot.Skippable || len(foot.Raw) != 40 {
			return nil, "footer-bad", fmt.Errorf("last frame is not a 40-byte skippable frame")
		}
		p.Footer = foot.Raw
		off := int64(binary.LittleEndian.Uint64(foot.Raw[0:]))
		clen := int64(binary.LittleEndian.Uint64(foot.Raw[8:]))
		ulen := int64(binary.LittleEndian.Uint64(foot.Raw[16:]))
		if binary.LittleEndian.Uint64(foot.Raw[24:]) != 1 || !bytes.Equal(foot.Raw[32:], []byte{0x47, 0x6e, 0x55, 0x6c, 0x49, 0x6e, 0x55, 0x78}) {
			return nil, "footer-bad", fmt.Errorf("manifest type / magic")
		}
		p.TOCOff = off
		i := boundary(off - 8)
		if i < 0 || i != len(ms)-2 || !ms[i].Skippable || int64(len(ms[i].Raw)) != clen {
			return nil, "toc-offset-not-boundary", fmt.Errorf("TOC offset %d / length %d do not delimit the skippable frame before the footer", off, clen)
		}
		p.NData = i
		dec, _ := zstd.NewReader(nil)
		defer dec.Close()
		if p.TOCJSON, err = dec.DecodeAll(ms[i].Raw, nil); err != nil {
			return nil, "toc-parse", err
		}
		if int64(len(p.TOCJSON)) != ulen {
			return nil, "footer-bad", fmt.Errorf("uncompressed TOC length %d != footer %d", len(p.TOCJSON), ulen)
		}
	}
	p.TOC = new(JTOC)
	d := json.NewDecoder(bytes.NewReader(p.TOCJSON))
	if err := d.Decode(p.TOC); err != nil {
		return nil, "toc-parse", err
	}
	for i, m := range p.Members {
		p.Stream = append(p.Stream, m.Payload...)
		if i < p.NData {
			p.DataOnly = append(p.DataOnly, m.Payload...)
		}
	}
	full, err := FullDecompress(fmtc, b)
	if err != nil {
		return nil, "blob-not-valid-stream", err
	}
	if !bytes.Equal(full, p.Stream) {
		return nil, "full-decompress-mismatch", fmt.Errorf("stock decoder yields %d bytes, frames %d", len(full), len(p.Stream))
	}
	return p, "", nil
}

// TarItem is one entry of a tar stream with its byte positions.
type TarItem struct {
	Hdr       *tar.Header
	Content   []byte
	Start     int64 // first byte of the entry's header blocks
	DataStart int64
	Pad       int64
}

type posReader struct {
	r io.Reader
	n int64
}

func (p *posReader) Read(b []byte) (int, error) {
	n, err := p.r.Read(b)
	p.n += int64(n)
	return n, err
}

// ScanTar reads a tar stream with archive/tar and records where every entry's data starts.
func ScanTar(stream []byte) ([]TarItem, error) {
	pr := &posReader{r: bytes.NewReader(stream)}
	tr := tar.NewReader(pr)
	var out []TarItem
	var next int64
	for {
		h, err := tr.Next()
		if err == io.EOF {
			return out, nil
		}
		if err != nil {
			return out, err
		}
		it := TarItem{Hdr: h, Start: next, DataStart: pr.n}
		if it.Content, err = io.ReadAll(tr); err != nil {
			return out, err
		}
		n := int64(len(it.Content))
		it.Pad = (512 - n%512) % 512
		next = it.DataStart + n + it.Pad
		out = append(out, it)
	}
}

func CleanName(name string) string {
	return strings.TrimPrefix(path.Clean("/"+name), "/")
}

func KindOf(t byte) string {
	switch t {
	case tar.TypeReg, '\x00':
		return "reg"
	case tar.TypeLink:
		return "hardlink"
	case tar.TypeSymlink:
		return "symlink"
	case tar.TypeChar:
		return "char"
	case tar.TypeBlock:
		return "block"
	case tar.TypeDir:
		return "dir"
	case tar.TypeFifo:
		return "fifo"
	}
	return "other"
}

func Xattrs(h *tar.Header) map[string]string {
	out := map[string]string{}
	for k, v := range h.PAXRecords {
		if strings.HasPrefix(k, "SCHILY.xattr.") {
			out[k[len("SCHILY.xattr."):]] = v
		}
	}
	return out
}
