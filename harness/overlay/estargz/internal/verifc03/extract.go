package verifc03

import (
	"fmt"
	"sort"
	"strings"
)

// Extraction-order oracle: what a plain (eStargz-agnostic) archive extractor ends up with when it
// applies the entries of a tar stream ONE AFTER THE OTHER.  Rules (GNU tar / containerd archive):
//   - missing parent directories are created implicitly; a parent that exists and is not a
//     directory makes the entry fail;
//   - a hardlink needs its target to exist at that moment (and not be a directory) and then shares
//     its inode; replacing the target's path later does not change the link;
//   - a later entry of the same path replaces the earlier one; directory over directory only updates
//     the attributes; anything else over a directory removes the directory with its content.

type xInode struct {
	content []byte
}

type xNode struct {
	typ      string // dir reg symlink char block fifo
	implicit bool
	mode     int64
	uid, gid int
	link     string
	dev      string
	xattrs   string
	ino      *xInode
}

type xFS struct {
	nodes map[string]*xNode
	errs  []string
}

func (fs *xFS) remove(p string) {
	if n := fs.nodes[p]; n != nil && n.typ == "dir" {
		for q := range fs.nodes {
			if strings.HasPrefix(q, p+"/") {
				delete(fs.nodes, q)
			}
		}
	}
	delete(fs.nodes, p)
}

func xattrString(m map[string]string) string {
	var ks []string
	for k := range m {
		ks = append(ks, k)
	}
	sort.Strings(ks)
	var b strings.Builder
	for _, k := range ks {
		fmt.Fprintf(&b, "%s=%x;", k, m[k])
	}
	return b.String()
}

// Extract applies the items in order.  skip tells which cleaned names are not part of the root
// filesystem comparison (landmarks, the TOC entry).
func Extract(items []TarItem, skip func(clean string) bool) *xFS {
	fs := &xFS{nodes: map[string]*xNode{}}
	for _, it := range items {
		p := CleanName(it.Hdr.Name)
		if p == "" || skip(p) {
			continue
		}
		kind := KindOf(it.Hdr.Typeflag)
		// parents
		ok := true
		parts := strings.Split(p, "/")
		for i := 1; i < len(parts); i++ {
			d := strings.Join(parts[:i], "/")
			n := fs.nodes[d]
			if n == nil {
				fs.nodes[d] = &xNode{typ: "dir", implicit: true}
			} else if n.typ != "dir" {
				fs.errs = append(fs.errs, fmt.Sprintf("%s: parent %s is a %s", p, d, n.typ))
				ok = false
				break
			}
		}
		if !ok {
			continue
		}
		h := it.Hdr
		nn := &xNode{typ: kind, mode: h.Mode, uid: h.Uid, gid: h.Gid, xattrs: xattrString(Xattrs(h))}
		switch kind {
		case "hardlink":
			t := fs.nodes[CleanName(h.Linkname)]
			if t == nil {
				fs.errs = append(fs.errs, fmt.Sprintf("%s: hardlink target %s does not exist yet", p, CleanName(h.Linkname)))
				continue
			}
			if t.typ == "dir" {
				fs.errs = append(fs.errs, fmt.Sprintf("%s: hardlink target %s is a directory", p, CleanName(h.Linkname)))
				continue
			}
			if t == fs.nodes[p] {
				continue // link to itself
			}
			cp := *t // same inode: type, attributes and content are the target's
			nn = &cp
		case "dir":
			if old := fs.nodes[p]; old != nil && old.typ == "dir" {
				old.implicit, old.mode, old.uid, old.gid, old.xattrs = false, nn.mode, nn.uid, nn.gid, nn.xattrs
				continue
			}
		case "reg":
			nn.ino = &xInode{content: it.Content}
		case "symlink":
			nn.link = h.Linkname
		case "char", "block":
			nn.dev = fmt.Sprintf("%d:%d", h.Devmajor, h.Devminor)
		case "fifo":
		default:
			continue
		}
		fs.remove(p)
		fs.nodes[p] = nn
	}
	return fs
}

// Dump is the canonical description of the tree: types, modes, owners, content, link identity.
func (fs *xFS) Dump() []string {
	groups := map[*xInode][]string{}
	for p, n := range fs.nodes {
		if n.ino != nil {
			groups[n.ino] = append(groups[n.ino], p)
		}
	}
	var out []string
	for p, n := range fs.nodes {
		l := fmt.Sprintf("%s %s", p, n.typ)
		if n.implicit {
			l += " implicit"
		} else {
			l += fmt.Sprintf(" mode=%o uid=%d gid=%d link=%q dev=%s xattrs=%s", n.mode, n.uid, n.gid, n.link, n.dev, n.xattrs)
		}
		if n.ino != nil {
			g := append([]string{}, groups[n.ino]...)
			sort.Strings(g)
			l += fmt.Sprintf(" content=%s", sha(n.ino.content))
			if len(g) > 1 {
				l += " links=" + strings.Join(g, ",")
			}
		}
		out = append(out, l)
	}
	sort.Strings(out)
	return out
}

// compareExtraction: extracting the output in tar order gives the tree the input gives, and fails on
// no entry the input does not fail on.
func (rn *runner) compareExtraction(in, out []TarItem) {
	skip := func(c string) bool { return c == PrefetchLandmark || c == NoPrefetchLandmark || c == TOCTarName }
	a, b := Extract(in, skip), Extract(out, skip)
	inErr := map[string]int{}
	for _, e := range a.errs {
		inErr[e]++
	}
	for _, e := range b.errs {
		if inErr[e] == 0 {
			rn.fail("extraction-error", "extracting the output in tar order fails where the input does not: "+e)
			return
		}
		inErr[e]--
	}
	da, db := a.Dump(), b.Dump()
	for i := 0; i < len(da) || i < len(db); i++ {
		x, y := "<nothing>", "<nothing>"
		if i < len(da) {
			x = da[i]
		}
		if i < len(db) {
			y = db[i]
		}
		if x != y {
			rn.fail("extraction-differs", fmt.Sprintf("root filesystem after extraction in tar order: input gives %q, output gives %q", x, y))
			return
		}
	}
}
