package verifc03

import (
	"archive/tar"
	"bytes"
	"crypto/sha256"
	"encoding/hex"
	"fmt"
	"io"
	"os"
	"sort"
	"strings"
	"sync"
	"time"

	"github.com/containerd/stargz-snapshotter/estargz/internal/verifutil"
)

// SigSecondAppend: with MinChunkSize > 0 a second AppendTar call recorded Offsets that are not member
// boundaries (repaired in /repo by 6f1f089; a regression is a violation with this signature).
const SigSecondAppend = "writer-minchunk-second-appendtar"

// SigVerifyShared: Reader.VerifyTOC refused every TOC in which two reg / chunk entries share an Offset,
// which is what MinChunkSize > 0 produces by design (repaired in /repo by caf62f4).
const SigVerifyShared = "verifytoc-rejects-shared-offset"

// SigDedupLink: candidate finding - importTar's "last duplicate wins" (remove + append) moves a hardlink's
// target behind the link when the target is redefined after the link; raised only in the findings pass.
const SigDedupLink = "dedup-moves-hardlink-target-behind-link"

// SigUnpackEmpty: Unpack of a blob without any data member returns EOF (known finding; raised only in
// the separate findings pass).
const SigUnpackEmpty = "unpack-empty-layer"

// Opts are the options handed to the code under test.
type Opts struct {
	Chunk     int
	MinChunk  int
	Level     int
	Workers   int
	Prio      []string
	NeedsOpen bool
}

// Result is what the code under test returned.
type Result struct {
	Blob             []byte
	TOCDigest        string
	DiffID           string
	UncompressedSize int64 // -1: not reported (Writer)
	ExtTOC           []byte
}

// Target gives access to the code under test of one compression format.
type Target struct {
	Fmt          string // "g" gzip, "z" zstd:chunked, "e" external TOC
	CanNeedsOpen bool
	Build        func(in []byte, o Opts, rec *Recorder) (*Result, error)
	Write        func(ins [][]byte, o Opts, lossless bool, rec *Recorder) (*Result, error)
	// OpenRead: estargz.Open + VerifyTOC(tocDigest) + read every named regular file through the Reader.
	// verifyErr is the error of VerifyTOC alone (reading goes on after it).
	OpenRead func(blob, extTOC []byte, tocDigest string, names []string) (files map[string][]byte, verifyErr, err error)
	Unpack   func(blob, extTOC []byte) ([]byte, error)
	Workers0 int // what workers = 0 means (GOMAXPROCS)
	// Sorted (in-package harness only, else nil): the entry list Build hands to divideEntries, i.e. the
	// REAL sortEntries on the decompressed input (entry ORDER is C14's subject; C03 takes it as given).
	Sorted func(plain []byte, prio []string) ([]SortedEnt, error)
}

// SortedEnt is one entry after sortEntries.
type SortedEnt struct {
	Name  string
	Kind  string
	Size  int64
	IsToc bool
}

// Recorder observes the compressor: how many compressed bytes each Flush / Close pushed to the
// Writer's counting writer.  It is the compressor oracle stream handed to the model.
type Recorder struct {
	mu      sync.Mutex
	writers map[io.Writer]struct{}
	F       []int64 // per Flush / Mark: bytes emitted since the previous event of that stream
	C       []int64 // per Close: bytes emitted since the previous event of that stream
	cur     *Stream // the open stream (single-writer runs)

	// fault injection (fault stream only; see fault.go)
	FailAfter  int64  // >= 0: the writer below the compressor fails once so many compressed bytes went through
	FailOpenAt int    // > 0: the k-th Compression.Writer call of this run fails
	Gate       func() // called (once) right before the first injected write error is returned
	total      int64
	opens      int
	gated      bool
	injected   bool
}

// Injected: an injected fault was really returned to the code under test.
func (r *Recorder) Injected() bool {
	r.mu.Lock()
	defer r.mu.Unlock()
	return r.injected
}

// ErrInjected is the error of every injected fault.
var ErrInjected = fmt.Errorf("verif: injected fault")

// OpenErr is called by the adapters at the top of Compression.Writer.
func (r *Recorder) OpenErr() error {
	r.mu.Lock()
	defer r.mu.Unlock()
	r.opens++
	if r.FailOpenAt > 0 && r.opens == r.FailOpenAt {
		r.injected = true
		return ErrInjected
	}
	return nil
}

func (r *Recorder) before(n int) error {
	r.mu.Lock()
	if r.FailAfter < 0 || r.total+int64(n) <= r.FailAfter {
		r.total += int64(n)
		r.mu.Unlock()
		return nil
	}
	gate := r.Gate
	if r.gated {
		gate = nil
	}
	r.gated = true
	r.injected = true
	r.mu.Unlock()
	if gate != nil {
		gate()
	}
	return ErrInjected
}

// Mark is called right before an AppendTar call.  Since 6f1f089 appendTar closes the open stream
// first (a Close event), so there is nothing to record here any more.
func (r *Recorder) Mark() {}

func NewRecorder() *Recorder { return &Recorder{writers: map[io.Writer]struct{}{}, FailAfter: -1} }

func (r *Recorder) Writers() int {
	r.mu.Lock()
	defer r.mu.Unlock()
	return len(r.writers)
}

// Stream is one compression stream as seen from below.
type Stream struct {
	r     *Recorder
	under io.Writer
	n     int64
}

func (r *Recorder) NewStream(under io.Writer) *Stream {
	r.mu.Lock()
	r.writers[under] = struct{}{}
	s := &Stream{r: r, under: under}
	r.cur = s
	r.mu.Unlock()
	return s
}

func (s *Stream) Write(p []byte) (int, error) {
	if err := s.r.before(len(p)); err != nil {
		return 0, err
	}
	n, err := s.under.Write(p)
	s.n += int64(n)
	return n, err
}

func (s *Stream) Flushed() {
	s.r.mu.Lock()
	s.r.F = append(s.r.F, s.n)
	s.r.mu.Unlock()
	s.n = 0
}

func (s *Stream) Closed() {
	s.r.mu.Lock()
	s.r.C = append(s.r.C, s.n)
	if s.r.cur == s {
		s.r.cur = nil
	}
	s.r.mu.Unlock()
	s.n = 0
}

func hx(s string) string {
	if s == "" {
		return "-"
	}
	return hex.EncodeToString([]byte(s))
}

func hxb(b []byte) string {
	if len(b) == 0 {
		return "-"
	}
	return hex.EncodeToString(b)
}

func joinInts(v []int64) string {
	if len(v) == 0 {
		return "-"
	}
	p := make([]string, len(v))
	for i, x := range v {
		p[i] = fmt.Sprint(x)
	}
	return strings.Join(p, ",")
}

func sha(b []byte) string { return fmt.Sprintf("sha256:%x", sha256.Sum256(b)) }

type modelEnt struct {
	name           string
	kind           string
	isToc          bool
	pre, data, pos int64
}

func modtimeStr(t time.Time) string {
	if t.IsZero() || t.Unix() == 0 {
		return ""
	}
	return t.UTC().Round(time.Second).Format(time.RFC3339)
}

func sameHeader(a, b *tar.Header) string {
	switch {
	case a.Name != b.Name:
		return "name"
	case KindOf(a.Typeflag) != KindOf(b.Typeflag):
		return "type"
	case a.Linkname != b.Linkname:
		return "linkname"
	case a.Size != b.Size:
		return "size"
	case a.Mode != b.Mode:
		return "mode"
	case a.Uid != b.Uid || a.Gid != b.Gid:
		return "owner"
	case a.Uname != b.Uname || a.Gname != b.Gname:
		return "ownername"
	case !a.ModTime.Equal(b.ModTime):
		return "modtime"
	case a.Devmajor != b.Devmajor || a.Devminor != b.Devminor:
		return "dev"
	}
	xa, xb := Xattrs(a), Xattrs(b)
	if len(xa) != len(xb) {
		return "xattrs"
	}
	for k, v := range xa {
		if w, ok := xb[k]; !ok || w != v {
			return "xattrs"
		}
	}
	return ""
}

type runner struct {
	out  *verifutil.Out
	t    *Target
	c    *Case
	fail func(sig, what string)
	// set when the oracle's own reading of the index (checkTOC) failed: the verdict the proved
	// checker must reach as well
	indexBad bool
	// findings: this is the separate stream of the candidate findings; their signatures are raised
	// only there, so that the main stream stays silent on the unchanged tree and every OTHER failure or
	// model mismatch in it is reported.
	findings bool
	// fault stream: the Result of the real code, and one record per chunk entry read by the documented rule
	// (the chunk's bytes and whether the recorded chunkDigest is their SHA-256) for the d.chunk ops
	res     *Result
	digRecs []digRec
}

type digRec struct {
	data []byte
	ok   bool
}

// RunCase runs one case on the real code, evaluates the property oracle and emits the
// correspondence lines.  maxCheck bounds the payload bytes sent to the proved checker.
func RunCase(out *verifutil.Out, t *Target, c *Case, maxCheck int, findings bool) {
	runCase(out, t, c, maxCheck, findings)
}

func runCase(out *verifutil.Out, t *Target, c *Case, maxCheck int, findings bool) *runner {
	out.Comment(fmt.Sprintf("case %s fmt=%s mode=%s chunk=%d min=%d level=%d workers=%d prio=%d incomp=%q calls=%d",
		c.Label, t.Fmt, c.Mode, c.Chunk, c.MinChunk, c.Level, c.Workers, len(c.Prio), c.InComp, len(c.Calls)))
	rn := &runner{out: out, t: t, c: c, findings: findings}
	rn.fail = func(sig, what string) {
		if c.Finding && c.FindingSig != "" && (sig == "extraction-error" || sig == "extraction-differs") {
			sig = c.FindingSig
		}
		if len(c.Calls) > 1 && c.MinChunk > 0 && (sig == "offset-not-member-boundary" || sig == "chunk-bytes-mismatch" ||
			sig == "chunk-out-of-member") {
			sig = SigSecondAppend // the shape of the defect repaired by 6f1f089
		}
		out.Fail(sig, fmt.Sprintf("%s [%s fmt=%s mode=%s chunk=%d min=%d workers=%d]: %s", c.Label, sig, t.Fmt, c.Mode, c.Chunk, c.MinChunk, c.Workers, what))
	}
	out.Count("mode-" + c.Mode)
	if c.MinChunk > 0 {
		out.Count("minchunk")
	}
	rn.run(maxCheck)
	return rn
}

func (rn *runner) run(maxCheck int) {
	c, t, out := rn.c, rn.t, rn.out
	// ---- inputs
	var plains, ins [][]byte
	for _, ents := range c.Calls {
		p, err := BuildTar(ents, c.Format, c.Trailing)
		if err != nil {
			out.Comment("skip: cannot encode input tar: " + err.Error())
			out.Count("skipped-encode")
			return
		}
		plains = append(plains, p)
	}
	o := Opts{Chunk: c.Chunk, MinChunk: c.MinChunk, Level: c.Level, Workers: c.Workers, Prio: c.Prio, NeedsOpen: c.NeedsOpen}
	if c.Reuse {
		first, err := t.Build(plains[0], Opts{Chunk: 1000, Level: 1, Workers: 2}, NewRecorder())
		if err != nil {
			rn.fail("build-error", "building the eStargz input: "+err.Error())
			return
		}
		full, err := FullDecompress(t.Fmt, first.Blob)
		if err != nil {
			rn.fail("blob-not-valid-stream", err.Error())
			return
		}
		plains = [][]byte{full}
		ins = [][]byte{first.Blob}
	} else {
		for _, p := range plains {
			ins = append(ins, Compress(c.InComp, p))
		}
	}
	var inItems [][]TarItem
	for _, p := range plains {
		items, err := ScanTar(p)
		if err != nil {
			out.Comment("skip: input tar does not read back: " + err.Error())
			out.Count("skipped-readback")
			return
		}
		inItems = append(inItems, items)
	}
	// ---- the real code
	rec := NewRecorder()
	var res *Result
	var err error
	if c.Mode == "B" {
		res, err = t.Build(ins[0], o, rec)
	} else {
		res, err = t.Write(ins, o, c.Mode == "L", rec)
	}
	// ---- what must come out (from the property text)
	expectErr := false
	for _, items := range inItems {
		for _, it := range items {
			if KindOf(it.Hdr.Typeflag) == "other" {
				expectErr = true
			}
			if c.Mode == "L" && CleanName(it.Hdr.Name) == TOCTarName {
				expectErr = true
			}
		}
	}
	workers := c.Workers
	if workers <= 0 {
		workers = t.Workers0
	}
	begin := fmt.Sprintf("m.begin %s %s %d %d %d %d", t.Fmt, c.Mode, c.Chunk, c.MinChunk, workers, b2i(c.NeedsOpen))
	if err != nil {
		if !expectErr {
			rn.fail("build-error", "unexpected error: "+err.Error())
			return
		}
		// the model must refuse as well
		out.Emit(begin, "ok")
		for k, items := range inItems {
			rn.emitInputEnts(items, plains[k], nil)
		}
		out.Emit("m.run 0 0", "err")
		out.Count("expected-error")
		return
	}
	if expectErr {
		rn.fail("error-expected", "the input holds an entry the writer must refuse, but a blob was produced")
		return
	}
	rn.res = res
	blob := res.Blob
	p, sig, perr := ParseBlob(t.Fmt, blob, res.ExtTOC)
	if perr != nil {
		rn.fail(sig, perr.Error())
		return
	}
	// ---- digests and sizes
	if sha(p.TOCJSON) != res.TOCDigest {
		rn.fail("tocdigest-mismatch", fmt.Sprintf("reported %s, SHA-256 of the TOC JSON in the blob %s", res.TOCDigest, sha(p.TOCJSON)))
	}
	if sha(p.Stream) != res.DiffID {
		rn.fail("diffid-mismatch", fmt.Sprintf("reported %s, SHA-256 of the decompressed blob %s (%d bytes)", res.DiffID, sha(p.Stream), len(p.Stream)))
	}
	if res.UncompressedSize >= 0 && res.UncompressedSize != int64(len(p.Stream)) {
		rn.fail("uncompressed-size-mismatch", fmt.Sprintf("reported %d, decompressed blob has %d bytes", res.UncompressedSize, len(p.Stream)))
	}
	// ---- the tar stream
	var outItems []TarItem
	if c.Mode == "L" {
		// lossless: the layer must BE the input (every call's tar, end-of-archive markers included)
		var all []byte
		for _, pl := range plains {
			all = append(all, pl...)
		}
		if !bytes.Equal(p.DataOnly, all) {
			rn.fail("lossless-not-identical", fmt.Sprintf("decompressed layer (%d bytes) differs from the input (%d bytes)", len(p.DataOnly), len(all)))
			return
		}
		for _, items := range inItems {
			outItems = append(outItems, items...)
		}
	} else if outItems, err = ScanTar(p.DataOnly); err != nil {
		rn.fail("output-tar-invalid", err.Error())
		return
	}
	if t.Fmt == "g" && c.Mode != "L" {
		// a plain tar reader over the whole layer finds the same entries and then the TOC entry, last
		// (lossless mode keeps the input's end-of-archive marker, so tar stops before the TOC there)
		all, err := ScanTar(p.Stream)
		if err != nil {
			rn.fail("output-tar-invalid", err.Error())
			return
		}
		if len(all) != len(outItems)+1 || all[len(all)-1].Hdr.Name != TOCTarName ||
			!bytes.Equal(all[len(all)-1].Content, p.TOCJSON) || all[len(all)-1].Start != int64(len(p.DataOnly)) {
			rn.fail("toc-entry-not-last", "the last tar entry of the decompressed blob is not the TOC JSON in its own member")
			return
		}
	}
	for _, it := range outItems {
		if CleanName(it.Hdr.Name) == TOCTarName {
			rn.fail("stale-toc-entry", "a second entry named like the TOC survives in the output")
		}
	}
	var expected []TarItem // entries that must be in the output (order matters for the Writer only)
	landmark := ""
	switch c.Mode {
	case "B":
		idx := map[string]int{}
		for _, it := range inItems[0] {
			cn := CleanName(it.Hdr.Name)
			if cn == PrefetchLandmark || cn == NoPrefetchLandmark || cn == TOCTarName {
				continue
			}
			if j, ok := idx[cn]; ok { // the last duplicate wins (and takes the later position)
				expected = append(expected[:j], expected[j+1:]...)
				for k, v := range idx {
					if v > j {
						idx[k] = v - 1
					}
				}
			}
			idx[cn] = len(expected)
			expected = append(expected, it)
		}
		landmark = NoPrefetchLandmark
		if len(c.Prio) > 0 {
			landmark = PrefetchLandmark
		}
	default:
		for _, items := range inItems {
			for _, it := range items {
				if CleanName(it.Hdr.Name) != TOCTarName {
					expected = append(expected, it)
				}
			}
		}
	}
	if c.Mode != "L" {
		// an eStargz-agnostic runtime extracts the entries in tar order: same root filesystem
		var inAll []TarItem
		for _, items := range inItems {
			inAll = append(inAll, items...)
		}
		rn.compareExtraction(inAll, outItems)
	}
	rn.compareEntries(expected, outItems, landmark)
	// ---- Unpack
	if un, err := t.Unpack(blob, res.ExtTOC); err != nil {
		if p.NData == 0 {
			// candidate finding: a blob without any data member (Writer, nothing appended) cannot be unpacked
			out.Count("known-" + SigUnpackEmpty)
			if rn.findings {
				rn.fail(SigUnpackEmpty, err.Error())
			}
		} else {
			rn.fail("unpack-failed", err.Error())
		}
	} else if !bytes.Equal(un, p.DataOnly) {
		rn.fail("unpack-mismatch", fmt.Sprintf("Unpack yields %d bytes, the data members decompress to %d", len(un), len(p.DataOnly)))
	}
	// ---- the TOC against the tar stream, every chunk by the documented rule
	rn.checkTOC(p, outItems)
	// ---- estargz.Open + VerifyTOC + reading every file
	final := map[string][]byte{}
	dup := map[string]int{}
	for _, it := range outItems {
		cn := CleanName(it.Hdr.Name)
		if KindOf(it.Hdr.Typeflag) == "reg" {
			dup[cn]++
			final[cn] = it.Content
		} else {
			delete(final, cn)
		}
	}
	var names []string
	for n := range final {
		if dup[n] == 1 { // a name the TOC lists twice has no documented reading
			names = append(names, n)
		}
	}
	sort.Strings(names)
	got, verr, err := t.OpenRead(blob, res.ExtTOC, res.TOCDigest, names)
	if verr != nil {
		shared := false
		seen := map[int64]bool{}
		// Verifiers() wants the Offset of every reg / chunk entry to be unique - empty regular files
		// (Offset 0) included
		for _, e := range p.TOC.Entries {
			if e.Type == "reg" || e.Type == "chunk" {
				if seen[e.Offset] {
					shared = true
				}
				seen[e.Offset] = true
			}
		}
		if shared && c.MinChunk > 0 {
			rn.fail(SigVerifyShared, "VerifyTOC: "+verr.Error())
		} else {
			rn.fail("verifytoc-failed", verr.Error())
		}
	}
	if err != nil {
		rn.fail("open-failed", err.Error())
	} else {
		for _, n := range names {
			if !bytes.Equal(got[n], final[n]) {
				rn.fail("open-read-mismatch", fmt.Sprintf("file %q read through estargz.Open differs from the tar stream", n))
				break
			}
		}
	}
	// ---- correspondence with the model: deterministic bookkeeping
	out.Emit(begin, "ok")
	switch c.Mode {
	case "B":
		hasToc := false
		for _, it := range inItems[0] {
			if CleanName(it.Hdr.Name) == TOCTarName {
				hasToc = true
			}
		}
		if t.Sorted != nil {
			// entries dropped later by appendTar (named like the TOC) still count in divideEntries
			sorted, err := t.Sorted(plains[0], c.Prio)
			if err != nil {
				rn.fail("build-error", "sortEntries: "+err.Error())
				return
			}
			j := 0
			for _, se := range sorted {
				if se.IsToc {
					out.Emit(fmt.Sprintf("m.ent %s %s 1 0 %d 0", hx(se.Name), se.Kind, se.Size), "ok")
					continue
				}
				if j >= len(outItems) || outItems[j].Hdr.Name != se.Name {
					out.Comment("model skipped: output order differs from sortEntries")
					rn.fail("entries-differ", fmt.Sprintf("output entry %d is not %q, the entry sortEntries put there", j, se.Name))
					return
				}
				rn.emitOutputEnts(outItems[j:j+1], 0)
				j++
			}
			if j != len(outItems) {
				rn.fail("entries-differ", "the output holds more entries than sortEntries returned")
				return
			}
		} else if hasToc {
			out.Comment("model skipped: stale TOC entry in the input and sortEntries is not reachable from this package")
			out.Emit("m.call 0", "ok")
			out.Count("model-skipped-stale-toc")
			return
		} else {
			rn.emitOutputEnts(outItems, int64(len(p.DataOnly)))
		}
		out.Emit("m.call 0", "ok")
	case "L":
		for k, items := range inItems {
			rn.emitInputEnts(items, plains[k], nil)
		}
	default:
		// names / kinds / sizes from the input, header and padding lengths from the output stream
		var kept []TarItem
		for _, items := range inItems {
			for _, it := range items {
				if CleanName(it.Hdr.Name) != TOCTarName {
					kept = append(kept, it)
				}
			}
		}
		if len(kept) != len(outItems) {
			out.Comment("model skipped: entry count differs")
			return
		}
		j := 0
		for k, items := range inItems {
			n := 0
			for _, it := range items {
				if CleanName(it.Hdr.Name) != TOCTarName {
					n++
				}
			}
			rn.emitInputEnts(items, plains[k], outItems[j:j+n])
			j += n
		}
	}
	// oracle streams
	var orcF, orcC []int64
	if rec.Writers() == 1 {
		orcF = rec.F
		for _, v := range rec.C {
			orcC = append(orcC, v-1)
		}
		if len(rec.C) != p.NData {
			out.Comment(fmt.Sprintf("note: %d closes recorded, %d data members", len(rec.C), p.NData))
		}
	} else {
		for _, m := range p.Members[:p.NData] {
			orcC = append(orcC, m.Clen-1)
		}
	}
	out.Emit("m.orcf "+joinInts(orcF), "ok")
	out.Emit("m.orcc "+joinInts(orcC), "ok")
	a, tocTarLen := int64(0), 0
	if len(p.Members) > p.NData {
		tm := p.Members[p.NData]
		a = tm.Clen - 1
		if t.Fmt == "z" {
			a = tm.Clen - 8 - 1
		}
		tocTarLen = len(tm.Payload)
	}
	tocoff := "-"
	if p.TOCOff >= 0 {
		tocoff = fmt.Sprint(p.TOCOff)
	}
	out.Emit(fmt.Sprintf("m.run %d %d", a, tocTarLen),
		fmt.Sprintf("ok nent=%d nmem=%d unc=%d tocoff=%s size=%d", len(p.TOC.Entries), len(p.Members), len(p.Stream), tocoff, len(blob)))
	for i, e := range p.TOC.Entries {
		out.Emit(fmt.Sprintf("m.toc %d", i), tocLine(e))
	}
	out.Emit(fmt.Sprintf("m.toc %d", len(p.TOC.Entries)), "none")
	for j, m := range p.Members {
		out.Emit(fmt.Sprintf("m.mem %d", j), fmt.Sprintf("%d %d %d", m.Off, m.Clen, len(m.Payload)))
	}
	out.Emit(fmt.Sprintf("m.mem %d", len(p.Members)), "none")
	// ---- translation validation by the proved checker
	if len(p.Stream) <= maxCheck {
		out.Emit("c.begin", "ok")
		for _, m := range p.Members {
			out.Emit(fmt.Sprintf("c.mem %d %s", m.Clen, hxb(m.Payload)), "ok")
		}
		for _, it := range outItems {
			if KindOf(it.Hdr.Typeflag) == "reg" {
				out.Emit(fmt.Sprintf("c.file %s %s", hx(it.Hdr.Name), hxb(it.Content)), "ok")
			}
		}
		for _, e := range p.TOC.Entries {
			out.Emit("c.toc "+tocLine(e), "ok")
		}
		verdict := "index-ok"
		if rn.indexBad {
			verdict = "index-bad"
		}
		out.Emit("c.run", verdict)
		out.Count("checked-by-proved-checker")
	} else {
		out.Count("too-big-for-checker")
	}
	out.Distinct(fmt.Sprintf("%s/%s/c%d/m%d/w%d/n%d/mem%d/%s", t.Fmt, c.Mode, c.Chunk, c.MinChunk, workers, len(p.TOC.Entries), len(p.Members), c.InComp))
}

func b2i(b bool) int {
	if b {
		return 1
	}
	return 0
}

func tocLine(e *JEnt) string {
	return fmt.Sprintf("%s %s %d %d %d %d %d", hx(e.Name), e.Type, e.Size, e.Offset, e.InnerOffset, e.ChunkOffset, e.ChunkSize)
}

// emitOutputEnts: Build mode - the model is given the entries in the order they have in the output
// stream (after sortEntries, which is C14's subject).
func (rn *runner) emitOutputEnts(items []TarItem, end int64) {
	for _, it := range items {
		kind := KindOf(it.Hdr.Typeflag)
		data := int64(0)
		post := it.Pad
		if kind == "reg" {
			data = int64(len(it.Content))
		}
		rn.out.Emit(fmt.Sprintf("m.ent %s %s 0 %d %d %d", hx(it.Hdr.Name), kind, it.DataStart-it.Start, data, post), "ok")
	}
}

// emitInputEnts: Writer modes.  Lossless (outs == nil): raw byte accounting of the INPUT; otherwise the
// header / padding lengths are the ones of the re-encoded output entries.
func (rn *runner) emitInputEnts(items []TarItem, plain []byte, outs []TarItem) {
	lossless := rn.c.Mode == "L"
	var prevEnd int64
	j := 0
	for _, it := range items {
		kind := KindOf(it.Hdr.Typeflag)
		isToc := CleanName(it.Hdr.Name) == TOCTarName
		var pre, data, post int64
		if kind == "reg" {
			data = int64(len(it.Content))
		}
		if lossless {
			pre = it.DataStart - prevEnd
			if kind != "reg" {
				// data of other entry types (none here) would be skipped into the next entry's raw bytes
				data = 0
			}
			prevEnd = it.DataStart + data
		} else if !isToc && outs != nil {
			pre = outs[j].DataStart - outs[j].Start
			post = outs[j].Pad
			j++
		}
		rn.out.Emit(fmt.Sprintf("m.ent %s %s %d %d %d %d", hx(it.Hdr.Name), kind, b2i(isToc), pre, data, post), "ok")
	}
	tail := int64(0)
	if lossless {
		tail = int64(len(plain)) - prevEnd
	}
	rn.out.Emit(fmt.Sprintf("m.call %d", tail), "ok")
}

// compareEntries: the output tar holds exactly the expected entries (Build: as a multiset plus one
// landmark; Writer: in order), metadata and content unchanged.
func (rn *runner) compareEntries(expected, got []TarItem, landmark string) {
	if landmark != "" {
		var rest []TarItem
		n := 0
		for _, it := range got {
			cn := CleanName(it.Hdr.Name)
			if cn == PrefetchLandmark || cn == NoPrefetchLandmark {
				n++
				if it.Hdr.Name != landmark || !bytes.Equal(it.Content, []byte{0xf}) || KindOf(it.Hdr.Typeflag) != "reg" {
					rn.fail("landmark-wrong", fmt.Sprintf("landmark %q (want %q) content %x", it.Hdr.Name, landmark, it.Content))
				}
				continue
			}
			rest = append(rest, it)
		}
		if n != 1 {
			rn.fail("landmark-count", fmt.Sprintf("%d landmark entries in the output", n))
		}
		got = rest
		key := func(it TarItem) string { return CleanName(it.Hdr.Name) }
		sort.SliceStable(expected, func(i, j int) bool { return key(expected[i]) < key(expected[j]) })
		sort.SliceStable(got, func(i, j int) bool { return key(got[i]) < key(got[j]) })
	}
	if len(expected) != len(got) {
		rn.fail("entries-differ", fmt.Sprintf("%d entries expected in the output tar, %d found", len(expected), len(got)))
		return
	}
	for i := range expected {
		if d := sameHeader(expected[i].Hdr, got[i].Hdr); d != "" {
			rn.fail("entry-metadata-differs", fmt.Sprintf("entry %q: %s changed", expected[i].Hdr.Name, d))
			return
		}
		if KindOf(expected[i].Hdr.Typeflag) == "reg" && !bytes.Equal(expected[i].Content, got[i].Content) {
			rn.fail("entry-content-differs", fmt.Sprintf("entry %q: content changed", expected[i].Hdr.Name))
			return
		}
	}
}

// checkTOC: the TOC lists every tar entry; every chunk entry read by the documented rule
// (member at Offset, skip InnerOffset, take the chunk) yields the file's bytes.
func (rn *runner) checkTOC(p *Parsed, items []TarItem) {
	c := rn.c
	start := map[int64]*Mem{}
	for i := range p.Members[:p.NData] {
		start[p.Members[i].Off] = &p.Members[i]
	}
	if p.TOC.Version != 1 {
		rn.fail("toc-version", fmt.Sprint(p.TOC.Version))
	}
	k := 0 // index into items
	ents := p.TOC.Entries
	for i := 0; i < len(ents); i++ {
		e := ents[i]
		if e.Type == "chunk" {
			rn.fail("toc-chunk-without-file", fmt.Sprintf("TOC entry %d is a chunk that follows no regular file", i))
			return
		}
		if k >= len(items) {
			rn.fail("toc-extra-entry", fmt.Sprintf("TOC entry %d %q has no tar entry", i, e.Name))
			return
		}
		it := items[k]
		k++
		h := it.Hdr
		bad := ""
		switch {
		case e.Name != h.Name:
			bad = "name"
		case e.Type != KindOf(h.Typeflag):
			bad = "type"
		case e.Type == "reg" && e.Size != h.Size:
			bad = "size"
		case (e.Type == "symlink" || e.Type == "hardlink") && e.LinkName != h.Linkname:
			bad = "linkName"
		case e.Mode != h.Mode || e.UID != h.Uid || e.GID != h.Gid:
			bad = "mode/owner"
		case (e.Type == "char" || e.Type == "block") && (int64(e.DevMajor) != h.Devmajor || int64(e.DevMinor) != h.Devminor):
			bad = "dev"
		case e.ModTime3339 != modtimeStr(h.ModTime):
			bad = "modtime"
		}
		xa := Xattrs(h)
		if len(xa) != len(e.Xattrs) {
			bad = "xattrs"
		}
		for kx, v := range xa {
			if string(e.Xattrs[kx]) != v {
				bad = "xattrs"
			}
		}
		if bad != "" {
			rn.fail("toc-entry-mismatch", fmt.Sprintf("TOC entry %d %q: %s differs from the tar header", i, e.Name, bad))
			return
		}
		if e.Type != "reg" || e.Size == 0 {
			continue
		}
		if e.Digest != sha(it.Content) {
			rn.fail("file-digest-mismatch", fmt.Sprintf("%q", e.Name))
		}
		if c.Mode == "B" && (e.Name == PrefetchLandmark || e.Name == NoPrefetchLandmark) && e.InnerOffset != 0 {
			rn.fail("landmark-not-at-member-start", fmt.Sprintf("landmark innerOffset %d", e.InnerOffset))
		}
		// the chunks of this file
		pos := int64(0)
		for j := i; j < len(ents) && (j == i || ents[j].Type == "chunk"); j++ {
			ce := ents[j]
			i = j
			if ce.Name != e.Name || ce.ChunkOffset != pos {
				rn.fail("chunks-not-tiling", fmt.Sprintf("%q: chunk entry %d has name %q chunkOffset %d, expected offset %d", e.Name, j, ce.Name, ce.ChunkOffset, pos))
				return
			}
			sz := ce.ChunkSize
			if sz == 0 {
				sz = e.Size - ce.ChunkOffset
			}
			if sz <= 0 || pos+sz > e.Size {
				rn.fail("chunks-not-tiling", fmt.Sprintf("%q: chunk at %d has size %d, file size %d", e.Name, pos, sz, e.Size))
				return
			}
			if sz > int64(c.EffChunk()) {
				rn.fail("chunk-size-exceeds", fmt.Sprintf("%q: chunk of %d bytes, chunk size %d", e.Name, sz, c.EffChunk()))
			}
			if c.MinChunk <= 0 && ce.InnerOffset != 0 {
				rn.fail("inneroffset-without-minchunk", fmt.Sprintf("%q: innerOffset %d", e.Name, ce.InnerOffset))
			}
			m := start[ce.Offset]
			if m == nil {
				rn.indexBad = true
				rn.fail("offset-not-member-boundary", fmt.Sprintf("%q chunk at %d: offset %d is not the first byte of a member", e.Name, pos, ce.Offset))
				return
			}
			if ce.InnerOffset < 0 || ce.InnerOffset+sz > int64(len(m.Payload)) {
				rn.indexBad = true
				rn.fail("chunk-out-of-member", fmt.Sprintf("%q chunk at %d: innerOffset %d + %d exceeds the member's %d bytes", e.Name, pos, ce.InnerOffset, sz, len(m.Payload)))
				return
			}
			data := m.Payload[ce.InnerOffset : ce.InnerOffset+sz]
			if !bytes.Equal(data, it.Content[pos:pos+sz]) {
				rn.indexBad = true
				rn.fail("chunk-bytes-mismatch", fmt.Sprintf("%q chunk at %d (+%d): member at %d, innerOffset %d holds other bytes", e.Name, pos, sz, ce.Offset, ce.InnerOffset))
				return
			}
			rn.digRecs = append(rn.digRecs, digRec{data, ce.ChunkDigest == sha(data)})
			if ce.ChunkDigest != sha(data) {
				rn.fail("chunk-digest-mismatch", fmt.Sprintf("%q chunk at %d", e.Name, pos))
			}
			pos += sz
		}
		if pos != e.Size {
			rn.fail("chunks-not-tiling", fmt.Sprintf("%q: chunks end at %d, file size %d", e.Name, pos, e.Size))
			return
		}
	}
	if k != len(items) {
		rn.fail("toc-missing-entry", fmt.Sprintf("tar entry %q has no TOC entry", items[k].Hdr.Name))
	}
}

// RunAll: the hand-written scenarios, then n generated cases.  VERIF_C03_STREAM=findings selects the
// separate pass of the known finding (Unpack of a blob without data members): scenarios only.
func RunAll(out *verifutil.Out, t *Target, n, maxCheck int) {
	if os.Getenv("VERIF_C03_STREAM") == "faults" {
		RunFaults(out, t, n, maxCheck)
		return
	}
	findings := os.Getenv("VERIF_C03_STREAM") == "findings"
	r := verifutil.NewRand(verifutil.Seed()*7919 + uint64(t.Fmt[0]))
	if findings {
		r = verifutil.NewRand(verifutil.Seed()*104729 + uint64(t.Fmt[0]))
	}
	for _, c := range Scenarios(t) {
		c := c
		if c.Finding != findings {
			continue
		}
		RunCase(out, t, &c, maxCheck, findings)
	}
	for i := 0; i < n && !findings; i++ {
		c := Generate(r, t, i, findings)
		RunCase(out, t, &c, maxCheck, findings)
	}
}
