package verifc03

import (
	"archive/tar"
	"bytes"
	"compress/gzip"
	"fmt"
	"os"
	"strings"
	"time"

	"github.com/containerd/stargz-snapshotter/estargz/internal/verifutil"
	"github.com/klauspost/compress/zstd"
)

// Ent is one entry of a generated input tar.
type Ent struct {
	Name    string
	Type    byte
	Link    string
	Content []byte
	Mode    int64
	Uid     int
	Gid     int
	Uname   string
	Gname   string
	ModTime int64 // unix seconds; 0 = zero time
	Xattrs  map[string]string
	Major   int64
	Minor   int64
	Global  bool // a PAX global header ('g'): a typeflag appendTar rejects
}

// Case is one run of the code under test.
type Case struct {
	Label      string
	Mode       string  // "B" Build, "W" Writer.AppendTar, "L" Writer.AppendTarLossLess
	Calls      [][]Ent // one tar per AppendTar call (Build: exactly one)
	Format     tar.Format
	Chunk      int
	MinChunk   int
	Level      int
	Workers    int
	Prio       []string
	InComp     string // "", "gzip", "zstd": compression of the input handed to the code
	NeedsOpen  bool   // Writer modes: register the landmark names in needsOpenGzEntries
	Reuse      bool   // the input is an eStargz blob built from Calls[0] beforehand
	Trailing   int    // bytes of garbage after the end-of-archive marker of each input tar
	Finding    bool   // belongs to the separate findings pass (known finding unpack-empty-layer)
	FindingSig string // findings pass: the signature extraction failures of this case are reported under
}

func (c *Case) EffChunk() int {
	if c.Chunk <= 0 {
		return 4 << 20
	}
	return c.Chunk
}

// BuildTar encodes entries with archive/tar.
func BuildTar(ents []Ent, format tar.Format, trailing int) ([]byte, error) {
	var buf bytes.Buffer
	tw := tar.NewWriter(&buf)
	for _, e := range ents {
		h := &tar.Header{Name: e.Name, Typeflag: e.Type, Linkname: e.Link, Mode: e.Mode, Uid: e.Uid, Gid: e.Gid,
			Uname: e.Uname, Gname: e.Gname, Devmajor: e.Major, Devminor: e.Minor, Format: format}
		if e.Global {
			h = &tar.Header{Typeflag: tar.TypeXGlobalHeader, Name: "pax_global_header",
				PAXRecords: map[string]string{"comment": "verif"}, Format: tar.FormatPAX}
			if err := tw.WriteHeader(h); err != nil {
				return nil, err
			}
			continue
		}
		if e.ModTime != 0 {
			h.ModTime = time.Unix(e.ModTime, 0)
		}
		if e.Type == tar.TypeReg {
			h.Size = int64(len(e.Content))
		}
		if len(e.Xattrs) > 0 {
			h.PAXRecords = map[string]string{}
			for k, v := range e.Xattrs {
				h.PAXRecords["SCHILY.xattr."+k] = v
			}
			h.Format = tar.FormatPAX
		}
		if len(e.Name) > 100 || len(e.Link) > 100 || e.Uid > 0o7777777 {
			if h.Format == tar.FormatUSTAR {
				h.Format = tar.FormatPAX
			}
		}
		if err := tw.WriteHeader(h); err != nil {
			return nil, fmt.Errorf("%q: %v", e.Name, err)
		}
		if e.Type == tar.TypeReg && len(e.Content) > 0 {
			if _, err := tw.Write(e.Content); err != nil {
				return nil, err
			}
		}
	}
	if err := tw.Close(); err != nil {
		return nil, err
	}
	for i := 0; i < trailing; i++ {
		buf.WriteByte(byte(0x55 + i))
	}
	return buf.Bytes(), nil
}

func Compress(kind string, b []byte) []byte {
	var buf bytes.Buffer
	switch kind {
	case "gzip":
		zw := gzip.NewWriter(&buf)
		zw.Write(b)
		zw.Close()
	case "zstd":
		zw, _ := zstd.NewWriter(&buf)
		zw.Write(b)
		zw.Close()
	default:
		return b
	}
	return buf.Bytes()
}

func content(r *verifutil.Rand, n int) []byte {
	switch r.Intn(3) {
	case 0:
		return r.Bytes(n) // incompressible
	case 1:
		b := make([]byte, n) // very compressible
		x := byte(r.Intn(256))
		for i := range b {
			b[i] = x
		}
		return b
	}
	b := make([]byte, n)
	seed := r.Bytes(7)
	for i := range b {
		b[i] = seed[i%7] + byte(i/97)
	}
	return b
}

func reg(name string, data []byte) Ent {
	return Ent{Name: name, Type: tar.TypeReg, Content: data, Mode: 0o644}
}
func dir(name string) Ent { return Ent{Name: name, Type: tar.TypeDir, Mode: 0o755} }
func sym(name, target string) Ent {
	return Ent{Name: name, Type: tar.TypeSymlink, Link: target, Mode: 0o777}
}
func hard(name, target string) Ent {
	return Ent{Name: name, Type: tar.TypeLink, Link: target, Mode: 0o644}
}

func pat(n int, salt byte) []byte {
	b := make([]byte, n)
	for i := range b {
		b[i] = byte(i*7) ^ salt ^ byte(i>>8)
	}
	return b
}

// boundarySizes: 0, 1, c-1, c, c+1, k*c-1, k*c, k*c+1.
func boundarySizes(c int) []int {
	out := []int{0, 1}
	for k := 1; k <= 4; k++ {
		for d := -1; d <= 1; d++ {
			if n := k*c + d; n >= 0 {
				out = append(out, n)
			}
		}
	}
	return out
}

// Scenarios are the hand-written cases that run before the generated ones.
func Scenarios(t *Target) []Case {
	var out []Case
	add := func(c Case) {
		if c.Level == 0 {
			c.Level = 6
		}
		if c.Workers == 0 {
			c.Workers = 1
		}
		out = append(out, c)
	}
	// every boundary size, one file each, for three modes and several worker counts
	for _, c := range []int{1, 7, 64, 512} {
		var ents []Ent
		ents = append(ents, dir("d/"))
		for i, n := range boundarySizes(c) {
			if n > 3000 {
				continue
			}
			ents = append(ents, reg(fmt.Sprintf("d/f%02d", i), pat(n, byte(i))))
		}
		for w := 1; w <= 4; w++ {
			add(Case{Label: fmt.Sprintf("boundary-c%d-build-w%d", c, w), Mode: "B", Calls: [][]Ent{ents}, Chunk: c, Workers: w})
		}
		add(Case{Label: fmt.Sprintf("boundary-c%d-build-prio", c), Mode: "B", Calls: [][]Ent{ents}, Chunk: c, Workers: 3,
			Prio: []string{"d/f05", "d/f02"}})
		add(Case{Label: fmt.Sprintf("boundary-c%d-writer", c), Mode: "W", Calls: [][]Ent{ents}, Chunk: c})
		add(Case{Label: fmt.Sprintf("boundary-c%d-lossless", c), Mode: "L", Calls: [][]Ent{ents}, Chunk: c, Trailing: 5})
		add(Case{Label: fmt.Sprintf("boundary-c%d-minchunk", c), Mode: "B", Calls: [][]Ent{ents}, Chunk: c, MinChunk: 3*c + 100, Workers: 4,
			Prio: []string{"d/f03"}})
		add(Case{Label: fmt.Sprintf("boundary-c%d-minchunk-writer", c), Mode: "W", Calls: [][]Ent{ents}, Chunk: c, MinChunk: 700})
		add(Case{Label: fmt.Sprintf("boundary-c%d-minchunk-lossless", c), Mode: "L", Calls: [][]Ent{ents}, Chunk: c, MinChunk: 300})
	}
	mix := []Ent{
		dir("usr/"), dir("usr/bin/"), reg("usr/bin/sh", pat(1500, 1)), sym("usr/bin/bash", "sh"),
		hard("usr/bin/dash", "usr/bin/sh"),
		{Name: "usr/bin/x", Type: tar.TypeReg, Content: pat(700, 2), Mode: 0o4755, Uid: 1000, Gid: 1000, Uname: "u", Gname: "g",
			ModTime: 1700000000, Xattrs: map[string]string{"security.capability": "\x01\x00\x00\x02", "user.k": "v"}},
		{Name: "dev/null", Type: tar.TypeChar, Mode: 0o666, Major: 1, Minor: 3},
		{Name: "dev/sda", Type: tar.TypeBlock, Mode: 0o660, Major: 8, Minor: 0},
		{Name: "run/fifo", Type: tar.TypeFifo, Mode: 0o600},
		reg("empty", nil),
		reg(strings.Repeat("long/", 24)+"name", pat(33, 3)),
		reg("usr/bin/x", pat(900, 4)), // duplicate (of an entry that is nobody's hardlink target): the last one wins
		{Name: "epoch", Type: tar.TypeReg, Content: pat(10, 5), Mode: 0o600, ModTime: 0},
	}
	for _, f := range []tar.Format{tar.FormatPAX, tar.FormatGNU, tar.FormatUnknown} {
		add(Case{Label: "mix-build", Mode: "B", Calls: [][]Ent{mix}, Chunk: 512, Workers: 2, Format: f, Prio: []string{"usr/bin/dash", "./usr/bin/x"}})
		add(Case{Label: "mix-build-minchunk", Mode: "B", Calls: [][]Ent{mix}, Chunk: 400, MinChunk: 2000, Workers: 4, Format: f})
		add(Case{Label: "mix-writer", Mode: "W", Calls: [][]Ent{mix}, Chunk: 256, Format: f})
		add(Case{Label: "mix-lossless", Mode: "L", Calls: [][]Ent{mix}, Chunk: 1000, Format: f})
	}
	add(Case{Label: "mix-build-gzin", Mode: "B", Calls: [][]Ent{mix}, Chunk: 300, Workers: 3, InComp: "gzip"})
	add(Case{Label: "mix-build-zstdin", Mode: "B", Calls: [][]Ent{mix}, Chunk: 300, Workers: 2, InComp: "zstd"})
	add(Case{Label: "mix-writer-gzin", Mode: "W", Calls: [][]Ent{mix}, Chunk: 300, InComp: "gzip"})
	add(Case{Label: "mix-lossless-gzin", Mode: "L", Calls: [][]Ent{mix}, Chunk: 300, InComp: "gzip", Trailing: 3})
	add(Case{Label: "mix-default-chunk", Mode: "B", Calls: [][]Ent{mix}, Chunk: 0, Workers: 2})
	add(Case{Label: "mix-negative-chunk", Mode: "W", Calls: [][]Ent{mix}, Chunk: -5})
	add(Case{Label: "empty-tar-build", Mode: "B", Calls: [][]Ent{{}}, Chunk: 100, Workers: 3})
	add(Case{Label: "empty-tar-writer", Mode: "W", Calls: [][]Ent{{}}, Chunk: 100})
	add(Case{Label: "empty-tar-lossless", Mode: "L", Calls: [][]Ent{{}}, Chunk: 100})
	add(Case{Label: "no-calls-writer", Mode: "W", Calls: [][]Ent{}, Chunk: 100})
	add(Case{Label: "only-empty-files", Mode: "B", Calls: [][]Ent{{reg("a", nil), reg("b", nil), dir("c/")}}, Chunk: 10, Workers: 4})
	add(Case{Label: "more-workers-than-bytes", Mode: "B", Calls: [][]Ent{{reg("a", pat(1, 0)), reg("b", pat(2, 0))}}, Chunk: 10, Workers: 7})
	// already-eStargz input: landmark + TOC entry in the source
	esgz := []Ent{dir("d/"), reg("d/a", pat(300, 1)), reg(NoPrefetchLandmark, []byte{0xf}), reg("d/b", pat(40, 2)),
		reg(TOCTarName, []byte(`{"version":1,"entries":[]}`))}
	add(Case{Label: "stale-toc-build", Mode: "B", Calls: [][]Ent{esgz}, Chunk: 128, Workers: 2, Prio: []string{"d/b"}})
	add(Case{Label: "stale-toc-writer", Mode: "W", Calls: [][]Ent{esgz}, Chunk: 128})
	add(Case{Label: "stale-toc-lossless", Mode: "L", Calls: [][]Ent{esgz}, Chunk: 128}) // must be refused
	add(Case{Label: "stale-toc-spelling", Mode: "W", Calls: [][]Ent{{reg("./x/../"+TOCTarName, pat(5, 0)), reg("y", pat(5, 1))}}, Chunk: 128})
	add(Case{Label: "reuse-build", Mode: "B", Calls: [][]Ent{mix}, Chunk: 200, Workers: 2, Reuse: true})
	if t.Fmt != "z" {
		add(Case{Label: "reuse-writer", Mode: "W", Calls: [][]Ent{mix}, Chunk: 200, Reuse: true})
		add(Case{Label: "reuse-lossless", Mode: "L", Calls: [][]Ent{mix}, Chunk: 200, Reuse: true}) // must be refused
	}
	add(Case{Label: "global-header", Mode: "W", Calls: [][]Ent{{reg("a", pat(5, 0)), {Global: true}, reg("b", pat(5, 1))}}, Chunk: 128})
	// several AppendTar calls on one Writer (MinChunkSize 0)
	add(Case{Label: "two-calls", Mode: "W", Calls: [][]Ent{{dir("a/"), reg("a/x", pat(600, 1))}, {reg("a/y", pat(600, 2)), reg("z", nil)}}, Chunk: 256})
	add(Case{Label: "three-calls-lossless", Mode: "L", Calls: [][]Ent{{reg("x", pat(10, 1))}, {}, {reg("y", pat(1000, 2))}}, Chunk: 256, Trailing: 2})
	if t.CanNeedsOpen {
		lm := []Ent{reg("a", pat(50, 1)), reg(PrefetchLandmark, []byte{0xf}), reg("b", pat(50, 2)), reg(NoPrefetchLandmark, []byte{0xf}), reg("c", pat(50, 3))}
		add(Case{Label: "needsopen-writer", Mode: "W", Calls: [][]Ent{lm}, Chunk: 100, MinChunk: 100000, NeedsOpen: true})
		add(Case{Label: "needsopen-off-writer", Mode: "W", Calls: [][]Ent{lm}, Chunk: 100, MinChunk: 100000})
	}
	if t.Fmt == "g" && os.Getenv("VERIF_TIER") == "thorough" {
		// the default chunk size (4 MiB) at its boundary; too big for the checker, model mode only
		big := []Ent{reg("big", pat(4<<20+1, 9)), reg("exact", pat(4<<20, 8)), reg("small", pat(3, 7))}
		add(Case{Label: "default-chunk-boundary-build", Mode: "B", Calls: [][]Ent{big}, Chunk: 0, Workers: 2, Level: 1})
		add(Case{Label: "default-chunk-boundary-writer", Mode: "W", Calls: [][]Ent{big}, Chunk: 0, MinChunk: 5 << 20, Level: 1})
	}
	// regression scenarios of the two defects repaired in /repo (6f1f089, caf62f4)
	add(Case{Label: "two-calls-minchunk", Mode: "W", MinChunk: 1000, Chunk: 0,
		Calls: [][]Ent{{reg("a", pat(10, 1)), reg("b", pat(10, 2))}, {reg("c", pat(10, 3)), reg("d", pat(10, 4))}}})
	add(Case{Label: "two-calls-minchunk-lossless", Mode: "L", MinChunk: 500, Chunk: 64,
		Calls: [][]Ent{{reg("a", pat(100, 1))}, {reg("c", pat(200, 3)), reg("d", pat(10, 4))}}})
	add(Case{Label: "three-calls-minchunk-empty-middle", Mode: "W", MinChunk: 100000, Chunk: 50,
		Calls: [][]Ent{{reg("a", pat(120, 1))}, {}, {dir("d/"), reg("d/c", pat(70, 3)), reg("e", nil)}}})
	add(Case{Label: "verifytoc-minchunk-build", Mode: "B", MinChunk: 5000, Chunk: 100, Workers: 2,
		Calls: [][]Ent{{reg("a", pat(250, 1)), reg("b", pat(10, 2))}}})
	add(Case{Label: "verifytoc-minchunk-writer", Mode: "W", MinChunk: 5000, Chunk: 100,
		Calls: [][]Ent{{reg("a", pat(250, 1)), reg("b", pat(10, 2))}}})
	add(Case{Label: "verifytoc-minchunk-empty-file-after-data", Mode: "W", MinChunk: 5000, Chunk: 100,
		Calls: [][]Ent{{reg("a", pat(30, 1)), reg("empty", nil), reg("b", pat(10, 2)), reg("empty2", nil)}}})
	add(Case{Label: "verifytoc-minchunk-empty-file-build", Mode: "B", MinChunk: 100000, Chunk: 100, Workers: 3,
		Calls: [][]Ent{{reg("empty0", nil), reg("a", pat(30, 1)), reg("empty", nil)}}, Prio: []string{"a"}})
	// duplicates whose LAST occurrence depends on an entry between the occurrences: extraction in tar
	// order must still work (the duplicate has to move to its last position)
	dep := []Ent{reg("lib", pat(40, 1)), dir("usr/"), reg("usr/lib.real", pat(300, 2)), hard("lib", "usr/lib.real"), reg("z", pat(5, 3))}
	dep2 := []Ent{reg("a/f", pat(10, 1)), sym("s", "a/f"), reg("t", pat(20, 2)), {Name: "a/", Type: tar.TypeDir, Mode: 0o700}, reg("a/f", pat(30, 3)),
		reg("s", pat(7, 4)), sym("t", "s"), reg("u", pat(9, 5)), dir("u/"), reg("u/in", pat(11, 6))}
	dep3 := []Ent{dir("d/"), reg("d/x", pat(50, 1)), reg("k", pat(3, 2)), sym("d", "k")}
	for w := 1; w <= 3; w++ {
		add(Case{Label: "dup-hardlink-to-later-target", Mode: "B", Calls: [][]Ent{dep}, Chunk: 100, Workers: w})
		add(Case{Label: "dup-type-changes", Mode: "B", Calls: [][]Ent{dep2}, Chunk: 16, Workers: w})
	}
	add(Case{Label: "dup-hardlink-to-later-target-prio", Mode: "B", Calls: [][]Ent{dep}, Chunk: 100, Workers: 2, Prio: []string{"z", "lib"}})
	add(Case{Label: "dup-hardlink-to-later-target-minchunk", Mode: "B", Calls: [][]Ent{dep}, Chunk: 100, MinChunk: 4000, Workers: 2})
	add(Case{Label: "dup-hardlink-to-later-target-writer", Mode: "W", Calls: [][]Ent{dep}, Chunk: 100})
	add(Case{Label: "dup-dir-becomes-symlink", Mode: "B", Calls: [][]Ent{dep3}, Chunk: 100, Workers: 2})
	// candidate finding: a hardlink whose target is redefined LATER in the input; "last duplicate wins"
	// moves the target behind the link
	redef := []Ent{reg("sh", pat(1500, 1)), hard("dash", "sh"), reg("sh", pat(900, 4))}
	add(Case{Label: "finding-hardlink-target-redefined", Mode: "B", Finding: true, FindingSig: SigDedupLink, Calls: [][]Ent{redef}, Chunk: 512, Workers: 2})
	add(Case{Label: "finding-hardlink-target-redefined-prio", Mode: "B", Finding: true, FindingSig: SigDedupLink, Calls: [][]Ent{redef}, Chunk: 512, Workers: 1,
		Prio: []string{"dash"}})
	// the separate findings pass: the known finding unpack-empty-layer
	add(Case{Label: "finding-unpack-empty-writer", Mode: "W", Finding: true, Chunk: 100, Calls: [][]Ent{{}}})
	add(Case{Label: "finding-unpack-no-calls", Mode: "W", Finding: true, Chunk: 100, Calls: [][]Ent{}})
	return out
}

var xattrKeys = []string{"user.a", "security.selinux", "trusted.overlay.opaque"}

// Generate makes one random case (main stream only; the findings pass has scenarios only).
func Generate(r *verifutil.Rand, t *Target, i int, findings bool) Case {
	c := Case{Label: fmt.Sprintf("gen%d", i)}
	c.Mode = []string{"B", "B", "B", "W", "W", "L"}[r.Intn(6)]
	c.Chunk = []int{0, 1, 3, 7, 64, 100, 512, 1000, 4096}[r.Pick(1, 1, 2, 3, 4, 4, 4, 3, 2)]
	ec := c.Chunk
	if ec <= 0 {
		ec = 2000
	}
	if r.Intn(5) < 2 {
		c.MinChunk = []int{1, ec / 2, ec, 3 * ec, 10000, 1 << 20}[r.Intn(6)]
	}
	c.Level = []int{-2, -1, 0, 1, 6, 9}[r.Intn(6)]
	c.Workers = 1 + r.Intn(4)
	if r.Intn(12) == 0 {
		c.Workers = 5 + r.Intn(4)
	}
	c.Format = []tar.Format{tar.FormatUnknown, tar.FormatPAX, tar.FormatGNU, tar.FormatUSTAR}[r.Intn(4)]
	ncalls := 1
	if c.Mode != "B" && r.Intn(3) == 0 {
		ncalls = 2 + r.Intn(2)
	}
	sizes := boundarySizes(ec)
	var names []string // regular files so far (hardlink targets, prioritized candidates)
	var dirs []string
	var syms []string
	linked := map[string]bool{} // names some hardlink points to: never redefined later (candidate finding)
	dropName := func(n string) {
		var keep []string
		for _, x := range names {
			if x != n {
				keep = append(keep, x)
			}
		}
		names = keep
	}
	freeDup := func() string { // an earlier regular file that may be redefined
		var c []string
		for _, x := range names {
			if !linked[x] {
				c = append(c, x)
			}
		}
		if len(c) == 0 {
			return ""
		}
		return c[r.Intn(len(c))]
	}
	n := 0
	for k := 0; k < ncalls; k++ {
		var ents []Ent
		ne := r.Intn(9)
		if r.Intn(10) == 0 {
			ne = 0
		}
		for j := 0; j < ne; j++ {
			n++
			base := ""
			if len(dirs) > 0 && r.Intn(3) > 0 {
				base = dirs[r.Intn(len(dirs))]
			}
			name := fmt.Sprintf("%sn%d", base, n)
			if r.Intn(25) == 0 {
				name = base + strings.Repeat("x", 101+r.Intn(60)) + fmt.Sprint(n)
			}
			if r.Intn(20) == 0 {
				name = "./" + name
			}
			var e Ent
			switch r.Pick(10, 3, 2, 2, 1, 1) {
			case 0:
				sz := sizes[r.Intn(len(sizes))]
				if r.Intn(4) == 0 {
					sz = r.Intn(5*ec + 1)
				}
				if sz > 24000 {
					sz = 24000 - r.Intn(100)
				}
				if d := freeDup(); d != "" && r.Intn(8) == 0 {
					name = d // duplicate
				} else if len(syms) > 0 && r.Intn(10) == 0 {
					name = syms[r.Intn(len(syms))] // a symlink becomes a file
				}
				e = reg(name, content(r, sz))
				dropName(name)
				names = append(names, name)
			case 1:
				e = dir(name + "/")
				dirs = append(dirs, name+"/")
			case 2:
				if d := freeDup(); d != "" && r.Intn(6) == 0 {
					name = d // a file becomes a symlink
					dropName(d)
				}
				e = sym(name, "../"+fmt.Sprint(r.Intn(50)))
				syms = append(syms, name)
			case 3:
				if len(names) == 0 {
					e = reg(name, content(r, r.Intn(ec+2)))
					names = append(names, name)
				} else {
					tgt := names[r.Intn(len(names))]
					if d := freeDup(); d != "" && d != tgt && r.Intn(3) == 0 {
						// the duplicate of an earlier file is a hardlink to a target defined in between
						name = d
						dropName(d)
					}
					e = hard(name, tgt)
					linked[tgt] = true
				}
			case 4:
				e = Ent{Name: name, Type: []byte{tar.TypeChar, tar.TypeBlock}[r.Intn(2)], Mode: 0o660, Major: int64(r.Intn(300)), Minor: int64(r.Intn(300))}
			default:
				e = Ent{Name: name, Type: tar.TypeFifo, Mode: 0o600}
			}
			if r.Intn(3) == 0 {
				e.Uid, e.Gid = r.Intn(70000), r.Intn(3)
				e.Uname, e.Gname = []string{"", "root", "user"}[r.Intn(3)], []string{"", "wheel"}[r.Intn(2)]
			}
			if r.Intn(3) > 0 {
				e.ModTime = []int64{0, 1, 1600000000 + int64(r.Intn(1000000)), 4102444800}[r.Intn(4)]
			}
			if r.Intn(6) == 0 && c.Format != tar.FormatGNU && c.Format != tar.FormatUSTAR {
				e.Xattrs = map[string]string{xattrKeys[r.Intn(3)]: string(r.Bytes(r.Intn(6)))}
				if r.Bool() {
					e.Xattrs["user.second"] = "2"
				}
			}
			if c.Format == tar.FormatUSTAR {
				if e.Uid > 0o7777777 {
					e.Uid = 1
				}
			}
			ents = append(ents, e)
		}
		if r.Intn(12) == 0 { // pieces of an older eStargz
			ents = append(ents, reg([]string{PrefetchLandmark, NoPrefetchLandmark}[r.Intn(2)], []byte{0xf}))
			if c.Mode != "L" || r.Intn(4) == 0 {
				ents = append(ents, reg(TOCTarName, []byte("{}")))
			}
		}
		c.Calls = append(c.Calls, ents)
	}
	if c.Mode == "B" {
		np := r.Pick(3, 2, 1, 1)
		cand := append(append([]string{}, names...), dirs...)
		for k := 0; k < np && len(cand) > 0; k++ {
			p := cand[r.Intn(len(cand))]
			if r.Intn(4) == 0 {
				p = "/" + p
			}
			c.Prio = append(c.Prio, p)
		}
		c.InComp = []string{"", "", "", "gzip", "zstd"}[r.Intn(5)]
	} else {
		c.InComp = []string{"", "", "", "gzip"}[r.Intn(4)]
		if t.CanNeedsOpen && r.Intn(6) == 0 {
			c.NeedsOpen = true
		}
	}
	if c.Mode == "L" {
		c.Trailing = r.Pick(3, 1, 1) * (1 + r.Intn(600))
	}
	return c
}
