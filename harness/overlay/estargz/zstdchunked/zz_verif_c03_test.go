//go:build verif

package zstdchunked

// C03 harness, zstd:chunked format (see estargz/zz_verif_c03_test.go and internal/verifc03).

import (
	"bytes"
	"fmt"
	"io"
	"runtime"
	"testing"

	"github.com/containerd/stargz-snapshotter/estargz"
	"github.com/containerd/stargz-snapshotter/estargz/internal/verifc03"
	"github.com/containerd/stargz-snapshotter/estargz/internal/verifutil"
	"github.com/klauspost/compress/zstd"
	digest "github.com/opencontainers/go-digest"
)

type verifC03Zstd struct {
	*Compressor
	*Decompressor
}

type verifC03Comp struct {
	estargz.Compression
	rec *verifc03.Recorder
}

func (c *verifC03Comp) Writer(w io.Writer) (estargz.WriteFlushCloser, error) {
	if err := c.rec.OpenErr(); err != nil { // injected fault (fault stream)
		return nil, err
	}
	s := c.rec.NewStream(w)
	inner, err := c.Compression.Writer(s)
	if err != nil {
		return nil, err
	}
	return &verifC03WFC{inner: inner, s: s}, nil
}

type verifC03WFC struct {
	inner estargz.WriteFlushCloser
	s     *verifc03.Stream
}

func (w *verifC03WFC) Write(p []byte) (int, error) { return w.inner.Write(p) }
func (w *verifC03WFC) Flush() error                { err := w.inner.Flush(); w.s.Flushed(); return err }
func (w *verifC03WFC) Close() error                { err := w.inner.Close(); w.s.Closed(); return err }

func verifC03Section(b []byte) *io.SectionReader {
	return io.NewSectionReader(bytes.NewReader(b), 0, int64(len(b)))
}

func verifC03Level(l int) zstd.EncoderLevel {
	if l < 0 {
		l = -l
	}
	return zstd.EncoderLevel(1 + l%4)
}

func verifC03New(level int, rec *verifc03.Recorder) estargz.Compression {
	return &verifC03Comp{&verifC03Zstd{&Compressor{CompressionLevel: verifC03Level(level), Metadata: map[string]string{}}, &Decompressor{}}, rec}
}

func verifC03Target() *verifc03.Target {
	return &verifc03.Target{
		Fmt:      "z",
		Workers0: runtime.GOMAXPROCS(0),
		Build: func(in []byte, o verifc03.Opts, rec *verifc03.Recorder) (*verifc03.Result, error) {
			opts := []estargz.Option{estargz.WithChunkSize(o.Chunk), estargz.WithMinChunkSize(o.MinChunk),
				estargz.WithParallelism(o.Workers), estargz.WithCompression(verifC03New(o.Level, rec))}
			if len(o.Prio) > 0 {
				opts = append(opts, estargz.WithPrioritizedFiles(o.Prio))
			}
			blob, err := estargz.Build(verifC03Section(in), opts...)
			if err != nil {
				return nil, err
			}
			b, err := io.ReadAll(blob)
			if err != nil {
				blob.Close()
				return nil, err
			}
			if err := blob.Close(); err != nil {
				return nil, err
			}
			sz, err := blob.UncompressedSize()
			if err != nil {
				return nil, err
			}
			return &verifc03.Result{Blob: b, TOCDigest: blob.TOCDigest().String(), DiffID: blob.DiffID().String(), UncompressedSize: sz}, nil
		},
		Write: func(ins [][]byte, o verifc03.Opts, lossless bool, rec *verifc03.Recorder) (*verifc03.Result, error) {
			var buf bytes.Buffer
			w := estargz.NewWriterWithCompressor(&buf, verifC03New(o.Level, rec))
			w.ChunkSize = o.Chunk
			w.MinChunkSize = o.MinChunk
			for _, in := range ins {
				var err error
				rec.Mark()
				if lossless {
					err = w.AppendTarLossLess(bytes.NewReader(in))
				} else {
					err = w.AppendTar(bytes.NewReader(in))
				}
				if err != nil {
					return nil, err
				}
			}
			d, err := w.Close()
			if err != nil {
				return nil, err
			}
			return &verifc03.Result{Blob: buf.Bytes(), TOCDigest: d.String(), DiffID: w.DiffID(), UncompressedSize: -1}, nil
		},
		OpenRead: func(blob, _ []byte, tocDigest string, names []string) (map[string][]byte, error, error) {
			r, err := estargz.Open(verifC03Section(blob), estargz.WithDecompressors(new(Decompressor)))
			if err != nil {
				return nil, nil, fmt.Errorf("Open: %v", err)
			}
			_, verr := r.VerifyTOC(digest.Digest(tocDigest))
			files, err := verifC03ReadAll(r, names)
			return files, verr, err
		},
		Unpack: func(blob, _ []byte) ([]byte, error) {
			rc, err := estargz.Unpack(verifC03Section(blob), new(Decompressor))
			if err != nil {
				return nil, err
			}
			defer rc.Close()
			return io.ReadAll(rc)
		},
	}
}

func verifC03ReadAll(r *estargz.Reader, names []string) (map[string][]byte, error) {
	out := map[string][]byte{}
	for _, n := range names {
		e, ok := r.Lookup(n)
		if !ok {
			return nil, fmt.Errorf("Lookup(%q) failed", n)
		}
		fr, err := r.OpenFile(n)
		if err != nil {
			return nil, fmt.Errorf("OpenFile(%q): %v", n, err)
		}
		b := make([]byte, e.Size)
		if e.Size > 0 {
			if k, err := fr.ReadAt(b, 0); (err != nil && err != io.EOF) || int64(k) != e.Size {
				return nil, fmt.Errorf("ReadAt(%q): %d of %d bytes, %v", n, k, e.Size, err)
			}
		}
		out[n] = b
	}
	return out, nil
}

func TestVerifC03(t *testing.T) {
	out := verifutil.OpenOut()
	defer out.Close()
	verifc03.RunAll(out, verifC03Target(), verifutil.EnvInt("VERIF_N", 80), verifutil.EnvInt("VERIF_MAXCHECK", 60000))
}
