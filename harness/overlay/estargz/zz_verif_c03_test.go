//go:build verif

package estargz

// C03 harness, gzip format: the REAL Build / Writer.AppendTar / AppendTarLossLess / Close on generated
// tars.  The generator, the independent readers of the produced blob (frame scan, footer, TOC, tar)
// and the property oracle live in internal/verifc03 (shared with the zstd:chunked and external-TOC
// harnesses); this file only adapts the package's API.

import (
	"bytes"
	"fmt"
	"io"
	"runtime"
	"testing"

	"github.com/containerd/stargz-snapshotter/estargz/internal/verifc03"
	"github.com/containerd/stargz-snapshotter/estargz/internal/verifutil"
	digest "github.com/opencontainers/go-digest"
)

// verifC03Comp observes the compression streams (compressed bytes per Flush / Close).
type verifC03Comp struct {
	Compression
	rec *verifc03.Recorder
}

func (c *verifC03Comp) Writer(w io.Writer) (WriteFlushCloser, error) {
	if err := c.rec.OpenErr(); err != nil { // injected fault (fault stream)
		return nil, err
	}
	s := c.rec.NewStream(w)
	inner, err := c.Compression.Writer(s)
	if err != nil {
		return nil, err
	}
	return &verifC03WFC{inner: inner, s: s}, nil
}

type verifC03WFC struct {
	inner WriteFlushCloser
	s     *verifc03.Stream
}

func (w *verifC03WFC) Write(p []byte) (int, error) { return w.inner.Write(p) }
func (w *verifC03WFC) Flush() error                { err := w.inner.Flush(); w.s.Flushed(); return err }
func (w *verifC03WFC) Close() error                { err := w.inner.Close(); w.s.Closed(); return err }

func verifC03Section(b []byte) *io.SectionReader {
	return io.NewSectionReader(bytes.NewReader(b), 0, int64(len(b)))
}

func verifC03Target() *verifc03.Target {
	return &verifc03.Target{
		Fmt:          "g",
		CanNeedsOpen: true,
		Workers0:     runtime.GOMAXPROCS(0),
		Build: func(in []byte, o verifc03.Opts, rec *verifc03.Recorder) (*verifc03.Result, error) {
			opts := []Option{WithChunkSize(o.Chunk), WithMinChunkSize(o.MinChunk), WithParallelism(o.Workers)}
			if len(o.Prio) > 0 {
				opts = append(opts, WithPrioritizedFiles(o.Prio))
			}
			if o.MinChunk == 0 && o.Workers > 1 && o.Level%2 == 0 {
				opts = append(opts, WithCompressionLevel(o.Level)) // the default gzip path, unobserved
			} else {
				opts = append(opts, WithCompression(&verifC03Comp{newGzipCompressionWithLevel(o.Level), rec}))
			}
			blob, err := Build(verifC03Section(in), opts...)
			if err != nil {
				return nil, err
			}
			b, err := io.ReadAll(blob)
			if err != nil {
				blob.Close()
				return nil, err
			}
			if err := blob.Close(); err != nil {
				return nil, err
			}
			sz, err := blob.UncompressedSize()
			if err != nil {
				return nil, err
			}
			return &verifc03.Result{Blob: b, TOCDigest: blob.TOCDigest().String(), DiffID: blob.DiffID().String(), UncompressedSize: sz}, nil
		},
		Write: func(ins [][]byte, o verifc03.Opts, lossless bool, rec *verifc03.Recorder) (*verifc03.Result, error) {
			var buf bytes.Buffer
			w := NewWriterWithCompressor(&buf, &verifC03Comp{newGzipCompressionWithLevel(o.Level), rec})
			w.ChunkSize = o.Chunk
			w.MinChunkSize = o.MinChunk
			if o.NeedsOpen {
				w.needsOpenGzEntries = map[string]struct{}{PrefetchLandmark: {}, NoPrefetchLandmark: {}}
			}
			for _, in := range ins {
				var err error
				rec.Mark()
				if lossless {
					err = w.AppendTarLossLess(bytes.NewReader(in))
				} else {
					err = w.AppendTar(bytes.NewReader(in))
				}
				if err != nil {
					return nil, err
				}
			}
			d, err := w.Close()
			if err != nil {
				return nil, err
			}
			return &verifc03.Result{Blob: buf.Bytes(), TOCDigest: d.String(), DiffID: w.DiffID(), UncompressedSize: -1}, nil
		},
		Sorted: func(plain []byte, prio []string) ([]verifc03.SortedEnt, error) {
			ents, err := sortEntries(verifC03Section(plain), prio, nil)
			if err != nil {
				return nil, err
			}
			var out []verifc03.SortedEnt
			for _, e := range ents {
				out = append(out, verifc03.SortedEnt{Name: e.header.Name, Kind: verifc03.KindOf(e.header.Typeflag),
					Size: e.header.Size, IsToc: cleanEntryName(e.header.Name) == TOCTarName})
			}
			return out, nil
		},
		OpenRead: func(blob, _ []byte, tocDigest string, names []string) (map[string][]byte, error, error) {
			r, err := Open(verifC03Section(blob))
			if err != nil {
				return nil, nil, fmt.Errorf("Open: %v", err)
			}
			_, verr := r.VerifyTOC(digest.Digest(tocDigest))
			files, err := verifC03ReadAll(r, names)
			return files, verr, err
		},
		Unpack: func(blob, _ []byte) ([]byte, error) {
			rc, err := Unpack(verifC03Section(blob), new(GzipDecompressor))
			if err != nil {
				return nil, err
			}
			defer rc.Close()
			return io.ReadAll(rc)
		},
	}
}

func verifC03ReadAll(r *Reader, names []string) (map[string][]byte, error) {
	out := map[string][]byte{}
	for _, n := range names {
		e, ok := r.Lookup(n)
		if !ok {
			return nil, fmt.Errorf("Lookup(%q) failed", n)
		}
		fr, err := r.OpenFile(n)
		if err != nil {
			return nil, fmt.Errorf("OpenFile(%q): %v", n, err)
		}
		b := make([]byte, e.Size)
		if e.Size > 0 {
			if k, err := fr.ReadAt(b, 0); (err != nil && err != io.EOF) || int64(k) != e.Size {
				return nil, fmt.Errorf("ReadAt(%q): %d of %d bytes, %v", n, k, e.Size, err)
			}
		}
		out[n] = b
	}
	return out, nil
}

func TestVerifC03(t *testing.T) {
	out := verifutil.OpenOut()
	defer out.Close()
	verifc03.RunAll(out, verifC03Target(), verifutil.EnvInt("VERIF_N", 150), verifutil.EnvInt("VERIF_MAXCHECK", 60000))
}
