"""C03 — built blobs unpack like the input tar and index themselves consistently."""


def run(ctx):
    ctx.regen_go2lean()
    ctx.lean_obligations(["SV.Props.C03", "SV.Props.C03gen2", "SV.Props.C03x"], drivers=["svdriver_c03"])
    quick = ctx.tier == "quick"
    plan = [
        ("", "h_estargz_c03", "c03gzip", 150 if quick else 3000),
        ("zstdchunked", "h_zstd_c03", "c03zstd", 70 if quick else 1000),
        ("externaltoc", "h_exttoc_c03", "c03ext", 50 if quick else 700),
    ]
    for pkg, name, tag, n in plan:
        b = ctx.go_test_binary(pkg, name, module_dir="estargz")
        if b:
            ctx.correspond(b, "TestVerifC03", "svdriver_c03", tag,
                           env={"VERIF_N": n, "VERIF_MAXCHECK": 60000 if quick else 120000,
                                "VERIF_C03_STREAM": "main"},
                           timeout=600 if quick else 3000)
            # the known finding (unpack-empty-layer) lives in its own pass (own harness run), so that the
            # main stream is silent on the unchanged tree and any model mismatch in it breaks the tie
            ctx.correspond(b, "TestVerifC03", "svdriver_c03", tag + "-findings",
                           env={"VERIF_N": 0, "VERIF_MAXCHECK": 60000, "VERIF_C03_STREAM": "findings"},
                           timeout=600)
            # histories of sessions in one process: reference / failed session(s) / victim judged by the full
            # oracle + model + checker, plus the isolation oracle (same TOCDigest / DiffID as before the fault)
            ctx.correspond(b, "TestVerifC03", "svdriver_c03", tag + "-faults",
                           env={"VERIF_N": (36 if tag == "c03gzip" else 24) if quick else 240, "VERIF_MAXCHECK": 60000,
                                "VERIF_C03_STREAM": "faults"},
                           timeout=600 if quick else 1500)
    return ctx.finish(
        level="proof",
        rule="tars of 0..9 entries per AppendTar call (regular files of size 0, 1, c-1, c, c+1, k*c-1..k*c+1 and random, "
             "incompressible / constant / patterned content; dirs, symlinks, hardlinks, char/block/fifo, duplicates, xattrs, "
             "long names, owners, mod times incl. zero and epoch, stale landmarks and TOC entries, PAX global header, "
             "USTAR/PAX/GNU, plain/gzip/zstd input, an eStargz blob as input) x chunk size {default,<0,1,3,7,64,100,512,1000,4096} "
             "x min-chunk-size {0,1,c/2,c,3c,10000,2^20} x level x {gzip, zstd:chunked, external TOC} x workers 1..8 x "
             "{Build with prioritized files, Writer.AppendTar (1..3 calls, also with min-chunk-size), AppendTarLossLess (trailing garbage)}; ~80 "
             "hand-written scenarios per format first. Each REAL blob is split by an independent frame scan, read by the "
             "documented rules, (a) validated by the proved checkIndex, (b) compared entry by entry / member by member with "
             "the model's bookkeeping under the recorded compressor oracle, (c) judged by the property oracle "
             "(stream = input + documented additions, every chunk read = file bytes, digests, DiffID, sizes, lossless "
             "identity, Open+VerifyTOC, Unpack). Fault stream (own pass per format): histories of sessions in ONE process - "
             "a reference run of a victim case, then 1..3 sessions made to FAIL (input tar truncated inside a payload / at "
             "the last byte / inside a header, for Writer, lossless and Build; write error below the compressor after n "
             "compressed bytes, Writer and parallel Build; Compression.Writer refusing the k-th member; an entry the writer "
             "rejects after good ones; 3 concurrent sessions held by a channel barrier in the middle of a chunk and failed "
             "together; 3 concurrent truncated inputs), then the victim again through the full oracle, the model (m.fault = "
             "identity on what follows) and the checker, plus the isolation oracle (TOCDigest / DiffID equal to the reference) "
             "and the per-chunk digester discipline (d.chunk) against SV.DigestPool.",
        assumptions=[
            "gzip / zstd / tar codecs are trusted (abstract members, abstract header bytes): tar header re-encoding "
            "is compared per output, not proved",
            "entry ORDER after sortEntries is taken as given (C14)",
            "Writer index consistency holds for any number of AppendTar calls because appendTar closes the open member "
            "first (commit 6f1f089); the pre-repair variant is kept in the model as a proved counterexample "
            "(old_appendTar_breaks_index) and its witness is a regression scenario",
            "SHA-256 uninterpreted: TOCDigest / DiffID / chunkDigest equalities are checked per output",
        ])
