"""C20 — snapshot labels written at pull time reproduce the layer's source at mount time.

Two in-package harnesses share one generator / encoding / oracle (harness/overlay/internal/verifc20):
  fs/source  TestVerifC20     both writers, FromDefaultLabels, appendWithValidation
  service    TestVerifC20CRI  both writers, sourceFromCRILabels, sources(cri, default)
Each runs three separate passes (VERIF_C20_STREAM):
  clean    inputs inside the hypotheses of the theorems; strict correspondence, every oracle failure is a violation
  hyp      inputs inside the property's quantifier that violate a forced hypothesis (comma in a URL; extra flavour:
           repeated digest with different URLs, protocol keys pre-set in the manifest).  The Lean file proves each
           counterexample, the harness replays it on the real code; pairing failures carry the dedicated signature
           listed in findings/known_findings.txt (-> KNOWN-FINDING); any other signature is a violation.
  outside  inputs OUTSIDE the property's domain (non-layer child between layers), kept as documentation of
           nonlayer_between_layers_counterexample: verdicts are counted into the evidence, nothing can fail.
"""
import os
import re

import vlib

# Lines of /repo/fs/fs.go that the harness replicates (prefetch-size label parsing in Mount and the
# neighbour filter); pinned textually so that an edit there breaks the tie instead of going unnoticed.
FS_GO_FACTS = [
    "if psStr, ok := labels[config.TargetPrefetchSizeLabel]; ok {",
    "if ps, err := strconv.ParseInt(psStr, 10, 64); err == nil {",
    "defaultPrefetchSize = ps",
    "for _, desc := range neighboringLayers(preResolve.Manifest, preResolve.Target) {",
    "if desc.Digest.String() != target.Digest.String() {",
]


def facts(ctx):
    try:
        src = open(os.path.join(vlib.REPO, "fs", "fs.go")).read()
    except OSError:
        ctx.broken.append("fact:fs/fs.go:unreadable")
        return
    norm = re.sub(r"[ \t]+", " ", src)
    for line in FS_GO_FACTS:
        ctx.cov["facts_checked"] += 1
        if re.sub(r"[ \t]+", " ", line) not in norm:
            ctx.broken.append("fact:fs/fs.go:" + line[:40])
            ctx.log("fact missing in fs/fs.go:", line)


def outside_stream(ctx, binary, test, tag, n):
    """Out-of-domain documentation pass: never a violation, only evidence notes."""
    ops, impl, rep = ctx.run_harness(binary, test, tag, env={"VERIF_N": n, "VERIF_C20_STREAM": "outside"})
    if rep.get("crashed") or not os.path.exists(ops):
        ctx.notes.append(f"outside-domain pass {tag}: harness did not complete")
        return
    model = ctx.run_driver("svdriver_c20", ops)
    nops, mism, nm = ctx.diff_streams(ops, impl, model)
    st = {k: v for k, v in (rep.get("stats") or {}).items() if k.startswith("outside-domain:")}
    ctx.cov["stats"][tag] = {"ops": nops, "model_mismatches": nm, **st}
    ctx.notes.append(f"outside-domain pass {tag} (non-layer child between layers): {nops} ops, {nm} model mismatches, "
                     f"oracle verdicts counted not reported: {st}")


def run(ctx):
    ctx.lean_obligations(["SV.Props.C20"], drivers=["svdriver_c20"])
    facts(ctx)
    quick = ctx.tier == "quick"
    bsrc = ctx.go_test_binary("fs/source", "h_source")
    bsvc = ctx.go_test_binary("service", "h_service")
    seeds = [ctx.seed] if quick else [ctx.seed] + [ctx.seed * 1000 + k for k in range(1, 6)]
    n = 40 if quick else 160
    for k, s in enumerate(seeds):
        sfx = "" if k == 0 else f"-s{k}"
        if bsrc:
            ctx.correspond(bsrc, "TestVerifC20", "svdriver_c20", "c20src" + sfx,
                           env={"VERIF_N": n, "VERIF_C20_STREAM": "clean", "VERIF_SEED": s})
        if bsvc:
            ctx.correspond(bsvc, "TestVerifC20CRI", "svdriver_c20", "c20cri" + sfx,
                           env={"VERIF_N": n, "VERIF_C20_STREAM": "clean", "VERIF_SEED": s})
    nh = 20 if quick else 300
    if bsrc:
        ctx.correspond(bsrc, "TestVerifC20", "svdriver_c20", "c20src-hyp", env={"VERIF_N": nh, "VERIF_C20_STREAM": "hyp"})
        outside_stream(ctx, bsrc, "TestVerifC20", "c20src-outside", nh)
    if bsvc:
        ctx.correspond(bsvc, "TestVerifC20CRI", "svdriver_c20", "c20cri-hyp", env={"VERIF_N": nh, "VERIF_C20_STREAM": "hyp"})
        outside_stream(ctx, bsvc, "TestVerifC20CRI", "c20cri-outside", nh)
    ctx.expect_known = bool(bsrc and bsvc)
    return ctx.finish(
        level="proof",
        rule="manifests 'config first, then 0..200 layers' (sha256/384/512 digests, repeated digests, URL lists cut at "
             "the 4096-byte label limit, empty / non-ASCII URLs, stale protocol keys in annotations, references up to and "
             "beyond the limit, unparsable references and digests, OCI / Docker / index parents) through both handler "
             "flavours; labels of sampled children compared impl-vs-model, validated with containerd's labels.Validate, "
             "read by FromDefaultLabels / sourceFromCRILabels / sources(cri,default) unmodified and with mandatory or "
             "optional labels removed or corrupted; cases distinct by (stream, flavour, shape, truncation, reference "
             "length, prefetch size); plus direct ops on appendWithValidation, ParseInt, digest.Parse, strings.Split",
        assumptions=[
            "reference.Parse (net/url based) is a parameter of the model; the harness supplies its answers per op",
            "fs.Mount's prefetch-label parsing and neighboringLayers filter are replicated in the harness (3+1 lines, pinned textually against /repo/fs/fs.go)",
            "containerd passes the layer descriptor's annotations to the snapshotter as labels unchanged (keys with prefix containerd.io/snapshot/)",
            "labels_valid_*: reference / digest fit under their keys (ref <= 4050 bytes default flavour); urls_*: no ',' inside a URL; "
            "extra flavour: no protocol keys pre-set in the manifest, equal digests carry equal URL lists (violations are the three known findings); "
            "default flavour neighbours: no non-layer child after the first layer (the property's domain)",
        ])
