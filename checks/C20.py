"""C20 — snapshot labels written at pull time reproduce the layer's source at mount time.

Two in-package harnesses share one generator / encoding / oracle (harness/overlay/internal/verifc20):
  fs/source  TestVerifC20     both writers, FromDefaultLabels, appendWithValidation
  service    TestVerifC20CRI  both writers, sourceFromCRILabels, sources(cri, default)
  service    TestVerifC20Mount (package service_test, exported API only): the snapshotter's real Mount on a
             filesystem built by service.NewFileSystem; a resolve handler, the RegistryHosts function and an
             in-memory registry record which reference / digest / URLs / neighbours / prefetch size the mount
             path hands on.  Nothing in /repo is pinned textually: how fs.Mount consumes the labels is observed.
The first two run three separate passes each (VERIF_C20_STREAM):
  clean    inputs inside the hypotheses of the theorems; strict correspondence, every oracle failure is a violation
  hyp      inputs inside the property's quantifier that violate a forced hypothesis (comma in a URL; extra flavour:
           repeated digest with different URLs, protocol keys pre-set in the manifest).  The Lean file proves each
           counterexample, the harness replays it on the real code; pairing failures carry the dedicated signature
           listed in findings/known_findings.txt (-> KNOWN-FINDING); any other signature is a violation.
  outside  inputs OUTSIDE the property's domain (non-layer child between layers), kept as documentation of
           nonlayer_between_layers_counterexample: verdicts are counted into the evidence, nothing can fail.
"""
import os


def outside_stream(ctx, binary, test, tag, n):
    """Out-of-domain documentation pass: never a violation, only evidence notes."""
    ops, impl, rep = ctx.run_harness(binary, test, tag, env={"VERIF_N": n, "VERIF_C20_STREAM": "outside"})
    if rep.get("crashed") or not os.path.exists(ops):
        ctx.notes.append(f"outside-domain pass {tag}: harness did not complete")
        return
    model = ctx.run_driver("svdriver_c20", ops)
    nops, mism, nm = ctx.diff_streams(ops, impl, model)
    st = {k: v for k, v in (rep.get("stats") or {}).items() if k.startswith("outside-domain:")}
    ctx.cov["stats"][tag] = {"ops": nops, "model_mismatches": nm, **st}
    ctx.notes.append(f"outside-domain pass {tag} (non-layer child between layers): {nops} ops, {nm} model mismatches, "
                     f"oracle verdicts counted not reported: {st}")


def run(ctx):
    ctx.regen_go2lean()
    ctx.lean_obligations(["SV.Props.C20", "SV.Props.C20gen2"], drivers=["svdriver_c20"])
    quick = ctx.tier == "quick"
    bsrc = ctx.go_test_binary("fs/source", "h_source")      # exported identifiers only
    bsvc = ctx.go_test_binary("service", "h_service")        # in-package (2 unexported readers) + exported-API mount harness
    bmount = bsvc
    if not bsvc:
        # The in-package harness names service.sourceFromCRILabels / service.sources.  If a refactor renamed
        # them the property may still hold: fall back to the harness that uses exported API only.
        bmount = ctx.go_test_binary("service", "h_service_mount", only=["c20mount"])
        if bmount:
            ctx.broken = [b for b in ctx.broken if b != "harness-build:service"]
            ctx.notes.append("in-package harness of package service did not compile (unexported reader renamed?); "
                             "CRI flavour covered through the exported-API mount harness only")
    seeds = [ctx.seed] if quick else [ctx.seed] + [ctx.seed * 1000 + k for k in range(1, 6)]
    n = 40 if quick else 160
    for k, s in enumerate(seeds):
        sfx = "" if k == 0 else f"-s{k}"
        if bsrc:
            ctx.correspond(bsrc, "TestVerifC20", "svdriver_c20", "c20src" + sfx,
                           env={"VERIF_N": n, "VERIF_C20_STREAM": "clean", "VERIF_SEED": s})
        if bsvc:
            ctx.correspond(bsvc, "TestVerifC20CRI", "svdriver_c20", "c20cri" + sfx,
                           env={"VERIF_N": n, "VERIF_C20_STREAM": "clean", "VERIF_SEED": s})
    nh = 20 if quick else 300
    if bsrc:
        ctx.correspond(bsrc, "TestVerifC20", "svdriver_c20", "c20src-hyp", env={"VERIF_N": nh, "VERIF_C20_STREAM": "hyp"})
        outside_stream(ctx, bsrc, "TestVerifC20", "c20src-outside", nh)
    if bsvc:
        ctx.correspond(bsvc, "TestVerifC20CRI", "svdriver_c20", "c20cri-hyp", env={"VERIF_N": nh, "VERIF_C20_STREAM": "hyp"})
        outside_stream(ctx, bsvc, "TestVerifC20CRI", "c20cri-outside", nh)
    if bmount:
        ctx.correspond(bmount, "TestVerifC20Mount", "svdriver_c20", "c20mount",
                       env={"VERIF_N": (12 if bsvc else 40) if quick else 150})
    ctx.expect_known = bool(bsrc and bsvc)
    return ctx.finish(
        level="proof",
        rule="manifests 'config first, then 0..200 layers' (sha256/384/512 digests, repeated digests, URL lists cut at "
             "the 4096-byte label limit, empty / non-ASCII URLs, stale protocol keys in annotations, references up to and "
             "beyond the limit, unparsable references and digests, OCI / Docker / index parents) through both handler "
             "flavours; labels of sampled children compared impl-vs-model, validated with containerd's labels.Validate, "
             "read by FromDefaultLabels / sourceFromCRILabels / sources(cri,default) unmodified and with mandatory or "
             "optional labels removed or corrupted; cases distinct by (stream, flavour, shape, truncation, reference "
             "length, prefetch size); direct ops on ParseInt, digest.Parse, strings.Split; plus real Mounts (service.NewFileSystem) of "
             "small manifests per flavour with labels unmodified / mandatory label missing / prefetch label missing or corrupt",
        assumptions=[
            "reference.Parse (net/url based) is a parameter of the model; the harness supplies its answers per op",
            "fs.Mount's consumption (which source is resolved, pre-resolved neighbours, prefetch size) is observed through a resolve handler, "
            "the RegistryHosts callback and the byte ranges requested from an in-memory registry; nothing in /repo is pinned textually",
            "containerd passes the layer descriptor's annotations to the snapshotter as labels unchanged (keys with prefix containerd.io/snapshot/)",
            "labels_valid_*: reference / digest fit under their keys (ref <= 4050 bytes default flavour); urls_*: no ',' inside a URL; "
            "extra flavour: no protocol keys pre-set in the manifest, equal digests carry equal URL lists (violations are the three known findings); "
            "default flavour neighbours: no non-layer child after the first layer (the property's domain)",
        ])
