"""C20 — snapshot labels written at pull time reproduce the layer's source at mount time.

Two in-package harnesses share one generator / encoding / oracle (harness/overlay/internal/verifc20):
  fs/source  TestVerifC20     both writers, FromDefaultLabels, appendWithValidation
  service    TestVerifC20CRI  both writers, sourceFromCRILabels, sources(cri, default)
Each runs two streams:
  clean  inputs inside the hypotheses of the theorems: every oracle failure is a violation
  hyp    inputs that violate one forced hypothesis (comma in a URL, non-layer child between layers,
         repeated digest with different URLs, protocol keys pre-set in the manifest): the Lean file proves
         the counterexample, the harness replays it; pairing failures there carry a dedicated signature.
         A signature listed in findings/known_findings.txt is printed as KNOWN-FINDING; an unlisted one is
         printed as CANDIDATE-FINDING (a violation only with VERIF_C20_STRICT=1).  Any other failure in
         that stream, and any model/implementation mismatch, is treated as in the clean stream.
"""
import os
import re

import vlib

CANDIDATES = {
    "url-comma-split": "a URL containing ',' is split by the readers: target / neighbour URLs differ from the layer's",
    "nonlayer-child-shifts-url-index": "default writer: a non-layer child between layers shifts urls.<i> against the layers label; neighbours get no / another layer's URLs",
    "extra-dup-digest-foreign-urls": "extra flavour: a repeated digest with different URL lists is paired with the URLs of the first child carrying the digest",
    "extra-preset-annotation-kept": "extra flavour: urls / prefetch / urls.<i> keys pre-set in the manifest's annotations are kept instead of this pull's values",
}

# Lines of /repo/fs/fs.go that the harness replicates (prefetch-size label parsing in Mount and the
# neighbour filter); pinned textually so that an edit there breaks the tie instead of going unnoticed.
FS_GO_FACTS = [
    "if psStr, ok := labels[config.TargetPrefetchSizeLabel]; ok {",
    "if ps, err := strconv.ParseInt(psStr, 10, 64); err == nil {",
    "defaultPrefetchSize = ps",
    "for _, desc := range neighboringLayers(preResolve.Manifest, preResolve.Target) {",
    "if desc.Digest.String() != target.Digest.String() {",
]


def facts(ctx):
    try:
        src = open(os.path.join(vlib.REPO, "fs", "fs.go")).read()
    except OSError:
        ctx.broken.append("fact:fs/fs.go:unreadable")
        return
    norm = re.sub(r"[ \t]+", " ", src)
    for line in FS_GO_FACTS:
        ctx.cov["facts_checked"] += 1
        if re.sub(r"[ \t]+", " ", line) not in norm:
            ctx.broken.append("fact:fs/fs.go:" + line[:40])
            ctx.log("fact missing in fs/fs.go:", line)


def hyp_stream(ctx, binary, test, tag, n, cand_seen):
    env = {"VERIF_N": n, "VERIF_C20_STREAM": "hyp"}
    ops, impl, rep = ctx.run_harness(binary, test, tag, env=env)
    if rep.get("crashed"):
        ctx.add_violation({"kind": "harness-crash", "test": test, "seed": ctx.seed, "env": env,
                           "output": rep.get("crash_output", "")}, sig=f"crash:{test}:hyp")
    if not os.path.exists(ops):
        return
    model = ctx.run_driver("svdriver_c20", ops)
    nops, mism, nm = ctx.diff_streams(ops, impl, model)
    ctx.cov["evaluations"] += nops
    ctx.cov["traces_validated_against_impl"] += nops - nm
    ctx.cov["distinct_nontrivial"] += int(rep.get("distinct_nontrivial", 0))
    st = ctx.cov["stats"].setdefault(tag, {})
    for k, v in (rep.get("stats") or {}).items():
        st[k] = st.get(k, 0) + v
    ctx.cov["correspondence_mismatches"] += nm
    fails = rep.get("oracle_failures") or []
    strict = os.environ.get("VERIF_C20_STRICT") == "1"
    hard = []
    for f in fails:
        sig = f["sig"]
        if sig in CANDIDATES and not strict:
            c = cand_seen.setdefault(sig, {"count": 0, "example": f["what"]})
            c["count"] += 1
            if ctx.is_known(sig):
                ctx.known_hits[sig] = ctx.is_known(sig)["what"]
        else:
            hard.append(f)
    ctx.cov["oracle_failures"] += len(hard)
    seen = set()
    for f in hard:
        if f["sig"] in seen:
            continue
        seen.add(f["sig"])
        ctx.add_violation({"kind": "oracle", "test": test, "seed": ctx.seed, "env": env,
                           "failure": f, "all_failures": hard[:20]}, sig=f["sig"])
    if nm and not hard:
        ctx.broken.append(f"correspondence:{tag}")
        ctx.pending_mismatch = {"kind": "correspondence", "test": test, "seed": ctx.seed, "env": env,
                                "mismatches": mism, "count": nm}
    elif nm:
        ctx.notes.append(f"{nm} correspondence mismatches in {tag} (oracle failures present)")


def run(ctx):
    ctx.lean_obligations(["SV.Props.C20"], drivers=["svdriver_c20"])
    facts(ctx)
    quick = ctx.tier == "quick"
    bsrc = ctx.go_test_binary("fs/source", "h_source")
    bsvc = ctx.go_test_binary("service", "h_service")
    seeds = [ctx.seed] if quick else [ctx.seed] + [ctx.seed * 1000 + k for k in range(1, 6)]
    n = 40 if quick else 160
    cand_seen = {}
    for k, s in enumerate(seeds):
        sfx = "" if k == 0 else f"-s{k}"
        if bsrc:
            ctx.correspond(bsrc, "TestVerifC20", "svdriver_c20", "c20src" + sfx,
                           env={"VERIF_N": n, "VERIF_C20_STREAM": "clean", "VERIF_SEED": s})
        if bsvc:
            ctx.correspond(bsvc, "TestVerifC20CRI", "svdriver_c20", "c20cri" + sfx,
                           env={"VERIF_N": n, "VERIF_C20_STREAM": "clean", "VERIF_SEED": s})
    if bsrc:
        hyp_stream(ctx, bsrc, "TestVerifC20", "c20src-hyp", 20 if quick else 300, cand_seen)
    if bsvc:
        hyp_stream(ctx, bsvc, "TestVerifC20CRI", "c20cri-hyp", 20 if quick else 300, cand_seen)
    for sig in sorted(CANDIDATES):
        c = cand_seen.get(sig)
        if c is None:
            if bsrc and bsvc:
                ctx.notes.append(f"hypothesis-violating stream {sig}: the proved counterexample did not fail on the implementation")
            continue
        if not ctx.is_known(sig):
            print(f"CANDIDATE-FINDING: property=C20 sig={sig} {c['count']} failing inputs in the hypothesis-violating "
                  f"stream (not listed in findings/known_findings.txt, not counted as a violation): {CANDIDATES[sig]}; "
                  f"e.g. {c['example'][:240]}", flush=True)
            ctx.notes.append(f"candidate finding {sig}: {c['count']} failing inputs")
    ctx.expect_known = bool(bsrc and bsvc)
    return ctx.finish(
        level="proof",
        rule="manifests 'config first, then 0..200 layers' (sha256/384/512 digests, repeated digests, URL lists cut at "
             "the 4096-byte label limit, empty / non-ASCII URLs, stale protocol keys in annotations, references up to and "
             "beyond the limit, unparsable references and digests, OCI / Docker / index parents) through both handler "
             "flavours; labels of sampled children compared impl-vs-model, validated with containerd's labels.Validate, "
             "read by FromDefaultLabels / sourceFromCRILabels / sources(cri,default) unmodified and with mandatory or "
             "optional labels removed or corrupted; cases distinct by (stream, flavour, shape, truncation, reference "
             "length, prefetch size); plus direct ops on appendWithValidation, ParseInt, digest.Parse, strings.Split",
        assumptions=[
            "reference.Parse (net/url based) is a parameter of the model; the harness supplies its answers per op",
            "fs.Mount's prefetch-label parsing and neighboringLayers filter are replicated in the harness (3+1 lines, pinned textually against /repo/fs/fs.go)",
            "containerd passes the layer descriptor's annotations to the snapshotter as labels unchanged (keys with prefix containerd.io/snapshot/)",
            "labels_valid_*: reference / digest fit under their keys (ref <= 4050 bytes default flavour); urls_*: no ',' inside a URL; "
            "extra flavour: no protocol keys pre-set in the manifest, equal digests carry equal URL lists; default flavour neighbours: no non-layer child after the first layer",
        ],
        extra={"candidate_findings": {k: v["count"] for k, v in cand_seen.items()}})
