"""C02 — lazily served files and metadata equal the source tar under any access history."""


def run(ctx):
    ctx.lean_obligations(["SV.Props.C02", "SV.Props.C02e2e", "SV.Props.C02x"], drivers=["svdriver_c02"])
    quick = ctx.tier == "quick"
    b = ctx.go_test_binary("fs/layer", "h_layer_c02")
    if b:
        ctx.correspond(b, "TestVerifC02", "svdriver_c02", "c02",
                       env={"VERIF_N": 60 if quick else 700, "VERIF_OPS": 40 if quick else 70},
                       timeout=900 if quick else 3000)
        # histories with a storage fault of the LOCAL caches (file part of every cache commit fails for a
        # while, at the chunk cache and/or the compressed-blob cache); oracle only, see SV.Props.C02x
        ctx.correspond(b, "TestVerifC02StoreFault", "svdriver_c02", "c02storefault",
                       env={"VERIF_N": 8 if quick else 150}, timeout=600 if quick else 1800)
    bdb = ctx.go_test_binary("containerd-stargz-grpc/db", "h_db_c02", module_dir="cmd")
    if bdb:
        ctx.correspond(bdb, "TestVerifC02DB", "svdriver_c02", "c02db",
                       env={"VERIF_N": 30 if quick else 400, "VERIF_OPS": 30 if quick else 50},
                       timeout=900 if quick else 3000)
        # the witnesses of the two KNOWN findings of the db store run in a pass of their own
        # (oracle only, nothing modelled): the main passes above stay strict
        ctx.correspond(bdb, "TestVerifC02DBKnown", "svdriver_c02", "c02dbknown", timeout=600)
    return ctx.finish(
        level="proof",
        rule="random tar archives (names with ./ ../ / // prefixes, implicit and late explicit parents, a root entry, "
             "hardlink chains incl. links to symlinks/devices, duplicate names, empty/1-byte/chunk-1/chunk/chunk+1/"
             "multi-chunk files of compressible and incompressible payload, symlinks, char/block devices with large "
             "numbers, fifos, PAX xattrs incl. empty values, setuid/setgid/sticky, large uids) -> the REAL Build "
             "(chunk size 7..4096/default, min-chunk-size 0..100000, gzip/zstd, random prioritized files, or the bare "
             "Writer without landmarks) -> real layer.Resolver over the scripted in-memory registry (registry chunk "
             "16..50000, memory / directory caches with 1..3 LRU entries, direct mode, verification on/off, "
             "passthrough and async cache commit as oracle-only streams) -> random histories of read / chunk lookup / "
             "lookup+getattr+readlink / readdir / getxattr+listxattr / prefetch-store with an offset filter / "
             "background fetch / eviction / truncated cache entry / loss of the compressed cache / registry faults / "
             "concurrent readers / STORAGE FAULTS OF THE LOCAL CACHES (stream TestVerifC02StoreFault: the shard directories of "
             "the chunk cache and/or the compressed-blob cache are occupied by regular files so that the file part of every "
             "cache commit fails after its on-memory part, at the three store sites reader.cacheData / readAndCache / "
             "blob.cacheChunkData, first store and re-store of a key still in the LRU, cache files wiped or not; then the "
             "directory is repaired, other chunks are stored and every chunk is read again whole and in parts; one P and no "
             "GC so that sync.Pool reuse is deterministic; 12 hand-written + random scenarios; oracle-only) / "
             "a second reader scheduled between a reader's cache hit and its use of the entry "
             "(small on-memory LRU in front of the directory cache; oracle-only) / FUSE passthrough: node.Open merges the "
             "file into one backing file (merge buffers of 2-4 chunks, 1-4 workers, direct-mode directory cache, chunks "
             "pre-cached by partial reads or prefetch-stores, merged file dropped and rebuilt after evictions) and the "
             "WHOLE content of the passthrough fd is compared with the tar (8 hand-written scenarios every run + random); "
             "12 (memory store) + 9 (db store) scripted geometries (chunk size, merge buffer, file size) where the chunk "
             "size does NOT divide the merge buffer, incl. short files with exactly one straddling chunk, min-chunk-size "
             "variants, and a random bias towards non-dividing pairs; every read, lookup, listing, attribute block and xattr is compared with the tar "
             "itself (oracle) and with the Lean model (chunk lookup, read arithmetic incl. which chunks get stored, "
             "tarView + entryToAttr for metadata); both metadata stores (db store from the cmd module); a history is "
             "distinct by (build options, stack configuration, #entries, #chunks, op shape). Hand-written scenarios "
             "first, incl. the regression layouts of the repaired defects 8686934 (empty file in the stream at blob "
             "offset 0), 46fe897 (several chunks of a file in one stream, db store) and eb6fe18 (background fetch on "
             "the db store). EXCLUSIONS of the main passes, both for the db store only and both covered by a known "
             "finding whose witness runs in the separate pass TestVerifC02DBKnown: (1) the ROOT directory's own "
             "attribute block and xattrs are not compared (db-root-attr-read-before-init; the root's listing and "
             "every other node are compared); (2) the db-store generator emits no directory entry after an entry "
             "below that directory (db-dir-nlink-double-counted-late-dir-entry); the fs/layer (memory store) "
             "passes have neither exclusion",
        assumptions=[
            "Honest: what the lower layers deliver and the reader accepts is the built payload (digest verification = "
            "SHA-256 collision resistance + the TOC digests being those of the tar payload, C01/C03; or an honest blob "
            "when verification is off)",
            "WF/FromTar: the chunk table of every file tiles its payload (checked per blob by the driver's `file` op; "
            "established in general by C03)",
            "gzip/zstd codecs, the remote blob (C06) and the cache implementations (C10/C11) are parameters of the "
            "read model: an `Under` oracle per operation and a finite-map cache",
            "FUSE kernel path, passthrough fd use by the kernel and real concurrency are outside the model "
            "(concurrent readers and passthrough are oracle-only)",
            "metadata: proved (metadata_equal_tar_partial) for C05's models of BOTH TOC interpreters (Toc.memTree, "
            "Toc.dbTree, themselves tied to the real stores by C05's correspondence) on the decidable fragment "
            "MetaTar.TarOK: which paths exist, type+mode, size, owner, device numbers, symlink target, xattrs, hardlink "
            "= target's node, implicit parents, duplicates; NOT proved: link counts, archives outside the fragment "
            "(root entry, directory entry after its content, non-plain spellings, mtime) - those are covered by the "
            "per-path correspondence (model = tarView) and the Go oracle only",
        ])
