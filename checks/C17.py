"""C17 — FUSE manager's persistent record equals its live mounts across re-init/restart."""
import os

# Candidate findings: behaviours of the CURRENT code that the property text arguably excludes and
# that are not (yet) listed in findings/known_findings.txt.  Histories that trigger them run in
# separate passes so that the main pass stays a clean tie.  While a signature is not listed the
# pass reports it as `CANDIDATE-FINDING` (loud, recorded in the evidence, exit code unaffected);
# once a `known:` line exists it takes the normal KNOWN-FINDING path.  Every OTHER oracle failure
# or stream mismatch of these passes is a violation as usual.
CANDIDATES = {
    # SV/Props/C17.lean `reinit_after_close_serves_unrecorded`
    "served-after-close-unrecorded":
        "Close() is not terminal: Init on the closed Server (history: init ok; close; init -> err 'database not "
        "open' but status Ready; mount mp -> ok) serves mp although the store file is gone and storeFuseInfo's "
        "error is ignored",
    # observation: the Config field of a record is never read back (restoreFuseInfo ignores it)
    "record-config-not-owner-config":
        "a re-Init that fails in a configFunc or in construction has already replaced fm.config; the old "
        "filesystem keeps serving and later Mounts record the NEW config with the OLD filesystem (history: "
        "init A ok; init B cfgfunc -> err; mount mp -> ok on the fs built from A, record carries B)",
}


def extra_pass(ctx, binary, tag, env):
    ops, impl, rep = ctx.run_harness(binary, "TestVerifC17", tag, env=env)
    if rep.get("crashed"):
        ctx.add_violation({"kind": "harness-crash", "test": "TestVerifC17", "seed": ctx.seed, "env": env,
                           "output": rep.get("crash_output", "")}, sig="crash:TestVerifC17:" + tag)
    if not os.path.exists(ops):
        return
    model = ctx.run_driver("svdriver_c17", ops)
    nops, mism, nm = ctx.diff_streams(ops, impl, model)
    ctx.cov["evaluations"] += nops
    ctx.cov["traces_validated_against_impl"] += nops - nm
    ctx.cov["distinct_nontrivial"] += int(rep.get("distinct_nontrivial", 0))
    ctx.cov["correspondence_mismatches"] += nm
    st = ctx.cov["stats"].setdefault(tag, {})
    for k, v in (rep.get("stats") or {}).items():
        st[k] = st.get(k, 0) + v
    fails = rep.get("oracle_failures") or []
    cand = {}
    other = []
    for f in fails:
        if f["sig"] in CANDIDATES and not ctx.is_known(f["sig"]):
            cand.setdefault(f["sig"], []).append(f)
        else:
            other.append(f)
    ctx.cov["oracle_failures"] += len(other)
    seen = set()
    for f in other:
        if f["sig"] not in seen:
            seen.add(f["sig"])
            ctx.add_violation({"kind": "oracle", "test": "TestVerifC17", "seed": ctx.seed, "env": env,
                               "failure": f, "all_failures": other[:20]}, sig=f["sig"])
    if nm and not [f for f in other if not ctx.is_known(f["sig"])]:
        ctx.broken.append("correspondence:" + tag)
        ctx.pending_mismatch = {"kind": "correspondence", "test": "TestVerifC17", "seed": ctx.seed, "env": env,
                                "mismatches": mism, "count": nm}
    for sig, fs in sorted(cand.items()):
        print(f"CANDIDATE-FINDING: property=C17 sig={sig} ({len(fs)} hits, e.g. {fs[0]['what']}) {CANDIDATES[sig]}",
              flush=True)
        ctx.notes.append(f"candidate finding {sig}: {len(fs)} hits, e.g. {fs[0]['what']} -- {CANDIDATES[sig]}")
        ctx.cov.setdefault("candidate_findings", []).append({"sig": sig, "hits": len(fs), "example": fs[0]["what"]})


def run(ctx):
    ctx.lean_obligations(["SV.Props.C17"], drivers=["svdriver_c17"])
    quick = ctx.tier == "quick"
    b = ctx.go_test_binary("fusemanager", "h_fusemanager")
    if b:
        rep = ctx.correspond(b, "TestVerifC17", "svdriver_c17", "c17", env={"VERIF_N": 300 if quick else 4000})
        # structural tie: the model treats each RPC as atomic; the harness re-derives from the source it
        # was built against that every RPC method takes fm.lock first and releases it in a defer
        for m in ("Init", "Mount", "Check", "Unmount", "Close"):
            ctx.cov["facts_checked"] += 1
            if not (rep.get("stats") or {}).get("fact-lock-first:" + m):
                ctx.broken.append("fact:lock-first:Server." + m)
        if not quick:
            for i in range(1, 4):
                ctx.correspond(b, "TestVerifC17", "svdriver_c17", f"c17s{i}",
                               env={"VERIF_N": 2000, "VERIF_SEED": int(ctx.seed) * 1000 + i})
        extra_pass(ctx, b, "c17ac", {"VERIF_N": 40 if quick else 600, "VERIF_C17_AFTERCLOSE": 1})
        extra_pass(ctx, b, "c17cfg", {"VERIF_N": 40 if quick else 600, "VERIF_C17_STALECFG": 1})
    return ctx.finish(
        level="proof",
        rule="histories of Init(config stage / configFunc / construction failure, per-mountpoint fs.Mount failure "
             "during restore) / Mount / Check / Unmount (fs call failures, unknown and OS mountpoints) / Close / "
             "manager restart on the kept bolt file, 10-60 ops over 6 mountpoints x 3 label sets, after 6 hand-written "
             "scenarios; the REAL Server (real bolt file, real service.NewFileSystem, recording fake filesystems via "
             "VerifWrapFileSystem) is compared op by op with the Lean model (result class, status, curFs, config, "
             "filesystem call log, store records, fsMap owners, live backend mounts) and the C17 predicate is "
             "evaluated on the implementation; a history is distinct by its op sequence",
        assumptions=[
            "each RPC is atomic (Init/Close hold fm.lock exclusively; concurrent RPCs on one mountpoint are not modelled)",
            "bolt transactions are atomic and an open database does not fail; records are not corrupted externally",
            "mountpoint keys are non-empty and below bolt's key size limit (storeFuseInfo errors are ignored by Mount)",
            "store invariants are claimed for a Server whose Close() has not run (Init after Close: see candidate finding)",
            "gRPC transport, real FUSE mounts and mountinfo are outside the model (mountinfo is an oracle bit)",
        ])
