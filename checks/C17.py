"""C17 — FUSE manager's persistent record equals its live mounts across re-init/restart."""
import os

# Candidate finding (see SV/Props/C17.lean `reinit_after_close_serves_unrecorded`): Close() is not
# terminal; Init on the closed Server makes it Ready again and Mount is then served without a
# store record.  Histories with Init-after-Close run in a separate pass.  While the signature is
# not listed in findings/known_findings.txt the pass reports it as CANDIDATE-FINDING (loud, in the
# evidence, exit code unaffected); once a `known:` line exists it goes through the normal
# KNOWN-FINDING path; every OTHER oracle failure or mismatch of that pass is a violation as usual.
CANDIDATE_SIG = "served-after-close-unrecorded"


def after_close_pass(ctx, binary, n):
    env = {"VERIF_N": n, "VERIF_C17_AFTERCLOSE": 1}
    if ctx.is_known(CANDIDATE_SIG):
        ctx.correspond(binary, "TestVerifC17", "svdriver_c17", "c17ac", env=env)
        return
    ops, impl, rep = ctx.run_harness(binary, "TestVerifC17", "c17ac", env=env)
    if rep.get("crashed"):
        ctx.add_violation({"kind": "harness-crash", "test": "TestVerifC17", "seed": ctx.seed, "env": env,
                           "output": rep.get("crash_output", "")}, sig="crash:TestVerifC17:afterclose")
    if not os.path.exists(ops):
        return
    model = ctx.run_driver("svdriver_c17", ops)
    nops, mism, nm = ctx.diff_streams(ops, impl, model)
    ctx.cov["evaluations"] += nops
    ctx.cov["traces_validated_against_impl"] += nops - nm
    ctx.cov["distinct_nontrivial"] += int(rep.get("distinct_nontrivial", 0))
    ctx.cov["correspondence_mismatches"] += nm
    st = ctx.cov["stats"].setdefault("c17ac", {})
    for k, v in (rep.get("stats") or {}).items():
        st[k] = st.get(k, 0) + v
    fails = rep.get("oracle_failures") or []
    cand = [f for f in fails if f["sig"] == CANDIDATE_SIG]
    other = [f for f in fails if f["sig"] != CANDIDATE_SIG]
    ctx.cov["oracle_failures"] += len(other)
    seen = set()
    for f in other:
        if f["sig"] not in seen:
            seen.add(f["sig"])
            ctx.add_violation({"kind": "oracle", "test": "TestVerifC17", "seed": ctx.seed, "env": env,
                               "failure": f, "all_failures": other[:20]}, sig=f["sig"])
    if nm and not other:
        ctx.broken.append("correspondence:c17ac")
        ctx.pending_mismatch = {"kind": "correspondence", "test": "TestVerifC17", "seed": ctx.seed, "env": env,
                                "mismatches": mism, "count": nm}
    if cand:
        what = cand[0]["what"]
        print(f"CANDIDATE-FINDING: property=C17 sig={CANDIDATE_SIG} ({len(cand)} hits) {what}", flush=True)
        ctx.notes.append(f"candidate finding {CANDIDATE_SIG}: {len(cand)} hits, e.g. {what}; history: "
                         "init <c> ok - ; close ; init <c'> ok - (returns err, status Ready) ; mount <mp> <lab> ok")
        ctx.cov["candidate_findings"] = [{"sig": CANDIDATE_SIG, "hits": len(cand), "what": what}]


def run(ctx):
    ctx.lean_obligations(["SV.Props.C17"], drivers=["svdriver_c17"])
    quick = ctx.tier == "quick"
    b = ctx.go_test_binary("fusemanager", "h_fusemanager")
    if b:
        ctx.correspond(b, "TestVerifC17", "svdriver_c17", "c17", env={"VERIF_N": 300 if quick else 4000})
        if not quick:
            for i in range(1, 4):
                ctx.correspond(b, "TestVerifC17", "svdriver_c17", f"c17s{i}",
                               env={"VERIF_N": 2000, "VERIF_SEED": int(ctx.seed) * 1000 + i})
        after_close_pass(ctx, b, 40 if quick else 600)
    return ctx.finish(
        level="proof",
        rule="histories of Init(config stage / configFunc / construction failure, per-mountpoint fs.Mount failure "
             "during restore) / Mount / Check / Unmount (fs call failures, unknown and OS mountpoints) / Close / "
             "manager restart on the kept bolt file, 10-60 ops over 6 mountpoints x 3 label sets, after 6 hand-written "
             "scenarios; the REAL Server (real bolt file, real service.NewFileSystem, recording fake filesystems via "
             "VerifWrapFileSystem) is compared op by op with the Lean model (result class, status, curFs, config, "
             "filesystem call log, store records, fsMap owners, live backend mounts) and the C17 predicate is "
             "evaluated on the implementation; a history is distinct by its op sequence",
        assumptions=[
            "each RPC is atomic (Init/Close hold fm.lock exclusively; concurrent RPCs on one mountpoint are not modelled)",
            "bolt transactions are atomic and an open database does not fail; records are not corrupted externally",
            "mountpoint keys are non-empty and below bolt's key size limit (storeFuseInfo errors are ignored by Mount)",
            "store invariants are claimed for a Server whose Close() has not run (Init after Close: see candidate finding)",
            "gRPC transport, real FUSE mounts and mountinfo are outside the model (mountinfo is an oracle bit)",
        ])
