"""C17 — FUSE manager's persistent record equals its live mounts across re-init/restart."""
import os

# Known finding `served-after-close-unrecorded` (findings/known_findings.txt; SV/Props/C17.lean
# `reinit_after_close_serves_unrecorded`): Close() is not terminal, Init on the closed Server makes it
# Ready again and a Mount is then served without a store record.  Histories with Init-after-Close
# (3 hand-written scenarios + generated ones) run in their own pass on every run, so that the main
# pass stays a clean tie.  ctx.correspond would downgrade a stream mismatch to a note as soon as ANY
# oracle failure (also a known one) is present, so this pass does the same steps itself: every oracle
# failure goes through ctx.add_violation (known signature -> KNOWN-FINDING, anything else -> VIOLATION)
# and a model/implementation mismatch is a broken tie unless an UNKNOWN failure already explains it.
def after_close_pass(ctx, binary, n):
    tag = "c17ac"
    env = {"VERIF_N": n, "VERIF_C17_AFTERCLOSE": 1}
    ops, impl, rep = ctx.run_harness(binary, "TestVerifC17", tag, env=env)
    if rep.get("crashed"):
        ctx.add_violation({"kind": "harness-crash", "test": "TestVerifC17", "seed": ctx.seed, "env": env,
                           "output": rep.get("crash_output", "")}, sig="crash:TestVerifC17:" + tag)
    if not os.path.exists(ops):
        return
    model = ctx.run_driver("svdriver_c17", ops)
    nops, mism, nm = ctx.diff_streams(ops, impl, model)
    ctx.cov["evaluations"] += nops
    ctx.cov["traces_validated_against_impl"] += nops - nm
    ctx.cov["distinct_nontrivial"] += int(rep.get("distinct_nontrivial", 0))
    ctx.cov["correspondence_mismatches"] += nm
    st = ctx.cov["stats"].setdefault(tag, {})
    for k, v in (rep.get("stats") or {}).items():
        st[k] = st.get(k, 0) + v
    fails = rep.get("oracle_failures") or []
    unknown = [f for f in fails if not ctx.is_known(f["sig"])]
    ctx.cov["oracle_failures"] += len(unknown)
    seen = set()
    for f in fails:
        if f["sig"] not in seen:
            seen.add(f["sig"])
            ctx.add_violation({"kind": "oracle", "test": "TestVerifC17", "seed": ctx.seed, "env": env,
                               "failure": f, "all_failures": (unknown or fails)[:20]}, sig=f["sig"])
    if nm and not unknown:
        ctx.broken.append("correspondence:" + tag)
        ctx.pending_mismatch = {"kind": "correspondence", "test": "TestVerifC17", "seed": ctx.seed, "env": env,
                                "mismatches": mism, "count": nm}
    elif nm:
        ctx.notes.append(f"{nm} correspondence mismatches in {tag} (oracle failures present)")


def run(ctx):
    ctx.lean_obligations(["SV.Props.C17"], drivers=["svdriver_c17"])
    quick = ctx.tier == "quick"
    b = ctx.go_test_binary("fusemanager", "h_fusemanager")
    if b:
        rep = ctx.correspond(b, "TestVerifC17", "svdriver_c17", "c17", env={"VERIF_N": 300 if quick else 4000})
        # structural tie: the model treats each RPC as atomic; the harness re-derives from the source it
        # was built against that every RPC method takes fm.lock first and releases it in a defer
        for m in ("Init", "Mount", "Check", "Unmount", "Close"):
            ctx.cov["facts_checked"] += 1
            if not (rep.get("stats") or {}).get("fact-lock-first:" + m):
                ctx.broken.append("fact:lock-first:Server." + m)
        if not quick:
            for i in range(1, 4):
                ctx.correspond(b, "TestVerifC17", "svdriver_c17", f"c17s{i}",
                               env={"VERIF_N": 2000, "VERIF_SEED": int(ctx.seed) * 1000 + i})
        after_close_pass(ctx, b, 40 if quick else 600)
        nobs = sum((st or {}).get("obs-record-config-differs-from-owner-config", 0)
                   for st in ctx.cov["stats"].values())
        if nobs:
            ctx.notes.append(
                f"observation (not a clause of C17): {nobs} new mounts were recorded with a config other than the "
                "one their serving filesystem was built from (a re-Init that failed in a configFunc/construction "
                "had already replaced fm.config; restoreFuseInfo never reads the field) -- see "
                "SV.Props.C17.failed_reinit_records_new_config_on_old_fs")
    return ctx.finish(
        level="proof",
        rule="histories of Init(config stage / configFunc / construction failure, per-mountpoint fs.Mount failure "
             "during restore) / Mount / Check / Unmount (fs call failures, unknown and OS mountpoints) / Close / "
             "manager restart on the kept bolt file (40% of re-Inits re-send the previous config byte for byte), 10-60 ops "
             "over 6 mountpoints x 3 label sets, after 7 hand-written "
             "scenarios; the REAL Server (real bolt file, real service.NewFileSystem, recording fake filesystems via "
             "VerifWrapFileSystem) is compared op by op with the Lean model (result class, status, curFs, config, "
             "filesystem call log, store records, fsMap owners, live backend mounts) and the C17 predicate is "
             "evaluated on the implementation; a history is distinct by its op sequence",
        assumptions=[
            "each RPC is atomic (Init/Close hold fm.lock exclusively; concurrent RPCs on one mountpoint are not modelled)",
            "bolt transactions are atomic and an open database does not fail; records are not corrupted externally",
            "mountpoint keys are non-empty and below bolt's key size limit (storeFuseInfo errors are ignored by Mount)",
            "store invariants are claimed for a Server whose Close() has not run (Init after Close: known finding served-after-close-unrecorded)",
            "gRPC transport, real FUSE mounts and mountinfo are outside the model (mountinfo is an oracle bit)",
        ])
