"""C17 — FUSE manager's persistent record equals its live mounts across re-init/restart."""
import os

# Known finding `served-after-close-unrecorded` (findings/known_findings.txt; SV/Props/C17.lean
# `reinit_after_close_serves_unrecorded`): Close() is not terminal, Init on the closed Server makes it
# Ready again and a Mount is then served without a store record.  Histories with Init-after-Close
# (3 hand-written scenarios + generated ones) run in their own pass on every run, so that the main
# pass stays a clean tie.  ctx.correspond would downgrade a stream mismatch to a note as soon as ANY
# oracle failure (also a known one) is present, so this pass does the same steps itself: every oracle
# failure goes through ctx.add_violation (known signature -> KNOWN-FINDING, anything else -> VIOLATION)
# and a model/implementation mismatch is a broken tie unless an UNKNOWN failure already explains it.
def after_close_pass(ctx, binary, n):
    tag = "c17ac"
    env = {"VERIF_N": n, "VERIF_C17_AFTERCLOSE": 1}
    ops, impl, rep = ctx.run_harness(binary, "TestVerifC17", tag, env=env)
    if rep.get("crashed"):
        ctx.add_violation({"kind": "harness-crash", "test": "TestVerifC17", "seed": ctx.seed, "env": env,
                           "output": rep.get("crash_output", "")}, sig="crash:TestVerifC17:" + tag)
    if not os.path.exists(ops):
        return
    model = ctx.run_driver("svdriver_c17", ops)
    nops, mism, nm = ctx.diff_streams(ops, impl, model)
    ctx.cov["evaluations"] += nops
    ctx.cov["traces_validated_against_impl"] += nops - nm
    ctx.cov["distinct_nontrivial"] += int(rep.get("distinct_nontrivial", 0))
    ctx.cov["correspondence_mismatches"] += nm
    st = ctx.cov["stats"].setdefault(tag, {})
    for k, v in (rep.get("stats") or {}).items():
        st[k] = st.get(k, 0) + v
    fails = rep.get("oracle_failures") or []
    unknown = [f for f in fails if not ctx.is_known(f["sig"])]
    ctx.cov["oracle_failures"] += len(unknown)
    seen = set()
    for f in fails:
        if f["sig"] not in seen:
            seen.add(f["sig"])
            ctx.add_violation({"kind": "oracle", "test": "TestVerifC17", "seed": ctx.seed, "env": env,
                               "failure": f, "all_failures": (unknown or fails)[:20]}, sig=f["sig"])
    if nm and not unknown:
        ctx.broken.append("correspondence:" + tag)
        ctx.pending_mismatch = {"kind": "correspondence", "test": "TestVerifC17", "seed": ctx.seed, "env": env,
                                "mismatches": mism, "count": nm}
    elif nm:
        ctx.notes.append(f"{nm} correspondence mismatches in {tag} (oracle failures present)")


def concurrent_pass(ctx, binary, tag, env):
    """Oracle-only pass (no model stream: the interleaving is not deterministic).  A data race reported by
    the race detector, a crash, or an oracle failure at a quiescent point is a concrete violation."""
    ops, impl, rep = ctx.run_harness(binary, "TestVerifC17Conc", tag, env=env, timeout=900)
    st = ctx.cov["stats"].setdefault(tag, {})
    for k, v in (rep.get("stats") or {}).items():
        st[k] = st.get(k, 0) + v
    nrpc = sum(v for k, v in (rep.get("stats") or {}).items() if k.startswith("conc-"))
    ctx.cov["evaluations"] += nrpc
    ctx.cov["distinct_nontrivial"] += int(rep.get("distinct_nontrivial", 0))
    fails = rep.get("oracle_failures") or []
    ctx.cov["oracle_failures"] += len([f for f in fails if not ctx.is_known(f["sig"])])
    seen = set()
    for f in fails:
        if f["sig"] not in seen:
            seen.add(f["sig"])
            ctx.add_violation({"kind": "oracle", "test": "TestVerifC17Conc", "seed": ctx.seed, "env": env,
                               "failure": f, "all_failures": fails[:20]}, sig=f["sig"])
    if rep.get("crashed"):
        outp = rep.get("crash_output", "")
        sig = "data-race" if ("DATA RACE" in outp or "race detected during execution" in outp) else "crash:TestVerifC17Conc"
        ctx.add_violation({"kind": "harness-crash", "test": "TestVerifC17Conc", "seed": ctx.seed, "env": env,
                           "output": outp}, sig=sig)


def run(ctx):
    ctx.lean_obligations(["SV.Props.C17"], drivers=["svdriver_c17"])
    quick = ctx.tier == "quick"
    b = ctx.go_test_binary("fusemanager", "h_fusemanager")
    if b:
        ctx.correspond(b, "TestVerifC17", "svdriver_c17", "c17", env={"VERIF_N": 300 if quick else 4000})
        if not quick:
            for i in range(1, 4):
                ctx.correspond(b, "TestVerifC17", "svdriver_c17", f"c17s{i}",
                               env={"VERIF_N": 2000, "VERIF_SEED": int(ctx.seed) * 1000 + i})
        after_close_pass(ctx, b, 40 if quick else 600)
    # The model treats every RPC as one atomic step.  That premise is OBSERVED, not read off the source:
    # a second binary built with -race runs Init / Mount / Check / Unmount / Close concurrently on the real
    # Server (incl. two overlapping Inits) and evaluates the sequential predicate at every quiescent point.
    br = ctx.go_test_binary("fusemanager", "h_fusemanager_race", race=True)
    if br:
        concurrent_pass(ctx, br, "c17conc", {"VERIF_N": 10 if quick else 60})
        if not quick:
            for i in range(1, 3):
                concurrent_pass(ctx, br, f"c17conc{i}", {"VERIF_N": 40, "VERIF_SEED": int(ctx.seed) * 1000 + i})
        nobs = sum((st or {}).get("obs-record-config-differs-from-owner-config", 0)
                   for st in ctx.cov["stats"].values())
        if nobs:
            ctx.notes.append(
                f"observation (not a clause of C17): {nobs} new mounts were recorded with a config other than the "
                "one their serving filesystem was built from (a re-Init that failed in a configFunc/construction "
                "had already replaced fm.config; restoreFuseInfo never reads the field) -- see "
                "SV.Props.C17.failed_reinit_records_new_config_on_old_fs")
    return ctx.finish(
        level="proof",
        rule="histories of Init(config stage / configFunc / construction failure, per-mountpoint fs.Mount failure "
             "during restore) / Mount / Check / Unmount (fs call failures, unknown and OS mountpoints) / Close / "
             "manager restart on the kept bolt file (40% of re-Inits re-send the previous config byte for byte), 10-60 ops "
             "over 6 mountpoints x 3 label sets, after 7 hand-written "
             "scenarios; the REAL Server (real bolt file, real service.NewFileSystem, recording fake filesystems via "
             "VerifWrapFileSystem) is compared op by op with the Lean model (result class, status, curFs, config, "
             "filesystem call log, store records, fsMap owners, live backend mounts) and the C17 predicate is "
             "evaluated on the implementation; a history is distinct by its op sequence; plus a concurrent pass under the "
             "race detector (2 clients with disjoint mountpoints x free-running Inits, two overlapping Inits, Close "
             "against running clients) with the same predicate at each quiescent point",
        assumptions=[
            "each RPC is atomic w.r.t. the manager's state (observed each run by the concurrent -race pass, not "
            "derived from the source text); concurrent RPCs on ONE mountpoint are not modelled",
            "bolt transactions are atomic and an open database does not fail; records are not corrupted externally",
            "mountpoint keys are non-empty and below bolt's key size limit (storeFuseInfo errors are ignored by Mount)",
            "store invariants are claimed for a Server whose Close() has not run (Init after Close: known finding served-after-close-unrecorded)",
            "gRPC transport, real FUSE mounts and mountinfo are outside the model (mountinfo is an oracle bit)",
        ])
