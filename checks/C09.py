"""C09 — after a crash at any point the snapshotter restarts consistent and re-mounted."""
import os


def _env(extra):
    e = dict(extra)
    if os.path.isdir("/dev/shm") and os.access("/dev/shm", os.W_OK):
        e["TMPDIR"] = "/dev/shm"
    return e


def run(ctx):
    ctx.lean_obligations(["SV.Props.C09"], drivers=["svdriver_c09"])
    quick = ctx.tier == "quick"
    b = ctx.go_test_binary("snapshot", "h_snapshot", only=["c08", "c09"])
    extra = {"kernel_mount_stream_ran": False}
    if b:
        rep = ctx.correspond(b, "TestVerifC09", "svdriver_c09", "c09",
                             env=_env({"VERIF_N": 60 if quick else 1500,
                                       "VERIF_IMG_PERMILLE": 120 if quick else 150}),
                             timeout=1500 if quick else 3300)
        st = (rep or {}).get("stats") or {}
        extra = {"kernel_mount_stream_ran": bool(st.get("kmount/stream-ran")),
                 "kernel_mount_experiments": int(st.get("kmount/experiments", 0))}
        if not extra["kernel_mount_stream_ran"]:
            ctx.notes.append("leftover-kernel-mount stream skipped (needs root with CAP_SYS_ADMIN)")
    # end-to-end restart pass over the REAL stack: service.NewStargzSnapshotterService (service.go wiring), the
    # real stargz filesystem, kernel FUSE mounts, layers on the in-memory registry; oracle only
    bs = ctx.go_test_binary("service", "h_service", only=["c09"])
    if bs:
        rep2 = ctx.correspond(bs, "TestVerifC09Service", "svdriver_c09", "c09svc",
                              env=_env({"VERIF_N": 0 if quick else 6}), timeout=600 if quick else 1800)
        st2 = (rep2 or {}).get("stats") or {}
        extra["service_restart_pass_ran"] = bool(st2.get("scenario/kill")) and not st2.get("fuse-unavailable")
        if st2.get("fuse-unavailable"):
            ctx.notes.append("fuse-unavailable: the end-to-end service restart pass (TestVerifC09Service) was skipped")
    return ctx.finish(
        extra=extra,
        level="proof",
        rule="histories of the C08 generator run with the crash-point hook armed: the root directory is copied when "
             "a marker fires (every firing in the 4 scripted scenarios, a seeded sample in the random histories; 13 "
             "marker kinds incl. those inside restore, cleanup and Close); on each image a fresh snapshotter with a "
             "fresh recording backend is started 2-3 times (allow-invalid / no-restore / async settings, Mount "
             "failure patterns none/some/all), optionally a Prepare before the cleanup, then Cleanup, Mounts of every "
             "active/view snapshot, removal of everything; all of it is compared impl-vs-model (the model replays "
             "the same call prefix) and the C09 clauses are evaluated on the implementation; an image experiment is "
             "distinct by (marker, settings, failure pattern, #snapshots, #backend calls).  Leftover kernel mounts "
             "(as root): on ~60% of the restoring starts real bind mounts of a scratch directory are planted on the "
             "image before the start - on the fs directory of committed remote snapshots, of the unlabelled active "
             "snapshot of the Prepare in flight, of orphan/uncommitted ids and of temporaries; oracle: no mountpoint "
             "is left below <image>/snapshots after the start, everything stays removable, and the content behind "
             "the planted mount survives (RemoveAll must not descend through a stale mount).  End-to-end (root + "
             "/dev/fuse): service.NewStargzSnapshotterService over the real stargz filesystem with kernel FUSE mounts and "
             "two eStargz layers on an in-memory registry; scenarios kill (mounts lazily detached, nothing closed), "
             "close, registry-down (strict start must refuse or hand out nothing, allow_invalid_mounts_on_restart "
             "start must succeed and Mounts stay unavailable); after each restart Walk/Mounts/mountinfo and byte-exact "
             "kernel reads (half of the files were never read before), then Remove + Cleanup with listing and "
             "mount-table checks",
        assumptions=[
            "a crash exposes a prefix of the atomic steps of the call in flight: mkdir/rename/RemoveAll are atomic and "
            "bolt transactions are all-or-nothing (the image holds the last committed transaction: bolt writes pages "
            "only inside Tx.Commit and no marker sits inside a Commit; observed on the images)",
            "leftover kernel mounts of the dead process are outside the Lean model (it has no kernel mount table); the "
            "force-unmount loop of restore is exercised on the implementation only (bind mounts planted on the "
            "crash images, root only)",
            "sequential semantics: one call in flight at the crash",
            "NoRestore on a dead backend leaves remote snapshots unmounted by design; for those starts only "
            "'restore is the identity' and 'cleanup leaves nothing but live snapshots' are claimed",
        ])
