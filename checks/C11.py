"""C11 — a chunk-cache hit returns exactly the bytes committed under that key (cache/cache.go)."""
import os
import re

import vlib


def _ordered(ctx, rel, name, start, needles, stop=None):
    """Structural tie: inside the source text that follows `start` (up to `stop`), the `needles`
    (regexes) occur in this order.  Regenerated from the current sources on every run."""
    try:
        src = open(os.path.join(vlib.REPO, rel)).read()
    except OSError:
        ctx.broken.append(f"fact:missing:{rel}")
        return
    m = re.search(start, src)
    if not m:
        ctx.broken.append(f"fact:{name}:anchor")
        return
    body = src[m.end():]
    if stop:
        e = re.search(stop, body)
        if e:
            body = body[:e.start()]
    pos = 0
    for n in needles:
        mm = re.compile(n).search(body, pos)
        if not mm:
            ctx.broken.append(f"fact:{name}:{n[:40]}")
            return
        pos = mm.end()
    ctx.cov["facts_checked"] += 1


def _facts(ctx):
    # the step granularity of the model: every LRUCache method and done closure is one critical section
    heads = [r"func \(c \*LRUCache\) Get\(key string\) \(.*\) \{", r"func \(c \*LRUCache\) Add\(key string, value any\) \(.*\) \{",
             r"return func\(\) \{"]
    for h in heads:
        _ordered(ctx, "util/cacheutil/lrucache.go", "lock-first:" + h[:30], h,
                 [r"\A\s*\n?\s*c\.mu\.Lock\(\)\s*\n\s*defer c\.mu\.Unlock\(\)"])
    # refCounter.dec fires the callback only at zero
    _ordered(ctx, "util/cacheutil/lrucache.go", "dec", r"func \(r \*refCounter\) dec\(\) \{",
             [r"r\.refCounts--", r"if r\.refCounts <= 0 && r\.onEvicted != nil", r"r\.onEvicted\(r\.key, r\.v\)"], stop=r"\n}\n")
    c = "cache/cache.go"
    # OnEvicted callbacks
    _ordered(ctx, c, "evict-buf", r"dataCache\.OnEvicted = func\(key string, value any\) \{",
             [r"value\.\(\*bytes\.Buffer\)\.Reset\(\)", r"bufPool\.Put\(value\)"], stop=r"\n\t\t}\n")
    _ordered(ctx, c, "evict-fd", r"fdCache\.OnEvicted = func\(key string, value any\) \{",
             [r"value\.\(\*os\.File\)\.Close\(\)"], stop=r"\n\t\t}\n")
    # Get: memory LRU, descriptor LRU, os.Open(cachePath); the opened file enters the descriptor LRU on Close
    _ordered(ctx, c, "get", r"func \(dc \*directoryCache\) Get\(",
             [r"if !dc\.direct && !opt\.direct \{", r"dc\.cache\.Get\(key\)", r"bytes\.NewReader\(b\.\(\*bytes\.Buffer\)\.Bytes\(\)\)",
              r"done\(\)", r"dc\.fileCache\.Get\(key\)", r"done\(\)", r"os\.Open\(dc\.cachePath\(key\)\)",
              r"if dc\.direct \|\| opt\.direct \{", r"return file\.Close\(\)",
              r"_, done, added := dc\.fileCache\.Add\(key, file\)", r"defer done\(\)", r"if !added \{", r"return file\.Close\(\)"],
             stop=r"\nfunc \(dc \*directoryCache\) Add\(")
    # Add: wip file; file writer commit = ... rename last; abort = remove wip;
    # memory writer commit = cache.Add, putBuffer if !added, then (deferred done, Close) Write cached bytes,
    # check, Commit; abort = putBuffer + w.Abort + w.Close
    _ordered(ctx, c, "add", r"func \(dc \*directoryCache\) Add\(",
             [r"wip, err := dc\.wipFile\(key\)", r"commitFunc: func\(\) error \{", r"c := dc\.cachePath\(key\)",
              r"return os\.Rename\(wip\.Name\(\), c\)", r"abortFunc: func\(\) error \{", r"return os\.Remove\(wip\.Name\(\)\)",
              r"if dc\.direct \|\| opt\.direct \{\s*\n\s*return w, nil", r"b := dc\.bufPool\.Get\(\)\.\(\*bytes\.Buffer\)",
              r"WriteCloser: nopWriteCloser\(io\.Writer\(b\)\)",
              r"cached, done, added := dc\.cache\.Add\(key, b\)", r"if !added \{\s*\n\s*dc\.putBuffer\(b\)",
              r"commit := func\(\) error \{", r"defer done\(\)", r"defer w\.Close\(\)",
              r"n, err := w\.Write\(cached\.\(\*bytes\.Buffer\)\.Bytes\(\)\)",
              r"if err != nil \|\| n != cached\.\(\*bytes\.Buffer\)\.Len\(\) \{\s*\n\s*w\.Abort\(\)\s*\n\s*return err",
              r"return w\.Commit\(\)", r"if dc\.syncAdd \{\s*\n\s*return commit\(\)", r"go func\(\) \{",
              r"abortFunc: func\(\) error \{", r"defer w\.Close\(\)", r"defer w\.Abort\(\)", r"dc\.putBuffer\(b\)"],
             stop=r"\nfunc \(dc \*directoryCache\) putBuffer\(")
    _ordered(ctx, c, "putBuffer", r"func \(dc \*directoryCache\) putBuffer\(b \*bytes\.Buffer\) \{",
             [r"b\.Reset\(\)", r"dc\.bufPool\.Put\(b\)"], stop=r"\n}\n")
    _ordered(ctx, c, "wip", r"func \(dc \*directoryCache\) wipFile\(",
             [r"os\.CreateTemp\(dc\.wipDirectory, key\+\"-\*\"\)"], stop=r"\n}\n")
    _ordered(ctx, c, "memcache", r"func \(mc \*MemoryCache\) Get\(",
             [r"mc\.mu\.Lock\(\)", r"b, ok := mc\.Membuf\[key\]", r"bytes\.NewReader\(b\.Bytes\(\)\)",
              r"func \(mc \*MemoryCache\) Add\(", r"b := new\(bytes\.Buffer\)", r"mc\.mu\.Lock\(\)", r"mc\.Membuf\[key\] = b"],
             stop=r"\nfunc \(mc \*MemoryCache\) Close\(")


def _race(ctx, br, env):
    """Oracle-only stress under the Go race detector: supporting evidence for what the step model cannot
    express (memory-level aliasing of recycled buffers)."""
    ops, impl, rep = ctx.run_harness(br, "TestVerifC11", "c11race", env=env, timeout=1700)
    out = rep.get("crash_output", "")
    if rep.get("crashed"):
        race = "DATA RACE" in out or "race detected" in out
        ctx.add_violation({"kind": "race" if race else "harness-crash", "test": "TestVerifC11 (-race)",
                           "seed": ctx.seed, "env": env, "output": out},
                          sig="race-detected" if race else "crash:TestVerifC11-race")
    fails = rep.get("oracle_failures") or []
    ctx.cov["oracle_failures"] += len(fails)
    seen = set()
    for f in fails:
        if f["sig"] in seen:
            continue
        seen.add(f["sig"])
        ctx.add_violation({"kind": "oracle", "test": "TestVerifC11 (-race)", "seed": ctx.seed, "env": env,
                           "failure": f, "all_failures": fails[:20]}, sig=f["sig"])
    st = ctx.cov["stats"].setdefault("c11race", {})
    for k, v in (rep.get("stats") or {}).items():
        st[k] = st.get(k, 0) + v
    ctx.cov["distinct_nontrivial"] += int(rep.get("distinct_nontrivial", 0))
    ctx.cov["race_detector_run"] = not rep.get("crashed", False)


def run(ctx):
    ctx.lean_obligations(["SV.Props.C11"], drivers=["svdriver_c11"])
    quick = ctx.tier == "quick"
    _facts(ctx)
    b = ctx.go_test_binary("cache", "h_cache")
    if b:
        ctx.correspond(b, "TestVerifC11", "svdriver_c11", "c11",
                       env={"VERIF_MODE": "both", "VERIF_N": 600 if quick else 8000,
                            "VERIF_ROUNDS": 10 if quick else 40, "VERIF_ITERS": 250 if quick else 400})
    if not quick:
        br = ctx.go_test_binary("cache", "h_cache_race", race=True)
        if br:
            _race(ctx, br, {"VERIF_MODE": "conc", "VERIF_ROUNDS": 20, "VERIF_ITERS": 300})
    return ctx.finish(
        level="proof",
        rule="sequential: 9 scripted edge histories (reader held across eviction, buffer recycling and re-add; "
             "duplicate adds while cached / after eviction / two open writers of one key; zero-length values, aborts, "
             "close-without-commit, commit-after-close; Direct/PassThrough mixes and Direct config; a Commit whose disk "
             "write fails (RLIMIT_FSIZE=0) so the value lives in memory only; default capacities with 12 keys), each for "
             "the directory cache and where applicable the memory cache, then random histories of 15-75 whole API calls "
             "(Add / Write in pieces / Commit / failing Commit / Abort / Close, Get / ReadAt at offsets / Close) over "
             "max(memcap,fdcap)+1..3 keys with caps 1-3 and SyncAdd=true, values self-describing (key, writer id, "
             "position); a history is distinct by (configuration, sequence of op kinds and outcomes); every call is "
             "compared impl-vs-model (hit/miss, full value on every hit, every slice read, Commit result) and the oracle "
             "checks each hit against the values whose Commit was called under that key and each later read against the "
             "first full read.  concurrent (oracle only): rounds of 6-12 goroutines x 250-400 operations over 3-6 keys "
             "(half of the traffic on one hot key), LRU caps 1-2, background persistence (SyncAdd=false in 3/4 of the "
             "rounds), Direct 0-40%, values up to 256 KiB, readers held across evictions and re-read"
             + ("" if quick else "; the same stress additionally under the Go race detector"),
        assumptions=[
            "granularity: every LRUCache method / done closure is one critical section (lock-first shape re-checked on the "
            "sources each run); open, rename, unlink are atomic in the OS; code that touches only objects private to one "
            "goroutine (a writer's buffer and wip file before Commit) is one step.  Theorems quantify over ALL sequences "
            "of such steps = all interleavings at this granularity",
            "API protocol (followed by every caller in /repo): on a writer Write* then exactly one of Commit/Abort, no "
            "Write after them; on a reader no ReadAt after Close, Close once.  Outside it the cache is not safe "
            "(a second Commit of one writer would Reset the buffer it published)",
            "memory-level aliasing is outside the model: that a bytes.Reader over Buffer.Bytes() keeps showing the same "
            "bytes relies on nobody touching a buffer that is not in the pool (proved: a pooled buffer is unreferenced) "
            "and on Go's memory model; recycling races are looked for by the stress + race detector only",
            "sync.Pool may hand out any pooled buffer or a new one (modelled as a nondeterministic choice); a failing "
            "disk write is modelled as 'n bytes then error'; cache Close()/RemoveAll and MkdirAll failures, page-cache "
            "advice (FadvDontNeed) and rename atomicity of the file system are outside the model",
            "PassThrough() is recorded but never read by cache.go (no effect), mirrored as such",
        ])
