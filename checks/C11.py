"""C11 — a chunk-cache hit returns exactly the bytes committed under that key (cache/cache.go)."""


def _race(ctx, br, env):
    """Oracle-only stress under the Go race detector: supporting evidence for what the step model cannot
    express (memory-level aliasing of recycled buffers)."""
    ops, impl, rep = ctx.run_harness(br, "TestVerifC11", "c11race", env=env, timeout=1700)
    out = rep.get("crash_output", "")
    if rep.get("crashed"):
        race = "DATA RACE" in out or "race detected" in out
        ctx.add_violation({"kind": "race" if race else "harness-crash", "test": "TestVerifC11 (-race)",
                           "seed": ctx.seed, "env": env, "output": out},
                          sig="race-detected" if race else "crash:TestVerifC11-race")
    fails = rep.get("oracle_failures") or []
    ctx.cov["oracle_failures"] += len(fails)
    seen = set()
    for f in fails:
        if f["sig"] in seen:
            continue
        seen.add(f["sig"])
        ctx.add_violation({"kind": "oracle", "test": "TestVerifC11 (-race)", "seed": ctx.seed, "env": env,
                           "failure": f, "all_failures": fails[:20]}, sig=f["sig"])
    st = ctx.cov["stats"].setdefault("c11race", {})
    for k, v in (rep.get("stats") or {}).items():
        st[k] = st.get(k, 0) + v
    ctx.cov["distinct_nontrivial"] += int(rep.get("distinct_nontrivial", 0))
    ctx.cov["race_detector_run"] = not rep.get("crashed", False)


def run(ctx):
    ctx.lean_obligations(["SV.Props.C11"], drivers=["svdriver_c11"])
    quick = ctx.tier == "quick"
    b = ctx.go_test_binary("cache", "h_cache")
    if b:
        ctx.correspond(b, "TestVerifC11", "svdriver_c11", "c11",
                       env={"VERIF_MODE": "both", "VERIF_N": 600 if quick else 8000,
                            "VERIF_ROUNDS": 10 if quick else 40, "VERIF_ITERS": 250 if quick else 400})
    # No textual pin on the sources: what the model assumes about locking (every LRU operation is one
    # critical section, the MemoryCache map is only touched under its mutex) is looked for dynamically, by the
    # same stress under the Go race detector -- a short run in the quick tier, a long one in the thorough tier.
    br = ctx.go_test_binary("cache", "h_cache_race", race=True)
    if br:
        _race(ctx, br, {"VERIF_MODE": "conc", "VERIF_ROUNDS": 4 if quick else 20,
                        "VERIF_ITERS": 150 if quick else 300})
    return ctx.finish(
        level="proof",
        rule="sequential: 12 scripted edge histories (reader held across eviction, buffer recycling and re-add; "
             "duplicate adds while cached / after eviction / two open writers of one key; zero-length values, aborts, "
             "close-without-commit, commit-after-close; Direct/PassThrough mixes and Direct config; a Commit whose disk "
             "write fails (RLIMIT_FSIZE=0) so the value lives in memory only; default capacities with 12 keys; overlapping writers of one key writing straight to their wip files under "
             "the Direct option and the Direct configuration; a writer aborted with data in its buffer followed by a "
             "writer that gets that buffer), each for "
             "the directory cache and where applicable the memory cache, then random histories of 15-75 whole API calls "
             "(Add / Write in pieces / Commit / failing Commit / Abort / Close, Get / ReadAt at offsets / Close) over "
             "max(memcap,fdcap)+1..3 keys with caps 1-3 and SyncAdd=true, values self-describing (key, writer id, "
             "position); a history is distinct by (configuration, sequence of op kinds and outcomes); every call is "
             "compared impl-vs-model (hit/miss, full value on every hit, every slice read, Commit result) and the oracle "
             "checks each hit against the values whose Commit was called under that key and each later read against the "
             "first full read.  concurrent (oracle only): rounds of 6-12 goroutines x 250-400 operations over 3-6 keys "
             "(half of the traffic on one hot key), LRU caps 1-2, background persistence (SyncAdd=false in 3/4 of the "
             "rounds), Direct 0-40%, values up to 256 KiB, readers held across evictions and re-read.  use-after-recycle "
             "poisoning (both parts): the cache gets the harness's own sync.Pool (DirectoryCacheConfig.BufPool) and the "
             "harness keeps overwriting the unused backing array of every POOLED buffer with 0xDB, so a reader that still "
             "looks at a recycled buffer sees it at once.  The same stress also runs under the Go race detector ("
             + ("4 rounds" if quick else "20 rounds") + ")",
        assumptions=[
            "granularity: every LRUCache operation (Get, Add, the effective call of a done closure incl. OnEvicted) is one "
            "critical section -- not pinned on the source text; unsynchronised access would show up in the race-detector "
            "stress; open, rename, unlink are atomic in the OS; code that touches only objects private to one "
            "goroutine (a writer's buffer and wip file before Commit) is one step.  Theorems quantify over ALL sequences "
            "of such steps = all interleavings at this granularity",
            "API protocol (followed by every caller in /repo): on a writer Write* then exactly one of Commit/Abort, no "
            "Write after them; on a reader no ReadAt after Close, Close once.  Outside it the cache is not safe "
            "(a second Commit of one writer would Reset the buffer it published)",
            "memory-level aliasing is outside the model: that a bytes.Reader over Buffer.Bytes() keeps showing the same "
            "bytes relies on nobody touching a buffer that is not in the pool (proved: a pooled buffer is unreferenced) "
            "and on Go's memory model; recycling races are looked for by the stress + race detector only",
            "sync.Pool may hand out any pooled buffer or a new one (modelled as a nondeterministic choice); a failing "
            "disk write is modelled as 'n bytes then error'; cache Close()/RemoveAll and MkdirAll failures, page-cache "
            "advice (FadvDontNeed) and rename atomicity of the file system are outside the model",
            "PassThrough() is recorded but never read by cache.go (no effect), mirrored as such",
        ])
