"""C05 — memory and db metadata stores expose the same filesystem for the same blob."""


def run(ctx):
    ctx.lean_obligations(["SV.Props.C05", "SV.Props.C05x"], drivers=["svdriver_c05"])
    quick = ctx.tier == "quick"
    b = ctx.go_test_binary("containerd-stargz-grpc/db", "h_db", module_dir="cmd")
    if b:
        # main pass: strict (regression inputs, conforming / builder / non-conforming layers)
        ctx.correspond(b, "TestVerifC05", "svdriver_c05", "c05",
                       env={"VERIF_N": 120 if quick else 1500}, timeout=1700)
        # separate pass: inputs of the known findings (each carries its signature) and evidence notes
        ctx.correspond(b, "TestVerifC05Known", "svdriver_c05", "c05known",
                       env={"VERIF_N": 25 if quick else 300}, timeout=900)
    return ctx.finish(
        level="proof",
        rule="one case = one layer (TOC + blob) opened by memory.NewReader and db.NewReader in a shared bolt "
             "file (1-4 layers per session, closed in random order with re-dumps of the survivors); "
             "layers are distinct by (source: real builder under random chunk-size/min-chunk-size/"
             "compression/prioritized-files options, or hand-serialised TOC around real payload; feature set: "
             "implicit dirs, repeated dirs, hardlink chains, missing digests, ./ ../ spellings, empty xattrs, "
             "inner-offset streams, TOC trailing bytes; stream: conforming / candidate / non-conforming); every "
             "metadata.Reader answer of both stores is compared with its Lean interpreter line by line and "
             "the two implementations are compared with each other by the oracle; conforming layers are "
             "additionally checked to satisfy the model's decidable SpecConforming predicate (op `spec`)",
        assumptions=[
            "JSON decoding (encoding/json vs goccy/go-json), gzip/zstd/tar codecs, SHA-256 and bolt transactions "
            "are outside the model (validated by the correspondence, not modelled)",
            "numeric node ids are abstracted to the TOC entry / implicit directory that created the node "
            "(ids never survive canonicalisation; uint32 overflow of the id counter is not modelled)",
            "file bytes are compared by the oracle only (mem vs db vs source), not by the model",
        ])
