"""C13 — background tasks yield to prioritized work, stay bounded, never self-overlap."""
import os


def run(ctx):
    ctx.lean_obligations(["SV.Props.C13"], drivers=["svdriver_c13"])
    quick = ctx.tier == "quick"
    # how long a cancelled "stubborn" body stays alive while the oracle watches for a retry / return / hand-over
    hold = os.environ.get("VERIF_C13_HOLD_MS") or (2500 if quick else 15000)
    b = ctx.go_test_binary("task", "h_task")
    if b:
        ctx.correspond(b, "TestVerifC13", "svdriver_c13", "c13",
                       env={"VERIF_N": 500 if quick else 12000, "VERIF_C13_HOLD_MS": hold}, timeout=600 if quick else 3000)
    if not quick:
        # supporting evidence only: the same harness under the race detector (a reported race makes the
        # test binary exit non-zero, which the framework treats as a harness crash = violation)
        br = ctx.go_test_binary("task", "h_task_race", race=True)
        if br:
            ctx.correspond(br, "TestVerifC13", "svdriver_c13", "c13race", env={"VERIF_N": 1500, "VERIF_C13_HOLD_MS": hold}, timeout=3000)
    return ctx.finish(
        level="proof",
        rule="the real BackgroundTaskManager is run on 3 stubborn-body scenarios (a cancelled body stays alive for "
             "VERIF_C13_HOLD_MS while prioritized work has ended; any retry, return or slot hand-over during the hold is a "
             "violation), 7 hand-written and N random scenarios (capacity 1-3, silence "
             "period 0-3 ms, 1-5 concurrent InvokeBackgroundTask calls whose bodies are instant / obedient / late-reacting / "
             "deaf to ctx / spinning / long-running, 0-3 goroutines doing 1-4 prioritized begin/end pairs, GOMAXPROCS "
             "1/2/4/all); the linearised hook trace of every scenario is fed to the Lean trace acceptor (each event must be an "
             "enabled transition of the proved model, invariants evaluated on every state); independently the harness's own "
             "instrumentation inside the bodies checks self-overlap, alive-at-return, over-cap, start-while-prio, "
             "start-in-silence, not-cancelled, no-progress; a scenario is distinct/non-trivial when its trace is new and "
             "contains a cancellation or a back-off",
        assumptions=[
            "atomic steps of the model = the critical sections / atomic operations of task.go; interleavings inside them "
            "and the Go scheduler itself are outside the model (real goroutine schedules are only sampled by the harness)",
            "liveness (progress) is proved under an explicit fairness assumption: no further DoPrioritizedTask, every "
            "prioritized task ends, the delayed decrement runs, wake-ups are delivered, every body returns",
            "the hook order is trusted as described in lean/SV/Driver/C13.lean (events under prioritizedTaskStartNotifyMu "
            "are totally ordered; prio.silence_end is logged before the decrement; bg.pass_wait after its read)",
            "wall-clock silence period is an event of the model (silenceElapsed); only `Sleep never returns early` is used",
        ])
