"""C01 — verified layers never return bytes that do not match the TOC-pinned digests."""


def run(ctx):
    ctx.lean_obligations(["SV.Props.C01", "SV.Props.C01x"], drivers=["svdriver_c01"])
    quick = ctx.tier == "quick"
    # reader level: VerifiableReader / reader over the memory metadata store (in-package), memory +
    # directory chunk caches, corrupting blob source, prefetch racing with VerifyTOC (goroutines)
    b = ctx.go_test_binary("fs/reader", "h_reader")
    if b:
        ctx.correspond(b, "TestVerifC01", "svdriver_c01", "c01reader",
                       env={"VERIF_N": 45 if quick else 1200, "VERIF_RACES": 25 if quick else 800},
                       timeout=600 if quick else 3000)
        # window stream: the real directory cache with a small memory / descriptor LRU; a second file
        # handle caches more chunks than the LRU holds inside the window between cache.Get / cache.Add
        # and the use of the Reader / Writer they returned (forced by a hook wrapper, no timing)
        ctx.correspond(b, "TestVerifC01Window", "svdriver_c01", "c01window",
                       env={"VERIF_N": 24 if quick else 600}, timeout=600 if quick else 3000)
    # layer level: orders of Verify / SkipVerify requests reaching one real layer object, reads
    # through the node API
    b = ctx.go_test_binary("fs/layer", "h_layer")
    if b:
        ctx.correspond(b, "TestVerifC01Layer", "svdriver_c01", "c01layer",
                       env={"VERIF_N": 35 if quick else 800}, timeout=600 if quick else 3000)
    # filesystem level: the ladder of the real filesystem.Mount over the real layer.Resolver
    b = ctx.go_test_binary("fs", "h_fs")
    if b:
        ctx.correspond(b, "TestVerifC01Mount", "svdriver_c01", "c01mount",
                       env={"VERIF_N": 20 if quick else 500}, timeout=600 if quick else 3000)
    # the db (bbolt) metadata store under the same reader-level scenarios
    b = ctx.go_test_binary("containerd-stargz-grpc/db", "h_db", module_dir="cmd")
    if b:
        ctx.correspond(b, "TestVerifC01DB", "svdriver_c01", "c01db",
                       env={"VERIF_N": 12 if quick else 350, "VERIF_RACES": 6 if quick else 150},
                       timeout=600 if quick else 3000)
    return ctx.finish(
        level="proof",
        rule="one case = (level: reader/layer/mount, metadata store, compression, chunk size, min-chunk size, chunk "
             "cache kind, view served at open time, alteration kinds, shape of the op sequence incl. the outcome of "
             "each race); every op is compared impl-vs-model and the property predicates (digest actually hashed, "
             "bytes returned vs source tar / TOC-pinned payload, bytes left in the chunk cache) are evaluated on the "
             "implementation",
        assumptions=[
            "H = SHA-256 and the gzip/zstd/tar/JSON decoders are parameters of the model (trusted); all claims are "
            "digest equalities, no collision assumption",
            "the critical sections of VerifyTOC and readAndCache under prohibitVerifyFailureMu are atomic (RW lock): "
            "schedules = interleavings of prefetchBegin / prefetchCommit / layerVerify steps",
            "layer.Verify / layer.SkipVerify calls reaching one layer object are serialised (layer.r / layer.verified "
            "are not guarded by a lock)",
            "the chunk cache returns what was committed under a key (C11)",
            "byte-level theorems conclude Pinned H parse D (bytes hash to a chunk digest recorded by SOME TOC hashing "
            "to D): full strength, no collision assumption; the form 'digest recorded in the TOC of this layer object' "
            "(reads_verified_same_toc) additionally needs: TOC bytes with the layer's TOC digest record the same chunk "
            "digests (SHA-256 collision-freeness on TOCs; only the memory store's Clone in Cache(WithReader) needs it)",
        ])
