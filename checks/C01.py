"""C01 — verified layers never return bytes that do not match the TOC-pinned digests."""


def run(ctx):
    ctx.lean_obligations(["SV.Props.C01"], drivers=["svdriver_c01"])
    quick = ctx.tier == "quick"
    # reader level: VerifiableReader / reader over the memory metadata store
    b = ctx.go_test_binary("fs/reader", "h_reader")
    if b:
        ctx.correspond(b, "TestVerifC01", "svdriver_c01", "c01reader",
                       env={"VERIF_N": 90 if quick else 2500, "VERIF_RACES": 40 if quick else 1500},
                       timeout=600 if quick else 3000)
    return ctx.finish(
        level="proof",
        rule="one case = (compression, chunk size, min-chunk size, metadata store, chunk cache kind, view at open "
             "time, alteration kinds, shape of the op sequence); every op is compared impl-vs-model and the "
             "property predicates (digest actually hashed, bytes returned, bytes cached) are evaluated on the "
             "implementation",
        assumptions=[
            "H = SHA-256 and the gzip/zstd/tar/JSON decoders are parameters of the model (trusted); all claims are digest equalities",
            "the critical sections of VerifyTOC and readAndCache under prohibitVerifyFailureMu are atomic (RW lock); "
            "schedules = interleavings of prefetchBegin / prefetchCommit / layerVerify steps",
            "layer.Verify / layer.SkipVerify calls reaching one layer object are serialised (the layer has no lock of its own)",
            "the chunk cache returns what was committed under a key (C11)",
        ])
