"""C18 — registry credentials and custom headers reach only their own image and host."""


def run(ctx):
    ctx.lean_obligations(["SV.Props.C18", "SV.Props.C18x"], drivers=["svdriver_c18"])
    quick = ctx.tier == "quick"
    seeds = [None] if quick else [None, ctx.seed * 7919 + 1, ctx.seed * 7919 + 2]

    def env(n, s):
        e = {"VERIF_N": n}
        if s is not None:
            e["VERIF_SEED"] = s
        return e

    b = ctx.go_test_binary("service/keychain/cri", "h_cri")
    if b:
        for i, s in enumerate(seeds):
            ctx.correspond(b, "TestVerifC18Keychain", "svdriver_c18", f"c18k{i}", env=env(200 if quick else 4000, s))
        # credential queries IN FLIGHT (window widened by a large valid base64 auth) while the same
        # reference is removed / pulled again, then queried sequentially once everything returned:
        # real-time-order oracle (timing-independent) + the linearised history through the model
        ctx.correspond(b, "TestVerifC18KeychainInflight", "svdriver_c18", "c18kfly", env={"VERIF_N": 3 if quick else 12})
    # concurrent pull / remove / query under the race detector: replaces any assumption about how
    # the keychain locks its map by an observation (a reported data race fails the run = violation
    # whose replay holds the detector's report with both goroutine stacks)
    br = ctx.go_test_binary("service/keychain/cri", "h_cri_race", race=True)
    if br:
        ctx.correspond(br, "TestVerifC18KeychainConc", "svdriver_c18", "c18kconc", env={"VERIF_N": 20 if quick else 300})
    # service/resolver: the file zz_verif_c18u names the unexported multiCredsFuncs.  When it no
    # longer compiles (a rename is not a property violation) build without it; the same predicate is
    # evaluated through the public wiring (mcb lines of TestVerifC18Resolver) in both cases.
    nbroken = len(ctx.broken)
    b = ctx.go_test_binary("service/resolver", "h_resolver")
    direct = b is not None
    if not b:
        del ctx.broken[nbroken:]
        ctx.notes.append("multiCredsFuncs not reachable by name; multi-credential predicate evaluated through "
                         "RegistryHostsFromConfig + docker authorizer only")
        b = ctx.go_test_binary("service/resolver", "h_resolver", only=["c18p"])
    if b:
        for i, s in enumerate(seeds):
            ctx.correspond(b, "TestVerifC18Resolver", "svdriver_c18", f"c18r{i}", env=env(1500 if quick else 40000, s))
            if direct:
                ctx.correspond(b, "TestVerifC18MultiCreds", "svdriver_c18", f"c18m{i}", env=env(1500 if quick else 40000, s))
    b = ctx.go_test_binary("fs/remote", "h_remote")
    if b:
        for i, s in enumerate(seeds):
            ctx.correspond(b, "TestVerifC18Headers", "svdriver_c18", f"c18h{i}", env=env(300 if quick else 6000, s))
        # labelled stream: the counterexample of `headers_only_to_registry_host_concurrent_fails`
        # replayed on the implementation (two goroutines sharing one fetcher)
        ctx.correspond(b, "TestVerifC18Race", "svdriver_c18", "c18race", env={"VERIF_N": 5})
    # overlapping ReadAt / Cache / Check / Refresh on one blob while redirect URLs expire, under the
    # race detector: observes the atomicity of the fetcher's (url, header) pair instead of assuming it
    br = ctx.go_test_binary("fs/remote", "h_remote_race", race=True)
    if br:
        ctx.correspond(br, "TestVerifC18HeadersConc", "svdriver_c18", "c18hconc", env={"VERIF_N": 6 if quick else 60})
    return ctx.finish(
        level="proof",
        rule="keychain: every name of the grammar domain(10) x path(6) x tag(5) x digest(2) + malformed names is "
             "normalised by the real parseReference and by the model; 2 scripted + N random histories of "
             "connect/PullImage/RemoveImage/credentials over 2-5 images (shared repositories, alias spellings of one "
             "reference), 20 auth forms, 16 server-address spellings, backend failures, requests before the backend is "
             "connected; a history is distinct by its op-kind sequence and number of references; "
             "in-flight stream: 9 scenarios (remove, newer pull with token / anonymous / other server address, "
             "remove-then-pull, pull-then-remove, docker.io alias hosts and spellings, control on another tag) x N rounds: "
             "4 staggered queries held inside auth parsing by a 12 MiB valid base64 auth while the mutation runs, then "
             "sequential re-queries on every host, judged by real-time order (timing-independent); "
             "resolver: url.Parse(..).Host vs the URL-host model on fixed + random strings, ParseAuth on generated "
             "configs, multiCredsFuncs over 0-5 functions (empty / user / secret / both / error), "
             "RegistryHostsFromConfig over 0-4 mirrors with and without header tables; "
             "headers: 7 scripted + N random blobs over 1-3 configured hosts (valid/invalid, with/without headers, "
             "authorizer absent/answering/failing, forced single range), per-host personalities (direct, redirect to a "
             "foreign host, to itself, to another configured host, 3xx without Location, 404, transport error, 401 until "
             "authorised) that change during the history, expiring redirect URLs, and per-operation forced answers "
             "(403/400/401/5xx/transport error/redirect) over Resolve/ReadAt/Cache/Check/Refresh; every request is "
             "logged with host and headers; a history is distinct by its sequence of (operation, server answers); "
             "each op is compared impl-vs-model (requests as (wire class, target host, carried header set), "
             "result) and the confinement predicate is evaluated on every request of the implementation",
        assumptions=[
            "each PullImage/RemoveImage/credentials call takes effect atomically, so every schedule is a history of "
            "the operations the theorems quantify over; not assumed from the source text but observed: concurrent "
            "pull/remove/query runs under the race detector with a per-reference oracle (TestVerifC18KeychainConc), and "
            "queries in flight across a remove / newer pull of their own reference followed by sequential re-queries "
            "(TestVerifC18KeychainInflight; SV.Props.C18x: queries are events of the schedule and leave no trace)",
            "norm = distribution.ParseDockerRef + reference.Parse is a parameter of the keychain theorems; the concrete "
            "normDocker used by the driver is validated on the generated grammar only",
            "url.Parse: the URL-host model is exact for addresses without '%', '[' and control bytes (validated against "
            "net/url each run); base64 = StdEncoding, non-strict",
            "header theorems are about sequences of atomic fetcher operations: a request must be built from ONE "
            "(url, header) state.  Where that fails the claim is false (counterexample proved in Lean, "
            "headers_only_to_registry_host_concurrent_fails; fixed in /repo by c16e994); observed each run by the "
            "deterministic replay TestVerifC18Race and by TestVerifC18HeadersConc under the race detector",
            "docker.Authorizer token requests, HTTP body syntax, go-retryablehttp retries are outside the model "
            "(a retried request is a clone: same URL, same headers)",
        ])
