"""C18 — registry credentials and custom headers reach only their own image and host."""
import os
import re

import vlib


def _facts(ctx):
    """Structural tie for the atomicity premises, regenerated from the current sources:
    * the keychain map is only touched between configMu.Lock/Unlock (so every schedule of
      PullImage/RemoveImage/credentials is a history of the atomic operations of the model);
    * refreshURL stores url and header together under urlMu (the atomic `refresh` step).
    Also records (informational, not a tie) whether fetch/check read f.header under urlMu -- they do
    not in the current code, which is the known weakness replayed by TestVerifC18Race."""
    n = 0
    try:
        src = open(os.path.join(vlib.REPO, "service/keychain/cri/cri.go")).read()
    except OSError:
        ctx.broken.append("fact:missing:service/keychain/cri/cri.go")
        src = None
    if src is not None:
        uses = len(re.findall(r"in\.config\[|delete\(in\.config\b", src))
        locked = len(re.findall(
            r"in\.configMu\.Lock\(\)\s*\n(?:\s*defer in\.configMu\.Unlock\(\)\s*\n)?"
            r"\s*(?:if cfg, ok := in\.config\[|in\.config\[[^\]\n]+\] = |delete\(in\.config,)", src))
        if uses != locked or uses == 0:
            ctx.broken.append(f"fact:config-under-configMu:{locked}/{uses}")
        else:
            n += uses
    try:
        rsrc = open(os.path.join(vlib.REPO, "fs/remote/resolver.go")).read()
    except OSError:
        ctx.broken.append("fact:missing:fs/remote/resolver.go")
        rsrc = None
    if rsrc is not None:
        if not re.search(r"f\.urlMu\.Lock\(\)\s*\n\s*f\.url = \w+\s*\n\s*f\.header = \w+\s*\n\s*f\.urlMu\.Unlock\(\)", rsrc):
            ctx.broken.append("fact:refreshURL-stores-url-and-header-under-urlMu")
        else:
            n += 1
        unlocked_reads = len(re.findall(r"maps\.Copy\(req\.Header, f\.header\)", rsrc))
        ctx.cov["stats"].setdefault("facts", {})["header_reads_outside_urlMu"] = unlocked_reads
    ctx.cov["facts_checked"] += n


def run(ctx):
    ctx.lean_obligations(["SV.Props.C18"], drivers=["svdriver_c18"])
    quick = ctx.tier == "quick"
    _facts(ctx)
    seeds = [None] if quick else [None, ctx.seed * 7919 + 1, ctx.seed * 7919 + 2]

    def env(n, s):
        e = {"VERIF_N": n}
        if s is not None:
            e["VERIF_SEED"] = s
        return e

    b = ctx.go_test_binary("service/keychain/cri", "h_cri")
    if b:
        for i, s in enumerate(seeds):
            ctx.correspond(b, "TestVerifC18Keychain", "svdriver_c18", f"c18k{i}", env=env(200 if quick else 4000, s))
    b = ctx.go_test_binary("service/resolver", "h_resolver")
    if b:
        for i, s in enumerate(seeds):
            ctx.correspond(b, "TestVerifC18Resolver", "svdriver_c18", f"c18r{i}", env=env(1500 if quick else 40000, s))
    b = ctx.go_test_binary("fs/remote", "h_remote")
    if b:
        for i, s in enumerate(seeds):
            ctx.correspond(b, "TestVerifC18Headers", "svdriver_c18", f"c18h{i}", env=env(300 if quick else 6000, s))
        # labelled stream: the counterexample of `headers_only_to_registry_host_concurrent_fails`
        # replayed on the implementation (two goroutines sharing one fetcher)
        ctx.correspond(b, "TestVerifC18Race", "svdriver_c18", "c18race", env={"VERIF_N": 5})
    return ctx.finish(
        level="proof",
        rule="keychain: every name of the grammar domain(10) x path(6) x tag(5) x digest(2) + malformed names is "
             "normalised by the real parseReference and by the model; 2 scripted + N random histories of "
             "connect/PullImage/RemoveImage/credentials over 2-5 images (shared repositories, alias spellings of one "
             "reference), 20 auth forms, 16 server-address spellings, backend failures, requests before the backend is "
             "connected; a history is distinct by its op-kind sequence and number of references; "
             "resolver: url.Parse(..).Host vs the URL-host model on fixed + random strings, ParseAuth on generated "
             "configs, multiCredsFuncs over 0-5 functions (empty / user / secret / both / error), "
             "RegistryHostsFromConfig over 0-4 mirrors with and without header tables; "
             "headers: 7 scripted + N random blobs over 1-3 configured hosts (valid/invalid, with/without headers, "
             "authorizer absent/answering/failing, forced single range), per-host personalities (direct, redirect to a "
             "foreign host, to itself, to another configured host, 3xx without Location, 404, transport error, 401 until "
             "authorised) that change during the history, expiring redirect URLs, and per-operation forced answers "
             "(403/400/401/5xx/transport error/redirect) over Resolve/ReadAt/Cache/Check/Refresh; every request is "
             "logged with host and headers; a history is distinct by its sequence of (operation, server answers); "
             "each op is compared impl-vs-model (requests as (wire class, target host, carried header set), fetcher "
             "state, result) and the confinement predicate is evaluated on every request of the implementation",
        assumptions=[
            "instrumentedService.config is only touched under configMu (checked each run on the sources), hence every "
            "schedule of pull/remove/query is a sequence of the atomic operations the theorems quantify over",
            "norm = distribution.ParseDockerRef + reference.Parse is a parameter of the keychain theorems; the concrete "
            "normDocker used by the driver is validated on the generated grammar only",
            "url.Parse: the URL-host model is exact for addresses without '%', '[' and control bytes (validated against "
            "net/url each run); base64 = StdEncoding, non-strict",
            "header theorems are about sequences of atomic fetcher operations; for two goroutines sharing one fetcher "
            "the claim is false (fetch/check read f.header outside urlMu) -- counterexample proved in Lean and replayed "
            "on the implementation by TestVerifC18Race",
            "docker.Authorizer token requests, HTTP body syntax, go-retryablehttp retries are outside the model "
            "(a retried request is a clone: same URL, same headers)",
        ])
