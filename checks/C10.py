"""C10 — refcounted caches (TTLCache / LRUCache) finalise each value exactly once and never while held.

No textual pin on the Go sources.  The premise the proof rests on ("every operation, every release
closure and the timer function is atomic w.r.t. the cache state, so every schedule is a sequence of
the modelled operations") is observed dynamically on every run: TestVerifC10Conc runs concurrent
histories (incl. real timers) on a -race build with an interleaving-sound oracle; a data race makes
the binary fail, which is a violation whose replay carries the race report (the schedule)."""

TAGS = "verif_c10"   # not `verif`: keeps other properties' export shims of the same packages (which
                     # name unexported identifiers) out of this check's build


def _binary(ctx, pkg, name, race=False, shim=True):
    """Build the harness; if the variant with the package-internal shim does not compile against
    the tree under test (an unexported identifier was renamed/restructured — not a property matter),
    fall back to the exported-API-only variant.  Returns (path|None, used_shim)."""
    if shim:
        n0 = len(ctx.broken)
        b = ctx.go_test_binary(pkg, name, race=race, tags=TAGS)
        if b:
            return b, True
        del ctx.broken[n0:]
        ctx.log("internal shim does not compile on this tree; falling back to the exported-API harness")
    b = ctx.go_test_binary(pkg, name, race=race, tags=TAGS + ",verif_c10_noshim")
    if b and shim:
        note = ("zz_verif_c10shim_test.go did not compile against this tree: timer-path expiry driven through "
                "Remove, entry count / side-effect-free lookup not observed (exported-API fallback)")
        if note not in ctx.notes:
            ctx.notes.append(note)
    return b, False


def run(ctx):
    ctx.lean_obligations(["SV.Props.C10", "SV.Props.C10x"], drivers=["svdriver_c10"])
    quick = ctx.tier == "quick"
    # sequential histories: model correspondence + oracle
    b, shim = _binary(ctx, "util/cacheutil", "h_cacheutil")
    if b:
        ctx.correspond(b, "TestVerifC10", "svdriver_c10", "c10",
                       env={"VERIF_N": 15000 if quick else 150000})
        # real short-ttl caches, exported API only: whatever the tree does when a ttl runs out is what runs
        # (values held across their expiry, asked for again, released, asked for again, ...); oracle sound
        # for every timing
        ctx.correspond(b, "TestVerifC10Timer", "svdriver_c10", "c10timer",
                       env={"VERIF_N": 96 if quick else 1500}, timeout=900)
    # concurrent histories under the race detector (both tiers): atomicity of every operation
    br, _ = _binary(ctx, "util/cacheutil", "h_cacheutil_race", race=True, shim=shim)
    if br:
        ctx.correspond(br, "TestVerifC10Conc", "svdriver_c10", "c10conc",
                       env={"VERIF_N": 4 if quick else 40}, timeout=900)
    # use site: readers of cache.NewDirectoryCache hold their buffer / file
    bu, _ = _binary(ctx, "cache", "h_cache", shim=False)
    if bu:
        ctx.correspond(bu, "TestVerifC10Use", "svdriver_c10", "c10use",
                       env={"VERIF_N": 150 if quick else 3000}, timeout=900)
    return ctx.finish(
        level="proof",
        rule="(1) sequential: 19 scripted edge histories (re-add while an older value is held, double done, evicting "
             "release by an old holder after re-add, capacity eviction while held, cap 0, missing keys, a value HELD "
             "across its expiry then Get/Add of the key, all holders done(false), Get - in 6 orders), TTL expiry "
             "driven by firing the entry's own production timer (Timer.Reset(0), awaited with canary timers, no "
             "fixed time limit) in all scripted and 2/3 of the random TTL histories; then random histories of 5-64 ops over 3-5 keys on a fresh TTLCache or LRUCache (cap 0-3) "
             "with per-history op weights, each drained at the end; a history is distinct by (cache kind, cap, "
             "sequence of op kinds/outcomes/callback positions); every op is compared impl-vs-model (returned value, "
             "token, added/ok, entry count, set of values finalised during the op) and the oracle tracks per value "
             "the callback count, cache membership and outstanding holders.  (2) concurrent, -race build: 8 workers x "
             "4 phases x 150 ops on 4 keys per cache (TTL with hour ttl + timer-path expiry, TTL with 300us ttl = "
             "real timers firing under load, LRU cap 0-3), oracle sound under every interleaving while running and "
             "the full sequential predicate at every quiescent point and after the drain.  (3) use site: histories "
             "of Add/Get/Close on cache.NewDirectoryCache with 1-3 memory and fd entries (default and injected LRU "
             "caches), every open reader re-read after every op.  (4) real-ttl stream (exported API only): 18 scripted + "
             "96 random histories of add/get/ask(Get, on miss Add)/done/remove/wait-past-the-ttl on caches with a ttl "
             "of 5-45 ms, run side by side; the oracle (handed-out value not finalised, callback at most once, never "
             "while held, exactly once after the drain) is sound for every timing, so a late timer is never an alarm",
        assumptions=[
            "every schedule is a sequence of the atomic operations the theorems quantify over: observed each run by "
            "the concurrent harness on a -race build (data race or interleaving-oracle failure = violation), not "
            "pinned to how the Go code locks",
            "timer expiry is modelled as an operation enabled at any time on any key (over-approximates "
            "time.AfterFunc, including a stale timer evicting a re-added value); real time is outside the model",
            "OnEvicted is non-nil and does not re-enter the cache",
            "LRU MaxEntries >= 0",
        ])
