"""C10 — refcounted caches (TTLCache / LRUCache) finalise each value exactly once and never while held."""
import os
import re

import vlib


def _lock_first_facts(ctx):
    """Structural tie for the atomicity premise ("every schedule is a sequence of atomic ops"):
    every exported method, the timer function and every done closure of both caches must take the
    cache mutex as its first statement and release it by defer.  Regenerated from the current
    sources on every run; a mismatch is a broken tie."""
    want = {
        "util/cacheutil/ttlcache.go": [
            r"func \(c \*TTLCache\) Get\([^\n]*\{",
            r"func \(c \*TTLCache\) Add\([^\n]*\{",
            r"func \(c \*TTLCache\) Remove\([^\n]*\{",
            r"time\.AfterFunc\(c\.ttl, func\(\) \{",
            r"return func\(evict bool\) \{",
        ],
        "util/cacheutil/lrucache.go": [
            r"func \(c \*LRUCache\) Get\([^\n]*\{",
            r"func \(c \*LRUCache\) Add\([^\n]*\{",
            r"func \(c \*LRUCache\) Remove\([^\n]*\{",
            r"return func\(\) \{",
        ],
    }
    n = 0
    for rel, heads in want.items():
        try:
            src = open(os.path.join(vlib.REPO, rel)).read()
        except OSError:
            ctx.broken.append(f"fact:missing:{rel}")
            continue
        for h in heads:
            m = re.search(h + r"\s*\n\s*c\.mu\.Lock\(\)\s*\n\s*defer c\.mu\.Unlock\(\)\s*\n", src)
            if not m:
                ctx.broken.append(f"fact:lock-first:{rel}:{h[:32]}")
            else:
                n += 1
    ctx.cov["facts_checked"] += n


def run(ctx):
    ctx.lean_obligations(["SV.Props.C10"], drivers=["svdriver_c10"])
    quick = ctx.tier == "quick"
    _lock_first_facts(ctx)
    b = ctx.go_test_binary("util/cacheutil", "h_cacheutil")
    if b:
        ctx.correspond(b, "TestVerifC10", "svdriver_c10", "c10",
                       env={"VERIF_N": 15000 if quick else 150000})
    if not quick:
        br = ctx.go_test_binary("util/cacheutil", "h_cacheutil_race", race=True)
        if br:
            ctx.correspond(br, "TestVerifC10Conc", "svdriver_c10", "c10conc", env={"VERIF_N": 40})
    return ctx.finish(
        level="proof",
        rule="13 scripted edge histories (re-add while an older value is held, double done, evicting release by an "
             "old holder after re-add, capacity eviction while held, cap 0, missing keys, expiry of a held value), "
             "then random histories of 5-64 ops over 3-5 keys on a fresh TTLCache or LRUCache (cap 0-3) with "
             "per-history op weights, each drained at the end; a history is distinct by (cache kind, cap, sequence "
             "of op kinds/outcomes/callback positions); every op is compared impl-vs-model (returned value, token, "
             "added/ok, entry count, set of values finalised during the op) and the oracle tracks per value the "
             "callback count, cache membership and outstanding holders"
             + ("" if quick else "; plus an oracle-only concurrent stress (8 goroutines, -race)"),
        assumptions=[
            "every TTLCache/LRUCache method, the timer function and every done closure holds the cache mutex for "
            "its whole body (checked each run on the sources), hence every schedule is a sequence of the atomic "
            "operations the theorems quantify over",
            "timer expiry is modelled as an operation enabled at any time on any key (over-approximates "
            "time.AfterFunc, including a stale timer evicting a re-added value); real time is outside the model",
            "OnEvicted is non-nil and does not re-enter the cache",
            "LRU MaxEntries >= 0",
        ])
