"""C14 — prioritized files are laid out first, in order, ahead of a single landmark."""


def run(ctx):
    ctx.regen_go2lean()
    ctx.lean_obligations(["SV.Props.C14", "SV.Props.C14gen2"], drivers=["svdriver_c14"])
    quick = ctx.tier == "quick"
    b = ctx.go_test_binary("", "h_estargz", module_dir="estargz")
    if b:
        ctx.correspond(b, "TestVerifC14", "svdriver_c14", "c14",
                       env={"VERIF_N": 1000 if quick else 20000,
                            "VERIF_NBUILD": 150 if quick else 3000,
                            "VERIF_NCYCLE": 14 if quick else 40},
                       timeout=600 if quick else 3000)
    return ctx.finish(
        level="proof",
        rule="tars over a small name universe (6 directories x 6 leaves, every spelling /x ./x ../x // /./ zz/../, "
             "root entries, implicit parents, hardlinks to files/hardlinks/directories/the root/nothing, duplicates "
             "changing spelling and type, input landmarks and TOC names, archive and shuffled order) x prioritized "
             "lists (existing, missing, root, directories, repeated) x allow-not-found; 39 hand-written scenarios "
             "first; in-package sortEntries compared entry-for-entry with the model, end-to-end Build under 8 chunk "
             "sizes x 7 min-chunk-sizes x 7 worker counts x 4 gzip levels compared on tar order and TOC chunk list; "
             "the C14 predicate (incl. compressed offsets vs the landmark offset) is evaluated on the implementation; "
             "tars with a cycle in the parent/hardlink graph run in a separate child-process regression stream "
             "(must return, with an error when a listed path runs into the cycle)",
        assumptions=[
            "compressor oracle: closing a compressed stream that received data emits at least one byte "
            "(needed for 'strictly before the landmark offset'); real gzip offsets are validated by the harness only",
            "entry names are valid UTF-8 (the model splits on '/' characters, Go on bytes)",
        ])
