"""C12 — a mounted layer stays usable; a released layer gives back all its resources."""
import os
import re

import vlib


def _facts(ctx):
    """Structural tie for the premises the model records (regenerated from the sources each run):
    Resolve takes the per-name lock first and releases it by defer (=> `resolve` is atomic per name);
    both OnEvicted callbacks are the ones modelled (layer.close / Blob.Close); layer.close releases
    the blob reference with done(true) by defer after setting closed; Done/Close are done(false/true)."""
    try:
        src = open(os.path.join(vlib.REPO, "fs/layer/layer.go")).read()
    except OSError:
        ctx.broken.append("fact:missing:fs/layer/layer.go")
        return
    want = {
        "resolve-lock-first":
            r"func \(r \*Resolver\) Resolve\([^\n]*\{\s*\n\s*name := refspec\.String\(\) \+ \"/\" \+ desc\.Digest\.String\(\)\s*\n"
            r"(?:\s*//[^\n]*\n|\s*\n)*\s*r\.resolveLock\.Lock\(name\)\s*\n\s*defer r\.resolveLock\.Unlock\(name\)\s*\n",
        "layer-onevicted-close":
            r"layerCache\.OnEvicted = func\(key string, value any\) \{\s*\n\s*if err := value\.\(\*layer\)\.close\(\); err != nil",
        "blob-onevicted-close":
            r"blobCache\.OnEvicted = func\(key string, value any\) \{\s*\n\s*if err := value\.\(remote\.Blob\)\.Close\(\); err != nil",
        "close-releases-blob":
            r"func \(l \*layer\) close\(\) error \{\s*\n\s*l\.closedMu\.Lock\(\)\s*\n\s*defer l\.closedMu\.Unlock\(\)\s*\n\s*if l\.closed \{\s*\n"
            r"\s*return nil\s*\n\s*\}\s*\n\s*l\.closed = true\s*\n\s*defer l\.blob\.done\(true\)",
        "done-false": r"func \(l \*layerRef\) Done\(\) \{\s*\n\s*l\.done\(false\)",
        "close-true": r"func \(l \*layerRef\) Close\(\) error \{\s*\n\s*l\.done\(true\)",
        "same-key-both-caches":
            r"func \(r \*Resolver\) resolveBlob\([^\n]*\{\s*\n\s*name := refspec\.String\(\) \+ \"/\" \+ desc\.Digest\.String\(\)",
    }
    n = 0
    for name, rx in want.items():
        if re.search(rx, src):
            n += 1
        else:
            ctx.broken.append(f"fact:{name}")
    ctx.cov["facts_checked"] += n


def run(ctx):
    ctx.lean_obligations(["SV.Props.C12"], drivers=["svdriver_c12"])
    quick = ctx.tier == "quick"
    _facts(ctx)
    b = ctx.go_test_binary("fs/layer", "h_layer")
    if b:
        ctx.correspond(b, "TestVerifC12", "svdriver_c12", "c12",
                       env={"VERIF_N": 150 if quick else 3000})
        if quick:
            # a few rounds of the concurrent stress without the race detector (oracle only)
            ctx.correspond(b, "TestVerifC12Conc", "svdriver_c12", "c12conc", env={"VERIF_N": 6})
    if not quick:
        br = ctx.go_test_binary("fs/layer", "h_layer_race", race=True)
        if br:
            ctx.correspond(br, "TestVerifC12Conc", "svdriver_c12", "c12conc", env={"VERIF_N": 40})
    return ctx.finish(
        level="proof",
        rule="16 scripted edge histories (shared instance, expiry under a holder, failed blob resolution and failed "
             "metadata read on an empty cache and while an older holder shares the blob, failing connectivity check "
             "with and without holders, failing blob check, blob expired before/after the layer, Close while others "
             "hold, double Done, Refresh ok/failing/after release, two names), then random histories of 8-48 ops over "
             "1-3 layers on a fresh layer.Resolver (Resolve with a 4-bit failure oracle, Done, Close, timer expiry of "
             "either cache, Refresh, reads through a fresh and through an old root node), each drained and "
             "re-resolved at the end; a history is distinct by (names, failure rate, op-kind sequence); every op is "
             "compared impl-vs-model (result class, instance id, holder number, number of fscache/httpcache "
             "directories, per-layer status changes closed/reader/metadata/fs cache/blob/http cache) and the oracle "
             "checks held => open and readable, sharing without eviction, reclamation after release+eviction, "
             "nothing left by a failed Resolve, fresh working instance afterwards"
             + ("; plus 6 rounds of an oracle-only concurrent stress (6 resolvers of one name share one resolved "
                "instance, holders read while others release/expire, everything reclaimed at the end)" if quick
                else "; plus 40 rounds of that concurrent stress under the race detector"),
        assumptions=[
            "Resolve holds the per-name lock for its whole body (checked each run on the sources) and its cache "
            "accesses commute with other goroutines' done/timer operations, so resolve is one atomic operation",
            "both TTL caches satisfy C10 (reused model and theorems); their methods are atomic under the cache mutex",
            "newCache/MkdirTemp do not fail; the failures considered are connectivity checks, registry failures "
            "during blob resolution and a failing metadata (TOC) read",
            "directory removal is observed on the real resolver root, in the model it is a flag per cache handle "
            "plus a ghost counter; real TTL timing (time.AfterFunc) is outside the model: expiry is an operation "
            "enabled at any time",
        ])
