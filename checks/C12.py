"""C12 — a mounted layer stays usable; a released layer gives back all its resources.

No textual pin on the sources of /repo: the premises the model records (Resolve of one name is
serialised before the cache lookup; both caches are keyed consistently; close releases the blob
with eviction) are observed on the running code — concurrent resolvers of one cold / one stale name
must build exactly one layer and share it (also under the race detector in the thorough tier),
reclamation empties both caches and both directories — so a rewrite that keeps the behaviour keeps
the check silent and one that breaks it yields a concrete failing history."""


def run(ctx):
    ctx.lean_obligations(["SV.Props.C12", "SV.Props.C12b", "SV.Props.C12x"], drivers=["svdriver_c12"])
    quick = ctx.tier == "quick"
    b = ctx.go_test_binary("fs/layer", "h_layer")
    if b:
        ctx.correspond(b, "TestVerifC12", "svdriver_c12", "c12",
                       env={"VERIF_N": 150 if quick else 3000})
        if quick:
            # a few rounds of the concurrent stress without the race detector (oracle only)
            ctx.correspond(b, "TestVerifC12Conc", "svdriver_c12", "c12conc", env={"VERIF_N": 6})
    if not quick:
        br = ctx.go_test_binary("fs/layer", "h_layer_race", race=True)
        if br:
            ctx.correspond(br, "TestVerifC12Conc", "svdriver_c12", "c12conc", env={"VERIF_N": 40})
    # ---- holder side (fs/fs.go) with a real kernel FUSE mount: oracle only
    nb = len(ctx.broken)
    bf = ctx.go_test_binary("fs", "h_fs")
    bfb = bf
    if not bf:
        # zz_verif_c12b_test.go is the one file naming unexported identifiers of package fs
        del ctx.broken[nb:]
        bf = ctx.go_test_binary("fs", "h_fs", only=["c12mount"])
        if bf:
            ctx.notes.append("optional in-package harness zz_verif_c12b_test.go (filesystem.layer / layerMu / resolver / "
                             "disableVerification / allowNoVerification) no longer builds against this tree: the holder-side "
                             "model correspondence (SV.Model.FsMount) was skipped")
    if bfb:
        # ---- holder side (fs/fs.go) vs SV.Model.FsMount: correspondence + model-free oracle, real FUSE mounts
        repb = ctx.correspond(bfb, "TestVerifC12b", "svdriver_c12", "c12b",
                              env={"VERIF_N": 12 if quick else 150}, timeout=900)
        if (repb.get("stats") or {}).get("fuse-unavailable"):
            ctx.notes.append("fuse-unavailable: the holder-side correspondence stream (TestVerifC12b) was skipped")
        else:
            # regression scenario of the defect found by this stream and repaired by 62b0917: a Mount whose FUSE step
            # fails must not leave its mountpoint registered (sig failed-fuse-mount-leaves-stale-entry); every run
            ctx.correspond(bfb, "TestVerifC12bStaleEntry", "svdriver_c12", "c12bstale", timeout=300)
    if bf:
        rep = ctx.correspond(bf, "TestVerifC12Mount", "svdriver_c12", "c12mount",
                             env={"VERIF_N": 2 if quick else 10}, timeout=600)
        if (rep.get("stats") or {}).get("fuse-unavailable"):
            ctx.notes.append("fuse-unavailable: /dev/fuse cannot be used in this sandbox; the fs.Mount-level pass was skipped")
        elif ctx.is_known("double-mount-leaks-layer"):
            # candidate finding of the unchanged tree, in its own stream; active once it is registered
            ctx.correspond(bf, "TestVerifC12MountTwice", "svdriver_c12", "c12mount2", timeout=300)
        else:
            ctx.notes.append("candidate finding double-mount-leaks-layer (second fs.Mount on a mountpoint in use succeeds and "
                             "leaks the first layer) has its own probe TestVerifC12MountTwice; it runs once a known: line "
                             "with that sig is registered")
    # cache-handle side: writers / readers of the layer's two directory caches still in flight at the
    # release (oracle only; model + theorems: SV.Model.CacheDir / SV.Props.C12x)
    bcache = ctx.go_test_binary("cache", "h_cache_c12")
    if bcache:
        ctx.correspond(bcache, "TestVerifC12Cache", "svdriver_c12", "c12cache",
                       env={"VERIF_N": 120 if quick else 2000, "VERIF_RACES": 6 if quick else 40}, timeout=600)
    return ctx.finish(
        level="proof",
        rule="18 scripted edge histories (shared instance, expiry under a holder, failed blob resolution and failed "
             "metadata read on an empty cache and while an older holder shares the blob, failing connectivity check "
             "with and without holders, failing blob check, blob expired before/after the layer, Close while others "
             "hold, double Done, Refresh ok/failing/rejected-because-other-source/after release, an old holder closing after its layer was replaced, two names), then random histories of 8-48 ops over "
             "1-3 layers on a fresh layer.Resolver (Resolve with a 4-bit failure oracle, Done, Close, timer expiry of "
             "either cache, Refresh, reads through a fresh and through an old root node), each drained and "
             "re-resolved at the end; a history is distinct by (names, failure rate, op-kind sequence); every op is "
             "compared impl-vs-model (result class, instance id, holder number, number of fscache/httpcache "
             "directories, per-layer status changes closed/reader/metadata/fs cache/blob/http cache) and the oracle "
             "checks held => open and readable, sharing without eviction, reclamation after release+eviction, "
             "nothing left by a failed Resolve, fresh working instance afterwards"
             + ("; plus 6 rounds of an oracle-only concurrent stress (6 resolvers of one cold name, then of one name whose cached layer "
                "just turned stale, share one resolved instance built once; holders read while others release/expire, everything reclaimed at the end)" if quick
                else "; plus 40 rounds of that concurrent stress under the race detector")
             + "; plus the holder-side stream TestVerifC12b on the real fs.filesystem (real resolver, scripted registry, real kernel FUSE "
               "mounts, expiry through the cache shim): 4 scripted histories (two mountpoints sharing one layer with pre-resolved "
               "neighbours and expiry under the holders; every way a Mount fails - blob, metadata, wrong / unparsable / missing TOC "
               "digest, skip label without permission, verify after unverified use, stale cached layer; a failing FUSE step, after "
               "which the mountpoint must be unknown to Check and Unmount; a second Mount on a mountpoint in use) then random histories of 8-25 ops over 3 layers and 4 "
               "mountpoints (Mount with a 4-bit Resolve oracle, up to 3 neighbours each with its own oracle, the 2 verification flags, "
               "4 TOC-label cases, skip label, FUSE ok/fail; Unmount of known and unknown mountpoints; Check with probe/refresh "
               "oracle; timer expiry of either cache; Mount without sources; Unmount of the empty path), every 4th in the labelled "
               "remount class, each drained; a history is distinct by its op-kind sequence; every op compared impl-vs-model (result "
               "class, fs.layer as mountpoint:sharing-group:open, #fscache, #httpcache, #kernel mounts) and a model-free oracle: held "
               "=> registered, Check() passes, byte-exact read through the kernel after expiry; failed Mount / unknown Unmount / Check "
               "change nothing; Unmount removes exactly its entry, its kernel mount and evicts the instance; per cached layer "
               "unreleased references == live mountpoints holding it; #fscache == cached or held instances; nothing left after the drain"
             + "; plus the regression scenario TestVerifC12bStaleEntry of the defect this stream found (repaired by 62b0917): a Mount "
               "failing at the FUSE step, alone and while another mountpoint holds the layer, leaves its mountpoint unregistered"
             + "; plus an fs.Mount-level pass with a real kernel FUSE mount (TTL 1 s, real timers): a mounted layer serves "
               "byte-exact reads through the kernel, also of never-fetched files, after its cache entry expired and while "
               "another layer is mounted/unmounted and mounts fail; Unmount and failed Mounts leave nothing after the TTL; "
               "a remount works",
        assumptions=[
            "Resolve of one name is serialised from before the cache lookup to the end (per-name lock; observed each "
            "run by the concurrent cold/stale-name phases: exactly one layer is built and shared) and its cache "
            "accesses commute with other goroutines' done/timer operations, so resolve is one atomic operation",
            "both TTL caches satisfy C10 (reused model and theorems); their methods are atomic under the cache mutex",
            "newCache/MkdirTemp do not fail; the failures considered are connectivity checks, registry failures "
            "during blob resolution and a failing metadata (TOC) read",
            "holder side (SV.Model.FsMount): Mount / Check / Unmount calls are sequential; the pre-resolution goroutines of one "
            "Mount, concurrent in Go, are run in order after the target's Resolve (Resolves of different names commute, of one "
            "name are serialised by the per-name lock; the harness waits for them); the FUSE mount step is an oracle bit in the "
            "model and the real kernel in the harness; Check is taken on a layer that is not fully fetched, with noprefetch",
            "directory removal is observed on the real resolver root, in the model it is a flag per cache handle "
            "plus a ghost counter; real TTL timing (time.AfterFunc) is outside the model: expiry is an operation "
            "enabled at any time",
        ])
