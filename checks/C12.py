"""C12 — a mounted layer stays usable; a released layer gives back all its resources.

No textual pin on the sources of /repo: the premises the model records (Resolve of one name is
serialised before the cache lookup; both caches are keyed consistently; close releases the blob
with eviction) are observed on the running code — concurrent resolvers of one cold / one stale name
must build exactly one layer and share it (also under the race detector in the thorough tier),
reclamation empties both caches and both directories — so a rewrite that keeps the behaviour keeps
the check silent and one that breaks it yields a concrete failing history."""


def run(ctx):
    ctx.lean_obligations(["SV.Props.C12"], drivers=["svdriver_c12"])
    quick = ctx.tier == "quick"
    b = ctx.go_test_binary("fs/layer", "h_layer")
    if b:
        ctx.correspond(b, "TestVerifC12", "svdriver_c12", "c12",
                       env={"VERIF_N": 150 if quick else 3000})
        if quick:
            # a few rounds of the concurrent stress without the race detector (oracle only)
            ctx.correspond(b, "TestVerifC12Conc", "svdriver_c12", "c12conc", env={"VERIF_N": 6})
    if not quick:
        br = ctx.go_test_binary("fs/layer", "h_layer_race", race=True)
        if br:
            ctx.correspond(br, "TestVerifC12Conc", "svdriver_c12", "c12conc", env={"VERIF_N": 40})
    # ---- holder side (fs/fs.go) with a real kernel FUSE mount: oracle only
    bf = ctx.go_test_binary("fs", "h_fs")
    if bf:
        rep = ctx.correspond(bf, "TestVerifC12Mount", "svdriver_c12", "c12mount",
                             env={"VERIF_N": 2 if quick else 10}, timeout=600)
        if (rep.get("stats") or {}).get("fuse-unavailable"):
            ctx.notes.append("fuse-unavailable: /dev/fuse cannot be used in this sandbox; the fs.Mount-level pass was skipped")
        elif ctx.is_known("double-mount-leaks-layer"):
            # candidate finding of the unchanged tree, in its own stream; active once it is registered
            ctx.correspond(bf, "TestVerifC12MountTwice", "svdriver_c12", "c12mount2", timeout=300)
        else:
            ctx.notes.append("candidate finding double-mount-leaks-layer (second fs.Mount on a mountpoint in use succeeds and "
                             "leaks the first layer) has its own probe TestVerifC12MountTwice; it runs once a known: line "
                             "with that sig is registered")
    return ctx.finish(
        level="proof",
        rule="18 scripted edge histories (shared instance, expiry under a holder, failed blob resolution and failed "
             "metadata read on an empty cache and while an older holder shares the blob, failing connectivity check "
             "with and without holders, failing blob check, blob expired before/after the layer, Close while others "
             "hold, double Done, Refresh ok/failing/rejected-because-other-source/after release, an old holder closing after its layer was replaced, two names), then random histories of 8-48 ops over "
             "1-3 layers on a fresh layer.Resolver (Resolve with a 4-bit failure oracle, Done, Close, timer expiry of "
             "either cache, Refresh, reads through a fresh and through an old root node), each drained and "
             "re-resolved at the end; a history is distinct by (names, failure rate, op-kind sequence); every op is "
             "compared impl-vs-model (result class, instance id, holder number, number of fscache/httpcache "
             "directories, per-layer status changes closed/reader/metadata/fs cache/blob/http cache) and the oracle "
             "checks held => open and readable, sharing without eviction, reclamation after release+eviction, "
             "nothing left by a failed Resolve, fresh working instance afterwards"
             + ("; plus 6 rounds of an oracle-only concurrent stress (6 resolvers of one cold name, then of one name whose cached layer "
                "just turned stale, share one resolved instance built once; holders read while others release/expire, everything reclaimed at the end)" if quick
                else "; plus 40 rounds of that concurrent stress under the race detector")
             + "; plus an fs.Mount-level pass with a real kernel FUSE mount (TTL 1 s, real timers): a mounted layer serves "
               "byte-exact reads through the kernel, also of never-fetched files, after its cache entry expired and while "
               "another layer is mounted/unmounted and mounts fail; Unmount and failed Mounts leave nothing after the TTL; "
               "a remount works",
        assumptions=[
            "Resolve of one name is serialised from before the cache lookup to the end (per-name lock; observed each "
            "run by the concurrent cold/stale-name phases: exactly one layer is built and shared) and its cache "
            "accesses commute with other goroutines' done/timer operations, so resolve is one atomic operation",
            "both TTL caches satisfy C10 (reused model and theorems); their methods are atomic under the cache mutex",
            "newCache/MkdirTemp do not fail; the failures considered are connectivity checks, registry failures "
            "during blob resolution and a failing metadata (TOC) read",
            "directory removal is observed on the real resolver root, in the model it is a flag per cache handle "
            "plus a ghost counter; real TTL timing (time.AfterFunc) is outside the model: expiry is an operation "
            "enabled at any time",
        ])
