"""C04 — untrusted layer bytes and registry replies cause errors, never a crash or a hang."""
import concurrent.futures


def run(ctx):
    ctx.regen_go2lean()
    ctx.lean_obligations(["SV.Props.C04", "SV.Props.C04gen", "SV.Props.C04gen2"], drivers=["svdriver_c04"])
    quick = ctx.tier == "quick"
    # No pins on the text of /repo: everything the model assumes about the code is observed on the
    # running code.  The footer sizes are read through FooterSize() and compared with the model's
    # constants (op "consts"); the footer length/sign checks, Open's footer/TOC arithmetic, chunkContains
    # and its use in file.ReadAt / GetPassthroughFd, getSource's bound and initFields' tree rules are
    # exercised by the differential ops (footer / open / rd / pt / tree) and by the crash/hang oracle;
    # chunkContains is additionally translated from the source by tools/go2lean on every run.
    # fs/layer binary: footers, estargz.Open + Reader walk, memory store + walk, fs/reader (Cache,
    # ReadAt, passthrough), FUSE node walk, Unpack, Build, and the arithmetic ops compared with
    # the Lean model.  db binary (cmd module): bolt-backed metadata store + fs/reader on top of it.
    # Every input runs in a crash-isolated child process.
    b = ctx.go_test_binary("fs/layer", "h_layer")
    d = ctx.go_test_binary("containerd-stargz-grpc/db", "h_db", module_dir="cmd")
    jobs = []
    if b:
        jobs.append((b, "c04layer", {"VERIF_N": 220 if quick else 2200,
                                     "VERIF_N_ARITH": 2500 if quick else 100000,
                                     "VERIF_N_PF": 600 if quick else 30000}))
    if d:
        jobs.append((d, "c04db", {"VERIF_N": 60 if quick else 900}))
    # fs/remote binary: parseRange on hostile Content-Range headers, blob.ReadAt/Cache against a
    # fetcher whose reply parts carry arbitrary regions and amounts of data
    rb = ctx.go_test_binary("fs/remote", "h_remote")
    if rb:
        jobs.append((rb, "c04remote", {"VERIF_N": 500 if quick else 20000}))
    # the two harnesses run side by side (they only share the machine); their results are then
    # fed through the ordinary correspondence step one after the other
    done = {}
    real_run = ctx.run_harness

    def work(job):
        binary, tag, env = job
        done[tag] = real_run(binary, "TestVerifC04", tag, env=env, timeout=3000)

    with concurrent.futures.ThreadPoolExecutor(max_workers=3) as ex:
        list(ex.map(work, jobs))
    ctx.run_harness = lambda binary, test, tag, env=None, timeout=1800, cwd=None: done[tag]
    for binary, tag, env in jobs:
        ctx.correspond(binary, "TestVerifC04", "svdriver_c04", tag, env=env, timeout=3000)
    ctx.run_harness = real_run
    return ctx.finish(
        level="proof",
        rule="hand-written scenarios first (one valid blob per flavour gz/zstd/external-TOC, the input of every "
             "repaired defect [must now be rejected with an error], a labelled stream of candidate findings), then "
             "generated inputs: a VALID blob built by the real builder with ONE hostile TOC field re-wrapped behind a "
             "proper TOC member and valid footer (hardlink cycles/chains/links to directories and ancestors, "
             "numeric fields at +-1 around every bound and near 2^31/2^32/2^62/2^63, non-numbers, unsorted/overlapping/"
             "gapped/beyond-size/negative/huge/implicit chunk tables, duplicate/empty/dot/slash/NUL/10k-deep names, "
             "missing and malformed digests, unknown types, chunk entry first, JSON-level documents such as null and "
             "[null], thousands of entries), valid blob with one hostile footer field (gzip hex offset incl. sign "
             "and non-hex, FEXTRA shapes, zstd offset/compressed/uncompressed length, external-TOC provider "
             "replies), raw blobs of 0-200 bytes, truncations of a valid blob at every 1st/3rd length, bit flips, "
             "hostile tars for Build, raw byte strings for the four ParseFooter functions, and arithmetic ops "
             "(Open with scripted decompressors, file.ReadAt and GetPassthroughFd with a scripted store/cache, "
             "initFields on generated entry lists), hostile Content-Range headers for parseRange and reply parts with "
             "arbitrary regions/lengths for blob.ReadAt/Cache; an input is distinct by (input class, outcome vector over "
             "targets); every arithmetic op and every ParseFooter call is compared impl-vs-model; a crash "
             "(recovered panic, dead child: goroutine panic, stack overflow, out of memory) or a hang (no progress "
             "for VERIF_C04_HANG_S seconds, confirmed alone with twice the time) of ANY target is an oracle failure "
             "with the hex of the input; cyclic trees are reported by the walkers",
        assumptions=[
            "gzip/zstd/tar/JSON decoders, bbolt and the Go allocator are trusted; their crashes are only found by the "
            "crash-isolated exploration, not excluded by proof",
            "the result of the stdlib gzip header parse (none | FEXTRA payload) is a parameter of the footer model",
            "file.ReadAt theorems: chunk sizes are allocatable (c.cs <= bound) and, for progress, the store delivers "
            "at least one byte per answer; each of the two hypotheses has a proved counterexample "
            "(read_alloc_unbounded / read_arith_total_full_fails, read_progress_full_fails); the first one is "
            "replayed on the real code (known finding), the second needs a failing chunk cache",
            "a hang is 'no progress of one target for VERIF_C04_HANG_S seconds'; after a hang the same target is "
            "not run again on inputs of the same class (counted as skipped-after-hang in the statistics)",
            "registered decompressors report a non-negative FooterSize (true for the four in the repository)",
        ])
