"""C15 — prefetch and background fetch make later reads local; waiting is bounded."""


def run(ctx):
    ctx.lean_obligations(["SV.Props.C15", "SV.Props.C15b"], drivers=["svdriver_c15"])
    quick = ctx.tier == "quick"
    # the C15 harness of fs/layer reuses the full-stack fixture of the C02 harness file
    b = ctx.go_test_binary("fs/layer", "h_layer_c15", only=["c02", "c15"])
    if b:
        ctx.correspond(b, "TestVerifC15", "svdriver_c15", "c15",
                       env={"VERIF_N": 48 if quick else 250}, timeout=900 if quick else 3000)
        # timed waiter: staggered callers on a stalled prefetch (SV.Model.Waiter / SV.Props.C15b)
        ctx.correspond(b, "TestVerifC15Stagger", "svdriver_c15", "c15stag",
                       env={"VERIF_N": 1 if quick else 4}, timeout=600 if quick else 1800)
    bdb = ctx.go_test_binary("containerd-stargz-grpc/db", "h_db_c15", module_dir="cmd", only=["c02", "c15"])
    if bdb:
        ctx.correspond(bdb, "TestVerifC15DB", "svdriver_c15", "c15db",
                       env={"VERIF_N": 24 if quick else 120}, timeout=900 if quick else 3000)
    return ctx.finish(
        level="proof",
        rule="layers built by the real builder from random archives, in the three landmark situations (prefetch "
             "landmark with random prioritized files / no-prefetch landmark / bare Writer without landmark) x build "
             "options (chunk size, min-chunk-size, gzip/zstd) x configured prefetch size (0, beyond the blob, at and one "
             "past the first-chunk offset of a file, random) x async threshold x registry chunk size 16..4096 x prefetch "
             "chunk size x cache configuration, each run through one of: normal / registry failing during the range "
             "fetch / failing during the decompression walk / stalled fetch with a 300 ms timeout / stalled fetch "
             "released while 1-3 waiters block / async threshold; then a second and a concurrent Prefetch, "
             "BackgroundFetch with prioritized reads arriving meanwhile, a repeated and a concurrent BackgroundFetch. "
             "Checked on the implementation: blob.Cache arguments, registry request log (no traffic for no-prefetch, "
             "traffic inside the range and the files starting in it), waiter released after every outcome, waits return, "
             "every file of the prefetched range / every regular file after a successful background fetch read "
             "completely with the registry unreachable and zero fetches; compared with the model: outcome, waiter, "
             "blob.Cache call, set of chunks stored, every offline read. A case is distinct by (kind, sizes, landmark "
             "situation, build options, stack configuration, #chunks)",
        extra={"harness_coupling": "the fs/layer harnesses use the exported API only (Resolver, Layer, go-fuse node "
               "interfaces, reader.VerifiableReader, metadata.Reader); the two instrumentation points (chunk cache of "
               "the reader, remote.Blob of the layer) are located by TYPE through reflection with an oracle-only "
               "fallback; the waiter is observed through WaitForPrefetchCompletion, the timeout set through "
               "prefetch_timeout_sec; only fs/reader.genID is used by name (export shim)"},
        assumptions=[
            "Honest / WF as in C02 (accepted chunks are the built payload; chunk tables tile the files)",
            "C14: the prioritized files are exactly the files whose first chunk lies before the prefetch landmark "
            "(the theorem is stated for those files)",
            "real time is outside the model: a timeout is an event; the harness asserts only that waits return "
            "(generous watchdog), never how fast",
            "the asynchronous commit of the directory cache (sync_add = false) is outside the model; the offline "
            "claims are checked with synchronous commits and with memory caches",
            "the concurrent chunk stores of cacheWithReader are modelled sequentially (on success the resulting cache "
            "is the same; after a failure the model is resynchronised)",
        ])
