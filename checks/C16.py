"""C16 — store layers can be acquired, released and re-acquired in any order (store/manager.go)."""


def run(ctx):
    ctx.lean_obligations(["SV.Props.C16"], drivers=["svdriver_c16"])
    quick = ctx.tier == "quick"
    b = ctx.go_test_binary("store", "h_store")
    if b:
        # separate pass in which the two known findings are REPORTED by the oracle (sigs listed in
        # findings/known_findings.txt -> KNOWN-FINDING lines); the main pass only counts them so
        # that its stream comparison stays strict
        ctx.correspond(b, "TestVerifC16Known", "svdriver_c16", "c16known",
                       env={"VERIF_N": 40 if quick else 300}, timeout=900)
        if quick:
            ctx.correspond(b, "TestVerifC16", "svdriver_c16", "c16",
                           env={"VERIF_N": 150, "VERIF_RACE": 8}, timeout=900)
        else:
            # several processes with derived seeds: every getLayer call leaves parked goroutines
            # behind (they are inspected to detect quiescence), so one long process gets slow
            base = int(ctx.seed)
            for k in range(8):
                ctx.correspond(b, "TestVerifC16", "svdriver_c16", f"c16_{k}",
                               env={"VERIF_SEED": base * 1000 + k if k else base,
                                    "VERIF_N": 400, "VERIF_RACE": 25}, timeout=1800)
    ctx.notes.append("observation (not a clause of C16): LayerManager.release calls refPool.release before it checks "
                     "that (ref, layer) is tracked, so releasing an untracked layer of an image in use drops the "
                     "refPool count of that image (model: example in SV/Props/C16.lean; seen in the snapshots)")
    ctx.notes.append("observation (not a clause of C16): getLayer's per-layer workers that find the wanted layer after it "
                     "was delivered stay parked for ever on `resultChan <- gotL` (goroutine leak), and workers can still "
                     "run after getLayer returned; the harness waits for them by inspecting goroutine stacks")
    return ctx.finish(
        level="proof",
        rule="hand-written scenarios (lookup/use/release/lookup, sibling in use, release twice, release untracked, "
             "unknown digest / image, use before lookup, registry and manifest error then recovery, lookups abandoned by "
             "their client (context cancelled before the manifest fetch / while the first registry request of the wanted "
             "layer is in flight, gated in the in-memory registry), two images "
             "sharing a blob, the fs.go node handlers) then random histories of lookup(api|diff|blob|info) / use / "
             "release over 4 image refs (3 eStargz layers; shared + non-eStargz + repeated layer; single layer; "
             "unknown image) x member / foreign / unknown TOC digests, with registry failures toggled per blob and "
             "per manifest and ~20% of the API lookups abandoned by their client; after every op the full bookkeeping (cached instances, counts, resolve status, Done set, "
             "refPool counts, pool directory) is compared with the model and the property predicate is evaluated "
             "on the real LayerManager; a history is distinct by its op/argument shape; racing lookups on one "
             "image are checked by the oracle and by the state they leave",
        assumptions=[
            "LayerManager state is only touched under LayerManager.mu and getLayer's per-layer workers are "
            "serialised per layer by resolveLock, so a schedule is a sequence of the model's atomic steps; "
            "lookups racing on one image are covered by the oracle only",
            "registry content is immutable during a run (a reference always names the same manifest)",
            "within one image a layer digest determines its TOC digest and different layers have different TOC "
            "digests (hypotheses T.Functional / T.Injective of the theorems; the second only for histories with "
            "registry errors)",
            "FUSE inode bookkeeping of the store tree (child caching, Forget) is not modelled: the node handlers "
            "are driven without linking the returned children",
            "layer.Resolver keeps resolved layers for its TTL; the harness runs with CheckAlways so that a registry "
            "failure is visible to the next resolution",
        ])
