"""C16 — store layers can be acquired, released and re-acquired in any order (store/manager.go)."""


def run(ctx):
    ctx.lean_obligations(["SV.Props.C16", "SV.Props.C16b"], drivers=["svdriver_c16"])
    quick = ctx.tier == "quick"
    b = ctx.go_test_binary("store", "h_store")
    if b:
        # separate pass in which the two known findings are REPORTED by the oracle (sigs listed in
        # findings/known_findings.txt -> KNOWN-FINDING lines); the main pass only counts them so
        # that its stream comparison stays strict
        ctx.correspond(b, "TestVerifC16Known", "svdriver_c16", "c16known",
                       env={"VERIF_N": 40 if quick else 300}, timeout=900)
        # C16b: the FUSE node layer of store/fs.go through the real go-fuse bridge (model SV.StoreFs)
        ctx.correspond(b, "TestVerifC16b", "svdriver_c16", "c16b",
                       env={"VERIF_N": 60 if quick else 500}, timeout=900)
        if quick:
            ctx.correspond(b, "TestVerifC16", "svdriver_c16", "c16",
                           env={"VERIF_N": 150, "VERIF_RACE": 8}, timeout=900)
        else:
            # several processes with derived seeds: every getLayer call leaves parked goroutines
            # behind (they are inspected to detect quiescence), so one long process gets slow
            base = int(ctx.seed)
            for k in range(8):
                ctx.correspond(b, "TestVerifC16", "svdriver_c16", f"c16_{k}",
                               env={"VERIF_SEED": base * 1000 + k if k else base,
                                    "VERIF_N": 400, "VERIF_RACE": 25}, timeout=1800)
    ctx.notes.append("observation (not a clause of C16): LayerManager.release calls refPool.release before it checks "
                     "that (ref, layer) is tracked, so releasing an untracked layer of an image in use drops the "
                     "refPool count of that image (model: example in SV/Props/C16.lean; seen in the snapshots)")
    ctx.notes.append("observation (not a clause of C16): getLayer's per-layer workers that find the wanted layer after it "
                     "was delivered stay parked for ever on `resultChan <- gotL` (goroutine leak), and workers can still "
                     "run after getLayer returned; the harness waits for them by inspecting goroutine stacks")
    ctx.notes.append("candidate finding (C16b, own signature sfs-id-leaked-lookup-after-release; counted, not a violation; "
                     "VERIF_C16B_REPORT=1 reports it): a LOOKUP in a layer directory whose last use was released while the kernel "
                     "still holds the directory creates a persistent child of an unlinked inode; nobody runs RmAllChildren on it "
                     "again, so the directory, the child (incl. the layer's own root node) and their nodeMap ids stay for ever "
                     "(model: SV.Props.C16b.lookup_in_released_layer_dir_leaks / noLeak_fails)")
    ctx.notes.append("candidate finding (C16b, sfs-id-leaked-silent-rmdir): RMDIR on a directory without Rmdir handler (mountpoint "
                     "root, layer directory) is answered OK by the go-fuse bridge, which unlinks the persistent child: the subtree "
                     "and its nodeMap ids are never freed")
    ctx.notes.append("observation (C16b): fs.layerMap ids are never removed (idMap.remove is only called on nodeMap): one id per "
                     "successful or failed `diff` lookup that reaches RootNode")
    return ctx.finish(
        level="proof",
        rule="hand-written scenarios (lookup/use/release/lookup, sibling in use, release twice, release untracked, "
             "unknown digest / image, use before lookup, registry and manifest error then recovery, lookups abandoned by "
             "their client (context cancelled before the manifest fetch / while the first registry request of the wanted "
             "layer is in flight, gated in the in-memory registry), two images "
             "sharing a blob, the fs.go node handlers) then random histories of lookup(api|diff|blob|info) / use / "
             "release over 4 image refs (3 eStargz layers; shared + non-eStargz + repeated layer; single layer; "
             "unknown image) x member / foreign / unknown TOC digests, with registry failures toggled per blob and "
             "per manifest and ~20% of the API lookups abandoned by their client; after every op the full bookkeeping (cached instances, counts, resolve status, Done set, "
             "refPool counts, pool directory) is compared with the model and the property predicate is evaluated "
             "on the real LayerManager; a history is distinct by its op/argument shape; racing lookups on one "
             "image are checked by the oracle and by the state they leave; "
             "C16b: the FUSE node layer of store/fs.go driven through the real go-fuse bridge (NewNodeFS: Lookup / Forget / Create / "
             "Rmdir on node ids, the harness plays the kernel): hand-written scenarios (use-release-forget-relookup, forget before "
             "release, failing lookups at every level, two layers of one image, lookup in a released layer directory, rmdir on nodes "
             "without handler) then random request histories over all held nodes x all name classes with registry failures; after "
             "every request the reply (errno, node id, inode number), nodeMap, layerMap, the linked tree and the kernel's lookup "
             "counts are compared with the model SV.StoreFs and the oracle checks use counts against the harness's own count of "
             "uses, uniqueness / allocation of live inode numbers, node aliasing, failing lookups, unlinking after the last release "
             "and id leaks after a final drain",
        assumptions=[
            "LayerManager state is only touched under LayerManager.mu and getLayer's per-layer workers are "
            "serialised per layer by resolveLock, so a schedule is a sequence of the model's atomic steps; "
            "lookups racing on one image are covered by the oracle only",
            "registry content is immutable during a run (a reference always names the same manifest)",
            "within one image a layer digest determines its TOC digest and different layers have different TOC "
            "digests (hypotheses T.Functional / T.Injective of the theorems; the second only for histories with "
            "registry errors)",
            "C16b models go-fuse v2.10.1's sequential inode bookkeeping (addNewChild / removeRef / RmChild / RmAllChildren / "
            "persistent inodes / stableAttrs); requests are sequential (two racing LOOKUPs of one name are outside), no request "
            "is sent into a `diff` directory (that tree belongs to fs/layer), the kernel only sends requests for node ids it holds",
            "idMap exhaustion (2^32-1 live ids) is modelled as the EIO the code returns and never exercised",
            "layer.Resolver keeps resolved layers for its TTL; the harness runs with CheckAlways so that a registry "
            "failure is visible to the next resolution",
        ])
