"""C08 — snapshotter keeps snapshot metadata, directories and backend mounts in step."""
import os


def _env(extra):
    e = dict(extra)
    # bolt fsyncs every transaction: keep the temporary roots on tmpfs when there is one
    if os.path.isdir("/dev/shm") and os.access("/dev/shm", os.W_OK):
        e["TMPDIR"] = "/dev/shm"
    return e


def run(ctx):
    ctx.lean_obligations(["SV.Props.C08"], drivers=["svdriver_c08"])
    quick = ctx.tier == "quick"
    b = ctx.go_test_binary("snapshot", "h_snapshot")
    if b:
        ctx.correspond(b, "TestVerifC08", "svdriver_c08", "c08",
                       env=_env({"VERIF_N": 150 if quick else 4000}), timeout=1500 if quick else 3000)
        # concurrent callers: oracle-only stream (emits no op lines, so the model diff is empty)
        ctx.correspond(b, "TestVerifC08Conc", "svdriver_c08", "c08conc",
                       env=_env({"VERIF_N": 40 if quick else 800}), timeout=1500 if quick else 3000)
    return ctx.finish(
        level="proof",
        rule="real NewSnapshotter on a temporary root with a recording FileSystem whose Mount/Check/Unmount "
             "outcomes follow a seeded per-call oracle; 4 scripted scenarios, then random histories (8-35 calls) of "
             "Prepare with/without target label, View, Commit, Mounts, Remove, Cleanup, Walk, Stat, Update, Close, "
             "restart (after Close or as process death) over random parent graphs, sync and async removal; every call "
             "is compared impl-vs-model (result class, mount list, backend-call + crash-marker trace, snapshots/ "
             "listing, Walk) and the C08 clauses are evaluated on the implementation's own answers; a history is "
             "distinct by its call/result shape.  Concurrent callers (oracle only): inside an API call, at a "
             "crash-point marker used as a deterministic sync point (create.tempdir/txcreate/renamed/committed, "
             "prepare.mounted, commit.beforetx, prepare.targetcommitted, remove.txcommitted, cleanupdir.*), ONE other "
             "call (Cleanup, Remove, Mounts, Walk, Stat, Prepare, View, Commit) is started in a second goroutine "
             "with a bounded wait; 16 scripted Cleanup-vs-Prepare/View windows + random pairs; afterwards the "
             "schedule-independent clauses are evaluated (every live snapshot has fs/work, handed-out mounts exist, "
             "no unmount of a live snapshot, one final Cleanup leaves exactly the live ids)",
        assumptions=[
            "concurrent callers: the *_concurrent theorems hold for the interleaved model (fresh root, no crash/Close/"
            "restart inside the run, NoKeyConflict, writer lock = createSnapshot's write transaction + atomic single-step "
            "write transactions); that the Go code takes bolt's writer lock exactly there is not proved but probed by "
            "the oracle-only concurrent-callers stream (and is what the seeded read-transaction Cleanup breaks)",
            "mkdir/rename/RemoveAll/bolt commit do not fail and are atomic",
            "an Unmount call ends the backend's mount whatever it returns (fs/fs.go drops the layer first)",
            "NoRestore is only configured while the backend kept its mounts (cmd/containerd-stargz-grpc/main.go); "
            "Close followed by a NoRestore start is outside the claim",
            "callers do not set the label containerd.io/snapshot/remote themselves (theorems with hypothesis "
            "CleanOp; the model and the correspondence cover such calls too)",
        ])
