"""C08 — snapshotter keeps snapshot metadata, directories and backend mounts in step."""
import os


def _env(extra):
    e = dict(extra)
    # bolt fsyncs every transaction: keep the temporary roots on tmpfs when there is one
    if os.path.isdir("/dev/shm") and os.access("/dev/shm", os.W_OK):
        e["TMPDIR"] = "/dev/shm"
    return e


def run(ctx):
    ctx.lean_obligations(["SV.Props.C08", "SV.Props.C08b"], drivers=["svdriver_c08"])
    quick = ctx.tier == "quick"
    b = ctx.go_test_binary("snapshot", "h_snapshot")
    if b:
        ctx.correspond(b, "TestVerifC08", "svdriver_c08", "c08",
                       env=_env({"VERIF_N": 150 if quick else 4000}), timeout=1500 if quick else 3000)
        # concurrent callers: oracle-only stream (emits no op lines, so the model diff is empty)
        ctx.correspond(b, "TestVerifC08Conc", "svdriver_c08", "c08conc",
                       env=_env({"VERIF_N": 40 if quick else 800}), timeout=1500 if quick else 3000)
        # trace refinement of the INTERLEAVED model: concurrent calls under forced + random schedules, every
        # atomic event replayed by the trace acceptor (conc-* ops of svdriver_c08)
        ctx.correspond(b, "TestVerifC08Trace", "svdriver_c08", "c08trace",
                       env=_env({"VERIF_N": 25 if quick else 600}), timeout=1500 if quick else 3000)
    return ctx.finish(
        level="proof",
        rule="real NewSnapshotter on a temporary root with a recording FileSystem whose Mount/Check/Unmount "
             "outcomes follow a seeded per-call oracle; 4 scripted scenarios, then random histories (8-35 calls) of "
             "Prepare with/without target label, View, Commit, Mounts, Remove, Cleanup, Walk, Stat, Update, Close, "
             "restart (after Close or as process death) over random parent graphs, sync and async removal; every call "
             "is compared impl-vs-model (result class, mount list, backend-call + crash-marker trace, snapshots/ "
             "listing, Walk) and the C08 clauses are evaluated on the implementation's own answers; a history is "
             "distinct by its call/result shape.  Concurrent callers (oracle only): inside an API call, at a "
             "crash-point marker used as a deterministic sync point (create.tempdir/txcreate/renamed/committed, "
             "prepare.mounted, commit.beforetx, prepare.targetcommitted, remove.txcommitted, cleanupdir.*), ONE other "
             "call (Cleanup, Remove, Mounts, Walk, Stat, Prepare, View, Commit) is started in a second goroutine "
             "with a bounded wait; 16 scripted Cleanup-vs-Prepare/View windows + random pairs; afterwards the "
             "schedule-independent clauses are evaluated (every live snapshot has fs/work, handed-out mounts exist, "
             "no unmount of a live snapshot, one final Cleanup leaves exactly the live ids).  TRACE REFINEMENT of the "
             "interleaved model (TestVerifC08Trace): 2-4 concurrent Prepare(+target)/View/Commit/Remove/Cleanup/Update calls "
             "per batch on one real snapshotter, crash-point markers and backend Unmount as sync points under a controlled "
             "schedule (one call runs at a time; one call may probe bolt's writer lock while another is parked inside its "
             "write transaction); 32 forced schedules (Cleanup scan vs Prepare at tempdir/renamed/committed, Remove(parent) "
             "vs Prepare(parent), Commit vs Remove of one key, Remove loop vs Cleanup on one orphan, failing create vs "
             "Cleanup, two Prepares with one target, Remove-after-commit vs Prepare rename; sync and async removal) then "
             "seeded random schedules; every atomic event is replayed by the acceptor SV.Snap.Trace.fire (must be an enabled "
             "transition, invariant evaluator after every step), the model's result of every call and its dirs/meta/mounts at "
             "every quiescent point are diffed with the real ones; independent oracle on the real state (conc-* signatures: "
             "live snapshot without fs/work dir, mount without dir, double mount, Unmount of a live snapshot's dir, mounts "
             "handed out for missing dirs, Remove/Commit/Prepare acknowledged but not reflected, final Cleanup not exact); a "
             "batch is distinct by its event shape",
        assumptions=[
            "concurrent callers: the *_concurrent theorems hold for the interleaved model (fresh root, no crash/Close/"
            "restart inside the run, NoKeyConflict, writer lock = createSnapshot's write transaction + atomic single-step "
            "write transactions); that the Go code takes bolt's writer lock exactly there is checked by trace refinement on "
            "the generated schedules (a call that gets through a write transaction while another is open is rejected by "
            "the acceptor), not proved for all schedules",
            "trace tie: the recorded order is faithful because the harness lets one call run between sync points; an "
            "in-lock effect without its own marker (CreateSnapshot, Update, scans) is placed at the next sync point of "
            "that call; backend Mount is not a scheduling point (open bolt read transaction)",
            "mkdir/rename/RemoveAll/bolt commit do not fail and are atomic",
            "an Unmount call ends the backend's mount whatever it returns (fs/fs.go drops the layer first)",
            "NoRestore is only configured while the backend kept its mounts (cmd/containerd-stargz-grpc/main.go); "
            "Close followed by a NoRestore start is outside the claim",
            "callers do not set the label containerd.io/snapshot/remote themselves (theorems with hypothesis "
            "CleanOp; the model and the correspondence cover such calls too)",
        ])
