"""C06 — remote blob reads are byte-exact; fetched size bookkeeping."""


def run(ctx):
    ctx.regen_go2lean()
    ctx.lean_obligations(["SV.Props.C06", "SV.Props.C06b", "SV.Props.C06c", "SV.Props.C06gen", "SV.Props.C06d", "SV.Props.C06gen2"], drivers=["svdriver_c06"])
    quick = ctx.tier == "quick"
    b = ctx.go_test_binary("fs/remote", "h_remote")
    if b:
        ctx.correspond(b, "TestVerifC06A", "svdriver_c06", "c06a",
                       env={"VERIF_N": 400 if quick else 20000})
        ctx.correspond(b, "TestVerifC06B", "svdriver_c06", "c06b",
                       env={"VERIF_N": 300 if quick else 8000})
        ctx.correspond(b, "TestVerifC06C", "svdriver_c06", "c06c",
                       env={"VERIF_N": 25 if quick else 400})
        ctx.correspond(b, "TestVerifC06D", "svdriver_c06", "c06d",
                       env={"VERIF_N": 200 if quick else 4000})
    if not quick:
        br = ctx.go_test_binary("fs/remote", "h_remote_race", race=True)
        if br:
            ctx.correspond(br, "TestVerifC06C", "svdriver_c06", "c06c-race",
                           env={"VERIF_N": 150}, timeout=3000)
    return ctx.finish(
        level="proof",
        rule="histories of regionSet.add over blobs of 7 sizes x 5 chunk grids (chunk-aligned, arbitrary and "
             "whole-blob commits), each history distinct by (size, chunk, change-shape, final set); an op is "
             "compared impl-vs-model and the fetched-size predicate is evaluated on the implementation",
        assumptions=["fetchedRegionSet is only touched under fetchedRegionSetMu (schedules = op sequences)"])
