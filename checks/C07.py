"""C07 — each layer is served as a correct overlayfs lower directory of the OCI layer."""


def run(ctx):
    ctx.lean_obligations(["SV.Props.C07"], drivers=["svdriver_c07"])
    quick = ctx.tier == "quick"
    b = ctx.go_test_binary("fs/layer", "h_layer")
    if b:
        ctx.correspond(b, "TestVerifC07", "svdriver_c07", "c07", env={"VERIF_N": 70 if quick else 4000})
        # regression stream for the defects repaired by 545b9cc (whiteouts of .wh.* names, of landmark names in
        # the root, of "", "." and ".."): same oracle, same signatures, now ordinary violations
        ctx.correspond(b, "TestVerifC07Findings", "svdriver_c07", "c07regress", env={"VERIF_N": 20 if quick else 600})
    return ctx.finish(
        level="proof",
        rule="one case = one layer built by the real builder from a generated tar (additions, whiteouts, opaque "
             "markers, whiteout+real file of one name, landmarks and TOC name in root and subdirectories, names "
             "containing/starting like .wh., devices, links, xattrs) served by newNode under one of the 3 opaque modes, "
             "distinct by (mode, tar); or one stack of 2-4 such layers distinct by (kernel xattr, mode, shape). Every "
             "directory is driven with a random schedule of Readdir/Lookup/Getattr/Getxattr/Listxattr (lookups before "
             "and after memoisation, with and without go-fuse adopting the child); each call is compared impl-vs-model "
             "and the property predicate (translation of the source tar, agreement, hidden names, chr 0/0, opaque xattr "
             "per mode, inode uniqueness/stability, stat JSON, merged view == applied tars) is evaluated on the "
             "implementation's answers",
        assumptions=[
            "kernel overlayfs follows the merge rules of Documentation/filesystems/overlayfs.rst as rendered by "
            "SV.Overlay.descend/ovlResolve (and, independently, by the harness' verifMerge)",
            "the metadata reader's ForeachChild and GetChild agree and never list a name twice (C05)",
            "domain of overlay_equals_oci: no directory has both .wh.x and a directory x (the property's exclusion); "
            "no real entry is a 0/0 character device; no real directory carries the kernel's overlay opaque xattr "
            "itself; the served opaque mode covers the xattr namespace the kernel mount reads "
            "(each shown necessary by a proved counterexample)",
            "names are non-empty (a FUSE LOOKUP never carries the empty name; Lookup(\"\") with a child named "
            "exactly .wh. is memoisation-dependent - proved, history_independent_needs_valid)",
            "real entries of a layer are named by path components (non-empty, not . or ..)",
            "root filesystem equality is equality of the path -> (kind, attributes of the providing entry) maps; "
            "xattr listings of the merged view are outside the model",
            "memory metadata store only (the db store lives in the cmd module; its equivalence is C05)",
        ])
