"""C07 — each layer is served as a correct overlayfs lower directory of the OCI layer."""
import os

# Signatures of the labelled stream (TestVerifC07Findings): inputs on which the CURRENT code is known to
# break the property.  They are produced only by that stream.  A signature listed in
# findings/known_findings.txt goes through the normal KNOWN-FINDING path; until the lead records it, it is
# printed as CANDIDATE-FINDING and kept in the evidence (every other signature of that stream, and every
# signature of the main stream, is a VIOLATION as usual).
CANDIDATE_SIGS = {
    "whiteout-of-dotwh-name-listed-not-lookupable":
        "a whiteout whose target itself begins with .wh. (e.g. foo/.wh..wh.foo, foo/.wh..wh..wh..opq) makes Readdir "
        "list the name .wh.foo / .wh..wh..opq as a character device, while Lookup answers ENOENT for every .wh.* name",
    "whiteout-of-landmark-listed-in-root-not-lookupable":
        "a root whiteout of a landmark name (.wh..prefetch.landmark, .wh..no.prefetch.landmark) makes Readdir list "
        "the landmark name in / as a character device, while Lookup answers ENOENT for landmark names in /",
    "whiteout-with-empty-or-dot-target-listed":
        "a file named exactly .wh. / .wh.. / .wh... makes Readdir list an entry with the empty name / a second '.' / "
        "a second '..' as a character device",
}


def findings_stream(ctx, binary, n):
    ops, impl, rep = ctx.run_harness(binary, "TestVerifC07Findings", "c07findings", env={"VERIF_N": n})
    if rep.get("crashed"):
        ctx.add_violation({"kind": "harness-crash", "test": "TestVerifC07Findings", "seed": ctx.seed,
                           "output": rep.get("crash_output", "")}, sig="crash:TestVerifC07Findings")
    if not os.path.exists(ops):
        return
    model = ctx.run_driver("svdriver_c07", ops)
    nops, mism, nm = ctx.diff_streams(ops, impl, model)
    ctx.cov["evaluations"] += nops
    ctx.cov["traces_validated_against_impl"] += nops - nm
    ctx.cov["correspondence_mismatches"] += nm
    ctx.cov["stats"]["c07findings"] = rep.get("stats") or {}
    fails = rep.get("oracle_failures") or []
    cand, other = {}, []
    for f in fails:
        if f["sig"] in CANDIDATE_SIGS:
            cand.setdefault(f["sig"], f)
        else:
            other.append(f)
    for sig, f in sorted(cand.items()):
        if ctx.is_known(sig):
            ctx.known_hits[sig] = ctx.is_known(sig)["what"]
        else:
            print(f"CANDIDATE-FINDING: property=C07 sig={sig} {CANDIDATE_SIGS[sig]} -- witness: {f['what'][:300]}",
                  flush=True)
    ctx.cov["candidate_findings"] = {s: {"what": CANDIDATE_SIGS[s], "witness": f["what"], "count":
                                         sum(1 for x in fails if x["sig"] == s)} for s, f in cand.items()}
    ctx.cov["oracle_failures"] += len(other)
    seen = set()
    for f in other:
        if f["sig"] in seen:
            continue
        seen.add(f["sig"])
        ctx.add_violation({"kind": "oracle", "test": "TestVerifC07Findings", "seed": ctx.seed, "failure": f,
                           "all_failures": other[:20]}, sig=f["sig"])
    if nm and not other:
        ctx.broken.append("correspondence:c07findings")
        ctx.pending_mismatch = {"kind": "correspondence", "test": "TestVerifC07Findings", "seed": ctx.seed,
                                "mismatches": mism, "count": nm}
    missing = [s for s in CANDIDATE_SIGS if s not in cand]
    if missing:
        ctx.notes.append("labelled stream: these recorded defects no longer reproduce: " + ", ".join(missing))


def run(ctx):
    ctx.lean_obligations(["SV.Props.C07"], drivers=["svdriver_c07"])
    quick = ctx.tier == "quick"
    b = ctx.go_test_binary("fs/layer", "h_layer")
    if b:
        ctx.correspond(b, "TestVerifC07", "svdriver_c07", "c07", env={"VERIF_N": 70 if quick else 4000})
        findings_stream(ctx, b, 20 if quick else 600)
    return ctx.finish(
        level="proof",
        rule="one case = one layer built by the real builder from a generated tar (additions, whiteouts, opaque "
             "markers, whiteout+real file of one name, landmarks and TOC name in root and subdirectories, names "
             "containing/starting like .wh., devices, links, xattrs) served by newNode under one of the 3 opaque modes, "
             "distinct by (mode, tar); or one stack of 2-4 such layers distinct by (kernel xattr, mode, shape). Every "
             "directory is driven with a random schedule of Readdir/Lookup/Getattr/Getxattr/Listxattr (lookups before "
             "and after memoisation, with and without go-fuse adopting the child); each call is compared impl-vs-model "
             "and the property predicate (translation of the source tar, agreement, hidden names, chr 0/0, opaque xattr "
             "per mode, inode uniqueness/stability, stat JSON, merged view == applied tars) is evaluated on the "
             "implementation's answers",
        assumptions=[
            "kernel overlayfs follows the merge rules of Documentation/filesystems/overlayfs.rst as rendered by "
            "SV.Overlay.descend/ovlResolve (and, independently, by the harness' verifMerge)",
            "the metadata reader's ForeachChild and GetChild agree and never list a name twice (C05)",
            "domain of overlay_equals_oci: no directory has both .wh.x and a directory x (the property's exclusion); "
            "no real entry is a 0/0 character device; no real directory carries the kernel's overlay opaque xattr "
            "itself; the served opaque mode covers the xattr namespace the kernel mount reads "
            "(each shown necessary by a proved counterexample)",
            "listing_lookup_agree / markers_hidden hold under WhTargetsPlain (no whiteout of a .wh.* name or of a "
            "landmark name in /); the full statements are refuted on the current code (candidate findings)",
            "root filesystem equality is equality of the path -> (kind, attributes of the providing entry) maps; "
            "xattr listings of the merged view are outside the model",
            "memory metadata store only (the db store lives in the cmd module; its equivalence is C05)",
        ])
