"""C07 — each layer is served as a correct overlayfs lower directory of the OCI layer."""


def run(ctx):
    ctx.regen_go2lean()
    ctx.lean_obligations(["SV.Props.C07", "SV.Props.C07gen2"], drivers=["svdriver_c07"])
    quick = ctx.tier == "quick"
    b = ctx.go_test_binary("fs/layer", "h_layer")
    if b:
        ctx.correspond(b, "TestVerifC07", "svdriver_c07", "c07", env={"VERIF_N": 70 if quick else 4000})
        # regression stream for the defects repaired by 545b9cc (whiteouts of .wh.* names, of landmark names in
        # the root, of "", "." and ".."): same oracle, same signatures, now ordinary violations
        ctx.correspond(b, "TestVerifC07Findings", "svdriver_c07", "c07regress", env={"VERIF_N": 20 if quick else 600})
    # the same generator / schedule / oracle / Lean driver over the db (bbolt) metadata store: the layer is served
    # by a real layer.Resolver (cmd module, exported API only)
    bdb = ctx.go_test_binary("containerd-stargz-grpc/db", "h_db_c07", module_dir="cmd")
    if bdb:
        ctx.correspond(bdb, "TestVerifC07DB", "svdriver_c07", "c07db", env={"VERIF_N": 20 if quick else 700})
        ctx.correspond(bdb, "TestVerifC07DBFindings", "svdriver_c07", "c07dbregress", env={"VERIF_N": 6 if quick else 150})
    # end-to-end: service.NewFileSystem (opaque flavour chosen from overlayutils.NeedsUserXAttr), a REAL kernel FUSE
    # mount per layer, the xattr / whiteouts / served tree read through the kernel, and a real overlayfs over the
    # FUSE mountpoints compared with the OCI application of the source tars
    bsvc = ctx.go_test_binary("service", "h_svc_c07")
    if bsvc:
        rep = ctx.correspond(bsvc, "TestVerifC07Service", "svdriver_c07", "c07svc",
                             env={"VERIF_N": 3 if quick else 60}, timeout=600)
        for k, v in ((rep or {}).get("stats") or {}).items():
            if k.startswith("overlayfs-unavailable") or k.startswith("fuse-unavailable"):
                ctx.notes.append(f"{k} (x{v}): the end-to-end pass ran without that part")
    return ctx.finish(
        level="proof",
        rule="one case = one layer built by the real builder from a generated tar (additions, whiteouts, opaque "
             "markers, whiteout+real file of one name, landmarks and TOC name in root and subdirectories, names "
             "containing/starting like .wh., devices, links, xattrs) served by newNode under one of the 3 opaque modes, "
             "distinct by (mode, tar); or one stack of 2-4 such layers distinct by (kernel xattr, mode, shape). Every "
             "directory is driven with a random schedule of Readdir/Lookup/Getattr/Getxattr/Listxattr (lookups before "
             "and after memoisation, with and without go-fuse adopting the child); each call is compared impl-vs-model "
             "and the property predicate (translation of the source tar, agreement, hidden names, chr 0/0, opaque xattr "
             "per mode, inode uniqueness/stability, stat JSON, merged view == applied tars) is evaluated on the "
             "implementation's answers. Both metadata stores: memory (in-package newNode, harness-controlled blob size) "
             "and db/bbolt (real layer.Resolver over a scripted registry; node inputs from an independent db reader of "
             "the same blob). Excluded on the db store only: the root node's own Getattr (root attribute block read "
             "before init, db-root-attr-read-before-init under C02/C05); link counts are not part of the canonical "
             "form on either store; stat-file error/fetched-size injection is memory-store only. "
             "End-to-end: generated 2-3 layer stacks served by service.NewFileSystem over real kernel FUSE mounts; oracle A "
             "(through the kernel: opaque xattr under the flavour overlayutils.NeedsUserXAttr dictates, whiteouts 0/0 chr, "
             "no .wh. name, served tree == translation of the tar) and oracle B (real overlayfs over the FUSE lowers == "
             "applied tars: names, types, file bytes, symlink targets)",
        assumptions=[
            "kernel overlayfs follows the merge rules of Documentation/filesystems/overlayfs.rst as rendered by "
            "SV.Overlay.descend/ovlResolve (and, independently, by the harness' verifMerge)",
            "the metadata reader's ForeachChild and GetChild agree and never list a name twice (C05)",
            "domain of overlay_equals_oci: no directory has both .wh.x and a directory x (the property's exclusion); "
            "no real entry is a 0/0 character device; no real directory carries the kernel's overlay opaque xattr "
            "itself; the served opaque mode covers the xattr namespace the kernel mount reads "
            "(each shown necessary by a proved counterexample)",
            "names are non-empty (a FUSE LOOKUP never carries the empty name; Lookup(\"\") with a child named "
            "exactly .wh. is memoisation-dependent - proved, history_independent_needs_valid)",
            "real entries of a layer are named by path components (non-empty, not . or ..)",
            "root filesystem equality is equality of the path -> (kind, attributes of the providing entry) maps; "
            "xattr listings of the merged view are outside the model",
            "a layer whose ROOT carries the opaque marker: the kernel does not read the opaque xattr of a lowerdir root "
            "(observed through a real overlay mount: lower content stays visible), whereas SV.Overlay.descend and the "
            "harness' verifMerge honour it; overlay_equals_oci is therefore a statement about the documented rule, and "
            "the end-to-end pass compares such stacks under their own signature overlay-opaque-marker-on-layer-root-ignored-by-kernel, which is a recorded known finding",
            "end-to-end pass: real FUSE + overlayfs of this sandbox's kernel; a whiteout that overlayfs' readdir leaks "
            "from a lower-only directory (listed, lstat ENOENT) counts as absent",
            "db store: metadata ids of two db readers over the same blob coincide (TOC order); checked by the "
            "correspondence itself",
        ])
