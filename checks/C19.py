"""C19 — image conversion emits descriptors that describe exactly the blobs it wrote
(nativeconverter/estargz, nativeconverter/zstdchunked, nativeconverter/estargz/externaltoc)."""
import vlib

PKG = "nativeconverter/estargz/externaltoc"


def _build(ctx, name, race=False):
    """Harness binary.  zz_verif_xc19hooks_test.go (the only file naming unexported identifiers of the
    package under test) is compiled in when it builds; when a refactor renamed what it uses, the binary
    is built without it, the scenarios behind the hooks are skipped, and that is a note, not a failure."""
    nb = len(ctx.broken)
    b = ctx.go_test_binary(PKG, name, race=race, only=["c19", "xc19"])
    if b:
        return b
    del ctx.broken[nb:]
    b = ctx.go_test_binary(PKG, name, race=race, only=["c19"])
    if b:
        ctx.notes.append("optional hooks file (unexported fetchTOCBlobFromManifest / layerConvert / "
                         "layerLossLessConvertFunc) no longer builds against this tree: lossless fault injection and "
                         "the comparison with the snapshotter's own manifest lookup were skipped")
    return b


def run(ctx):
    ctx.lean_obligations(["SV.Props.C19"], drivers=["svdriver_c19"])
    quick = ctx.tier == "quick"
    b = _build(ctx, "h_c19")
    reps = []
    if b:
        reps.append(ctx.correspond(b, "TestVerifC19", "svdriver_c19", "c19",
                                   env={"VERIF_N": 6 if quick else 120,
                                        "VERIF_C19_EXTRA": 8 if quick else 120,
                                        "VERIF_C19_STRESS": 3 if quick else 8,
                                        "VERIF_C19_FINDINGS": 1 if quick else 6},
                                   timeout=900 if quick else 3000))
        # separate pass: ONLY the inputs of the two recorded findings (known_findings.txt:
        # gzip-converter-keeps-zstd-mediatype, uncompressed-label-missing-preexisting-blob); the main
        # pass above never generates them, so it keeps strict correspondence and a strict oracle
        reps.append(ctx.correspond(b, "TestVerifC19Known", "svdriver_c19", "c19known",
                                   env={"VERIF_C19_EXTRA": 4 if quick else 30}, timeout=900))
    br = _build(ctx, "h_c19_race", race=True)
    if br and quick:
        # the atomicity premise of the TOC-map theorems is OBSERVED, not read off the source: many layers
        # through one external-TOC converter instance (and one instance given a shared option slice)
        # under the race detector; a data race / fatal error / wrong TOC image is a violation
        reps.append(ctx.correspond(br, "TestVerifC19RaceQuick", "svdriver_c19", "c19racequick",
                                   env={"VERIF_C19_CHILD_N": 8}, timeout=900))
    if not quick:
        # the same scenarios under the race detector (about 13x slower): concurrent batches, retries,
        # whole images, shared option slices, put stress; the table is skipped
        if br:
            reps.append(ctx.correspond(br, "TestVerifC19", "svdriver_c19", "c19race",
                                       env={"VERIF_N": 6, "VERIF_C19_TABLE": 0, "VERIF_C19_FINDINGS": 1,
                                            "VERIF_C19_STRESS": 2, "VERIF_C19_CHILD_N": 16},
                                       timeout=3000))
    # behaviours outside the clauses of C19, recorded as notes (harness stats keys "note:...")
    seen = {}
    for r in reps:
        for k, v in ((r or {}).get("stats") or {}).items():
            if k.startswith("note:"):
                seen[k[5:]] = seen.get(k[5:], 0) + v
    for k, v in sorted(seen.items()):
        ctx.notes.append(f"outside C19, observed {v}x: {k}")
    programs = sum(int((r.get("stats") or {}).get("validated-conversions", 0)) for r in reps if r)
    return ctx.finish(
        level="translation_validation",
        rule="one 'program' = one layer conversion by the real converter against a local content store, validated "
             "by recomputing every claim of the returned descriptor from the committed blob read back from the store "
             "(SHA-256/length, magic bytes vs media type, full decompression vs size annotation and "
             "containerd.io/uncompressed label, estargz.Open+VerifyTOC and the metadata reader vs the TOC annotation, "
             "file contents, zstd:chunked footer vs manifest annotations, lossless: stream == source stream; external "
             "TOC: every converted digest has exactly one manifest layer whose TOC blob opens and verifies that layer). "
             "Generated: the rows of the 76-row media-type table (4 converters x 19 media types, content encoded as the "
             "media type says; the 6+3 zstd-typed-layer-into-gzip-converter rows run in the separate known-findings pass, "
             "the 16 non-layer-into-external-TOC rows are outside C19 and only probed once under recover) plus rows with "
             "mismatching content; batches of 3-9 layers (uncompressed/gzip/zstd, OCI "
             "and Docker, duplicates, the same tar in two encodings, already-converted eStargz/zstd:chunked/"
             "external-TOC input) converted CONCURRENTLY by one converter instance with random common and per-layer "
             "options; conversions interrupted mid-stream / with garbage left under the writer ref / interrupted "
             "between layer commit and TOC write, then retried; for EVERY converter half of a previous output left "
             "under the converter's own ingest ref, then retried (result must equal the clean run); whole images "
             "through containerd's DefaultIndexConvertFunc (config diff_ids re-checked, finalize given the converted "
             "image) and multi-platform indexes (linux/amd64+linux/arm64, shared and platform-specific layers: the TOC "
             "image must map the layers of every platform). distinct = table row, or (scenario, converter "
             "variant, batch shape, option set). The driver lines compare the media-type function and the TOC-image "
             "contents (puts in random order, manifest layers, fetchTOCBlobFromManifest lookups) with the Lean model"
             + ("" if quick else "; thorough: the batch/retry/image scenarios again under -race"),
        assumptions=[
            "the writes to the external-TOC converter's shared layer->TOC map are atomic, so a schedule of N conversions "
            "is a permutation of N atomic puts; not read off the source but observed every run: 12-96 layers through "
            "ONE converter instance lined up right before the map write, without and with the race detector (a data "
            "race or 'concurrent map writes' is a violation), and the TOC image is recomputed by the oracle",
            "BuildSound: the decompression of the blob a builder emits is the stream its accessors hash and count, and "
            "the TOC estargz.Open finds is the TOC whose digest the accessor returns (recomputed by the oracle for "
            "every conversion, not proved)",
            "SHA-256 is an uninterpreted function; only lossless_keeps_stream assumes it does not collide on the two streams",
            "the content store behaves like containerd's plugins/content/local with a label store (resumable ingest per "
            "ref, Commit of an existing digest = AlreadyExists without touching labels)",
            "option slices: since 27b6c79 every convert func copies the slice per conversion; slices with spare capacity "
            "are used in the concurrent batches and in dedicated child-process scenarios (a failure is a violation)",
        ],
        extra={"programs": programs,
               "disagreements_checked": ctx.cov["oracle_failures"] + ctx.cov["correspondence_mismatches"],
               "explanation": "per-conversion translation validation (oracle independent of the model) + proved core "
                              "(descriptor wiring, retry independence, lossless double check, exhaustive media-type "
                              "table, schedule independence of the TOC map) + differential check of the table and of "
                              "the TOC-image contents against the compiled Lean model"})
