#!/usr/bin/env python3
"""Triage of the silent survivors of the mutation sweep (mutation/Cxx.jsonl): writes triage.json
(used by tools/mkreport.py) and TRIAGE.md.  Classes:
  equivalent        same observable behaviour (wait vs busy-wait, >= vs > where both sides coincide, perf only)
  hook-arg          the mutated token is an argument of a verif trace hook (sweeps before the filter was added)
  config-default    default value of an unset configuration field / environment probe; the harness sets the field
  fault-path        differs only when an OS / bolt / codec / registry call fails that the harness's fault model never fails
  other-check       reported by another property's check (named in the note)
  not-in-property   real behaviour change, but about something the property (and usually every property) does not state
  MISS              the property is broken and the check is silent (none left)
Every entry was looked at by hand; AUTO rules only pre-fill fault-path / config-default."""
import json, glob, os, re
V = os.path.dirname(os.path.dirname(os.path.abspath(__file__)))
MAN = {
 # (property, file-suffix, mutant id): (class, note)
 ("C13", 11): ("hook-arg", ""), ("C13", 52): ("hook-arg", ""), ("C13", 55): ("hook-arg", ""), ("C13", 54): ("hook-arg", ""), ("C13", 49): ("hook-arg", ""),
 ("C13", 26): ("equivalent", "Cond.Wait() deleted: the waiting loop spins instead of blocking"),
 ("C13", 23): ("equivalent", "inner re-check dropped: Wait() is still inside the outer loop on the same condition"),
 ("C06", 192): ("equivalent", "len(p) == remain gives the same slice either way"),
 ("C06", 49): ("equivalent", "r.b == l.b with l.e <= r.e is taken by the earlier merge branch"),
 ("C06", 171): ("equivalent", "NewRequest already returns an empty header"),
 ("C06", 40): ("not-in-property", "single-flight key degenerates; a shared result is re-validated by the joiner (C06c model), so only efficiency changes"),
 ("C06", 4): ("not-in-property", "second Close() closes the cache again"),
 ("C06", 80): ("config-default", "retry/backoff settings of the retryable client not applied"),
 ("C09", 242): ("equivalent", "log line only"), ("C09", 240): ("equivalent", "log line only"),
 ("C09", 109): ("not-in-property", "disk usage accounting of a committed snapshot"),
 ("C09", 381): ("not-in-property", "permission bits of a re-created upper directory (0755 -> 0756)"),
 ("C07", 134): ("not-in-property", "Info().ReadTime only"), ("C07", 136): ("not-in-property", "Info().ReadTime only"),
 ("C07", 322): ("not-in-property", "st_size of a whiteout device node (overlayfs ignores it)"),
 ("C07", 240): ("not-in-property", "reader not closed on layer close (resource release, C12's domain; C12 samples it)"),
 ("C07", 354): ("not-in-property", "rdev of the .stargz-snapshotter state file"),
 ("C12", 196): ("equivalent", "remain == 0 is mapped to 0 either way"),
 ("C12", 44): ("not-in-property", "permission bits of the cache directory"),
 ("C12", 178): ("other-check", "cache loss between shared fetch and copy: was a MISS of C06 (its stress used caches that never lose entries); a lossy cache wrapper was added to TestVerifC06C, now reported by ./check C06 (nil dereference crash)"),
 ("C02", 499): ("equivalent", "positive(0) = 0 either way"),
 ("C02", 436): ("equivalent", "bolt bucket fill percent (space/perf only)"),
 ("C02", 320): ("equivalent", "cache probe at offset 1 never yields a full chunk, the data is then read from the source (perf only)"),
 ("C02", 36): ("other-check", "TOC range validation of db.NewReader: malformed-blob domain, C04 (fix 61ee3c1 inputs)"),
 ("C02", 275): ("other-check", "was a MISS of C02 (caught by C04 only): the passthrough generator lacked merge buffers the chunk size does not divide; scripted geometries added, now reported by C02 for seeds 1-3"),
 ("C10", 43): ("equivalent", "memory layer bypassed on Get; bytes come from the file layer (perf only)"),
 ("C10", 89): ("equivalent", "Add behaves as direct (no memory copy); perf only"), ("C10", 91): ("equivalent", "same"),
 ("C10", 93): ("not-in-property", "Add on a closed cache"),
 ("C11", 84): ("equivalent", "fadvise hint"), ("C11", 61): ("fault-path", "fadvise error"), ("C11", 62): ("fault-path", "fadvise error"), ("C11", 139): ("fault-path", "fadvise error"),
 ("C11", 120): ("not-in-property", "double Close of the cache"), ("C11", 3): ("not-in-property", "relative cache directory accepted"),
 ("C14", 703): ("other-check", "gzip magic of the INPUT tar: reported by ./check C03 (3 violations)"),
 ("C14", 42): ("not-in-property", "tocOffset 0 never occurs for a blob with a payload"),
 ("C03", 130): ("not-in-property", "TOCEntry.ModTime() accessor of the estargz library; both metadata stores parse modtime themselves (C02/C05/C07 silent, checked)"),
 ("C03", 448): ("not-in-property", "Writer.Close called twice"),
 ("C04", 585): ("not-in-property", "min-chunk-size boundary (>= vs >): both layouts are valid eStargz"),
 ("C04", 70): ("equivalent", "a blob of exactly FooterSize bytes has no TOC and is rejected later anyway"),
 ("C05", 428): ("config-default", "default chunk size of the builder"),
 ("C05", 639): ("not-in-property", "db File.ReadAt at/after EOF: fs/reader clamps before calling it (C02/C04 silent, checked)"),
 ("C05", 11): ("not-in-property", "TOCOffset hint only enlarges the first fetch"),
 ("C01", 658): ("other-check", "malformed chunk table: ./check C04 reports it (crash)"),
 ("C01", 76): ("other-check", "unknown node id: ./check C04 reports it (22 violations)"),
 ("C01", 798): ("equivalent", "TOC JSON carries no NumLink field; the db store computes link counts itself (C05/C02 silent, checked)"),
 ("C01", 125): ("not-in-property", "group NAME propagation (only numeric ids are served)"),
 ("C01", 344): ("equivalent", "buffer not returned to the pool (allocation only)"),
 ("C01", 248): ("equivalent", "byte count returned together with an error is ignored by the FUSE layer"),
 ("C01", 28): ("not-in-property", "memory and directory chunk cache swapped by configuration; both verify"),
 ("C15", 62): ("equivalent", "the TOC file is not an entry of the TOC; the skip never triggers on built blobs"),
 ("C15", 79): ("other-check", "chunk validation of fix 95288ee: ./check C04 reports it"),
 ("C16", 210): ("not-in-property", "UncompressedSize placeholder"), ("C16", 193): ("not-in-property", "rdev of store-level attrs"),
 ("C16", 125): ("not-in-property", "background fetch switch"), ("C16", 208): ("not-in-property", "owner of synthetic store directories"),
 ("C17", 45): ("not-in-property", "fm.root is not read again"), ("C17", 57): ("not-in-property", "fm.curCRIServer is not part of the record/mount relation"),
 ("C18", 32): ("not-in-property", "docker.io -> registry-1.docker.io host alias: requests go to another host name, no credential reaches a host it was not configured for"),
 ("C19", 278): ("equivalent", "slice not cleared after cleanup"),
 ("C20", 88): ("not-in-property", "layer reference not released when Mount fails after resolution (holder discipline of fs.Mount; no clause of C20)"),
 # ---- round 2 (--anchors)
 ("C01", 649): ("other-check", "db chunk lookup for 2-chunk files: errors are allowed by C01; ./check C02 (1) and ./check C05 (4) report it"),
 ("C02", 167): ("other-check", "hardlink-to-directory guard of fix 588493d: malformed-TOC domain, ./check C04 reports it"),
 ("C04", 114): ("not-in-property", "footer without the STARGZ magic accepted: accepting more inputs cannot crash; format conformance of the READER is no clause of C04"),
 ("C06", 72): ("not-in-property", "ReadAt after Close()"),
 ("C05", 371): ("equivalent", "every entry that needs a next offset already has its metadata entry on built blobs; a TOC where it has none is C04's malformed-input domain"),
 ("C06", 268): ("config-default", "connectivity-check timeout applied even when 0"),
 ("C06", 186): ("other-check", "was a MISS of C06: a short copy from the cache in copyFetchedChunks swallowed; the stress's cache wrapper now also truncates reads, ./check C06 reports it"),
 ("C07", 198): ("equivalent", "size returned together with ENODATA is ignored"),
 ("C11", 96): ("equivalent", "duplicate Add: the loser's buffer is not returned to the pool (allocation only)"),
 ("C11", 41): ("not-in-property", "Get on a closed cache"),
 ("C11", 83): ("equivalent", "fadvise hint"),
 ("C13", 47): ("equivalent", "context cancel func not called after the body finished (timer leak until the timeout)"),
 ("C13", 25): ("equivalent", "inner re-check `> 1`: falls through to the outer loop, which re-tests `> 0` (spins instead of blocking)"),
 ("C15", 61): ("equivalent", "the TOC file is not an entry of the TOC; the skip never triggers on built blobs"),
 ("C15", 75): ("equivalent", "extra iteration at nr == size ends at ChunkEntryForOffset's !ok"),
 ("C15", 28): ("other-check", "TOC digest comparison of fix a094525: C01's domain (its seeded change A is that revert)"),
 ("C15", 136): ("not-in-property", "Info().ReadTime only"),
 ("C15", 151): ("other-check", "layer.Verify ignores the VerifyTOC error: ./check C01 reports it (2 violations)"),
 ("C16", 83): ("equivalent", "value returned together with ENOENT is ignored"),
 ("C18", 171): ("equivalent", "NewRequest already returns an empty header"),
 ("C09", 312): ("config-default", "environment: overlayutils.NeedsUserXAttr is false in this sandbox (root, no userns), the userxattr branch never runs; TestVerifC07Service would report a wrong flavour where it does"),
 ("C07", 23): ("config-default", "environment: NeedsUserXAttr is false here, so disabling the userxattr branch changes nothing; its negation IS reported (opaque-xattr-flavour)"),
 ("C07", 15): ("config-default", "the harness passes its own RegistryHosts; the default built from the resolver config is C18's domain"),
 ("C07", 31): ("not-in-property", "aggregation of the per-reader errors of getSources into the returned error"),
 ("C12", 180): ("fault-path", "error of the metrics/umount bookkeeping after the layer was already released"),
 ("C20", 111): ("not-in-property", "base inode number of the root node"),
 ("C20", 92): ("not-in-property", "disable_verification ignored (stricter); C01's ladder"),
 ("C20", 118): ("other-check", "mounted layer not registered: ./check C01 reports it"),
 ("C20", 87): ("other-check", "was a MISS of every check: a successful fs.Mount releases its layer reference, the mounted layer dies at TTL expiry. No check drove a successful fs.Mount; TestVerifC12Mount (real kernel FUSE mount, reads after the TTL) was added and ./check C12 reports it as mounted-layer-stopped-serving"),
 ("C03", 49): ("equivalent", "encoder not returned to the pool (allocation only)"),
 ("C03", 30): ("equivalent", "internal length assertion of the footer builder; the buffer always has FooterSize bytes"),
 ("C03", 114): ("not-in-property", "Writer.closed flag after closeWithCombine (a second Close)"),
}
CFG = re.compile(r"^New[A-Z]|^new[A-Z]")
out, lines = {}, []
for f in sorted(glob.glob(os.path.join(V, "mutation", "C*.jsonl"))):
    pid = os.path.basename(f)[:3]
    for l in open(f):
        r = json.loads(l)
        if r["detected"] or r.get("existing_tests") != "pass":
            continue
        k = f"{r['file']}:{r['line']}:{r['kind']}:{r['id']}"
        c = MAN.get((pid, r["id"]))
        if not c:
            src = open("/repo/" + r["file"]).read().split("\n")[r["line"] - 1]
            if "err" in src and r["kind"] in ("iffalse", "ifneg", "binop"):
                c = ("fault-path", "error branch of: " + src.strip()[:90])
            elif CFG.search(r["func"]):
                c = ("config-default", src.strip()[:90])
            else:
                c = ("untriaged", src.strip()[:90])
        out.setdefault(pid, {})[k] = list(c)
        lines.append(f"| {pid} | `{r['file']}:{r['line']}` {r['func']} | {r['kind']} `{r['orig'][:50].replace('|','/')}` | {c[0]} | {c[1].replace('|','/')} |")
json.dump(out, open(os.path.join(V, "mutation", "triage.json"), "w"), indent=1)
with open(os.path.join(V, "mutation", "TRIAGE.md"), "w") as fo:
    fo.write(__doc__.split("Classes:")[0].replace('"""', "").strip() + "\n\nClasses:\n" + __doc__.split("Classes:")[1] + "\n\n")
    fo.write("| check run | site | mutation | class | note |\n|---|---|---|---|---|\n" + "\n".join(lines) + "\n")
print(len(lines), "survivors;", sum(1 for p in out.values() for v in p.values() if v[0] == "untriaged"), "untriaged")
