import SV.Model.Region
import SV.Lemmas.Region
import SV.Props.C06
