/-
Model of fs/remote/blob.go (ReadAt / Cache / fetchRegions / cacheChunkData / walkChunks /
bytesWriter / adjustBufferSize) and of the retry state machine of httpFetcher.fetch
(fs/remote/resolver.go).  Core-only.

Domain: offsets and lengths are naturals (io.ReaderAt forbids negative offsets); Content-Range
values in server replies are naturals as well (the regexp only matches digits).
External parts that are parameters of the model, not modelled: HTTP/multipart parsing, the
chunk cache implementation (a finite map here, C11 is about the real one), singleflight.
-/
import SV.Model.Region

namespace SV.Blob
open SV.Region

abbrev Bytes := List UInt8

/-- `B[lo, lo+len)` clipped to the list. -/
def slice (b : Bytes) (lo len : Nat) : Bytes := (b.drop lo).take len

structure Params where
  size : Nat
  chunk : Nat
deriving Repr

/-- `floor(n, unit)`. -/
def floorU (n unit : Nat) : Nat := (n / unit) * unit
/-- `ceil(n, unit)` (note: the Go function returns the start of the NEXT unit). -/
def ceilU (n unit : Nat) : Nat := (n / unit + 1) * unit

/-- A chunk `[b,e]`, both ends inclusive, as produced by `walkChunks`. -/
structure Chunk where
  b : Nat
  e : Nat
deriving DecidableEq, Repr

def Chunk.size (c : Chunk) : Nat := c.e + 1 - c.b
def Chunk.toRegion (c : Chunk) : Region := ⟨c.b, c.e⟩

/-- The loop of `walkChunks`: `for i := b; i <= e && i < size; i += chunkSize`. -/
def chunksFrom (P : Params) (e : Nat) : Nat → Nat → List Chunk
  | 0, _ => []
  | fuel + 1, i =>
    if i ≤ e ∧ i < P.size then
      ⟨i, min (i + P.chunk - 1) (P.size - 1)⟩ :: chunksFrom P e fuel (i + P.chunk)
    else []

/-- `walkChunks(region{b,e})`: `none` is the "must be aligned by chunk size" error. -/
def walkChunks (P : Params) (b e : Nat) : Option (List Chunk) :=
  if b % P.chunk ≠ 0 then none else some (chunksFrom P e (P.size + 1) b)

/-! ### bytesWriter -/

structure BW where
  dest : Bytes
  destOff : Nat
  current : Nat
deriving Repr

def writeAt (buf : Bytes) (base : Nat) (seg : Bytes) : Bytes :=
  buf.take base ++ seg ++ buf.drop (base + seg.length)

/-- One `bytesWriter.Write(p)` call. -/
def BW.write (w : BW) (p : Bytes) : BW :=
  let destBase := w.current - w.destOff            -- positive(current - destOff)
  let pBegin := w.destOff - w.current              -- positive(destOff - current)
  let pEnd0 := w.destOff + w.dest.length - w.current
  let next := { w with current := w.current + p.length }
  if destBase > w.dest.length then next
  else if pBegin ≥ p.length then next
  else
    let pEnd := if pEnd0 > p.length then p.length else pEnd0
    -- copy(dest[destBase:], p[pBegin:pEnd]) copies min(len(dest)-destBase, pEnd-pBegin) bytes
    let src := (p.drop pBegin).take (pEnd - pBegin)
    let src := src.take (w.dest.length - destBase)
    { next with dest := writeAt w.dest destBase src }

/-! ### ReadAt -/

/-- Per-chunk placement computed in `prepareChunksForRead`. -/
structure Place where
  base : Nat
  lower : Nat
  expected : Nat
deriving Repr

def place (o n : Nat) (c : Chunk) : Place :=
  let base := c.b - o
  let lower := o - c.b
  let upper := (c.e + 1) - (o + n)
  { base := base, lower := lower, expected := c.size - upper - lower }

abbrev Cache := List (Chunk × Bytes)

def Cache.get (cache : Cache) (c : Chunk) : Option Bytes :=
  (cache.find? (fun kv => kv.1 = c)).map (·.2)

/-- `cache.Add` + `Commit`: a second commit under an existing key leaves the first value
(whichever is kept, both are the same bytes for an honest server). -/
def Cache.put (cache : Cache) (c : Chunk) (d : Bytes) : Cache :=
  match cache.get c with
  | some _ => cache
  | none => cache ++ [(c, d)]

structure St where
  cache : Cache := []
  fetched : List Region := []

/-- One part of a server reply: the range announced in Content-Range and the body bytes. -/
structure Part where
  b : Nat
  e : Nat
  data : Bytes
deriving Repr

inductive Reply
  | fail                       -- fetcher returned an error
  | parts (ps : List Part)
deriving Repr

/-- Split the chunk list into cache hits (with the bytes read) and misses.
A hit must deliver `expected` bytes at `lower` (`readFromCache`). -/
def classify (o n : Nat) (cache : Cache) : List Chunk → List (Chunk × Bytes) × List Chunk
  | [] => ([], [])
  | c :: cs =>
    let (hs, ms) := classify o n cache cs
    let pl := place o n c
    match cache.get c with
    | some d =>
      if (slice d pl.lower pl.expected).length = pl.expected then ((c, d) :: hs, ms)
      else (hs, c :: ms)
    | none => (hs, c :: ms)

/-- `cacheChunkData` for the chunks of one part, reading `chunk.size` bytes each from the
part's stream.  Returns the updated state, the remaining stream and the chunk data delivered,
or `none` on a short body (CopyN error).  State changes made before the error persist. -/
def storeChunks (s : St) (stream : Bytes) : List Chunk → St × Option (List (Chunk × Bytes))
  | [] => (s, some [])
  | c :: cs =>
    if stream.length < c.size then (s, none)
    else
      let d := stream.take c.size
      let s' : St := { cache := s.cache.put c d, fetched := add s.fetched c.toRegion }
      let (s'', r) := storeChunks s' (stream.drop c.size) cs
      (s'', r.map ((c, d) :: ·))

/-- The `for { reg, p, err := mr.Next() ... }` loop of `fetchRegions`. -/
def storeParts (P : Params) (s : St) : List Part → St × Option (List (Chunk × Bytes))
  | [] => (s, some [])
  | p :: ps =>
    match walkChunks P p.b p.e with
    | none => (s, none)
    | some cs =>
      match storeChunks s p.data cs with
      | (s', none) => (s', none)
      | (s', some got) =>
        let (s'', r) := storeParts P s' ps
        (s'', r.map (got ++ ·))

/-- `fetchRange`/`fetchRegions` for the missing chunks. -/
def fetchMissing (P : Params) (s : St) (missing : List Chunk) (reply : Reply) :
    St × Option (List (Chunk × Bytes)) :=
  if missing.isEmpty then (s, some [])
  else match reply with
    | .fail => (s, none)
    | .parts ps =>
      match storeParts P s ps with
      | (s', none) => (s', none)
      | (s', some got) =>
        -- "Check all chunks are fetched"
        if missing.all (fun c => got.any (fun g => g.1 = c)) then (s', some got) else (s', none)

/-- Writes of all chunks into the caller's buffer (hits through `readFromCache`, misses
through their `bytesWriter`; the target ranges are pairwise disjoint, so the order in which the
Go code performs them does not matter and the model performs them in chunk order). -/
def assemble (o n : Nat) (buf : Bytes) : List (Chunk × Bytes) → Bytes
  | [] => buf
  | (c, d) :: rest =>
    let pl := place o n c
    assemble o n (writeAt buf pl.base (slice d pl.lower pl.expected)) rest

def lookupData (hits got : List (Chunk × Bytes)) (c : Chunk) : Option Bytes :=
  match hits.find? (fun kv => kv.1 = c) with
  | some kv => some kv.2
  | none => (got.find? (fun kv => kv.1 = c)).map (·.2)

/-- `adjustBufferSize`. -/
def adjust (P : Params) (n o : Nat) : Nat :=
  if n ≥ P.size - o then P.size - o else n

/-- Result of `ReadAt`: `none` = error; `some (k, buf)` = `k` bytes valid in `buf`. -/
def readAt (P : Params) (s : St) (o n : Nat) (reply : Reply) : St × Option (Nat × Bytes) :=
  if n = 0 ∨ o > P.size then (s, some (0, List.replicate n 0))
  else
    match walkChunks P (floorU o P.chunk) (ceilU (o + n - 1) P.chunk - 1) with
    | none => (s, none)
    | some cs =>
      let (hits, missing) := classify o n s.cache cs
      match fetchMissing P s missing reply with
      | (s', none) => (s', none)
      | (s', some got) =>
        let datas := cs.filterMap (fun c => (lookupData hits got c).map (fun d => (c, d)))
        (s', some (adjust P n o, assemble o n (List.replicate n 0) datas))

/-- The chunks `ReadAt`/`Cache` will request from the registry (cache misses). -/
def missingFor (P : Params) (s : St) (o n : Nat) : Option (List Chunk) :=
  if n = 0 ∨ o > P.size then some []
  else (walkChunks P (floorU o P.chunk) (ceilU (o + n - 1) P.chunk - 1)).map
    (fun cs => (classify o n s.cache cs).2)

/-- `cacheAt` (one call of `Cache` when prefetchChunkSize ≤ chunkSize): fetch the chunks of
`[offset, offset+size)` that are not cached; nothing is copied out. -/
def cacheAt (P : Params) (s : St) (o n : Nat) (reply : Reply) : St × Bool :=
  match walkChunks P (floorU o P.chunk) (ceilU (o + n - 1) P.chunk - 1) with
  | none => (s, false)
  | some cs =>
    let missing := cs.filter (fun c => (s.cache.get c).isNone)
    match fetchMissing P s missing reply with
    | (s', none) => (s', false)
    | (s', some _) => (s', true)

/-- Ranges put into the Range header by `httpFetcher.fetch`: the requested chunks squashed by
`regionSet.add`; in single-range mode their super-region. -/
def requestRanges (singleRange : Bool) (missing : List Chunk) : List Region :=
  let rs := missing.foldl (fun acc c => add acc c.toRegion) []
  if singleRange then (match superRegion rs with | some r => [r] | none => []) else rs

/-! ### retry state machine of `httpFetcher.fetch` -/

inductive Status | ok200 | partial206 | forbidden403 | badReq400 | other | netErr
deriving DecidableEq, Repr

structure FSt where
  singleRange : Bool := false
  redirected : Bool := false       -- url currently points at the redirect target
deriving Repr, DecidableEq

inductive FOut | body | error
deriving DecidableEq, Repr

/-- `fetch(ctx, rs, retry)`: consumes one scripted status per request it sends; `refresh` is the
outcome of `refreshURL` (`none` = failed, `some r` = new url is redirected or not).
Returns (state, outcome, number of blob requests sent). -/
def fetchSM (st : FSt) (retry : Bool) (script : List Status) (refresh : Option Bool) :
    FSt × FOut × Nat :=
  match script with
  | [] => (st, .error, 0)
  | s :: rest =>
    match s with
    | .ok200 | .partial206 => (st, .body, 1)
    | .forbidden403 =>
      if retry then
        match refresh with
        | none => (st, .error, 1)
        | some r =>
          let st' := { st with redirected := r }
          match rest with
          | [] => (st', .error, 1)
          | s2 :: _ =>
            (match s2 with
             | .ok200 | .partial206 => (st', .body, 2)
             | _ => (st', .error, 2))
      else (st, .error, 1)
    | .badReq400 =>
      if retry ∧ ¬ st.singleRange then
        let st' := { st with singleRange := true }
        match rest with
        | [] => (st', .error, 1)
        | s2 :: _ =>
          (match s2 with
           | .ok200 | .partial206 => (st', .body, 2)
           | _ => (st', .error, 2))
      else (st, .error, 1)
    | .other | .netErr => (st, .error, 1)

end SV.Blob
