/-
Model of the FUSE node layer of store/fs.go on top of the LayerManager model `SV.Store`:
`rootnode.Lookup`, `refnode.Lookup/Rmdir/OnForget`, `layernode.Lookup/Create/OnForget`, `blobnode`,
`MemRegularFileOnForget` (info), `MemSymlinkOnForget` (pool), `fs.newInodeWithID`, `idMap.get/remove`,
together with the part of go-fuse v2 (`fs/bridge.go`, `fs/inode.go`) that decides WHEN these handlers
and `OnForget` run: `rawBridge.Lookup/addNewChild/Forget/Rmdir/Create`, `Inode.removeRef(Inner)`,
`Inode.RmChild`, `Inode.RmAllChildren`, persistent inodes, `stableAttrs`.

Core-only (no Mathlib).  The tree is a flat list of nodes with a parent pointer (a node of this file
system has at most one parent: there are no hard links unless two live inodes get the same inode
number, which is recorded in `clash` and proved impossible).
-/
import SV.Model.Store

namespace SV.StoreFs
open SV.Store

/-! ### idMap -/

abbrev IdMap := List Nat

def maxU32 : Nat := 4294967295

/-- `idMap.get`: the smallest id `≥ 1` that is not in the map (`none`: "no ID is usable").  A map
with `n` entries has a free id among `1..n+1`. -/
def idGet (m : IdMap) : Option Nat :=
  match (List.range' 1 (m.length + 1)).find? (fun i => decide (i ∉ m)) with
  | some i => if i ≤ maxU32 then some i else none
  | none => none

/-- `idMap.remove`. -/
def idRemove (m : IdMap) (id : Nat) : IdMap := m.filter (fun i => decide (i ≠ id))

/-! ### Names, node kinds, nodes -/

/-- file names of `<mountpoint>/<ref>/<toc digest>/…`. -/
inductive LName where
  | diff | info | blob | use | other
deriving DecidableEq, Repr, Inhabited

/-- a name the kernel asks for, by the class the handlers distinguish. -/
inductive Name where
  | ref (r : Nat)       -- base64 of a parseable image reference
  | pool                -- "pool"
  | toc (t : Nat)       -- a parseable digest
  | leaf (l : LName)    -- "diff" "info" "blob" "use", anything else
  | bad                 -- neither base64 of a reference nor a digest nor one of the above
deriving DecidableEq, Repr, Inhabited

inductive Kind where
  | ref (r : Nat)          -- refnode
  | pool                   -- MemSymlinkOnForget
  | layer (r t : Nat)      -- layernode (holds its refnode only for `ref`)
  | info                   -- MemRegularFileOnForget
  | blob (lid : Nat)       -- blobnode holding layer instance `lid`
  | diff (base : Nat)      -- root node of the layer's own file system, `layerMap` id `base`
deriving DecidableEq, Repr, Inhabited

def Kind.isDiff : Kind → Bool
  | .diff _ => true
  | _ => false

/-- the file type bits of the StableAttr (dir / symlink / regular). -/
def Kind.ftype : Kind → Nat
  | .ref _ | .layer .. | .diff _ => 0
  | .pool => 1
  | .info | .blob _ => 2

/-- one go-fuse `Inode` with its `Operations()`. -/
structure Node where
  id : Nat                 -- bridge node id (`Inode.nodeId`, never reused)
  kind : Kind
  ino : Nat                -- `StableAttr.Ino`
  lookups : Nat            -- `lookupCount`: references the kernel holds
  persistent : Bool
  parent : Option Nat      -- node id of the directory whose `children` map holds this node
  name : Name              -- under this name
deriving DecidableEq, Repr, Inhabited

def rootId : Nat := 1

/-- inode number of a `diff` directory: `(base << 32) | 3` (fs/layer/node.go `inodeOfID`). -/
def diffIno (base : Nat) : Nat := 4294967296 * base + 3

structure St where
  lm : Store.St := {}
  nodeMap : IdMap := []
  layerMap : IdMap := []
  nodes : List Node := []
  nextId : Nat := 2          -- `rawBridge.nextNodeId`
  clash : Bool := false      -- `addNewChild` found ANOTHER inode under the same StableAttr
deriving Repr, Inhabited

def init : St := {}

inductive Res where
  | entry (id ino : Nat)   -- Lookup succeeded: node id and inode number of the reply
  | ok
  | einval | eio | enoent | erofs
  | badreq                 -- not a request a kernel can send (unknown / forgotten node id, FORGET underflow)
deriving DecidableEq, Repr, Inhabited

/-! ### Tree access -/

def node? (s : St) (i : Nat) : Option Node := s.nodes.find? (fun n => n.id == i)

def childrenOf (ns : List Node) (p : Nat) : List Node := ns.filter (fun n => n.parent == some p)

/-- `Inode.GetChild`. -/
def child? (ns : List Node) (p : Nat) (nm : Name) : Option Node :=
  ns.find? (fun n => n.parent == some p && n.name == nm)

def upd (ns : List Node) (i : Nat) (f : Node → Node) : List Node :=
  ns.map (fun n => if n.id = i then f n else n)

def dropNode (ns : List Node) (i : Nat) : List Node := ns.filter (fun n => n.id != i)

/-! ### OnForget -/

/-- `OnForget` of refnode / layernode / blobnode / MemRegularFileOnForget / MemSymlinkOnForget:
`nodeMap.remove(attr.Ino)`; the layer's root node has no OnForget and `layerMap` has no remove. -/
def onForget (s : St) (n : Node) : St :=
  if n.kind.isDiff then s else { s with nodeMap := idRemove s.nodeMap n.ino }

/-! ### go-fuse: removeRef -/

structure RR where
  s : St
  before : Bool             -- beforeLookups || beforePersistent || beforeChildren
  dropped : Option Node     -- the node left the tree (no lookups, not persistent, no children)
  unused : Option Nat       -- its parent became unused by that

/-- the reference change of `removeRefInner`: `lookupCount -= nlookup` or drop persistence. -/
def rrF (nl : Nat) (drop : Bool) (m : Node) : Node :=
  if nl > 0 then { m with lookups := m.lookups - nl }
  else if drop && m.persistent then { m with persistent := false }
  else m

/-- the parent of a node that left the tree, if that made it unused
(`children.len() == 0 && lookupCount == 0 && !persistent`). -/
def unusedParent (ns : List Node) (par : Option Nat) : Option Nat :=
  match par with
  | none => none
  | some p =>
    match ns.find? (fun m => m.id == p) with
    | none => none
    | some pn =>
      if (childrenOf ns p).isEmpty && pn.lookups == 0 && !pn.persistent then some p else none

def hasChildren (s : St) (i : Nat) : Bool := !(childrenOf s.nodes i).isEmpty

/-- `Inode.removeRefInner` (sequential). -/
def removeRefInner (s : St) (i : Nat) (nl : Nat) (drop : Bool) : Option RR :=
  match node? s i with
  | none => none
  | some n =>
    if decide ((rrF nl drop n).lookups > 0) || hasChildren s i || (rrF nl drop n).persistent then
      some ⟨{ s with nodes := upd s.nodes i (rrF nl drop) },
        decide (n.lookups > 0) || n.persistent || hasChildren s i, none, none⟩
    else
      some ⟨{ s with nodes := dropNode s.nodes i },
        decide (n.lookups > 0) || n.persistent || hasChildren s i, some (rrF nl drop n),
        unusedParent (dropNode s.nodes i) (rrF nl drop n).parent⟩

/-- the `unusedParents` loop of `removeRef`: each unused parent is removed from ITS parent and gets
`OnForget` unconditionally. -/
def cascade : Nat → St → Option Nat → St
  | _, s, none => s
  | 0, s, some _ => s
  | f + 1, s, some p =>
    match removeRefInner s p 0 false with
    | none => s
    | some r =>
      match r.dropped with
      | some pn => cascade f (onForget r.s pn) r.unused
      | none => r.s

/-- `Inode.removeRef`. -/
def removeRef (s : St) (i : Nat) (nl : Nat) (drop : Bool) : St :=
  match removeRefInner s i nl drop with
  | none => s
  | some r =>
    match r.dropped with
    | some n =>
      let s1 := if r.before then onForget r.s n else r.s
      cascade s.nodes.length s1 r.unused
    | none => r.s

/-- `Inode.RmChild(name)` on directory `p`. -/
def rmChild (s : St) (p : Nat) (nm : Name) : St :=
  match child? s.nodes p nm with
  | none => s
  | some c =>
    let s := { s with nodes := upd s.nodes c.id (fun n => { n with parent := none }) }
    if p = rootId then s else
    match node? s p with
    | none => s
    | some pn =>
      if decide (pn.lookups > 0) || !(childrenOf s.nodes p).isEmpty || pn.persistent then s
      else removeRef s p 0 false

/-- `Inode.RmAllChildren` (recursion depth bounded by the fuel). -/
def rmAll : Nat → St → Nat → St
  | 0, s, i => removeRef s i 0 true
  | f + 1, s, i =>
    let s := (childrenOf s.nodes i).foldl (fun s c => rmChild (rmAll f s c.id) i c.name) s
    removeRef s i 0 true

/-! ### go-fuse: addNewChild;  fs.go: newInodeWithID -/

/-- `addNewChild`: `stableAttrs` holds ANOTHER inode (one the kernel references) under the same
file type and inode number. -/
def clashWith (ns : List Node) (c : Node) : Bool :=
  ns.any fun m =>
    m.id != c.id && decide (m.lookups > 0) && m.ino == c.ino && m.kind.ftype == c.kind.ftype

/-- `child.lookupCount++; parent.setEntry(name, child)`. -/
def relink (p : Nat) (nm : Name) (m : Node) : Node :=
  { m with lookups := m.lookups + 1, parent := some p, name := nm }

/-- `rawBridge.addNewChild` for the inode the handler returned. -/
def addChild (s : St) (p : Nat) (nm : Name) (c : Node) : St × Res :=
  ({ s with
      nodes := if s.nodes.any (fun m => m.id == c.id) then upd s.nodes c.id (relink p nm)
               else s.nodes ++ [relink p nm c],
      clash := s.clash || clashWith s.nodes c }, .entry c.id c.ino)

/-- `fs.newInodeWithID` + `NewPersistentInode` + `addNewChild`. -/
def newNode (s : St) (p : Nat) (nm : Name) (k : Kind) : St × Res :=
  match idGet s.nodeMap with
  | none => (s, .eio)
  | some id =>
    addChild { s with nodeMap := id :: s.nodeMap, nextId := s.nextId + 1 } p nm
      ⟨s.nextId, k, id, 0, true, none, nm⟩

/-! ### fs.go handlers -/

/-- `rootnode.Lookup`. -/
def rootLookup (s : St) (nm : Name) : St × Res :=
  match child? s.nodes rootId nm with
  | some cn =>
    match cn.kind with
    | .pool | .ref _ => addChild s rootId nm cn
    | _ => (s, .eio)
  | none =>
    match nm with
    | .pool => newNode s rootId nm .pool
    | .ref r => newNode s rootId nm (.ref r)
    | _ => (s, .einval)

/-- `refnode.Lookup` on refnode `p` of image `r`. -/
def refLookup (s : St) (p r : Nat) (nm : Name) : St × Res :=
  match child? s.nodes p nm with
  | some cn =>
    match cn.kind with
    | .layer .. => addChild s p nm cn
    | _ => (s, .eio)
  | none =>
    match nm with
    | .toc t => newNode s p nm (.layer r t)
    | _ => (s, .einval)

/-- `layernode.Lookup` on layernode `p` of (`r`, `t`). -/
def layerLookup (T : Truth) (o : Oracle) (s : St) (p r t : Nat) (nm : Name) : St × Res :=
  match child? s.nodes p nm with
  | some cn => addChild s p nm cn
  | none =>
    match nm with
    | .leaf .info =>
      match Store.info T o s.lm r t with
      | (lm, .info _) => newNode { s with lm := lm } p nm .info
      | (lm, _) => ({ s with lm := lm }, .eio)
    | .leaf .blob =>
      match Store.lookup T o s.lm r t with
      | (lm, .layer l) =>
        if l.toc = t then newNode { s with lm := lm } p nm (.blob l.id)      -- l.Verify(n.digest)
        else ({ s with lm := lm }, .eio)
      | (lm, _) => ({ s with lm := lm }, .eio)
    | .leaf .diff =>
      match Store.lookup T o s.lm r t with
      | (lm, .layer l) =>
        if l.toc = t then
          let s := { s with lm := lm }
          match idGet s.layerMap with
          | none => (s, .eio)
          | some b =>
            let s := { s with layerMap := b :: s.layerMap }
            if l.id ∈ s.lm.done then (s, .eio)                               -- RootNode: "already closed"
            else
              addChild { s with nextId := s.nextId + 1 } p nm
                ⟨s.nextId, .diff b, diffIno b, 0, true, none, nm⟩
        else ({ s with lm := lm }, .eio)
      | (lm, _) => ({ s with lm := lm }, .eio)
    | _ => (s, .enoent)                                                      -- "use", unknown file name

/-- the `current == 0` branch of `refnode.Rmdir`: drop the layer directory with everything below
it, then the ref directory itself if that was its last child. -/
def rmdirCleanup (s : St) (p : Nat) (nm : Name) : St :=
  let s1 :=
    match child? s.nodes p nm with
    | some cn => rmChild (rmAll 2 s cn.id) p nm
    | none => s
  if (childrenOf s1.nodes p).isEmpty then rmAll 1 s1 p else s1

/-- `refnode.Rmdir` on refnode `p` of image `r`. -/
def refRmdir (s : St) (p r : Nat) (nm : Name) : St × Res :=
  match nm with
  | .toc t =>
    match Store.release s.lm r t with
    | (lm, .count c) =>
      (if c = 0 then rmdirCleanup { s with lm := lm } p nm else { s with lm := lm }, .enoent)
    | (lm, _) => ({ s with lm := lm }, .eio)
  | _ => (s, .einval)

/-! ### Requests -/

inductive Op where
  | lookup (o : Oracle) (p : Nat) (nm : Name)   -- LOOKUP name in directory node p
  | forget (i : Nat) (n : Nat)                  -- FORGET n lookups of node i
  | create (p : Nat) (nm : Name)                -- CREATE name in p
  | rmdir (p : Nat) (nm : Name)                 -- RMDIR name in p

/-- the kernel holds node `i` (the root is always held). -/
def held (s : St) (i : Nat) : Option (Option Node) :=
  if i = rootId then some none
  else match node? s i with
    | some n => if n.lookups > 0 then some (some n) else none
    | none => none

def step (T : Truth) (s : St) : Op → St × Res
  | .lookup o p nm =>
    match held s p with
    | none => (s, .badreq)
    | some none => rootLookup s nm
    | some (some n) =>
      match n.kind with
      | .ref r => refLookup s p r nm
      | .layer r t => layerLookup T o s p r t nm
      | .diff _ => (s, .badreq)                 -- inside a layer: fs/layer, not this model
      | _ => (s, .enoent)                       -- no Lookuper, no children
  | .forget i k =>
    match held s i with
    | some (some n) => if 0 < k ∧ k ≤ n.lookups then (removeRef s i k false, .ok) else (s, .badreq)
    | _ => (s, .badreq)
  | .create p nm =>
    match held s p with
    | none => (s, .badreq)
    | some none => (s, .erofs)
    | some (some n) =>
      match n.kind with
      | .layer r t =>
        if nm = .leaf .use then ({ s with lm := (Store.use s.lm r t).1 }, .enoent) else (s, .enoent)
      | .diff _ => (s, .badreq)
      | _ => (s, .erofs)
  | .rmdir p nm =>
    match held s p with
    | none => (s, .badreq)
    | some none => (rmChild s rootId nm, .ok)   -- no Rmdirer: the bridge removes the child "silently"
    | some (some n) =>
      match n.kind with
      | .ref r => refRmdir s p r nm
      | .diff _ => (s, .badreq)
      | _ => (rmChild s p nm, .ok)

def run (T : Truth) (s : St) (h : List Op) : St := h.foldl (fun s op => (step T s op).1) s

def Reachable (T : Truth) (s : St) : Prop := ∃ h, s = run T init h

end SV.StoreFs
