import SV.Model.LayerLife
/-
Model of the HOLDER side of C12: `fs/fs.go` — `filesystem.Mount`, `Check`/`check`, `Unmount` and the
bookkeeping of `fs.layer[mountpoint]`.  Core-only (no Mathlib) so that the driver links.

The resolver is NOT abstracted: the state embeds `SV.LayerLife.State` (the model of
`fs/layer.Resolver` proved correct by C12) and every call the Go code makes on the resolver or on a
layer handle is one `SV.LayerLife.step`:
  `fs.resolver.Resolve(…)`  = `.resolve name oracle`
  `l.Done()`                = `.done tok false`
  `l.Close()`               = `.done tok true`
  timer of either cache     = `.expireL` / `.expireB`
so the resolver part of every state reached here is a state reached by a `LayerLife` history
(`SV.Props.C12b.ll_refines`) and all C12 theorems apply to it.

Identities.  A mountpoint is a `Nat`; `fs.layer` is an association list mountpoint ↦ the holder
(`*layerRef`) = its closure of the layer cache (a token of `LayerLife`).  Per `*layer` object the
verification state (`l.r == nil` / `l.verified`) is kept in `vst` (LayerLife does not track it).
`kmounts` is the kernel's mount table restricted to our mountpoints (a multiset: mounts stack).

Mirrored branch for branch (fs/fs.go line numbers of the unchanged tree):
* Mount 229-234: `getSources` fails / returns nothing ⇒ error before anything is spawned (`mountNoSrc`).
* Mount 248-260: target `Resolve` (any 4-bit failure oracle).
* Mount 263-279: every neighbouring layer of the manifest (digest ≠ target) is resolved with its own
  oracle and — on success — released at once with `Done()`.  This happens whether or not the target
  resolves.  The goroutines are concurrent in Go; they work on different names, whose `Resolve`s
  commute, and two of one name are serialised by the per-name lock — the model runs them in order
  after the target (premise recorded in the manifest; the harness waits for them).
* Mount 292-307: deferred `if retErr != nil { unregister if the entry is ours; l.Done() }`.
* Mount 299-324: the verify / skip-verify decision (`verifyStep`) incl. `layer.Verify`'s refusal of a
  layer already used without verification and `SkipVerify`'s no-op on a layer that has a reader.
* Mount 325-329: `l.RootNode` (closed ⇒ error, no reader ⇒ error).
* Mount 336-338: `fs.layer[mountpoint] = l` — BEFORE the FUSE mount, unconditionally (an entry that is
  already there is overwritten).
* Mount 354-361: `fuse.NewServer` / `WaitMount`: an oracle bit.  On failure the deferred branch removes
  the entry again if it is this Mount's (`fs.layer[mountpoint] == l`, fix 62b0917) and calls `Done()`.
  The pre-fix behaviour (the entry STAYS) is kept as `mountOld`.
* Check 375-381: unknown mountpoint ⇒ error; 383-390: `l.Check()`, on failure `l.Refresh` (one retry
  round over the sources), result ok iff one of them succeeds.  Premise: the layer is not fully
  fetched (`FetchedSize < Size`), `noprefetch` (no wait).  Changes nothing.
* Unmount 435-437: empty mountpoint ⇒ error; 439-443: not in the map ⇒ error, nothing changes;
  444-448: `delete`, then `l.Close()`; 451-460: the unmount syscall — fails iff nothing is mounted
  there (EINVAL); its failure is returned AFTER the entry was removed and the reference released.
Outside: the 30 s resolve timeout, metrics, prefetch/background fetch (disabled), EBUSY/force unmount.
-/
namespace SV.FsMount
open SV.LayerLife SV.Refcount

/-- `l.r == nil` / `l.r != nil ∧ l.verified` / `l.r != nil ∧ ¬l.verified` of a `*layer`. -/
inductive VState where
  | unset | verified | skipped
deriving Repr, DecidableEq, Inhabited

/-- The `containerd.io/snapshot/stargz/toc.digest` label: absent, not a digest, the layer's TOC
digest, another digest. -/
inductive Toc where
  | absent | unparsable | good | wrong
deriving Repr, DecidableEq, Inhabited

/-- Everything one `Mount` call depends on. -/
structure MountIn where
  name : Nat                          -- target layer (refspec + digest)
  o : Oracle                          -- failure oracle of the target's `Resolve`
  neigh : List (Nat × Oracle) := []   -- the other layers of the manifest, each with its oracle
  disableVerif : Bool := false        -- `fs.disableVerification`
  allowNoVerif : Bool := false        -- `fs.allowNoVerification`
  toc : Toc := .good
  skipLabel : Bool := false           -- `config.TargetSkipVerifyLabel` present
  fuse : Bool := true                 -- `fuse.NewServer` + `WaitMount` succeed
deriving Repr, DecidableEq, Inhabited

structure State where
  ll : LayerLife.State := {}
  layer : List (Nat × Nat) := []      -- `fs.layer`: mountpoint ↦ holder token
  vst : List (Nat × VState) := []     -- per `*layer` object: `l.r` / `l.verified`
  kmounts : List Nat := []            -- kernel mount table (our mountpoints, with multiplicity)

inductive Res where
  | ok
  | errSrc | errResolve | errVerify | errRootNode | errFuse        -- Mount
  | errNotRegistered | errCheck                                   -- Check
  | errEmpty | errNotMounted | errUmount                          -- Unmount
  | unit
deriving Repr, DecidableEq, Inhabited

/-! ## association lists -/

def lookup {α : Type} (k : Nat) : List (Nat × α) → Option α
  | [] => none
  | (k', v) :: r => if k' = k then some v else lookup k r

def erase {α : Type} (k : Nat) (m : List (Nat × α)) : List (Nat × α) := m.filter (fun p => p.1 != k)

/-- Go's `m[k] = v`. -/
def insert {α : Type} (k : Nat) (v : α) (m : List (Nat × α)) : List (Nat × α) := (k, v) :: erase k m

/-! ## what LayerLife says about one holder -/

/-- The `(layer, closure)` a successful `Resolve` hands out. -/
def holderOf : LayerLife.Out → Option (Nat × Nat)
  | .hit lid tok => some (lid, tok)
  | .fresh lid tok => some (lid, tok)
  | .existing lid tok => some (lid, tok)
  | _ => none

/-- The holder's closure has not been called yet. -/
def isLive (T : List Tok) (tok : Nat) : Bool :=
  match T[tok]? with
  | some t => !t.once
  | none => false

/-- Outstanding references to layers: closures of the layer cache not yet called. -/
def liveToks (T : List Tok) : Nat := T.countP (fun t => !t.once)

def layerClosed (s : LayerLife.State) (lid : Nat) : Bool := ((s.layers[lid]?).map (·.closed)).getD true

/-- `l.Check()` through a holder. -/
def holderCheck (s : LayerLife.State) (tok : Nat) (probe : Bool) : Bool :=
  match layerOfTok s tok with
  | none => false
  | some lid => layerCheck s lid probe

/-! ## verification (fs.go 299-324, layer.go 472-496) -/

def vstOf (s : State) (lid : Nat) : VState := (lookup lid s.vst).getD .unset

def setV (s : State) (lid : Nat) (v : VState) : State := { s with vst := insert lid v s.vst }

/-- `layer.Verify(dgst)`; `digestOk` = `VerifyTOC` accepts the digest. -/
def verify (s : State) (lid : Nat) (digestOk : Bool) : Option State :=
  if layerClosed s.ll lid then none                       -- "layer is already closed"
  else match vstOf s lid with
    | .skipped => none                                    -- "already been used without verification"
    | _ => if digestOk then some (setV s lid .verified) else none

/-- `layer.SkipVerify()`. -/
def skipVerify (s : State) (lid : Nat) : State :=
  match vstOf s lid with
  | .unset => setV s lid .skipped
  | _ => s                                                -- `if l.r != nil { return }`

def verifyStep (s : State) (lid : Nat) (i : MountIn) : Option State :=
  if i.disableVerif then some (skipVerify s lid)
  else match i.toc with
    | .unparsable => none                                 -- "invalid TOC digest"
    | .good => verify s lid true
    | .wrong => verify s lid false                        -- "invalid stargz layer"
    | .absent =>
      if i.skipLabel && i.allowNoVerif then some (skipVerify s lid)
      else none                                           -- "digest of TOC JSON must be passed"

/-- `l.RootNode(0)` fails. -/
def rootNodeFails (s : State) (lid : Nat) : Bool :=
  layerClosed s.ll lid || vstOf s lid == .unset

/-! ## Mount -/

/-- The pre-resolution goroutines (fs.go 264-279), one neighbour after the other. -/
def preResolve (s : LayerLife.State) : List (Nat × Oracle) → LayerLife.State
  | [] => s
  | (n, o) :: rest =>
    let r := LayerLife.step s (.resolve n o)
    match holderOf r.2 with
    | some (_, tok) => preResolve (LayerLife.step r.1 (.done tok false)).1 rest   -- `l.Done()`
    | none => preResolve r.1 rest                                                 -- "failed to pre-resolve"

/-- `neighboringLayers`: the manifest's layers except the target. -/
def neighbours (i : MountIn) : List (Nat × Oracle) := i.neigh.filter (fun p => p.1 != i.name)

/-- The deferred failure branch (fs.go 292-307, since fix 62b0917):
`if fs.layer[mountpoint] == l { delete(fs.layer, mountpoint) }` under `layerMu`, then `l.Done()`.
The `== l` guard: an entry that belongs to an EARLIER Mount of the mountpoint is not removed. -/
def failMount (s : State) (mp tok : Nat) (r : Res) : State × Res :=
  let s1 : State := if lookup mp s.layer = some tok then { s with layer := erase mp s.layer } else s
  ({ s1 with ll := (LayerLife.step s1.ll (.done tok false)).1 }, r)

/-- The deferred failure branch BEFORE fix 62b0917: only `l.Done()`; a registered entry stays. -/
def failMountOld (s : State) (_mp tok : Nat) (r : Res) : State × Res :=
  ({ s with ll := (LayerLife.step s.ll (.done tok false)).1 }, r)

/-- `filesystem.Mount`, parametrised by the deferred failure branch. -/
def mountWith (fail : State → Nat → Nat → Res → State × Res) (s : State) (mp : Nat) (i : MountIn) : State × Res :=
  let r := LayerLife.step s.ll (.resolve i.name i.o)
  let s1 : State := { s with ll := preResolve r.1 (neighbours i) }
  match holderOf r.2 with
  | none => (s1, .errResolve)
  | some (lid, tok) =>
    match verifyStep s1 lid i with
    | none => fail s1 mp tok .errVerify
    | some s2 =>
      if rootNodeFails s2 lid then fail s2 mp tok .errRootNode
      else
        let s3 : State := { s2 with layer := insert mp tok s2.layer }     -- fs.layer[mountpoint] = l
        if i.fuse then ({ s3 with kmounts := mp :: s3.kmounts }, .ok)
        else fail s3 mp tok .errFuse

/-- `filesystem.Mount` as it is now (the entry registered before a failing FUSE step is removed again). -/
def mount (s : State) (mp : Nat) (i : MountIn) : State × Res := mountWith failMount s mp i

/-- `filesystem.Mount` before fix 62b0917 (kept for the counterexample
`SV.Props.C12b.failed_fuse_mount_leaves_stale_entry`): a failing FUSE step leaves the entry. -/
def mountOld (s : State) (mp : Nat) (i : MountIn) : State × Res := mountWith failMountOld s mp i

/-! ## Check -/

def check (s : State) (mp : Nat) (probe reg : Bool) : Res :=
  match lookup mp s.layer with
  | none => .errNotRegistered
  | some tok =>
    if holderCheck s.ll tok probe then .ok
    else match refreshRes s.ll tok reg with
      | .ok => .ok
      | _ => .errCheck

/-! ## Unmount -/

def unmount (s : State) (mp : Nat) : State × Res :=
  match lookup mp s.layer with
  | none => (s, .errNotMounted)
  | some tok =>
    let s1 : State := { s with layer := erase mp s.layer,                  -- delete(fs.layer, mountpoint)
                               ll := (LayerLife.step s.ll (.done tok true)).1 }   -- l.Close()
    if s1.kmounts.contains mp then ({ s1 with kmounts := s1.kmounts.erase mp }, .ok)
    else (s1, .errUmount)                                                  -- EINVAL: not a mountpoint

/-! ## operations -/

inductive Op where
  | mount (mp : Nat) (i : MountIn)
  | mountNoSrc (mp : Nat)
  | check (mp : Nat) (probe reg : Bool)
  | unmount (mp : Nat)
  | unmountEmpty
  | expireL (name : Nat)
  | expireB (name : Nat)
deriving Repr, DecidableEq, Inhabited

def step (s : State) : Op → State × Res
  | .mount mp i => mount s mp i
  | .mountNoSrc _ => (s, .errSrc)
  | .check mp probe reg => (s, check s mp probe reg)
  | .unmount mp => unmount s mp
  | .unmountEmpty => (s, .errEmpty)
  | .expireL n => ({ s with ll := (LayerLife.step s.ll (.expireL n)).1 }, .unit)
  | .expireB n => ({ s with ll := (LayerLife.step s.ll (.expireB n)).1 }, .unit)

def runFrom (s : State) (ops : List Op) : State := ops.foldl (fun s o => (step s o).1) s

/-- State after a history, from `NewFilesystem`. -/
def run (ops : List Op) : State := runFrom {} ops

/-- "No Mount on a mountpoint already in `fs.layer`" along a history (decidable). -/
def noRemount : State → List Op → Bool
  | _, [] => true
  | s, op :: rest =>
    (match op with
     | .mount mp _ => (lookup mp s.layer).isNone
     | _ => true) && noRemount (step s op).1 rest

/-- Every FUSE mount step of the history succeeds. -/
def fuseOk : List Op → Bool
  | [] => true
  | .mount _ i :: rest => i.fuse && fuseOk rest
  | _ :: rest => fuseOk rest

/-- Entries of `fs.layer` whose reference is unreleased. -/
def liveEntries (s : State) : Nat := s.layer.countP (fun p => isLive s.ll.lc.core.toks p.2)

end SV.FsMount
