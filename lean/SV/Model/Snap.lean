/-
Model of snapshot/snapshot.go (the remote snapshotter) together with the part of containerd's
`core/snapshots/storage` package (bolt-backed metadata) that it relies on.
Core-only (no Mathlib) so that the drivers link as `lean_exe`.

Shape of the model
* Durable state (`Durable`): the bolt metadata (`init` = the `v1` bucket exists, `snaps`, `seq` = the
  bucket sequence that allocates ids) and the entries of `<root>/snapshots/` (`dirs`: id-named
  directories and `new-*` temporaries).
* Volatile state (`State`): the backend FileSystem's mount table (`mounts`, keyed by snapshot id;
  the mountpoint is `<root>/snapshots/<id>/fs`), the configuration and whether the metadata
  store has been closed.
* Every API call is planned (`plan`) into a LIST OF ATOMIC STEPS (`Step`) which the small-step
  semantics `applyStep` interprets one at a time; the big-step API (`runOp`) is the fold of the
  steps.  Outcomes of the backend's Mount/Check/Unmount come from an `Oracle` (one per call).
  `Step.marker` steps are the `verifCrashPoint("<name>")` hooks of snapshot.go; they do not change
  the state and let the crash-image harness name a prefix of a plan.
* A crash forgets the volatile part (`crash`); `Op.restart` is process start on the durable image
  (`NewSnapshotter` = `restoreRemoteSnapshot`).

All branching of the Go code is decided from the state at the start of the call and the oracle
(one call in flight = sequential semantics); the plan therefore mirrors the Go control flow branch
for branch.  What is NOT modelled: failures of mkdir/rename/RemoveAll/bolt themselves, `Usage`,
rebasing on commit (`WithParent`), name filters of `Walk`.
-/
namespace SV.Snap

/-! ### metadata records -/

inductive Kind where
  | active | view | committed
deriving DecidableEq, Repr, Inhabited

/-- label map; printed sorted by key, looked up by first match. -/
abbrev Labels := List (String × String)

/-- stands for `containerd.io/snapshot/remote` (const `remoteLabel`). -/
def remoteLabel : String := "@remote"
/-- stands for `containerd.io/snapshot.ref` (const `targetSnapshotLabel`). -/
def targetLabel : String := "@ref"
/-- stands for `"remote snapshot"` (const `remoteLabelVal`). -/
def remoteVal : String := "@rs"

def lget : Labels → String → Option String
  | [], _ => none
  | (k', v) :: r, k => if k' = k then some v else lget r k

def lhas (l : Labels) (k : String) : Bool := (lget l k).isSome

def ldel (l : Labels) (k : String) : Labels := l.filter (fun p => p.1 != k)

/-- Go map assignment `m[k] = v`. -/
def lset (l : Labels) (k v : String) : Labels := (k, v) :: ldel l k

/-- `_, ok := info.Labels[remoteLabel]`. -/
def isRemote (l : Labels) : Bool := lhas l remoteLabel

/-- One bucket of the `snapshots` bucket: key, id, kind, parent key ("" = none), labels. -/
structure Snap where
  key : String
  id : Nat
  kind : Kind
  parent : String
  labels : Labels
deriving DecidableEq, Repr, Inhabited

/-- An entry of `<root>/snapshots/`. -/
inductive Dir where
  | id (n : Nat)
  | temp (n : Nat)
deriving DecidableEq, Repr, Inhabited

structure Config where
  asyncRemove : Bool := false
  noRestore : Bool := false
  allowInvalid : Bool := false
deriving DecidableEq, Repr, Inhabited

structure Durable where
  /-- the bolt buckets exist (some write transaction has committed). -/
  init : Bool := false
  /-- the `snapshots` bucket, sorted by key (bolt iterates in key order). -/
  snaps : List Snap := []
  /-- sequence of the `snapshots` bucket; `NextSequence` yields `seq+1`; it only advances when
  the transaction that called it commits. -/
  seq : Nat := 0
  dirs : List Dir := []
  /-- ids whose directory exists WITHOUT its `fs` subdirectory: only between the two `Mkdir` of
  restore (crash point `restore.mkdir`). -/
  nofs : List Nat := []
deriving Repr, Inhabited

structure State extends Durable where
  /-- ids whose `fs` directory carries a backend mount (Mount succeeded, Unmount not yet called). -/
  mounts : List Nat := []
  cfg : Config := {}
  /-- metadata store closed (after `Close`, or while/after a failed start). -/
  closed : Bool := false
deriving Repr, Inhabited

inductive Err where
  | «exists» | notfound | unavailable | failedPrecondition | invalidArgument | other
deriving DecidableEq, Repr, Inhabited

inductive MountSpec where
  /-- bind mount of `snapshots/<id>/fs`. -/
  | bind (id : Nat) (ro : Bool)
  /-- overlay; `upper` = upperdir/workdir id of an active snapshot; `lower` = lowerdir ids in the
  order of the option string. -/
  | overlay (upper : Option Nat) (lower : List Nat)
deriving DecidableEq, Repr, Inhabited

inductive Res where
  | ok
  | mounts (m : MountSpec)
  | err (e : Err)
  | infos (l : List Snap)
  | info (s : Snap)
deriving DecidableEq, Repr, Inhabited

/-- Outcomes of the backend calls of ONE API call, keyed by the directory they are applied to
(within one call the snapshotter touches each mountpoint at most once per kind of call). -/
structure Oracle where
  mountOk : Nat → Bool
  checkOk : Nat → Bool
  unmountOk : Dir → Bool

instance : Inhabited Oracle := ⟨⟨fun _ => true, fun _ => true, fun _ => true⟩⟩

/-! ### atomic steps -/

inductive Step where
  /-- `os.MkdirTemp(snapshots, "new-")` + `fs` (+ `work`). -/
  | mkTemp (t : Nat)
  /-- `os.Rename(td, snapshots/<id>)`. -/
  | rename (t : Nat) (id : Nat)
  /-- `t.Commit()` of createSnapshot: the bucket of `sn` becomes durable, the sequence advances. -/
  | txCreate (sn : Snap)
  /-- `o.fs.Mount(upperPath(id), labels)`. -/
  | fsMount (id : Nat) (labels : Labels) (ok : Bool)
  /-- `t.Commit()` of `commit`: `storage.CommitActive(key, name, labels)` becomes durable. -/
  | txCommitActive (key name : String) (labels : Labels)
  /-- `t.Commit()` of `Remove`. -/
  | txRemove (key : String)
  /-- `t.Commit()` of `Update`. -/
  | txUpdate (key : String) (labels : Labels)
  /-- `o.fs.Unmount(<dir>/fs)`. -/
  | fsUnmount (d : Dir) (ok : Bool)
  /-- `os.RemoveAll(<dir>)`. -/
  | rmdir (d : Dir)
  /-- `o.fs.Check(upperPath(id), labels)`. -/
  | fsCheck (id : Nat) (ok : Bool)
  /-- restore: `os.Mkdir(snapshots/<id>)`, tolerates EEXIST. -/
  | mkdirId (id : Nat)
  /-- restore: `os.Mkdir(snapshots/<id>/fs)`, tolerates EEXIST. -/
  | mkdirFs (id : Nat)
  /-- `o.ms.Close()`. -/
  | dbClose
  /-- the process dies and a new one starts with `cfg` and a fresh backend. -/
  | crash (cfg : Config)
  /-- `NewSnapshotter` returned the snapshotter. -/
  | opened
  /-- `verifCrashPoint(name)`. -/
  | marker (name : String)
deriving DecidableEq, Repr, Inhabited

def findKey (snaps : List Snap) (k : String) : Option Snap := snaps.find? (fun s => s.key == k)

def hasKey (snaps : List Snap) (k : String) : Bool := (findKey snaps k).isSome

/-- bolt keeps buckets sorted by key. -/
def insertSnap (sn : Snap) : List Snap → List Snap
  | [] => [sn]
  | x :: xs => if sn.key < x.key then sn :: x :: xs else x :: insertSnap sn xs

def removeKey (snaps : List Snap) (k : String) : List Snap := snaps.filter (fun s => s.key != k)

/-- `storage.CommitActive` (the successful path). -/
def commitActive (snaps : List Snap) (key name : String) (labels : Labels) : List Snap :=
  match findKey snaps key with
  | none => snaps
  | some sn => insertSnap { sn with key := name, kind := .committed, labels := labels } (removeKey snaps key)

def updateLabels (snaps : List Snap) (key : String) (labels : Labels) : List Snap :=
  snaps.map (fun s => if s.key == key then { s with labels := labels } else s)

def applyStep (s : State) : Step → State
  | .mkTemp t => { s with dirs := s.dirs ++ [Dir.temp t] }
  | .rename t id => { s with dirs := (s.dirs.filter (fun d => d != Dir.temp t)) ++ [Dir.id id] }
  | .txCreate sn => { s with init := true, snaps := insertSnap sn s.snaps, seq := sn.id }
  | .fsMount id _ ok => if ok then { s with mounts := id :: s.mounts } else s
  | .txCommitActive key name labels => { s with snaps := commitActive s.snaps key name labels }
  | .txRemove key => { s with snaps := removeKey s.snaps key }
  | .txUpdate key labels => { s with snaps := updateLabels s.snaps key labels }
  | .fsUnmount d _ =>
    match d with
    | .id n => { s with mounts := s.mounts.filter (fun m => m != n) }
    | .temp _ => s
  | .rmdir d =>
    { s with dirs := s.dirs.filter (fun x => x != d),
             nofs := match d with
               | .id n => s.nofs.filter (fun m => m != n)
               | .temp _ => s.nofs }
  | .fsCheck _ _ => s
  | .mkdirId id =>
    if Dir.id id ∈ s.dirs then s else { s with dirs := s.dirs ++ [Dir.id id], nofs := id :: s.nofs }
  | .mkdirFs id => { s with nofs := s.nofs.filter (fun m => m != id) }
  | .dbClose => { s with closed := true }
  | .crash cfg => { s with mounts := [], cfg := cfg, closed := true }
  | .opened => { s with closed := false }
  | .marker _ => s

def applySteps (s : State) (steps : List Step) : State := steps.foldl applyStep s

/-! ### storage queries -/

/-- The snapshots reached from `key` by following parent links (`storage.parents`,
`checkAvailability`'s loop).  Ids strictly decrease along parent links (see `Lemmas`), so
`fuel = seq + 1` always suffices; `none` = a link is dangling (`GetInfo` fails) or fuel ran out. -/
def chain (snaps : List Snap) : Nat → String → Option (List Snap)
  | 0, _ => none
  | fuel + 1, key =>
    if key = "" then some [] else
    match findKey snaps key with
    | none => none
    | some sn => (chain snaps fuel sn.parent).map (fun r => sn :: r)

def chainOf (s : State) (key : String) : Option (List Snap) := chain s.snaps (s.seq + 1) key

/-- first unused temporary name. -/
def freshTemp (dirs : List Dir) : Nat :=
  dirs.foldl (fun m d => match d with | .temp n => max m (n + 1) | .id _ => m) 0

def liveDir (snaps : List Snap) : Dir → Bool
  | .id n => snaps.any (fun s => s.id == n)
  | .temp _ => false

/-- `remoteSnapshotNames[d]` of getCleanupDirectories. -/
def remoteDir (snaps : List Snap) : Dir → Bool
  | .id n => snaps.any (fun s => s.id == n && isRemote s.labels)
  | .temp _ => false

/-- The directory order `Readdirnames` happens to return is not determined by the model; the caller
may supply it.  Whatever `order` is, the result has the same members as `set`. -/
def arrange (order set : List Dir) : List Dir :=
  order.filter (fun d => set.contains d) ++ set.filter (fun d => !order.contains d)

/-- `cleanupSnapshotDirectory(dir)`. -/
def cleanupDir (orc : Oracle) (d : Dir) : List Step :=
  [.fsUnmount d (orc.unmountOk d), .marker "cleanupdir.unmounted", .rmdir d, .marker "cleanupdir.removed"]

def cleanupSteps (orc : Oracle) (ds : List Dir) : List Step := ds.flatMap (cleanupDir orc)

/-- the checks in `storage.CreateSnapshot` that precede `CreateBucket(key)`. -/
def parentErr (snaps : List Snap) (parent : String) : Option Err :=
  if parent = "" then none else
  match findKey snaps parent with
  | none => some .notfound
  | some p => if p.kind = .committed then none else some .invalidArgument

/-- the checks of `storage.CreateSnapshot` (parent, key) and the parent chain it returns. -/
def createChecks (s : State) (key parent : String) : Except Err (List Snap) :=
  match parentErr s.snaps parent with
  | some e => .error e
  | none =>
    if key = "" then .error .other                 -- bolt: bucket name required
    else if hasKey s.snaps key then .error .exists
    else match chainOf s parent with
      | none => .error .notfound
      | some ps => .ok ps

/-- `os.Stat(upperPath(ParentIDs[0]))` fails. -/
def parentDirMissing (s : State) : List Snap → Bool
  | [] => false
  | p :: _ => !s.dirs.contains (.id p.id) || s.nofs.contains p.id

/-- `createSnapshot`: steps, and on success the new record with its parent ids (nearest first). -/
def createPlan (s : State) (orc : Oracle) (kind : Kind) (key parent : String) (labels : Labels) :
    List Step × Except Err (Snap × List Nat) :=
  let t := freshTemp s.dirs
  match createChecks s key parent with
  | .error e => (.mkTemp t :: .marker "create.tempdir" :: cleanupDir orc (.temp t), .error e)
  | .ok ps =>
    if parentDirMissing s ps then
      (.mkTemp t :: .marker "create.tempdir" :: .marker "create.txcreate" :: cleanupDir orc (.temp t),
       .error .other)
    -- os.Rename onto an existing (non-empty) directory fails; both td and path are reclaimed.
    -- (A directory without `fs` is empty and would be replaced, but such directories belong to
    -- committed remote snapshots, whose ids are below the sequence: they never collide.)
    else if s.dirs.contains (.id (s.seq + 1)) then
      (.mkTemp t :: .marker "create.tempdir" :: .marker "create.txcreate" ::
         (cleanupDir orc (.temp t) ++ cleanupDir orc (.id (s.seq + 1))), .error .other)
    else
      let sn : Snap := ⟨key, s.seq + 1, kind, parent, labels⟩
      ([.mkTemp t, .marker "create.tempdir", .marker "create.txcreate", .rename t (s.seq + 1),
        .marker "create.renamed", .txCreate sn, .marker "create.committed"],
       .ok (sn, ps.map (·.id)))

/-- the mount list built by `mounts()`. -/
def mountSpec (sn : Snap) (pids : List Nat) : MountSpec :=
  match pids with
  | [] => .bind sn.id (sn.kind == .view)
  | p :: rest =>
    if sn.kind == .active then .overlay (some sn.id) (p :: rest)
    else match rest with
      | [] => .bind p true
      | _ => .overlay none (p :: rest)

def remoteOf (ch : List Snap) : List Snap := ch.filter (fun c => isRemote c.labels)

/-- `mounts(ctx, s, checkKey)` = `checkAvailability(checkKey)` + the mount list. -/
def mountsPlan (s : State) (orc : Oracle) (sn : Snap) (pids : List Nat) (checkKey : String) :
    List Step × Res :=
  if checkKey = "" then ([], .mounts (mountSpec sn pids)) else
  match chainOf s checkKey with
  | none => ([], .err .unavailable)
  | some ch =>
    let steps := (remoteOf ch).map (fun c => Step.fsCheck c.id (orc.checkOk c.id))
    if (remoteOf ch).all (fun c => orc.checkOk c.id) then (steps, .mounts (mountSpec sn pids))
    else (steps, .err .unavailable)

def preparePlan (s : State) (orc : Oracle) (key parent : String) (labels : Labels) : List Step × Res :=
  match createPlan s orc .active key parent labels with
  | (st1, .error e) => (st1, .err e)
  | (st1, .ok (sn, pids)) =>
    let s1 := applySteps s st1
    match lget labels targetLabel with
    | none =>
      match mountsPlan s1 orc sn pids parent with
      | (st2, r) => (st1 ++ st2, r)
    | some target =>
      if orc.mountOk sn.id then
        let stM : List Step := [.fsMount sn.id labels true, .marker "prepare.mounted"]
        if target = "" then (st1 ++ stM, .err .other)
        else if hasKey s1.snaps target then
          (st1 ++ stM ++ [.marker "prepare.targetcommitted"], .err .exists)
        else
          (st1 ++ stM ++ [.marker "commit.beforetx",
              .txCommitActive key target (lset labels remoteLabel remoteVal),
              .marker "prepare.targetcommitted"], .err .exists)
      else
        match mountsPlan s1 orc sn pids parent with
        | (st2, r) => (st1 ++ .fsMount sn.id labels false :: st2, r)

def viewPlan (s : State) (orc : Oracle) (key parent : String) (labels : Labels) : List Step × Res :=
  match createPlan s orc .view key parent labels with
  | (st1, .error e) => (st1, .err e)
  | (st1, .ok (sn, pids)) =>
    match mountsPlan (applySteps s st1) orc sn pids parent with
    | (st2, r) => (st1 ++ st2, r)

/-- `Commit(name, key, WithLabels(labels))`. -/
def commitPlan (s : State) (name key : String) (labels : Labels) : List Step × Res :=
  match findKey s.snaps key with
  | none => ([], .err .notfound)
  | some sn =>
    if !s.dirs.contains (.id sn.id) || s.nofs.contains sn.id then ([], .err .other)  -- fs.DiskUsage(upperPath(id))
    else if name = "" then ([], .err .other)                         -- bolt: bucket name required
    else if hasKey s.snaps name then ([], .err .exists)
    else if sn.kind != .active then ([], .err .failedPrecondition)
    else ([.marker "commit.beforetx", .txCommitActive key name labels], .ok)

/-- `Mounts(key)`. -/
def mountsOpPlan (s : State) (orc : Oracle) (key : String) : List Step × Res :=
  match findKey s.snaps key with
  | none => ([], .err .notfound)
  | some sn =>
    if sn.kind == .committed then ([], .err .failedPrecondition)
    else match chainOf s sn.parent with
      | none => ([], .err .notfound)
      | some ps => mountsPlan s orc sn (ps.map (·.id)) key

def removePlan (s : State) (orc : Oracle) (key : String) (order : List Dir) : List Step × Res :=
  match findKey s.snaps key with
  | none => ([], .err .notfound)
  | some _ =>
    if s.snaps.any (fun c => c.parent == key) then ([], .err .failedPrecondition)
    else if s.cfg.asyncRemove then ([.txRemove key], .ok)
    else
      let ds := arrange order (s.dirs.filter (fun d => !liveDir (removeKey s.snaps key) d))
      (.txRemove key :: .marker "remove.txcommitted" :: cleanupSteps orc ds, .ok)

def cleanupPlan (s : State) (orc : Oracle) (order : List Dir) : List Step × Res :=
  (cleanupSteps orc (arrange order (s.dirs.filter (fun d => !liveDir s.snaps d))), .ok)

def closePlan (s : State) (orc : Oracle) (order : List Dir) : List Step × Res :=
  (cleanupSteps orc (arrange order (s.dirs.filter (fun d => remoteDir s.snaps d)))
     ++ [.marker "close.cleaned", .dbClose], .ok)

def updatePlan (s : State) (key lk lv : String) : List Step × Res :=
  match findKey s.snaps key with
  | none => ([], .err .notfound)
  | some sn =>
    let l := if lv = "" then ldel sn.labels lk else lset sn.labels lk lv
    ([.txUpdate key l], .info { sn with labels := l })

/-- the loop of `restoreRemoteSnapshot` over the remote-labelled infos (in `Walk` order). -/
def restoreSteps (allow : Bool) (orc : Oracle) : List Snap → List Step × Bool
  | [] => ([], true)
  | sn :: rest =>
    if orc.mountOk sn.id then
      (.mkdirId sn.id :: .marker "restore.mkdir" :: .mkdirFs sn.id :: .fsMount sn.id sn.labels true ::
         .marker "restore.mounted" :: (restoreSteps allow orc rest).1, (restoreSteps allow orc rest).2)
    else if allow then
      (.mkdirId sn.id :: .marker "restore.mkdir" :: .mkdirFs sn.id :: .fsMount sn.id sn.labels false ::
         (restoreSteps allow orc rest).1, (restoreSteps allow orc rest).2)
    else ([.mkdirId sn.id, .marker "restore.mkdir", .mkdirFs sn.id, .fsMount sn.id sn.labels false], false)

/-- process (re)start on the durable image: `NewSnapshotter`. -/
def restartPlan (s : State) (orc : Oracle) (cfg : Config) : List Step × Res :=
  if cfg.noRestore then ([.crash cfg, .opened], .ok) else
  if (restoreSteps cfg.allowInvalid orc (remoteOf s.snaps)).2 then
    (.crash cfg :: ((restoreSteps cfg.allowInvalid orc (remoteOf s.snaps)).1 ++ [.opened]), .ok)
  else (.crash cfg :: (restoreSteps cfg.allowInvalid orc (remoteOf s.snaps)).1, .err .other)

inductive Op where
  | prepare (key parent : String) (labels : Labels)
  | view (key parent : String) (labels : Labels)
  | commit (name key : String) (labels : Labels)
  | mounts (key : String)
  | remove (key : String) (order : List Dir)
  | cleanup (order : List Dir)
  | walk
  | stat (key : String)
  | update (key lk lv : String)
  | close (order : List Dir)
  | restart (cfg : Config)
deriving Repr, Inhabited

def plan (s : State) (orc : Oracle) : Op → List Step × Res
  | .restart cfg => restartPlan s orc cfg
  | op =>
    if s.closed then ([], .err .other) else
    match op with
    | .prepare key parent labels => preparePlan s orc key parent labels
    | .view key parent labels => viewPlan s orc key parent labels
    | .commit name key labels => commitPlan s name key labels
    | .mounts key => mountsOpPlan s orc key
    | .remove key order => removePlan s orc key order
    | .cleanup order => cleanupPlan s orc order
    | .walk => if s.init then ([], .infos s.snaps) else ([], .err .notfound)
    | .stat key => match findKey s.snaps key with
      | some sn => ([], .info sn)
      | none => ([], .err .notfound)
    | .update key lk lv => updatePlan s key lk lv
    | .close order => closePlan s orc order
    | .restart cfg => restartPlan s orc cfg

/-- big-step API call = fold of its steps. -/
def runOp (s : State) (orc : Oracle) (op : Op) : State × Res :=
  (applySteps s (plan s orc op).1, (plan s orc op).2)

def runOps (s : State) : List (Op × Oracle) → State
  | [] => s
  | (op, orc) :: rest => runOps (runOp s orc op).1 rest

/-- a fresh root. -/
def init (cfg : Config) : State := { cfg := cfg }

/-- what survives the death of the process. -/
def crash (s : State) : Durable := s.toDurable

def ofDurable (d : Durable) (cfg : Config) : State := { toDurable := d, cfg := cfg, closed := true }

/-- `NewSnapshotter` on a crash image. -/
def restore (d : Durable) (cfg : Config) (orc : Oracle) : State × Res :=
  runOp (ofDurable d cfg) orc (.restart cfg)

/-- The states a crash can expose: after any history of completed calls, any prefix of the
atomic steps of the call in flight. -/
def Reachable (cfg0 : Config) (s : State) : Prop :=
  ∃ (hist : List (Op × Oracle)) (op : Op) (orc : Oracle) (k : Nat),
    s = applySteps (runOps (init cfg0) hist) ((plan (runOps (init cfg0) hist) orc op).1.take k)

/-! ### wire format shared by `svdriver_c08` / `svdriver_c09` (presentation only) -/
namespace Wire

def showKind : Kind → String
  | .active => "a" | .view => "v" | .committed => "c"

def insSorted (lt : α → α → Bool) (x : α) : List α → List α
  | [] => [x]
  | y :: ys => if lt x y then x :: y :: ys else y :: insSorted lt x ys

def sortBy (lt : α → α → Bool) (l : List α) : List α := l.foldr (insSorted lt) []

def showLabels (sep : String) (l : Labels) : String :=
  -- first match wins: drop shadowed entries, then sort by key
  let rec dedup : Labels → List String → Labels
    | [], _ => []
    | (k, v) :: r, seen => if seen.contains k then dedup r seen else (k, v) :: dedup r (k :: seen)
  let l := sortBy (fun a b => decide (a.1 < b.1)) (dedup l [])
  if l.isEmpty then "-" else sep.intercalate (l.map fun p => s!"{p.1}={p.2}")

def showSnap (s : Snap) : String :=
  s!"{s.key}/{showKind s.kind}/{if s.parent = "" then "-" else s.parent}/{showLabels "," s.labels}"

def showMeta (s : State) : String :=
  if !s.init then "uninit" else
  if s.snaps.isEmpty then "-" else
  ";".intercalate ((sortBy (fun a b => decide (a.key < b.key)) s.snaps).map showSnap)

def showDir : Dir → String
  | .id n => toString n
  | .temp _ => "t"

def showLs (dirs : List Dir) : String :=
  let ids := sortBy (fun (a b : Nat) => decide (a < b)) (dirs.filterMap fun d => match d with | .id n => some n | .temp _ => none)
  let nt := (dirs.filter fun d => match d with | .temp _ => true | .id _ => false).length
  (if ids.isEmpty then "-" else ",".intercalate (ids.map toString)) ++ s!"+{nt}"

def okStr (b : Bool) : String := if b then "ok" else "fail"

/-- trace of the observable steps; runs of Check calls (issued concurrently) sorted by id. -/
def showTrace (steps : List Step) : String :=
  let rec go : List Step → List (Nat × Bool) → List String
    | [], cs => flush cs
    | .fsCheck id ok :: r, cs => go r ((id, ok) :: cs)
    | st :: r, cs =>
      flush cs ++ (match st with
        | .fsMount id l ok => [s!"M{id}" ++ "{" ++ showLabels ";" l ++ "}=" ++ okStr ok]
        | .fsUnmount d ok => [s!"U{showDir d}={okStr ok}"]
        | .marker m => [m]
        | _ => []) ++ go r []
  let toks := go steps []
  if toks.isEmpty then "-" else ",".intercalate toks
where
  flush (cs : List (Nat × Bool)) : List String :=
    (sortBy (fun a b => decide (a.1 < b.1)) cs).map fun c => s!"C{c.1}={okStr c.2}"

def showErr : Err → String
  | .exists => "exists" | .notfound => "notfound" | .unavailable => "unavail"
  | .failedPrecondition => "failedprecond" | .invalidArgument => "invalid" | .other => "err"

def showMount : MountSpec → String
  | .bind id ro => s!"bind:{id}:{if ro then "ro" else "rw"}"
  | .overlay up lower =>
    s!"overlay:{match up with | some u => toString u | none => "-"}:{",".intercalate (lower.map toString)}"

def showRes : Res → String
  | .ok => "ok"
  | .mounts m => "ok:" ++ showMount m
  | .err e => showErr e
  | .infos _ => "ok"
  | .info s => "ok:" ++ showSnap s

/-- canonical result line of one API call. -/
def showOp (steps : List Step) (r : Res) (s' : State) : String :=
  s!"r={showRes r} tr={showTrace steps} ls={showLs s'.dirs} meta={showMeta s'}"

def parseList (s : String) : List String := if s = "-" then [] else s.splitOn ","

def parseLabels? (s : String) : Option Labels :=
  (parseList s).mapM fun kv =>
    match kv.splitOn "=" with
    | [k, v] => some (k, v)
    | _ => none

def parseKey (s : String) : String := if s = "-" then "" else s

def parseFlag? (pre : String) (s : String) : Option String :=
  if s.startsWith pre then some (s.drop pre.length).toString else none

def parseNats? (s : String) : Option (List Nat) := (parseList s).mapM String.toNat?

/-- `3,t,5`: `t` stands for every temporary directory present in `dirs`. -/
def parseDirs? (dirs : List Dir) (s : String) : Option (List Dir) := do
  let parts ← (parseList s).mapM fun w =>
    if w = "t" then some (dirs.filter fun d => match d with | .temp _ => true | .id _ => false)
    else (w.toNat?).map fun n => [Dir.id n]
  pure parts.flatten.eraseDups

/-- `mf=<*|ids|-> cf=<ids|-> uf=<ids and t|->` -/
def parseOracle? (mf cf uf : String) : Option Oracle := do
  let mf ← parseFlag? "mf=" mf
  let cf ← parseFlag? "cf=" cf
  let uf ← parseFlag? "uf=" uf
  let mAll := mf = "*"
  let mIds ← if mAll then some [] else parseNats? mf
  let cIds ← parseNats? cf
  let uT := (parseList uf).contains "t"
  let uIds ← ((parseList uf).filter (· ≠ "t")).mapM String.toNat?
  pure { mountOk := fun id => !mAll && !mIds.contains id,
         checkOk := fun id => !cIds.contains id,
         unmountOk := fun d => match d with | .id n => !uIds.contains n | .temp _ => !uT }

def parseCfg? (s : String) : Option Config :=
  match s.toList with
  | [a, n, i] =>
    if [a, n, i].all (fun c => c = '0' || c = '1') then
      some { asyncRemove := a = '1', noRestore := n = '1', allowInvalid := i = '1' }
    else none
  | _ => none

/-- `<op> mf= cf= uf= order= args…` -/
def parseOp? (s : State) : List String → Option (Op × Oracle)
  | name :: mf :: cf :: uf :: ord :: args => do
    let orc ← parseOracle? mf cf uf
    let ord ← parseFlag? "order=" ord
    let order ← parseDirs? s.dirs ord
    let op ← match name, args with
      | "prepare", [key, parent, labels] => (parseLabels? labels).map (Op.prepare (parseKey key) (parseKey parent))
      | "view", [key, parent, labels] => (parseLabels? labels).map (Op.view (parseKey key) (parseKey parent))
      | "commit", [nm, key, labels] => (parseLabels? labels).map (Op.commit (parseKey nm) (parseKey key))
      | "mounts", [key] => some (Op.mounts (parseKey key))
      | "remove", [key] => some (Op.remove (parseKey key) order)
      | "cleanup", [] => some (Op.cleanup order)
      | "walk", [] => some Op.walk
      | "stat", [key] => some (Op.stat (parseKey key))
      | "update", [key, lk, lv] => some (Op.update (parseKey key) lk (parseKey lv))
      | "close", [] => some (Op.close order)
      | "restart", [cfg] => (parseCfg? cfg).map Op.restart
      | _, _ => none
    pure (op, orc)
  | _ => none

/-- Driver state: the model state plus, for the current history, the state before each call and
its plan (so that a crash image `(call index, marker, occurrence)` can be located).  After a
`fork` the calls run on the crash image and are no longer recorded. -/
structure DSt where
  s : State := {}
  started : Bool := false
  forked : Bool := false
  hist : Array (State × List Step) := #[]

/-- prefix of `steps` up to and including the `k`-th (1-based) `marker name`. -/
def prefixAt (steps : List Step) (name : String) (k : Nat) : Option (List Step) :=
  let rec go : List Step → Nat → List Step → Option (List Step)
    | [], _, _ => none
    | st :: r, k, acc =>
      if st = .marker name then
        if k ≤ 1 then some (st :: acc).reverse else go r (k - 1) (st :: acc)
      else go r k (st :: acc)
  if k = 0 then none else go steps k []

def stepCommon (d : DSt) : List String → DSt × String
  | ["reset", cfg] =>
    match parseCfg? cfg with
    | some c => ({ s := init c, started := true, forked := false, hist := #[] }, "ok")
    | none => (d, "bad-op")
  | ws =>
    if !d.started then (d, "bad-op") else
    match parseOp? d.s ws with
    | none => (d, "bad-op")
    | some (op, orc) =>
      let p := plan d.s orc op
      let s' := applySteps d.s p.1
      ({ d with s := s', hist := if d.forked then d.hist else d.hist.push (d.s, p.1) }, showOp p.1 p.2 s')

/-- `fork <call idx> <marker> <occ>`: continue on the crash image taken when that marker fired for
the occ-th time inside that call of the recorded history (the process is dead: the next call
must be `restart`). -/
def stepFork (d : DSt) : List String → DSt × String
  | [idx, mk, occ] =>
    match idx.toNat?, occ.toNat? with
    | some idx, some occ =>
      match d.hist[idx]? with
      | none => (d, "bad-op")
      | some (s0, steps) =>
        match prefixAt steps mk occ with
        | none => (d, "no-such-crash-point")
        | some pre =>
          let s := ofDurable (crash (applySteps s0 pre)) s0.cfg
          ({ d with s := s, forked := true }, s!"ok ls={showLs s.dirs} meta={showMeta s}")
    | _, _ => (d, "bad-op")
  | _ => (d, "bad-op")

end Wire

end SV.Snap
