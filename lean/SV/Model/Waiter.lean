/-
Timed model of the prefetch waiter (C15, "waiting is bounded"), core-only.

Go code mirrored (fs/layer/layer.go):

    func (w *waiter) done() { w.doneOnce.Do(func() { close(w.doneCh) }) }
    func (w *waiter) wait(timeout time.Duration) error {
        select {
        case <-time.After(timeout): w.done(); return fmt.Errorf("timeout(%v)", timeout)
        case <-w.doneCh:            return nil
        }
    }

Every caller of `wait` owns a timer of its own (`time.After` is evaluated per call); the first timer
that fires closes the channel for everybody.  Time is a natural number (any unit); `arrivals` are the
instants at which `WaitForPrefetchCompletion` is entered, `T` the configured timeout, `doneAt` the
instant at which prefetch calls `done()` (`none` = never: a stalled prefetch).

`LazyRead.waitOn` (untimed: a timeout is an event) stays the model of ONE call; this file adds what
it cannot say: WHEN each of several staggered callers returns.
-/
namespace SV.Waiter

/-- `min` on "instant or never". -/
def minO : Option Nat → Nat → Nat
  | none, b => b
  | some a, b => min a b

/-- The instant at which `doneCh` gets closed: the earliest of prefetch's `done()` and of every
caller's own timer `a + T`.  (A timer firing after the close calls `done()` again: `sync.Once`, no
effect; a caller entering after the close has `a + T` later than the close, so it never matters.)
`none` only without `done()` and without callers. -/
def closeTime (T : Nat) (doneAt : Option Nat) : List Nat → Option Nat
  | [] => doneAt
  | a :: as => some (minO (closeTime T doneAt as) (a + T))

/-- When the caller that entered at `a` returns: at once if the channel is closed already, else when
it gets closed (which is at the latest when its own timer fires). -/
def returnTime (T : Nat) (doneAt : Option Nat) (arrivals : List Nat) (a : Nat) : Nat :=
  match closeTime T doneAt arrivals with
  | none => a + T          -- unreachable for `a ∈ arrivals` (see `closeTime_le_own`)
  | some c => max a c

inductive Res | nil | timedOut
deriving DecidableEq, Repr

/-- What the caller gets when the `select` is not a tie: `timedOut` iff its own timer is what closes
the channel strictly before anything else could. (At a tie Go picks either ready case.) -/
def result (T : Nat) (doneAt : Option Nat) (arrivals : List Nat) (a : Nat) : Res :=
  match closeTime T doneAt arrivals with
  | none => .timedOut
  | some c => if a + T ≤ c then .timedOut else .nil

/-! ### The variant of seeded change C15-E: ONE timer shared by all callers, re-armed on every entry.
The channel is closed at `last entry before the timer fired + T`. -/

/-- shared, re-armed timer: processing the callers in arrival order, a caller entering before the
current firing instant pushes it to `a + T`. -/
def sharedFire (T : Nat) : Option Nat → List Nat → Option Nat
  | f, [] => f
  | none, a :: as => sharedFire T (some (a + T)) as
  | some f, a :: as => if a < f then sharedFire T (some (a + T)) as else sharedFire T (some f) as

def sharedReturn (T : Nat) (arrivalsSorted : List Nat) (a : Nat) : Nat :=
  match sharedFire T none arrivalsSorted with
  | none => a + T
  | some f => max a f

end SV.Waiter
