/-
Model of fs/remote/util.go: `region`, `superRegion`, `regionSet.add`, `regionSet.totalSize`.
Core-only (no Mathlib) so that the driver links as a `lean_exe`.
-/
namespace SV.Region

/-- `region{b,e}`: HTTP-range style, both ends inclusive. -/
structure Region where
  b : Int
  e : Int
deriving DecidableEq, Repr, Inhabited

def Region.size (r : Region) : Int := r.e - r.b + 1

/-- One pass of the Go loop `for i := len(rs.rs)-1; i >= 0; i--`.
`pre` is `rs.rs[0..i]` reversed (its head is `rs.rs[i]`), `post` is the part of the slice
above index `i` that the loop has kept.  Branch order is the branch order of the Go code. -/
def addScan : List Region → Region → List Region → List Region
  | [], r, post => r :: post                       -- `rs.rs = append([]region{r}, rs.rs...)`
  | l :: pre, r, post =>
    if l.b ≤ r.b ∧ r.e ≤ l.e then                  -- *) l contains r: return
      pre.reverse ++ l :: post
    else if l.b ≤ r.b ∧ r.b ≤ l.e + 1 ∧ l.e ≤ r.e then
      addScan pre { r with b := l.b } post         -- a) r.b = l.b; remove l
    else if r.b ≤ l.b ∧ l.b ≤ r.e + 1 ∧ r.e ≤ l.e then
      addScan pre { r with e := l.e } post         -- a) r.e = l.e; remove l
    else if r.b ≤ l.b ∧ l.e ≤ r.e then
      addScan pre r post                           -- a) r covers l; remove l
    else if l.e < r.b then
      pre.reverse ++ l :: r :: post                -- b) insert r after index i
    else
      addScan pre r (l :: post)                    -- no overlap yet; keep l

/-- `regionSet.add`. -/
def add (rs : List Region) (r : Region) : List Region := addScan rs.reverse r []

/-- `regionSet.totalSize`. -/
def totalSize : List Region → Int
  | [] => 0
  | r :: rs => r.size + totalSize rs

/-- `superRegion(regs)`; the Go code indexes `regs[0]`, so the empty list is `none` (a panic). -/
def superRegion : List Region → Option Region
  | [] => none
  | r0 :: rest =>
    some ((r0 :: rest).foldl (fun s reg =>
      let s := if reg.b < s.b then { s with b := reg.b } else s
      if reg.e > s.e then { s with e := reg.e } else s) r0)

/-- Byte `x` is covered by the set. -/
def cov (x : Int) (rs : List Region) : Prop := ∃ l ∈ rs, l.b ≤ x ∧ x ≤ l.e

def covb (x : Int) (rs : List Region) : Bool := rs.any (fun l => decide (l.b ≤ x) && decide (x ≤ l.e))

/-- Well-formed: regions non-empty, ascending, pairwise separated by at least one byte
(adjacent regions are always merged by `add`). -/
def WF (rs : List Region) : Prop :=
  (∀ l ∈ rs, l.b ≤ l.e) ∧ rs.Pairwise (fun a c => a.e + 1 < c.b)

instance (rs : List Region) : Decidable (WF rs) := by unfold WF; infer_instance

end SV.Region
