/-
Model of task/task.go `BackgroundTaskManager` (C13): a small-step machine whose steps are the
atomic actions of the protocol.  Every interleaving of goroutines is some sequence of these
events, so a statement proved for all event sequences covers all schedules *of the protocol*.
Core-only (no Mathlib) so that the driver links as a `lean_exe`.

Shared state                        Go
  prio    : Nat                     `prioritizedTasks` (tasks in progress or inside the silence period)
  silent  : Nat                     how many of those are inside the silence period
                                    (`DonePrioritizedTask` called, delayed decrement pending)
  epoch   : Nat                     identity of `prioritizedTaskStartNotify`; `DoPrioritizedTask`
                                    closes + replaces the channel = `epoch + 1`
  semFree : Nat                     free slots of `backgroundSem` (capacity `cap`)
Per invocation of `InvokeBackgroundTask`: a program counter `PC`, `cur` (the body started by the
current execution of the closure has not returned yet), `orphans` (bodies started by EARLIER
executions that are still alive - always 0 for the code as it is now, that is a theorem),
`cancelled` (the manager has cancelled the ctx of the current body).
-/
namespace SV.Task

/-- Where an `InvokeBackgroundTask` call stands. -/
inductive PC where
  | waitZero            -- in `for atomic.LoadInt64(&ts.prioritizedTasks) > 0 { cond.Wait }`
  | passed              -- read 0, about to `backgroundSem.Acquire`
  | haveSem             -- holds a slot, about to take `prioritizedTaskStartNotifyMu`
  | backoff             -- read `tasks > 0` under the lock: `return false` (slot still held)
  | running (e0 : Nat)  -- body spawned with notify channel of epoch `e0`; in `select`
  | cancelling          -- `case <-ch: cancel(); <-done` : waiting for the cancelled body
  | cancelDone          -- `<-done` returned after a cancel: `return false` (slot still held)
  | doneOk              -- `case <-done:` `return true` (slot still held)
  | finished            -- slot released, loop left
  | returned            -- `InvokeBackgroundTask` has returned
deriving DecidableEq, Repr, Inhabited

structure Invo where
  pc : PC := .waitZero
  cur : Bool := false
  orphans : Nat := 0
  cancelled : Bool := false
deriving DecidableEq, Repr, Inhabited

/-- Number of bodies of this invocation that are alive. -/
def Invo.aliveN (v : Invo) : Nat := v.orphans + (if v.cur then 1 else 0)

structure State where
  cap : Nat
  semFree : Nat
  prio : Nat
  silent : Nat
  epoch : Nat
  invs : List Invo
deriving DecidableEq, Repr

/-- `NewBackgroundTaskManager(cap, _)` and `n` calls of `InvokeBackgroundTask` about to start. -/
def init (cap n : Nat) : State :=
  { cap := cap, semFree := cap, prio := 0, silent := 0, epoch := 0, invs := List.replicate n {} }

/-- Actions of one invocation (and of the body goroutine it spawned). -/
inductive Act where
  | passWait                -- the wait loop reads `prioritizedTasks == 0`
  | acquire                 -- `backgroundSem.Acquire` succeeds
  | decideStart             -- under the notify lock: `ch := notify; tasks == 0`; spawn the body
  | decideBackoff           -- under the notify lock: `tasks > 0`
  | observeNotify           -- `case <-ch:` + `cancel()`
  | bodyReturns             -- `do(ctx)` of the current body returns (`close(done)`)
  | orphanReturns           -- a body of an earlier execution returns
  | observeDoneAfterCancel  -- `<-done` after the cancel
  | observeDone             -- `case <-done:`
  | release                 -- deferred `backgroundSem.Release(1)`; retry or leave the loop
  | ret                     -- `InvokeBackgroundTask` returns
deriving DecidableEq, Repr

inductive Event where
  | doPrio                  -- `DoPrioritizedTask` (whole critical section)
  | donePrio                -- `DonePrioritizedTask` (starts the silence period)
  | silenceElapsed          -- the delayed `atomic.AddInt64(&prioritizedTasks, -1)` (+ broadcast)
  | inv (i : Nat) (a : Act)
deriving DecidableEq, Repr

/-- One action of an invocation in the context of the shared variables it reads.
Returns the new `semFree` and the new invocation state; `none` = not enabled.
`waitDone = true` is the code as it is (`cancel(); <-done; return false`);
`waitDone = false` is the code before commit 2a04ad3 (`cancel(); return false`). -/
def localStep (waitDone : Bool) (semFree prio epoch : Nat) (v : Invo) : Act → Option (Nat × Invo)
  | .passWait =>
    if v.pc = .waitZero ∧ prio = 0 then some (semFree, { v with pc := .passed }) else none
  | .acquire =>
    if v.pc = .passed ∧ 0 < semFree then some (semFree - 1, { v with pc := .haveSem }) else none
  | .decideStart =>
    if v.pc = .haveSem ∧ prio = 0 then
      some (semFree, { v with pc := .running epoch, cur := true, cancelled := false,
                              orphans := v.orphans + (if v.cur then 1 else 0) })
    else none
  | .decideBackoff =>
    if v.pc = .haveSem ∧ 0 < prio then some (semFree, { v with pc := .backoff }) else none
  | .observeNotify =>
    match v.pc with
    | .running e0 =>
      if e0 < epoch then
        if waitDone then some (semFree, { v with pc := .cancelling, cancelled := true })
        else some (semFree, { v with pc := .cancelDone, cancelled := true, cur := false,
                                     orphans := v.orphans + (if v.cur then 1 else 0) })
      else none
    | _ => none
  | .bodyReturns => if v.cur then some (semFree, { v with cur := false }) else none
  | .orphanReturns =>
    if 0 < v.orphans then some (semFree, { v with orphans := v.orphans - 1 }) else none
  | .observeDoneAfterCancel =>
    if v.pc = .cancelling ∧ v.cur = false then some (semFree, { v with pc := .cancelDone }) else none
  | .observeDone =>
    match v.pc with
    | .running _ => if v.cur = false then some (semFree, { v with pc := .doneOk }) else none
    | _ => none
  | .release =>
    match v.pc with
    | .backoff => some (semFree + 1, { v with pc := .waitZero })
    | .cancelDone => some (semFree + 1, { v with pc := .waitZero })
    | .doneOk => some (semFree + 1, { v with pc := .finished })
    | _ => none
  | .ret => if v.pc = .finished then some (semFree, { v with pc := .returned }) else none

def stepGen (waitDone : Bool) (s : State) : Event → Option State
  | .doPrio => some { s with prio := s.prio + 1, epoch := s.epoch + 1 }
  | .donePrio => if s.silent < s.prio then some { s with silent := s.silent + 1 } else none
  | .silenceElapsed =>
    if 0 < s.silent ∧ 0 < s.prio then some { s with prio := s.prio - 1, silent := s.silent - 1 }
    else none
  | .inv i a =>
    match s.invs[i]? with
    | none => none
    | some v =>
      match localStep waitDone s.semFree s.prio s.epoch v a with
      | none => none
      | some (sf, v') => some { s with semFree := sf, invs := s.invs.set i v' }

/-- The protocol as implemented now. -/
def step : State → Event → Option State := stepGen true

/-- The protocol before the repair: `observeNotify` does not wait for the body. -/
def stepBuggy : State → Event → Option State := stepGen false

def runGen (waitDone : Bool) : State → List Event → Option State
  | s, [] => some s
  | s, e :: es =>
    match stepGen waitDone s e with
    | none => none
    | some s' => runGen waitDone s' es

def run : State → List Event → Option State := runGen true
def runBuggy : State → List Event → Option State := runGen false

/-! ### Invariants (decidable, so that the trace acceptor can evaluate them on every state) -/

/-- The invocation holds a semaphore slot. -/
def holds : PC → Bool
  | .haveSem | .backoff | .running _ | .cancelling | .cancelDone | .doneOk => true
  | _ => false

def holdW (v : Invo) : Nat := if holds v.pc then 1 else 0

def sumBy (f : Invo → Nat) : List Invo → Nat
  | [] => 0
  | v :: l => f v + sumBy f l

def holders (s : State) : Nat := sumBy holdW s.invs

def aliveTotal (s : State) : Nat := sumBy Invo.aliveN s.invs

/-- Per-invocation invariant, relative to the shared `epoch` and `prio`. -/
def Good (epoch prio : Nat) (v : Invo) : Prop :=
  v.orphans = 0 ∧
  match v.pc with
  | .running e0 => e0 ≤ epoch ∧ (e0 = epoch → prio = 0) ∧ v.cancelled = false
  | .cancelling => v.cancelled = true
  | _ => v.cur = false

instance (epoch prio : Nat) (v : Invo) : Decidable (Good epoch prio v) := by
  unfold Good; split <;> infer_instance

def WF (s : State) : Prop :=
  s.silent ≤ s.prio ∧ s.semFree + holders s = s.cap ∧ ∀ v ∈ s.invs, Good s.epoch s.prio v

instance (s : State) : Decidable (WF s) := by unfold WF; infer_instance

/-- The safety part of C13 as a predicate on one state. -/
def Safe (s : State) : Prop :=
  aliveTotal s ≤ s.cap ∧ ∀ v ∈ s.invs, v.aliveN ≤ 1 ∧ (holds v.pc = false → v.aliveN = 0)

instance (s : State) : Decidable (Safe s) := by unfold Safe; infer_instance

/-- Set the program counter of invocation `i` to `passed` without looking at `prio`.
Used by the trace acceptor only: the hook logs `bg.pass_wait` after the read of
`prioritizedTasks`, so the linearisation point of `passWait` lies EARLIER in the recorded trace;
`passWait` touches nothing but the invocation's own pc, so it commutes with every event of other
processes (`SV.Task.forcePass_comm`). -/
def forcePass (s : State) (i : Nat) : Option State :=
  match s.invs[i]? with
  | some v => if v.pc = .waitZero then some { s with invs := s.invs.set i { v with pc := .passed } } else none
  | none => none

end SV.Task
