/-!
# SV.Model.CacheDir — the directory of one `directoryCache` handle under in-flight writers (C12, cache side)

Mirrors `cache/cache.go`, at the granularity of the file-system actions of ONE handle:

* `Add`                    — `if dc.isClosed() {err}`, `dc.wipFile(key)` (needs `<dir>/wip`)         → `Op.add`
* file writer `commitFunc` — three separate actions, other goroutines may run in between:
    `if dc.isClosed() {return err}`                                                               → `Op.check w`
    `os.MkdirAll(filepath.Dir(c))`  (re-creates `<dir>` and `<dir>/<key[:2]>` when missing)       → `Op.mkdir w`
    `os.Rename(wip.Name(), c)`      (fails when the wip file is gone)                             → `Op.rename w`
* `abortFunc`              — `os.Remove(wip.Name())`                                              → `Op.abort w`
* `Close`                  — under `closedMu`: `closed = true; os.RemoveAll(dc.directory)`         → `Op.close`
  (atomic here: `isClosed` takes the same mutex, so a `check` cannot fall inside the removal; `mkdir` /
  `rename` of a writer that passed its check earlier are NOT excluded by the mutex — see `Props/C12x`).

`checkFirst = true` is the order of the repository (check, mkdir, rename).  `checkFirst = false` is the order
mkdir, check, rename ("check right before publishing") — kept in the model so that the theorems can be shown
to depend on the order (seeded change C12-E).

A layer's release calls `Close` on its fscache and its httpcache handle; "both cache directories are gone"
is `dir = false` of both, for ever, whatever the writers still in flight do afterwards.
-/

namespace SV.Model.CacheDir

/-- where a writer is inside `Add … Commit` -/
inductive Pc where
  | opened   -- `Add` returned, wip file created
  | checked  -- passed `if dc.isClosed()`
  | made     -- `os.MkdirAll` done
  | done     -- `Commit` / `Abort` returned
  deriving DecidableEq, Repr

structure State where
  closed : Bool := false
  /-- `dc.directory` exists (together with whatever is below it) -/
  dir : Bool := true
  /-- per writer (index = order of `Add`) -/
  pcs : List Pc := []
  /-- per writer: its wip file is still linked -/
  wip : List Bool := []
  /-- committed chunk files below `<dir>/<xx>/` -/
  files : Nat := 0
  deriving Repr

inductive Op where
  | add
  | check (w : Nat)
  | mkdir (w : Nat)
  | rename (w : Nat)
  | abort (w : Nat)
  | close
  deriving DecidableEq, Repr

inductive Res where
  | ok | err | disabled
  deriving DecidableEq, Repr

/-- program counter at which `check` / `mkdir` / `rename` are enabled, per order -/
def atCheck (cf : Bool) : Pc := if cf then .opened else .made
def atMkdir (cf : Bool) : Pc := if cf then .checked else .opened
def atRename (cf : Bool) : Pc := if cf then .made else .checked

def step (cf : Bool) (s : State) : Op → State × Res
  | .add =>
      if s.closed || !s.dir then (s, .err)
      else ({ s with pcs := s.pcs ++ [.opened], wip := s.wip ++ [true] }, .ok)
  | .check w =>
      if s.pcs[w]? = some (atCheck cf) then
        if s.closed then ({ s with pcs := s.pcs.set w .done }, .err)
        else ({ s with pcs := s.pcs.set w .checked }, .ok)
      else (s, .disabled)
  | .mkdir w =>
      if s.pcs[w]? = some (atMkdir cf) then ({ s with dir := true, pcs := s.pcs.set w .made }, .ok)
      else (s, .disabled)
  | .rename w =>
      if s.pcs[w]? = some (atRename cf) then
        if s.wip[w]? = some true && s.dir then
          ({ s with files := s.files + 1, wip := s.wip.set w false, pcs := s.pcs.set w .done }, .ok)
        else ({ s with pcs := s.pcs.set w .done }, .err)
      else (s, .disabled)
  | .abort w =>
      if s.pcs[w]? = some .opened then ({ s with wip := s.wip.set w false, pcs := s.pcs.set w .done }, .ok)
      else (s, .disabled)
  | .close =>
      if s.closed then (s, .ok)
      else ({ s with closed := true, dir := false, wip := s.wip.map (fun _ => false), files := 0 }, .ok)

def runFrom (cf : Bool) (s : State) (ops : List Op) : State := ops.foldl (fun s o => (step cf s o).1) s

def run (cf : Bool) (ops : List Op) : State := runFrom cf {} ops

end SV.Model.CacheDir
