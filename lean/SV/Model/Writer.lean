/-
Model of the eStargz writer / builder bookkeeping (C03).

  estargz/estargz.go : Writer, currentCompressionWriter.Write, condOpenGz, flushGz, closeGz,
                       appendTar (entry loop + chunk loop), needsOpenGz, Close, DiffID, chunkSize()
  estargz/build.go   : Build (worker split, per-part Writers), divideEntries, closeWithCombine
  estargz/gzip.go, zstdchunked/zstdchunked.go, externaltoc/externaltoc.go : WriteTOCAndFooter
  docs/estargz.md    : the reading rule (`specRead`): footer -> TOC -> member at `offset`,
                       skip `innerOffset`, take `chunkSize` (0 = up to the end of the file)

Compression is ABSTRACT.  A blob is a list of members `(payload, clen)`; `clen` is the number of
compressed bytes the member occupies.  The compressor is an oracle: two streams of naturals,
`orcF` (how many more compressed bytes reach the counting writer at a `Flush`) and `orcC` (how many
more at `Close`, beyond one mandatory byte - a closed member is never empty).  Nothing else about
gzip/zstd is assumed.  tar encoding is abstract as well: a tar entry is the bytes written before
its data (`pre`: header blocks; in lossless mode the raw bytes tar-split accounted since the
previous data), its `data`, and the bytes after it (`post`: padding written by `tw.Flush`).

Core-only (no Mathlib) so that the driver links as a `lean_exe`.
-/
namespace SV.Writer

abbrev Bytes := List UInt8

/-- TOCEntry.Type. `other` = a tar typeflag `appendTar` rejects ("unsupported input tar entry"). -/
inductive Kind
  | reg | chunk | dir | symlink | hardlink | char | block | fifo | other
deriving DecidableEq, Repr, Inhabited

/-- One compressed member (gzip member / zstd frame). -/
structure Member where
  payload : Bytes
  clen : Nat
deriving DecidableEq, Repr, Inhabited

/-- One entry of the source tar as `appendTar` sees it. -/
structure TarEnt where
  name : String     -- h.Name, raw
  typ : Kind        -- from h.Typeflag
  isToc : Bool      -- cleanEntryName(h.Name) == TOCTarName
  pre : Bytes       -- bytes written before the data (tw.WriteHeader / tr.RawBytes())
  data : Bytes      -- payload (only looked at for regular files); h.Size = data.length
  post : Bytes      -- bytes written after the data (tw.Flush padding; lossless: none)
deriving Repr, Inhabited

/-- The fields of a TOCEntry that the writer's bookkeeping decides. -/
structure TocEnt where
  name : String
  typ : Kind
  size : Nat
  offset : Nat
  innerOffset : Nat
  chunkOffset : Nat
  chunkSize : Nat
deriving DecidableEq, Repr, Inhabited

structure Params where
  chunk : Nat               -- w.chunkSize(), already defaulted
  minChunk : Nat            -- w.MinChunkSize
  needsOpen : List String   -- w.needsOpenGzEntries
  lossless : Bool
deriving Repr, Inhabited

/-- `Writer.chunkSize()`. -/
def effChunk (c : Int) : Nat := if c ≤ 0 then 4194304 else c.toNat

/-- The Writer.  `cur` is the open compression stream (`w.gz != nil`): its payload so far and, in
`clen`, the compressed bytes it already pushed through the counting writer (`w.cw`). -/
structure W where
  closed : List Member := []
  cur : Option Member := none
  cwN : Nat := 0            -- w.cw.n
  uncN : Nat := 0           -- w.uncompressedCounter.n
  toc : List TocEnt := []   -- w.toc.Entries
  hashed : Bytes := []      -- everything fed to w.diffHash
  orcF : List Nat := []
  orcC : List Nat := []
deriving Repr, Inhabited

/-- The two locals of `appendTar` that survive across entries. -/
structure Loc where
  prevOff : Nat      -- prevOffset
  prevOffUnc : Nat   -- prevOffsetUncompressed
deriving Repr, Inhabited

/-- All members in blob order, the open one last. -/
def W.view (w : W) : List Member := w.closed ++ w.cur.toList

def sumClen : List Member → Nat
  | [] => 0
  | m :: ms => m.clen + sumClen ms

/-- Full decompression of a member list. -/
def streamOf : List Member → Bytes
  | [] => []
  | m :: ms => m.payload ++ streamOf ms

/-- `condOpenGz`: `compressor.Writer(w.cw)`; nothing is written yet. -/
def condOpenGz (w : W) : W :=
  match w.cur with
  | some _ => w
  | none => { w with cur := some ⟨[], 0⟩ }

/-- `currentCompressionWriter.Write(p)`: hash, open a stream if there is none, write.
(`countWriteFlusher.Write` counts the uncompressed bytes.) -/
def write (w : W) (p : Bytes) : W :=
  match w.cur with
  | some m => { w with cur := some ⟨m.payload ++ p, m.clen⟩, uncN := w.uncN + p.length,
                       hashed := w.hashed ++ p }
  | none => { w with cur := some ⟨p, 0⟩, uncN := w.uncN + p.length, hashed := w.hashed ++ p }

/-- `flushGz`: the oracle decides how many compressed bytes reach `w.cw`. -/
def flushGz (w : W) : W :=
  match w.cur with
  | none => w
  | some m =>
    let a := w.orcF.headD 0
    { w with cur := some ⟨m.payload, m.clen + a⟩, cwN := w.cwN + a, orcF := w.orcF.tail }

/-- (Only used by the pre-6f1f089 variant `appendTarOld`.)  Reading `w.cw.n` while a stream is open
and was not just flushed: the compressor may have pushed bytes on its own since the last flush
(gzip writes its header at the first `Write`); the oracle says how many. -/
def spillGz (w : W) : W := flushGz w

/-- `closeGz`: the stream is finished (at least one more byte), `w.gz = nil`. -/
def closeGz (w : W) : W :=
  match w.cur with
  | none => w
  | some m =>
    let a := w.orcC.headD 0
    { w with closed := w.closed ++ [⟨m.payload, m.clen + a + 1⟩], cur := none,
             cwN := w.cwN + a + 1, orcC := w.orcC.tail }

def pushToc (w : W) (e : TocEnt) : W := { w with toc := w.toc ++ [e] }

/-- One iteration of `for written < totalSize` in `appendTar`, after `chunkSize` was fixed:
flush, decide the boundary, record Offset / InnerOffset / ChunkOffset / ChunkSize, copy. -/
def chunkStep (P : Params) (name : String) (total : Nat) (first : Bool) (written : Nat)
    (ch : Bytes) (w : W) (loc : Loc) : W × Loc :=
  let csField := if total - written < P.chunk then 0 else P.chunk
  let typ := if first then Kind.reg else Kind.chunk
  let size := if first then total else 0
  let w1 := flushGz w
  -- needsOpenGz(ent) || w.cw.n-prevOffset >= int64(w.MinChunkSize)
  if (first && P.needsOpen.contains name) || decide (P.minChunk ≤ w1.cwN - loc.prevOff) then
    let w2 := closeGz w1
    let w3 := write (condOpenGz w2) ch
    (pushToc w3 ⟨name, typ, size, w2.cwN, 0, written, csField⟩, ⟨w2.cwN, w2.uncN⟩)
  else
    let w3 := write (condOpenGz w1) ch
    (pushToc w3 ⟨name, typ, size, loc.prevOff, w1.uncN - loc.prevOffUnc, written, csField⟩, loc)

/-- The chunk loop.  `rest` is what the tar reader still holds of this file. -/
def chunkLoop (P : Params) (name : String) (total : Nat) :
    Nat → Bytes → Nat → Bool → W → Loc → W × Loc
  | 0, _, _, _, w, loc => (w, loc)
  | fuel + 1, rest, written, first, w, loc =>
    if written < total then
      let n := if total - written < P.chunk then total - written else P.chunk
      let r := chunkStep P name total first written (rest.take n) w loc
      chunkLoop P name total fuel (rest.drop n) (written + n) false r.1 r.2
    else (w, loc)

def supported : Kind → Bool
  | .other => false
  | .chunk => false
  | _ => true

/-- The body of the entry loop of `appendTar`.  `none` = the call returns an error. -/
def appendEntry (P : Params) (st : W × Loc) (e : TarEnt) : Option (W × Loc) :=
  if e.isToc then (if P.lossless then none else some st)
  else
    let w1 := write (condOpenGz st.1) e.pre
    if supported e.typ = false then none
    else if e.typ = .reg ∧ e.data ≠ [] then
      let r := chunkLoop P e.name e.data.length (e.data.length + 1) e.data 0 true w1 st.2
      some (write r.1 e.post, r.2)
    else
      some (write (pushToc w1 ⟨e.name, e.typ, 0, 0, 0, 0, 0⟩) e.post, st.2)

def appendEntries (P : Params) : W × Loc → List TarEnt → Option (W × Loc)
  | st, [] => some st
  | st, e :: es =>
    match appendEntry P st e with
    | none => none
    | some st' => appendEntries P st' es

/-- `appendTar(r, lossless)`; `tail` = what follows the last entry in the source (end-of-archive
blocks and anything after them): kept in lossless mode, discarded otherwise. -/
def appendTar (P : Params) (w : W) (ents : List TarEnt) (tail : Bytes) : Option W :=
  -- `w.closeGz()` first (commit 6f1f089): every call starts on a member boundary, then
  -- `prevOffset := w.cw.n; prevOffsetUncompressed := w.uncompressedCounter.n`
  match appendEntries P (closeGz w, ⟨(closeGz w).cwN, (closeGz w).uncN⟩) ents with
  | none => none
  | some (w', _) => some (if P.lossless ∧ tail ≠ [] then write w' tail else w')

/-- `appendTar` as it was BEFORE commit 6f1f089 (kept as a documented counterexample variant):
no `closeGz`, `prevOffset := w.cw.n` read in the middle of an open stream and
`prevOffsetUncompressed := 0`.  See `SV.Props.C03.old_appendTar_breaks_index`. -/
def appendTarOld (P : Params) (w : W) (ents : List TarEnt) (tail : Bytes) : Option W :=
  match appendEntries P (spillGz w, ⟨(spillGz w).cwN, 0⟩) ents with
  | none => none
  | some (w', _) => some (if P.lossless ∧ tail ≠ [] then write w' tail else w')

def appendTarsOld (P : Params) : W → List (List TarEnt × Bytes) → Option W
  | w, [] => some w
  | w, (ents, tail) :: rest =>
    match appendTarOld P w ents tail with
    | none => none
    | some w' => appendTarsOld P w' rest

/-- Several `AppendTar` calls on the same Writer. -/
def appendTars (P : Params) : W → List (List TarEnt × Bytes) → Option W
  | w, [] => some w
  | w, (ents, tail) :: rest =>
    match appendTar P w ents tail with
    | none => none
    | some w' => appendTars P w' rest

/-! ## TOC + footer -/

inductive Fmt
  | gzip | zstd | external
deriving DecidableEq, Repr, Inhabited

/-- Bytes between the end of the data members and the TOC bytes the footer points at
(zstd: the 8-byte skippable-frame header). -/
def Fmt.tocSkip : Fmt → Nat
  | .zstd => 8
  | _ => 0

/-- Size of what follows the TOC: 51-byte gzip footer; 8-byte skippable header + 40-byte
zstd:chunked footer; 46-byte external-TOC footer. -/
def Fmt.footerLen : Fmt → Nat
  | .gzip => 51
  | .zstd => 48
  | .external => 46

structure Blob where
  members : List Member        -- every frame before the footer, in order
  tocOff : Option Nat          -- the TOC offset stored in the footer (none: external TOC)
  size : Nat                   -- total number of bytes of the blob
  toc : List TocEnt
  hashed : Bytes               -- input of the DiffID hash (Writer.Close only)
deriving Repr, Inhabited

/-- `Compressor.WriteTOCAndFooter(w, off, toc, diffHash)`.  `tocTar` is the tar stream holding the
TOC JSON (header + JSON + padding + end-of-archive); `a` the oracle for its compressed size. -/
def writeTocAndFooter (F : Fmt) (ms : List Member) (off : Nat) (toc : List TocEnt)
    (tocTar : Bytes) (a : Nat) (hashed : Bytes) : Blob :=
  match F with
  | .gzip =>
    { members := ms ++ [⟨tocTar, a + 1⟩], tocOff := some off, size := off + (a + 1) + 51,
      toc := toc, hashed := hashed ++ tocTar }
  | .zstd =>
    -- the TOC sits in a skippable frame: it occupies bytes but decompresses to nothing
    { members := ms ++ [⟨[], 8 + (a + 1)⟩], tocOff := some (off + 8), size := off + (8 + (a + 1)) + 48,
      toc := toc, hashed := hashed }
  | .external =>
    { members := ms, tocOff := none, size := off + 46, toc := toc, hashed := hashed }

/-- `Writer.Close`. -/
def close (F : Fmt) (w : W) (tocTar : List TocEnt → Bytes) (a : Nat) : Blob :=
  let w' := closeGz w
  writeTocAndFooter F w'.closed w'.cwN w'.toc (tocTar w'.toc) a w'.hashed

/-- `NewWriterWithCompressor`, some `AppendTar`/`AppendTarLossLess` calls, `Close`. -/
def writerRun (P : Params) (F : Fmt) (calls : List (List TarEnt × Bytes))
    (tocTar : List TocEnt → Bytes) (orcF orcC : List Nat) (a : Nat) : Option Blob :=
  match appendTars P { orcF := orcF, orcC := orcC } calls with
  | none => none
  | some w => some (close F w tocTar a)

/-- `writerRun` with the pre-6f1f089 `appendTar`. -/
def writerRunOld (P : Params) (F : Fmt) (calls : List (List TarEnt × Bytes))
    (tocTar : List TocEnt → Bytes) (orcF orcC : List Nat) (a : Nat) : Option Blob :=
  match appendTarsOld P { orcF := orcF, orcC := orcC } calls with
  | none => none
  | some w => some (close F w tocTar a)

/-! ## Build: divide, per-part writers, combine -/

/-- The loop of `divideEntries` (sizes are `header.Size`). -/
def divideGo (unit : Nat) : List TarEnt → List TarEnt → Nat → Nat → List (List TarEnt)
  | [], cur, _, _ => [cur]
  | e :: es, cur, offset, nextEnd =>
    let offset' := offset + e.data.length
    if nextEnd < offset' then (cur ++ [e]) :: divideGo unit es [] offset' (nextEnd + unit)
    else divideGo unit es (cur ++ [e]) offset' nextEnd

def totalSize : List TarEnt → Nat
  | [] => 0
  | e :: es => e.data.length + totalSize es

/-- `divideEntries(entries, minPartsNum)`; `none` = integer division by zero (Go panics). -/
def divideEntries (n : Nat) (es : List TarEnt) : Option (List (List TarEnt)) :=
  if n = 0 then none
  else
    let unit := totalSize es / n
    some (divideGo unit es [] 0 unit)

/-- The Offset shift of `closeWithCombine`. -/
def rebase (off : Nat) (e : TocEnt) : TocEnt :=
  if (e.typ = .reg ∧ 0 < e.size) ∨ e.typ = .chunk then { e with offset := e.offset + off } else e

/-- `closeWithCombine` minus the TOC/footer: close every writer, concatenate the payload files,
shift the offsets by the sizes of the preceding sub-blobs.  Returns members, TOC, total size. -/
def combineGo : List W → Nat → List Member × List TocEnt × Nat
  | [], off => ([], [], off)
  | w :: ws, off =>
    let w' := closeGz w
    let r := combineGo ws (off + w'.cwN)
    (w'.closed ++ r.1, w'.toc.map (rebase off) ++ r.2.1, r.2.2)

def landmarks : List String := [".prefetch.landmark", ".no.prefetch.landmark"]

/-- The worker goroutines of `Build`, one fresh Writer per part.  The parts draw from one pair of
oracle streams in part order (any assignment of compressed sizes to members arises this way). -/
def buildParts (P : Params) : List (List TarEnt) → List Nat → List Nat → Option (List W)
  | [], _, _ => some []
  | p :: ps, f, c =>
    match appendTar P { orcF := f, orcC := c } p [] with
    | none => none
    | some w =>
      match buildParts P ps (closeGz w).orcF (closeGz w).orcC with
      | none => none
      | some ws => some (w :: ws)

/-- `Build` after `sortEntries` (entry order is C14's subject and taken as given). -/
def build (F : Fmt) (chunk minChunk workers : Nat) (ents : List TarEnt)
    (tocTar : List TocEnt → Bytes) (orcF orcC : List Nat) (a : Nat) : Option Blob :=
  let P : Params := ⟨chunk, minChunk, landmarks, false⟩
  match (if 0 < minChunk then some [ents] else divideEntries workers ents) with
  | none => none
  | some parts =>
    match buildParts P parts orcF orcC with
    | none => none
    | some ws =>
      let r := combineGo ws 0
      some (writeTocAndFooter F r.1 r.2.2 r.2.1 (tocTar r.2.1) a [])

/-! ## The documented reading rule and the checker -/

/-- The member whose first compressed byte is at `off` (members start at `start`, back to back). -/
def findMember : List Member → Nat → Nat → Option Member
  | [], _, _ => none
  | m :: ms, start, off => if off = start then some m else findMember ms (start + m.clen) off

/-- `chunkSize = 0` means "up to the end of the file". -/
def effSize (e : TocEnt) (fileSize : Nat) : Nat :=
  if e.chunkSize = 0 then fileSize - e.chunkOffset else e.chunkSize

/-- docs/estargz.md: open the stream that starts at `offset`, skip `innerOffset` bytes of its
payload, take the chunk. -/
def specRead (ms : List Member) (e : TocEnt) (fileSize : Nat) : Option Bytes :=
  match findMember ms 0 e.offset with
  | none => none
  | some m => some ((m.payload.drop e.innerOffset).take (effSize e fileSize))

/-- A TOC entry that carries data (`reg` with size > 0, or `chunk`). -/
def TocEnt.isData (e : TocEnt) : Bool :=
  (e.typ = .reg && decide (0 < e.size)) || e.typ = .chunk

structure FileC where
  name : String
  content : Bytes
deriving Repr, Inhabited

/-- What the bytes of chunk `e` of a file must be. -/
def expect (content : Bytes) (e : TocEnt) : Bytes :=
  (content.drop e.chunkOffset).take (effSize e content.length)

/-- One data entry against its file: position, non-emptiness, range, and the documented read. -/
def checkChunk (ms : List Member) (e : TocEnt) (f : FileC) (pos : Nat) : Bool :=
  e.name = f.name && e.chunkOffset = pos && decide (0 < effSize e f.content.length) &&
  decide (pos + effSize e f.content.length ≤ f.content.length) &&
  specRead ms e f.content.length == some (expect f.content e)

/-- Walk the TOC as the Reader does (`chunk` entries belong to the last `reg` entry).
`files` = the regular files of the tar stream in stream order; `cur` = the file whose chunks are
being read and how far they reach. -/
def checkGo (ms : List Member) : List TocEnt → List FileC → Option (FileC × Nat) → Bool
  | [], files, cur =>
    files.isEmpty && (match cur with | none => true | some (f, pos) => pos = f.content.length)
  | e :: es, files, cur =>
    let curDone := match cur with | none => true | some (f, pos) => decide (pos = f.content.length)
    if e.typ = .reg then
      match files with
      | [] => false
      | f :: fs =>
        curDone && e.name = f.name && e.size = f.content.length &&
        (if e.size = 0 then checkGo ms es fs none
         else checkChunk ms e f 0 && checkGo ms es fs (some (f, effSize e f.content.length)))
    else if e.typ = .chunk then
      match cur with
      | none => false
      | some (f, pos) =>
        checkChunk ms e f pos && checkGo ms es files (some (f, pos + effSize e f.content.length))
    else curDone && checkGo ms es files none

/-- Translation validation of one real blob: the member table of the blob, its TOC, and the
regular files of its decompressed tar stream. -/
def checkIndex (toc : List TocEnt) (ms : List Member) (files : List FileC) : Bool :=
  ms.all (fun m => decide (0 < m.clen)) && checkGo ms toc files none

end SV.Writer
