/-
Interleaved semantics of the snapshotter model (`SV/Model/Snap.lean`): several API calls in
flight, each a small program (`PC`) whose atomic steps are the `Step`s of the sequential model.

bolt's single writer is modelled as a lock: the program points `crRename`/`crCommit` (inside
createSnapshot's write transaction, between `TransactionContext(ctx, true)` and `t.Commit()`) HOLD
the lock; every other transition that runs a write transaction (the decision part of
createSnapshot, Commit, Update, Remove incl. its directory scan, the internal commit of Prepare and
the directory scan of Cleanup = `cleanupDirectories`) can only fire when no thread holds it, and is
one atomic transition because it consists of a single metadata step.  Steps outside transactions
(backend Mount/Unmount, RemoveAll) interleave freely, also with the steps of a lock holder.

`Variant.cleanupReadTx` is the seeded change C08-A: Cleanup scans under a READ transaction, i.e.
without waiting for the writer lock.

Scope: Prepare (with/without target), View, Commit, Update, Remove (sync/async), Cleanup.  Mounts /
Walk / Stat change nothing and are single no-op transitions; Close and restart are not part of a
concurrent run.  Results of the calls are not tracked (the C08 outcome clauses stay sequential).
Assumption built into `spawn` (`NoKeyConflict`): callers do not run Remove(k) / Commit(_, k)
concurrently with a Prepare/View of the same key k.
-/
import SV.Model.Snap

namespace SV.Snap.Conc
open SV.Snap

structure Variant where
  cleanupReadTx : Bool := false

/-- program point of one call in flight -/
inductive PC where
  /-- not started -/
  | idle (op : Op)
  /-- createSnapshot, holding the writer lock: temp dir made, `storage.CreateSnapshot` passed;
  next `os.Rename(td, snapshots/<id>)`.  `tgt` = the target label of a Prepare. -/
  | crRename (tgt : Option String) (t : Nat) (sn : Snap)
  /-- holding the lock: next `t.Commit()` -/
  | crCommit (tgt : Option String) (sn : Snap)
  /-- Prepare with target, after createSnapshot: next `o.fs.Mount(upperPath(id), labels)` -/
  | prepMount (tgt : String) (sn : Snap)
  /-- Prepare with target, backend mounted: next the internal `commit` (needs the lock) -/
  | prepCommit (tgt : String) (sn : Snap)
  /-- `cleanupSnapshotDirectory` loop over `ds`; `unm` = the head has been unmounted already -/
  | clean (ds : List Dir) (unm : Bool)
  | done
deriving Inhabited

def PC.holds : PC → Bool
  | .crRename _ _ _ => true
  | .crCommit _ _ => true
  | _ => false

/-- the key a Prepare/View in flight is creating -/
def PC.ownKey : PC → Option String
  | .idle (.prepare k _ _) => some k
  | .idle (.view k _ _) => some k
  | .crRename _ _ sn => some sn.key
  | .crCommit _ sn => some sn.key
  | .prepMount _ sn => some sn.key
  | .prepCommit _ sn => some sn.key
  | _ => none

/-- the key a Remove/Commit that has not run yet will consume -/
def PC.consumes : PC → Option String
  | .idle (.remove k _) => some k
  | .idle (.commit _ k _) => some k
  | _ => none

structure CState where
  s : State
  /-- next temporary directory name (MkdirTemp never reuses a name) -/
  tmp : Nat := 0
  /-- thread id ↦ program point (`done` = no such call) -/
  th : Nat → PC := fun _ => .done
  /-- backend outcomes of each call -/
  orc : Nat → Oracle := fun _ => default

def setPc (th : Nat → PC) (i : Nat) (pc : PC) : Nat → PC := fun j => if j = i then pc else th j

def CState.lockFree (c : CState) : Prop := ∀ j, (c.th j).holds = false

/-- thread `i` applies the atomic step `st` and moves to `pc` -/
def CState.run (c : CState) (i : Nat) (st : Step) (pc : PC) : CState :=
  { c with s := applyStep c.s st, th := setPc c.th i pc }

def CState.goto (c : CState) (i : Nat) (pc : PC) : CState := { c with th := setPc c.th i pc }

/-- callers do not consume a key that a Prepare/View in flight is creating, and vice versa -/
def NoKeyConflict (th : Nat → PC) (pc : PC) : Prop :=
  ∀ j, (∀ k, pc.ownKey = some k → (th j).consumes ≠ some k) ∧
       (∀ k, pc.consumes = some k → (th j).ownKey ≠ some k)

/-- createSnapshot's checks pass and the new directory name is free -/
def createOk (s : State) (key parent : String) : Prop :=
  (∃ ps, createChecks s key parent = .ok ps ∧ parentDirMissing s ps = false) ∧ Dir.id (s.seq + 1) ∉ s.dirs

def targetOfLabels (kind : Kind) (labels : Labels) : Option String :=
  match kind with
  | .active => lget labels targetLabel
  | _ => none

/-- the checks of `commit()` / `storage.CommitActive` pass -/
def commitOk (s : State) (name key : String) : Prop :=
  name ≠ "" ∧ hasKey s.snaps name = false ∧ ∃ sn, findKey s.snaps key = some sn ∧ sn.kind = .active

def removeOk (s : State) (key : String) : Prop :=
  (∃ sn, findKey s.snaps key = some sn) ∧ ∀ a ∈ s.snaps, a.parent ≠ key

/-- the directories `getCleanupDirectories(cleanupCommitted = false)` returns (as a set; the order
`Readdirnames` yields is the caller-supplied `order` of the op, see `arrange`) -/
def orphans (s : State) : List Dir := s.dirs.filter (fun d => !liveDir s.snaps d)

/-- where a createSnapshot continues after its commit: Prepare with a target mounts next -/
def afterCreate (tgt : Option String) (sn : Snap) : PC :=
  match tgt with
  | some T => .prepMount T sn
  | none => .done

/-- one atomic transition of the interleaved machine -/
inductive CStep (v : Variant) : CState → CState → Prop where
  /-- a caller issues a call -/
  | spawn (c : CState) (i : Nat) (op : Op) (orc : Oracle) (hfree : c.th i = .done)
      (hk : NoKeyConflict c.th (.idle op)) :
      CStep v c { c with th := setPc c.th i (.idle op), orc := fun j => if j = i then orc else c.orc j }
  /-- createSnapshot takes the lock, makes its temp dir, `storage.CreateSnapshot` succeeds -/
  | createBegin (c : CState) (i : Nat) (kind : Kind) (key parent : String) (labels : Labels)
      (hpc : c.th i = .idle (if kind = .active then .prepare key parent labels else .view key parent labels))
      (hkind : kind ≠ .committed) (hlock : c.lockFree) (hok : createOk c.s key parent) :
      CStep v c { (c.run i (.mkTemp c.tmp)
          (.crRename (targetOfLabels kind labels) c.tmp ⟨key, c.s.seq + 1, kind, parent, labels⟩)) with tmp := c.tmp + 1 }
  /-- createSnapshot fails (rolled back): its temp dir is reclaimed outside the transaction -/
  | createFail (c : CState) (i : Nat) (kind : Kind) (key parent : String) (labels : Labels) (extra : List Dir)
      (hpc : c.th i = .idle (if kind = .active then .prepare key parent labels else .view key parent labels))
      (hlock : c.lockFree) (hfail : ¬ createOk c.s key parent)
      -- when it was the Rename that failed, the colliding directory is reclaimed too
      (hextra : extra = [] ∨ (extra = [Dir.id (c.s.seq + 1)] ∧ Dir.id (c.s.seq + 1) ∈ c.s.dirs)) :
      CStep v c { (c.run i (.mkTemp c.tmp) (.clean (Dir.temp c.tmp :: extra) false)) with tmp := c.tmp + 1 }
  | rename (c : CState) (i : Nat) (tgt : Option String) (t : Nat) (sn : Snap)
      (hpc : c.th i = .crRename tgt t sn) :
      CStep v c (c.run i (.rename t sn.id) (.crCommit tgt sn))
  /-- `t.Commit()` of createSnapshot; the lock is released -/
  | createCommit (c : CState) (i : Nat) (tgt : Option String) (sn : Snap)
      (hpc : c.th i = .crCommit tgt sn) :
      CStep v c (c.run i (.txCreate sn) (afterCreate tgt sn))
  /-- the backend Mount of a Prepare with target -/
  | mount (c : CState) (i : Nat) (T : String) (sn : Snap) (hpc : c.th i = .prepMount T sn) :
      CStep v c (c.run i (.fsMount sn.id sn.labels ((c.orc i).mountOk sn.id))
        (if (c.orc i).mountOk sn.id then .prepCommit T sn else .done))
  /-- the internal commit of a Prepare with target (one write transaction) -/
  | internalCommit (c : CState) (i : Nat) (T : String) (sn : Snap) (hpc : c.th i = .prepCommit T sn)
      (hlock : c.lockFree) (hok : commitOk c.s T sn.key) :
      CStep v c (c.run i (.txCommitActive sn.key T (lset sn.labels remoteLabel remoteVal)) .done)
  | internalCommitFail (c : CState) (i : Nat) (T : String) (sn : Snap) (hpc : c.th i = .prepCommit T sn)
      (hlock : c.lockFree) (hok : ¬ commitOk c.s T sn.key) :
      CStep v c (c.goto i .done)
  | commit (c : CState) (i : Nat) (name key : String) (labels : Labels)
      (hpc : c.th i = .idle (.commit name key labels)) (hlock : c.lockFree) (hok : commitOk c.s name key) :
      CStep v c (c.run i (.txCommitActive key name labels) .done)
  | update (c : CState) (i : Nat) (key lk lv : String) (sn : Snap)
      (hpc : c.th i = .idle (.update key lk lv)) (hlock : c.lockFree) (hf : findKey c.s.snaps key = some sn) :
      CStep v c (c.run i (.txUpdate key (if lv = "" then ldel sn.labels lk else lset sn.labels lk lv)) .done)
  /-- Remove: metadata removal and (sync mode) the directory scan in one write transaction -/
  | remove (c : CState) (i : Nat) (key : String) (order : List Dir)
      (hpc : c.th i = .idle (.remove key order)) (hlock : c.lockFree) (hok : removeOk c.s key) :
      CStep v c (c.run i (.txRemove key)
        (if c.s.cfg.asyncRemove then .done else .clean (arrange order (orphans (applyStep c.s (.txRemove key)))) false))
  /-- Cleanup's directory scan (`cleanupDirectories`): under the writer lock — unless the variant
  scans under a read transaction -/
  | cleanupScan (c : CState) (i : Nat) (order : List Dir) (hpc : c.th i = .idle (.cleanup order))
      (hlock : v.cleanupReadTx = false → c.lockFree) :
      CStep v c (c.goto i (.clean (arrange order (orphans c.s)) false))
  /-- `o.fs.Unmount(dir/fs)` -/
  | cleanUnmount (c : CState) (i : Nat) (d : Dir) (r : List Dir) (hpc : c.th i = .clean (d :: r) false) :
      CStep v c (c.run i (.fsUnmount d ((c.orc i).unmountOk d)) (.clean (d :: r) true))
  /-- `os.RemoveAll(dir)` -/
  | cleanRmdir (c : CState) (i : Nat) (d : Dir) (r : List Dir) (hpc : c.th i = .clean (d :: r) true) :
      CStep v c (c.run i (.rmdir d) (.clean r false))
  /-- a call returns without (further) effect: failed checks, read-only calls, finished loops -/
  | finish (c : CState) (i : Nat)
      (hpc : (c.th i).holds = false ∧ (∀ T sn, c.th i ≠ .prepMount T sn) ∧ (∀ T sn, c.th i ≠ .prepCommit T sn) ∧
             (∀ d r u, c.th i ≠ .clean (d :: r) u)) :
      CStep v c (c.goto i .done)

/-- a fresh root, no call in flight -/
def cinit (cfg : Config) : CState := { s := init cfg }

/-- all states of all interleavings -/
inductive CReach (v : Variant) (cfg : Config) : CState → Prop where
  | init : CReach v cfg (cinit cfg)
  | step {c c' : CState} : CReach v cfg c → CStep v c c' → CReach v cfg c'

end SV.Snap.Conc
