/-
Model of util/cacheutil: `refCounter` (lrucache.go:105-140), `TTLCache` (ttlcache.go) and
`LRUCache` (lrucache.go) on top of github.com/golang/groupcache/lru.
Core-only (no Mathlib) so that the driver links as a `lean_exe`.

Atomicity premise: every exported method (`Get`, `Add`, `Remove`), the timer function and every
`done` closure takes the cache mutex as its first statement and releases it by `defer`.  Hence
every schedule of goroutines is *some* sequence of the atomic operations below, and a statement
proved for all operation sequences holds for all schedules.

Identities.  A value that enters a cache gets a fresh `refCounter`; its index in `Core.rcs` is the
identity the theorems talk about (`val` is the payload the caller passed, `key` its key).  Every
`done` closure handed out by `Add`/`Get` is a token: its index in `Core.toks`.  The `OnEvicted`
callback is assumed non-nil (with a nil callback nothing is ever finalised and the property is void).
-/
namespace SV.Refcount

/-- `refCounter`: `refCounts`, the two `sync.Once`s, and a ghost counter of `onEvicted` runs. -/
structure RC where
  key : Nat
  val : Nat
  refs : Int := 0
  initDone : Bool := false      -- initializeOnce has fired
  finDone : Bool := false       -- finalizeOnce has fired
  calls : Nat := 0              -- how many times r.onEvicted(r.key, r.v) ran
deriving Repr, DecidableEq, Inhabited

/-- `refCounter.inc`. -/
def RC.inc (r : RC) : RC := { r with refs := r.refs + 1 }

/-- `refCounter.dec`: `refCounts--; if refCounts <= 0 { onEvicted(key, v) }` — the condition is
`<= 0` exactly as coded, so a second callback is expressible (a further `dec` would fire again). -/
def RC.dec (r : RC) : RC :=
  if r.refs - 1 ≤ 0 then { r with refs := r.refs - 1, calls := r.calls + 1 }
  else { r with refs := r.refs - 1 }

/-- `refCounter.initialize`: `initializeOnce.Do(inc)`. -/
def RC.initialize (r : RC) : RC :=
  if r.initDone then r else { r.inc with initDone := true }

/-- `refCounter.finalize`: `finalizeOnce.Do(dec)`. -/
def RC.finalize (r : RC) : RC :=
  if r.finDone then r else { r.dec with finDone := true }

/-- A `done` closure returned by `decreaseOnceFunc(rc)`: the captured `rc` and its `sync.Once`. -/
structure Tok where
  rc : Nat
  once : Bool := false
deriving Repr, DecidableEq, Inhabited

/-- The part of the state both caches share: all refCounters ever created, all closures ever
handed out. -/
structure Core where
  rcs : List RC := []
  toks : List Tok := []
deriving Repr, Inhabited

/-- Number of closures for value `id` whose `once` has not fired yet (= holders of the value). -/
def held (toks : List Tok) (id : Nat) : Nat := toks.countP (fun t => t.rc == id && !t.once)

/-- `rc.inc(); return …, c.decreaseOnceFunc(rc), …` — the new token is `c.toks.length`. -/
def Core.newTok (c : Core) (id : Nat) : Core :=
  { rcs := c.rcs.modify id RC.inc, toks := c.toks ++ [{ rc := id }] }

/-- `rc := &refCounter{key, v, onEvicted}; rc.initialize()` — the new value is `c.rcs.length`. -/
def Core.newRc (c : Core) (k v : Nat) : Core :=
  { c with rcs := c.rcs ++ [RC.initialize { key := k, val := v }] }

/-- `rc.finalize()`. -/
def Core.fin (c : Core) (id : Nat) : Core := { c with rcs := c.rcs.modify id RC.finalize }

/-- `once.Do(func() { rc.dec() })` of closure `tok`. `none`: no such closure exists. -/
def Core.release (c : Core) (tok : Nat) : Core :=
  match c.toks[tok]? with
  | none => c
  | some t =>
    if t.once then c
    else { rcs := c.rcs.modify t.rc RC.dec, toks := c.toks.set tok { t with once := true } }

def Core.valOf (c : Core) (id : Nat) : Nat := (c.rcs[id]?.map (·.val)).getD 0

/-- What an operation returns to its caller. -/
inductive Res where
  | got (val tok : Nat) (flag : Bool)  -- Add: (cachedValue, done, added); Get: (value, done, ok = true)
  | miss                               -- Get: ok = false
  | unit                               -- Remove / timer / done
  | badTok                             -- a closure that was never handed out (impossible in Go)
deriving Repr, DecidableEq, Inhabited

/-! ## TTLCache -/

/-- `TTLCache`: `m` maps a key to its refCounterWithTimer. The timer is not state of the model:
its only effect is the operation `expire k`, enabled at any time (which also covers a stale timer
that fired, blocked on the mutex and then evicts a *newer* value re-added under its key — the timer
function captures the key, not the refCounter). -/
structure TTL where
  m : Nat → Option Nat := fun _ => none
  core : Core := {}

/-- `TTLCache.Add`. -/
def TTL.add (s : TTL) (k v : Nat) : TTL × Res :=
  match s.m k with
  | some id =>                                   -- `if rc, ok := c.m[key]; ok { rc.inc(); return rc.v, …, false }`
    ({ s with core := s.core.newTok id }, .got (s.core.valOf id) s.core.toks.length false)
  | none =>
    let id := s.core.rcs.length                  -- initialize(); inc(); c.m[key] = rc
    ({ m := fun k' => if k' = k then some id else s.m k',
       core := (s.core.newRc k v).newTok id }, .got v s.core.toks.length true)

/-- `TTLCache.Get`. -/
def TTL.get (s : TTL) (k : Nat) : TTL × Res :=
  match s.m k with
  | none => (s, .miss)
  | some id => ({ s with core := s.core.newTok id }, .got (s.core.valOf id) s.core.toks.length true)

/-- `TTLCache.evictLocked` (`rc.t.Stop()` has no effect on the model, see `TTL`). -/
def TTL.evictLocked (s : TTL) (k : Nat) : TTL :=
  match s.m k with
  | some id => { m := fun k' => if k' = k then none else s.m k', core := s.core.fin id }
  | none => s

/-- The closure built by `TTLCache.decreaseOnceFunc(rc)`, called with `evict`. -/
def TTL.done (s : TTL) (tok : Nat) (evict : Bool) : TTL × Res :=
  match s.core.toks[tok]? with
  | none => (s, .badTok)
  | some t =>
    let c1 := s.core.release tok                 -- once.Do(func() { rc.dec() })
    if evict then
      let c2 := c1.fin t.rc                      -- rc.t.Stop(); rc.finalize()
      match c2.rcs[t.rc]? with
      | none => ({ s with core := c2 }, .unit)
      | some r =>                                -- if cachedRc, ok := c.m[key]; ok && cachedRc == rc { delete(c.m, key) }
        if s.m r.key = some t.rc then
          ({ m := fun k' => if k' = r.key then none else s.m k', core := c2 }, .unit)
        else ({ s with core := c2 }, .unit)
    else ({ s with core := c1 }, .unit)

inductive TOp where
  | add (k v : Nat)
  | get (k : Nat)
  | remove (k : Nat)                 -- `Remove`: lock; evictLocked
  | expire (k : Nat)                 -- timer function: lock; evictLocked
  | done (tok : Nat) (evict : Bool)
deriving Repr, DecidableEq, Inhabited

def TTL.step (s : TTL) : TOp → TTL × Res
  | .add k v => s.add k v
  | .get k => s.get k
  | .remove k => (s.evictLocked k, .unit)
  | .expire k => (s.evictLocked k, .unit)
  | .done tok e => s.done tok e

/-- State after a history, from `NewTTLCache`. -/
def TTL.run (ops : List TOp) : TTL := ops.foldl (fun s o => (s.step o).1) {}

/-! ## LRUCache over groupcache/lru -/

/-- `lru.Cache.cache[key]` — `order` is `ll` front to back, entries `(key, refCounter)`. -/
def find (k : Nat) : List (Nat × Nat) → Option Nat
  | [] => none
  | (k', id) :: rest => if k' = k then some id else find k rest

/-- `ll.Remove(ele); delete(cache, key)` for the entry of key `k`. -/
def eraseKey (k : Nat) (order : List (Nat × Nat)) : List (Nat × Nat) :=
  order.filter (fun e => e.1 != k)

/-- `lru.Cache.Get`: hit ⇒ `MoveToFront`. -/
def innerGet (order : List (Nat × Nat)) (k : Nat) : List (Nat × Nat) × Option Nat :=
  match find k order with
  | some id => ((k, id) :: eraseKey k order, some id)
  | none => (order, none)

/-- `lru.Cache.Add`: returns the new list and the refCounter handed to `OnEvicted`, if any.
An existing key is moved to the front and its value overwritten *without* `OnEvicted`
(`LRUCache.Add` only gets here after a miss under the same lock). -/
def innerAdd (cap : Nat) (order : List (Nat × Nat)) (k id : Nat) : List (Nat × Nat) × Option Nat :=
  match find k order with
  | some _ => ((k, id) :: eraseKey k order, none)
  | none =>
    let o := (k, id) :: order                     -- PushFront
    if cap ≠ 0 ∧ o.length > cap then              -- MaxEntries != 0 && ll.Len() > MaxEntries
      (o.dropLast, o.getLast?.map (·.2))          -- RemoveOldest: ll.Back()
    else (o, none)

structure LRU where
  cap : Nat                                       -- MaxEntries (0 = unbounded)
  order : List (Nat × Nat) := []
  core : Core := {}
deriving Repr, Inhabited

/-- `inner.OnEvicted = func(_, value) { value.(*refCounter).finalize() }`. -/
def Core.finOpt (c : Core) : Option Nat → Core
  | some id => c.fin id
  | none => c

/-- `LRUCache.Add`. -/
def LRU.add (s : LRU) (k v : Nat) : LRU × Res :=
  let g := innerGet s.order k                     -- `c.cache.Get(key)`
  match g.2 with
  | some id =>
    ({ s with order := g.1, core := s.core.newTok id }, .got (s.core.valOf id) s.core.toks.length false)
  | none =>
    let id := s.core.rcs.length
    let c := (s.core.newRc k v).newTok id         -- initialize(); inc()
    let a := innerAdd s.cap g.1 k id              -- `c.cache.Add(key, rc)`
    ({ s with order := a.1, core := c.finOpt a.2 }, .got v s.core.toks.length true)

/-- `LRUCache.Get`. -/
def LRU.get (s : LRU) (k : Nat) : LRU × Res :=
  let g := innerGet s.order k
  match g.2 with
  | some id =>
    ({ s with order := g.1, core := s.core.newTok id }, .got (s.core.valOf id) s.core.toks.length true)
  | none => (s, .miss)

/-- `LRUCache.Remove` → `lru.Cache.Remove` → `removeElement` → `OnEvicted`. -/
def LRU.remove (s : LRU) (k : Nat) : LRU :=
  match find k s.order with
  | some id => { s with order := eraseKey k s.order, core := s.core.fin id }
  | none => s

/-- The closure built by `LRUCache.decreaseOnceFunc(rc)`. -/
def LRU.done (s : LRU) (tok : Nat) : LRU × Res :=
  match s.core.toks[tok]? with
  | none => (s, .badTok)
  | some _ => ({ s with core := s.core.release tok }, .unit)

inductive LOp where
  | add (k v : Nat)
  | get (k : Nat)
  | remove (k : Nat)
  | done (tok : Nat)
deriving Repr, DecidableEq, Inhabited

def LRU.step (s : LRU) : LOp → LRU × Res
  | .add k v => s.add k v
  | .get k => s.get k
  | .remove k => (s.remove k, .unit)
  | .done tok => s.done tok

/-- State after a history, from `NewLRUCache(cap)`. -/
def LRU.run (cap : Nat) (ops : List LOp) : LRU := ops.foldl (fun s o => (s.step o).1) { cap := cap }

/-! ## Draining (used to state "nothing leaks") -/

/-- Release every closure ever handed out (non-evicting), then `Remove` the key of every value
ever added. -/
def TTL.drainOps (s : TTL) : List TOp :=
  (List.range s.core.toks.length).map (fun t => TOp.done t false) ++ s.core.rcs.map (fun r => TOp.remove r.key)

def LRU.drainOps (s : LRU) : List LOp :=
  (List.range s.core.toks.length).map LOp.done ++ s.core.rcs.map (fun r => LOp.remove r.key)

end SV.Refcount
