/-
Model of the two parts of fs/remote/blob.go that `SV/Model/Blob.lean` leaves out.  Core-only.

(1) The shared single-flight path  fetchRange → handleSharedFetch → copyFetchedChunks.
    A `ReadAt` whose request key is already in flight does not run `fetchRegions` itself: when the
    leader has finished without error it copies each of its chunks from the cache through its
    `bytesWriter` (`io.CopyN(allData[chunk], SectionReader(r, 0, chunk.size()), chunk.size())`);
    when a cache `Get` or a copy fails it restarts its writers (`bytesWriter.current = 0`, repo
    commit c4f4279) and calls `fetchRange` again.  Before that commit the writers were NOT
    restarted; that behaviour is kept as `fetchRangeSharedOld` / `readAtSharedOld` for the
    documented counterexamples.  Here the per-chunk writers are explicit (`Writers`), the
    caller's buffer is put together from them at the end (`assembleW`; the destinations
    `p[base:base+expected]` are pairwise disjoint sub-slices of `p`).

(2) `Cache(offset, size)` when `prefetchChunkSize > chunkSize`: the range is cut into pieces of
    `chunkSize * (prefetchChunkSize / chunkSize)` bytes, one `cacheAt` per piece (errgroup).

Nothing in `SV/Model/Blob.lean` is changed.
-/
import SV.Model.Blob

namespace SV.Blob
open SV.Region

/-! ### (1) shared fetch -/

/-- What can happen to a cache entry between the leader's commit and the follower's copy. -/
inductive Loss
  | evict (c : Chunk)                 -- `cache.Get` fails
  | trunc (c : Chunk) (keep : Nat)    -- `cache.Get` succeeds, the reader delivers only `keep` bytes
deriving Repr, DecidableEq

def Cache.lose (cache : Cache) : Loss → Cache
  | .evict c => cache.filter fun kv => kv.1 ≠ c
  | .trunc c keep => cache.map fun kv => if kv.1 = c then (kv.1, kv.2.take keep) else kv

/-- `allData` restricted to the chunks that have a `bytesWriter` (the cache misses). -/
abbrev Writers := List (Chunk × BW)

def Writers.get (ws : Writers) (c : Chunk) : Option BW :=
  (ws.find? (fun kv => kv.1 = c)).map (·.2)

def Writers.set (ws : Writers) (c : Chunk) (w : BW) : Writers :=
  ws.map fun kv => if kv.1 = c then (c, w) else kv

/-- `newBytesWriter(p[base:base+expectedSize], lowerUnread)` of `prepareChunksForRead`. -/
def newWriter (o n : Nat) (c : Chunk) : BW :=
  { dest := List.replicate (place o n c).expected 0, destOff := (place o n c).lower, current := 0 }

/-- One iteration of `copyFetchedChunks`: `cache.Get` error ⇒ failure, nothing written; otherwise
`io.CopyN(w, SectionReader(r, 0, size), size)` writes what the entry has (at most `size` bytes;
the split into `Write` calls is irrelevant, see `BW.fold_eq_write`) and fails if that is short. -/
def copyChunk (cache : Cache) (c : Chunk) (w : BW) : BW × Bool :=
  match cache.get c with
  | none => (w, false)
  | some d => (w.write (d.take c.size), decide (c.size ≤ d.length))

/-- `handleSharedFetch`: `for reg := range allData` in the (arbitrary) map order `order`, stop at
the first error.  Chunks without a writer are not in `allData`. -/
def copyInOrder (cache : Cache) : Writers → List Chunk → Writers × Bool
  | ws, [] => (ws, true)
  | ws, c :: rest =>
    match ws.get c with
    | none => copyInOrder cache ws rest
    | some w =>
      match copyChunk cache c w with
      | (w', true) => copyInOrder cache (ws.set c w') rest
      | (w', false) => (ws.set c w', false)

/-- The writes `fetchRegions` makes into the caller's writers on its success path:
`io.MultiWriter(cw, allData[chunk])` for every delivered chunk that was requested. -/
def applyGot : Writers → List (Chunk × Bytes) → Writers
  | ws, [] => ws
  | ws, (c, d) :: rest =>
    match ws.get c with
    | none => applyGot ws rest
    | some w => applyGot (ws.set c (w.write d)) rest

/-- One call of `fetchRange` as seen by this `ReadAt`. -/
inductive Round
  /-- the key is in flight: another goroutine runs `fetchRegions` for the same chunk set and gets
  `leaderReply`; then the cache suffers `loss`; then this caller copies in map order `order` -/
  | follow (leaderReply : Reply) (loss : List Loss) (order : List Chunk)
  /-- this caller runs `fetchRegions` itself and gets `reply` -/
  | lead (reply : Reply)
deriving Repr

inductive SharedOut
  | ok (k : Nat) (buf : Bytes)
  | err
  | outOfFuel       -- the script of rounds is exhausted while the caller is still retrying
  | badScript       -- `order` is not a permutation of the caller's chunks
deriving Repr, DecidableEq

/-- A `ReadAt` after `prepareChunksForRead`: hits are already copied into `p`, each miss has its
writer. -/
structure Pending where
  o : Nat
  n : Nat
  cs : List Chunk
  hits : List (Chunk × Bytes)
  missing : List Chunk
  ws : Writers

/-- The bytes that end up in `p[base:base+expected]` for chunk `c`. -/
def segFor (o n : Nat) (hits : List (Chunk × Bytes)) (ws : Writers) (c : Chunk) : Bytes :=
  match hits.find? (fun kv => kv.1 = c) with
  | some kv => slice kv.2 (place o n c).lower (place o n c).expected
  | none =>
    match ws.get c with
    | some w => w.dest
    | none => []

def assembleW (o n : Nat) (hits : List (Chunk × Bytes)) (ws : Writers) (buf : Bytes) :
    List Chunk → Bytes
  | [] => buf
  | c :: rest =>
    assembleW o n hits ws (writeAt buf (place o n c).base (segFor o n hits ws c)) rest

def finish (P : Params) (pd : Pending) : SharedOut :=
  .ok (adjust P pd.n pd.o) (assembleW pd.o pd.n pd.hits pd.ws (List.replicate pd.n 0) pd.cs)

/-- `for _, w := range allData { bw.current = 0 }` before the retry (commit c4f4279). -/
def resetWs (ws : Writers) : Writers := ws.map fun kv => (kv.1, { kv.2 with current := 0 })

/-- `fetchRange(allData)` with its retry recursion, one `Round` per call. -/
def fetchRangeShared (P : Params) (pd : Pending) : St → List Round → St × SharedOut
  | s, [] => (s, .outOfFuel)
  | s, .lead reply :: _ =>
    match fetchMissing P s pd.missing reply with
    | (s', none) => (s', .err)
    | (s', some got) => (s', finish P { pd with ws := applyGot pd.ws got })
  | s, .follow leaderReply loss order :: rest =>
    if ¬ order.isPerm pd.missing then (s, .badScript)
    else
      match fetchMissing P s pd.missing leaderReply with
      | (s', none) => (s', .err)                       -- the shared error is returned
      | (s', some _) =>
        let s'' : St := { s' with cache := loss.foldl Cache.lose s'.cache }
        match copyInOrder s''.cache pd.ws order with
        | (ws', true) => (s'', finish P { pd with ws := ws' })
        | (ws', false) =>                              -- restart the writers, retry
          fetchRangeShared P { pd with ws := resetWs ws' } s'' rest

/-- `ReadAt` whose `fetchRange` calls go as scripted (`script` is only consumed when there is a
cache miss). -/
def readAtShared (P : Params) (s : St) (o n : Nat) (script : List Round) : St × SharedOut :=
  if n = 0 ∨ o > P.size then (s, .ok 0 (List.replicate n 0))
  else
    match walkChunks P (floorU o P.chunk) (ceilU (o + n - 1) P.chunk - 1) with
    | none => (s, .err)
    | some cs =>
      let hm := classify o n s.cache cs
      let pd : Pending :=
        { o := o, n := n, cs := cs, hits := hm.1, missing := hm.2,
          ws := hm.2.map fun c => (c, newWriter o n c) }
      if hm.2.isEmpty then (s, finish P pd) else fetchRangeShared P pd s script

/-- `fetchRange` BEFORE commit c4f4279: the retry keeps `bytesWriter.current`. -/
def fetchRangeSharedOld (P : Params) (pd : Pending) : St → List Round → St × SharedOut
  | s, [] => (s, .outOfFuel)
  | s, .lead reply :: _ =>
    match fetchMissing P s pd.missing reply with
    | (s', none) => (s', .err)
    | (s', some got) => (s', finish P { pd with ws := applyGot pd.ws got })
  | s, .follow leaderReply loss order :: rest =>
    if ¬ order.isPerm pd.missing then (s, .badScript)
    else
      match fetchMissing P s pd.missing leaderReply with
      | (s', none) => (s', .err)
      | (s', some _) =>
        let s'' : St := { s' with cache := loss.foldl Cache.lose s'.cache }
        match copyInOrder s''.cache pd.ws order with
        | (ws', true) => (s'', finish P { pd with ws := ws' })
        | (ws', false) => fetchRangeSharedOld P { pd with ws := ws' } s'' rest

/-- `ReadAt` BEFORE commit c4f4279. -/
def readAtSharedOld (P : Params) (s : St) (o n : Nat) (script : List Round) : St × SharedOut :=
  if n = 0 ∨ o > P.size then (s, .ok 0 (List.replicate n 0))
  else
    match walkChunks P (floorU o P.chunk) (ceilU (o + n - 1) P.chunk - 1) with
    | none => (s, .err)
    | some cs =>
      let hm := classify o n s.cache cs
      let pd : Pending :=
        { o := o, n := n, cs := cs, hits := hm.1, missing := hm.2,
          ws := hm.2.map fun c => (c, newWriter o n c) }
      if hm.2.isEmpty then (s, finish P pd) else fetchRangeSharedOld P pd s script

/-! ### (2) `Cache` with `prefetchChunkSize > chunkSize` -/

/-- `for i := offset; i < end; i += fetchSize { l := min fetchSize (end - i); cacheAt(i, l) }`. -/
def piecesFrom (F end_ : Nat) : Nat → Nat → List (Nat × Nat)
  | 0, _ => []
  | fuel + 1, i =>
    if i < end_ then (i, if i + F > end_ then end_ - i else F) :: piecesFrom F end_ fuel (i + F)
    else []

/-- The `(offset, size)` arguments of the `cacheAt` calls made by `Cache(o, n)`. -/
def cacheCalls (P : Params) (prefetch o n : Nat) : List (Nat × Nat) :=
  if prefetch ≤ P.chunk then [(o, n)]
  else piecesFrom (P.chunk * (prefetch / P.chunk)) (o + n) (n + 1) o

/-- The `cacheAt` calls run one after the other in the given order, each with its own reply;
`eg.Wait()` reports success iff all succeeded (all of them run in any case). -/
def runCalls (P : Params) : St → List ((Nat × Nat) × Reply) → St × Bool
  | s, [] => (s, true)
  | s, ((o, n), r) :: rest =>
    let R := cacheAt P s o n r
    let R' := runCalls P R.1 rest
    (R'.1, R.2 && R'.2)

end SV.Blob
