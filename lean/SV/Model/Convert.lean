/-
C19 — image conversion (nativeconverter/estargz, nativeconverter/zstdchunked,
nativeconverter/estargz/externaltoc).  Thin data-flow model, core Lean only.

What is a parameter (recorded in the trusted base, validated by the Go harness each run):
  * `H : Bytes → Digest`            SHA-256, uninterpreted.  `Digest := Nat` (a 256-bit number; the
                                     numeric order is the order of the lower-case hex strings Go sorts by).
  * `build / buildZstd / buildLossless`  `estargz.Build` resp. `estargz.Writer.AppendTarLossLess`:
                                     a FUNCTION of (resolved options, source blob) returning the emitted
                                     blob, its decompression, the TOC JSON it digested and (external TOC
                                     only) the TOC blob buffered by the compressor.
  * `decomp`                         containerd `compression.DecompressStream`.
  * `tocOf`                          the TOC JSON bytes `estargz.Open` parses for a blob and `VerifyTOC`
                                     digests.
The content store is re-modelled (digest-keyed blobs with the `containerd.io/uncompressed` label,
resumable ingests keyed by ref) after containerd's plugins/content/local.
-/
namespace SV.Convert

abbrev Bytes := List UInt8
abbrev Digest := Nat

/-! ## Media types (finite table) -/

/-- Every media type the table is enumerated over: all layer media types containerd knows, one
layer-looking type containerd does NOT treat as a layer (`dockerForeignZstd`), and the non-layer
types that occur in images. -/
inductive MT
  | dockerLayer | dockerLayerGzip | dockerLayerZstd
  | dockerForeign | dockerForeignGzip | dockerForeignZstd
  | ociLayer | ociLayerGzip | ociLayerZstd
  | ociNondist | ociNondistGzip | ociNondistZstd
  | dockerManifest | dockerManifestList | dockerConfig
  | ociManifest | ociIndex | ociConfig
  | other
  deriving DecidableEq, Repr, Inhabited

def MT.all : List MT :=
  [.dockerLayer, .dockerLayerGzip, .dockerLayerZstd, .dockerForeign, .dockerForeignGzip, .dockerForeignZstd,
   .ociLayer, .ociLayerGzip, .ociLayerZstd, .ociNondist, .ociNondistGzip, .ociNondistZstd,
   .dockerManifest, .dockerManifestList, .dockerConfig, .ociManifest, .ociIndex, .ociConfig, .other]

def MT.str : MT → String
  | .dockerLayer => "application/vnd.docker.image.rootfs.diff.tar"
  | .dockerLayerGzip => "application/vnd.docker.image.rootfs.diff.tar.gzip"
  | .dockerLayerZstd => "application/vnd.docker.image.rootfs.diff.tar.zstd"
  | .dockerForeign => "application/vnd.docker.image.rootfs.foreign.diff.tar"
  | .dockerForeignGzip => "application/vnd.docker.image.rootfs.foreign.diff.tar.gzip"
  | .dockerForeignZstd => "application/vnd.docker.image.rootfs.foreign.diff.tar.zstd"
  | .ociLayer => "application/vnd.oci.image.layer.v1.tar"
  | .ociLayerGzip => "application/vnd.oci.image.layer.v1.tar+gzip"
  | .ociLayerZstd => "application/vnd.oci.image.layer.v1.tar+zstd"
  | .ociNondist => "application/vnd.oci.image.layer.nondistributable.v1.tar"
  | .ociNondistGzip => "application/vnd.oci.image.layer.nondistributable.v1.tar+gzip"
  | .ociNondistZstd => "application/vnd.oci.image.layer.nondistributable.v1.tar+zstd"
  | .dockerManifest => "application/vnd.docker.distribution.manifest.v2+json"
  | .dockerManifestList => "application/vnd.docker.distribution.manifest.list.v2+json"
  | .dockerConfig => "application/vnd.docker.container.image.v1+json"
  | .ociManifest => "application/vnd.oci.image.manifest.v1+json"
  | .ociIndex => "application/vnd.oci.image.index.v1+json"
  | .ociConfig => "application/vnd.oci.image.config.v1+json"
  | .other => "application/octet-stream"

def MT.ofStr? (s : String) : Option MT := MT.all.find? fun m => m.str == s

/-- Compression a media type announces. -/
inductive Comp | none | gzip | zstd
  deriving DecidableEq, Repr

def MT.comp : MT → Option Comp
  | .dockerLayer | .dockerForeign | .ociLayer | .ociNondist => some .none
  | .dockerLayerGzip | .dockerForeignGzip | .ociLayerGzip | .ociNondistGzip => some .gzip
  | .dockerLayerZstd | .dockerForeignZstd | .ociLayerZstd | .ociNondistZstd => some .zstd
  | _ => Option.none

/-- containerd `images.IsLayerType` (prefix `application/vnd.oci.image.layer.` or one of the five
Docker layer constants; `…foreign.diff.tar.zstd` is not among them). -/
def isLayerType : MT → Bool
  | .dockerLayer | .dockerLayerGzip | .dockerLayerZstd | .dockerForeign | .dockerForeignGzip
  | .ociLayer | .ociLayerGzip | .ociLayerZstd | .ociNondist | .ociNondistGzip | .ociNondistZstd => true
  | _ => false

/-- containerd `uncompress.IsUncompressedType`. -/
def isUncompressedType : MT → Bool
  | .dockerLayer | .dockerForeign | .ociLayer | .ociNondist => true
  | _ => false

/-- containerd `images.IsDockerType` (prefix `application/vnd.docker.`). -/
def isDockerType : MT → Bool
  | .dockerLayer | .dockerLayerGzip | .dockerLayerZstd | .dockerForeign | .dockerForeignGzip | .dockerForeignZstd
  | .dockerManifest | .dockerManifestList | .dockerConfig => true
  | _ => false

/-- containerd `images.IsNonDistributable`. -/
def isNonDistributable : MT → Bool
  | .dockerForeign | .dockerForeignGzip | .dockerForeignZstd | .ociNondist | .ociNondistGzip | .ociNondistZstd => true
  | _ => false

/-- `newDesc.MediaType += ".gzip"` (Docker) / `+= "+gzip"` (otherwise); only ever applied to an
uncompressed layer type (estargz.go:118-124, converter.go:272-278). -/
def appendGzip : MT → MT
  | .dockerLayer => .dockerLayerGzip
  | .dockerForeign => .dockerForeignGzip
  | .ociLayer => .ociLayerGzip
  | .ociNondist => .ociNondistGzip
  | m => m

/-- containerd `converter.ConvertDockerMediaTypeToOCI`. -/
def dockerToOCI : MT → MT
  | .dockerManifestList => .ociIndex
  | .dockerManifest => .ociManifest
  | .dockerLayerGzip => .ociLayerGzip
  | .dockerForeignGzip => .ociNondistGzip
  | .dockerLayer => .ociLayer
  | .dockerForeign => .ociNondist
  | .dockerConfig => .ociConfig
  | m => m

/-- The media-type step of the gzip-producing converters (estargz.go:117-124, converter.go:271-278):
uncompressed types gain the gzip suffix, EVERYTHING ELSE IS KEPT — including the zstd types. -/
def gzipTargetMT (m : MT) : MT := if isUncompressedType m then appendGzip m else m

/-- zstdchunked.go `convertMediaTypeToZstd`. -/
def zstdTargetMT (m : MT) : Option MT :=
  match dockerToOCI m with
  | .ociLayer | .ociLayerGzip | .ociLayerZstd => some .ociLayerZstd
  | .ociNondist | .ociNondistGzip | .ociNondistZstd => some .ociNondistZstd
  | _ => none

/-- The four layer converters of /repo/nativeconverter. -/
inductive Target | esgz | zstdchunked | extToc | extTocLossless
  deriving DecidableEq, Repr

def Target.all : List Target := [.esgz, .zstdchunked, .extToc, .extTocLossless]

def Target.comp : Target → Comp
  | .zstdchunked => .zstd
  | _ => .gzip

/-- Media-type outcome of a conversion whose build / write steps succeed. -/
inductive MTOut
  | untouched          -- `return nil, nil`
  | ok (m : MT)
  | err                -- error return (after the blob was written)
  | panic              -- Go runtime panic
  deriving DecidableEq, Repr

/-- Input media type × converter → outcome, exactly as coded.  The external-TOC wrapper
(`layerConvert`, converter.go:123-142) calls `writeTOCTo` also when the inner function left the
descriptor untouched; the compressor's TOC buffer is then nil and `(*bytes.Buffer)(nil).Bytes()`
panics. -/
def outMediaType (t : Target) (m : MT) : MTOut :=
  if !isLayerType m then
    match t with
    | .extToc | .extTocLossless => .panic
    | _ => .untouched
  else
    match t with
    | .zstdchunked =>
      match zstdTargetMT m with
      | some m' => .ok m'
      | none => .err
    | _ => .ok (gzipTargetMT m)

/-- Which source encodings a builder reads: `estargz.Build` sniffs gzip, zstd and plain tar
(build.go `decompressBlob`); `Writer.AppendTarLossLess` only gzip and plain tar — a zstd source is
parsed as a tar and the conversion returns an error. -/
def readable (t : Target) (content : Comp) : Bool :=
  !(t == .extTocLossless && content == .zstd)

/-- The table row for a source whose bytes are really encoded as `content` (which may differ from
what the media type says): an unreadable layer is an error, otherwise `outMediaType`. -/
def outMediaTypeFor (t : Target) (m : MT) (content : Comp) : MTOut :=
  if isLayerType m && !readable t content then .err else outMediaType t m

/-! ## Content store (after containerd plugins/content/local) -/

/-- Kind of a writer ref: `convert-estargz-from-<d>`, `convert-zstdchunked-from-<d>`,
`external-toc<time>` (unique per call). -/
inductive RefKind | esgz | zstd | toc
  deriving DecidableEq, Repr

abbrev Ref := RefKind × Digest

structure Entry where
  bytes : Bytes
  /-- the `containerd.io/uncompressed` label (other labels are carried along unchanged and omitted) -/
  label : Option Digest
  deriving DecidableEq, Repr

structure Store where
  blobs : List (Digest × Entry) := []
  /-- unfinished ingests: bytes written so far under a ref (left behind by an interrupted run) -/
  ingests : List (Ref × Bytes) := []
  deriving Repr

def Store.lookup (s : Store) (d : Digest) : Option Entry := s.blobs.lookup d

/-- `content.OpenWriter(ref)`: resumes the bytes already ingested under `ref`. -/
def Store.openWriter (s : Store) (r : Ref) : Bytes := (s.ingests.lookup r).getD []

/-- `w.Commit(n, "", WithLabels)`: the ingest disappears; an existing digest ⇒ AlreadyExists and the
stored entry — including its labels — stays as it was (writer.go: the label set is after the
collision return). -/
def Store.commit (H : Bytes → Digest) (s : Store) (r : Ref) (data : Bytes) (label : Option Digest) :
    Store × Bool :=
  let ing := s.ingests.filter fun x => x.1 ≠ r
  match s.lookup (H data) with
  | some _ => ({ s with ingests := ing }, false)
  | none => ({ blobs := (H data, ⟨data, label⟩) :: s.blobs, ingests := ing }, true)

/-! ## Build options -/

/-- `estargz.Option`s the converters forward; the last setter wins (`Build` applies them in order). -/
inductive Opt
  | chunkSize (n : Nat) | minChunkSize (n : Nat) | level (n : Int) | prioritized (files : List String)
  deriving DecidableEq, Repr

/-- `LayerConvertWithLayerAndCommonOptsFunc`: `append(copiedCommonOpts, opts[desc.Digest]...)`. -/
def effectiveOpts (common : List Opt) (perLayer : Digest → List Opt) (src : Digest) : List Opt :=
  common ++ perLayer src

/-- What one build produced. -/
structure Built where
  /-- bytes read from `Blob` / written through the `Writer`, i.e. what is copied into the store -/
  blob : Bytes
  /-- decompression of `blob` (`Blob.DiffID`/`UncompressedSize` hash and count exactly this) -/
  stream : Bytes
  /-- TOC JSON whose digest `Blob.TOCDigest` / `Writer.Close` returns -/
  tocJSON : Bytes
  /-- external TOC only: the TOC blob buffered in the compressor (`none` = nothing registered) -/
  tocBlob : Option Bytes := none
  deriving Repr

structure Env where
  H : Bytes → Digest
  build : List Opt → Bytes → Option Built
  buildZstd : List Opt → Bytes → Option Built
  buildLossless : List Opt → Bytes → Option Built
  decomp : Bytes → Option Bytes
  tocOf : Bytes → Option Bytes → Option Bytes   -- blob, external TOC blob → TOC JSON that Open parses

/-- What is assumed about the builders (validated per conversion by the harness oracle): the
decompression of the emitted blob is `stream`, and the TOC that `Open` finds for it is `tocJSON`. -/
structure BuildSound (E : Env) : Prop where
  gz : ∀ o x b, E.build o x = some b → E.decomp b.blob = some b.stream ∧ E.tocOf b.blob b.tocBlob = some b.tocJSON
  zs : ∀ o x b, E.buildZstd o x = some b → E.decomp b.blob = some b.stream ∧ E.tocOf b.blob b.tocBlob = some b.tocJSON
  ll : ∀ o x b, E.buildLossless o x = some b → E.decomp b.blob = some b.stream ∧ E.tocOf b.blob b.tocBlob = some b.tocJSON

/-- `VerifiableReader.VerifyTOC(d)` on a blob (with its external TOC blob, if any): accepted iff `d`
is the digest of the TOC JSON that `Open` parsed. -/
def verifyTOC (E : Env) (blob : Bytes) (ext : Option Bytes) (d : Digest) : Prop :=
  ∃ toc, E.tocOf blob ext = some toc ∧ E.H toc = d

/-! ## Descriptors and conversion -/

structure Src where
  mt : MT
  digest : Digest
  blob : Bytes
  deriving Repr

structure Desc where
  mt : MT
  digest : Digest
  size : Nat
  /-- `containerd.io/snapshot/stargz/toc.digest` -/
  tocAnn : Digest
  /-- `io.containers.estargz.uncompressed-size` -/
  uncompressedAnn : Nat
  deriving DecidableEq, Repr

inductive Res
  | untouched | ok (d : Desc) | err | panic
  deriving DecidableEq, Repr

/-- The common tail of all converters: open the writer under the ref derived from the SOURCE digest,
`Truncate(0)`, copy the built blob, commit with the uncompressed label, fill the descriptor from
the writer's digest / byte count and from the build's accessors. -/
def writeAndDescribe (E : Env) (s : Store) (r : Ref) (b : Built) (mt : MT) : Store × Desc :=
  let resumed := s.openWriter r          -- old writer possibly remains (interrupted conversion)
  let w : Bytes := (resumed.take 0) ++ b.blob   -- w.Truncate(0); io.Copy(w, blob)
  let n := b.blob.length                 -- n, _ := io.Copy
  let (s', _) := s.commit E.H r w (some (E.H b.stream))   -- AlreadyExists is tolerated
  (s', { mt := mt, digest := E.H w, size := n, tocAnn := E.H b.tocJSON, uncompressedAnn := b.stream.length })

/-- estargz.go `LayerConvertFunc`. -/
def convertEsgz (E : Env) (o : List Opt) (s : Store) (src : Src) : Store × Res × Option Built :=
  if !isLayerType src.mt then (s, .untouched, none) else
  match s.lookup src.digest with          -- cs.Info
  | none => (s, .err, none)
  | some _ =>
    match E.build o src.blob with
    | none => (s, .err, none)
    | some b =>
      let (s', d) := writeAndDescribe E s (.esgz, src.digest) b (gzipTargetMT src.mt)
      (s', .ok d, some b)

/-- zstdchunked.go `LayerConvertFuncWithCompressionLevel` (the intermediate uncompressed blob that
`uncompress.LayerConvertFunc` leaves in the store is not part of the result and is omitted). -/
def convertZstd (E : Env) (o : List Opt) (s : Store) (src : Src) : Store × Res × Option Built :=
  if !isLayerType src.mt then (s, .untouched, none) else
  match s.lookup src.digest with
  | none => (s, .err, none)
  | some _ =>
    match E.buildZstd o src.blob with
    | none => (s, .err, none)
    | some b =>
      let (s', d) := writeAndDescribe E s (.zstd, src.digest) b src.mt
      match zstdTargetMT src.mt with      -- convertMediaTypeToZstd runs after the commit
      | none => (s', .err, some b)
      | some m => (s', .ok { d with mt := m }, some b)

/-- converter.go `layerLossLessConvertFunc`: stream the source through `AppendTarLossLess` into the
writer, then compare DiffID and size of what was written with those of the source. -/
def convertLossless (E : Env) (o : List Opt) (s : Store) (src : Src) : Store × Res × Option Built :=
  if !isLayerType src.mt then (s, .untouched, none) else
  match s.lookup src.digest with
  | none => (s, .err, none)
  | some _ =>
    match E.buildLossless o src.blob, E.decomp src.blob with
    | some b, some org =>
      if E.H b.stream ≠ E.H org then (s, .err, none)          -- diffID check
      else if b.stream.length ≠ org.length then (s, .err, none)  -- size check
      else
        let (s', d) := writeAndDescribe E s (.esgz, src.digest) b (gzipTargetMT src.mt)
        (s', .ok d, some b)
    | _, _ => (s, .err, none)

/-! ## External TOC: the shared map and finalize -/

structure TocInfo where
  digest : Digest
  size : Nat
  deriving DecidableEq, Repr

/-- `esgzDigest2TOC` as a finite map: association list sorted by key, no duplicate keys. -/
abbrev TocMap := List (Digest × TocInfo)

/-- `esgzDigest2TOC[k] = v` — one atomic step (the mutex of converter.go:120 is the premise). -/
def TocMap.put (k : Digest) (v : TocInfo) : TocMap → TocMap
  | [] => [(k, v)]
  | (k', v') :: m =>
    if k < k' then (k, v) :: (k', v') :: m
    else if k = k' then (k, v) :: m
    else (k', v') :: TocMap.put k v m

def TocMap.puts (ps : List (Digest × TocInfo)) (m : TocMap := []) : TocMap :=
  ps.foldl (fun m p => TocMap.put p.1 p.2 m) m

/-- A layer of the TOC image manifest. -/
structure TocLayer where
  toc : TocInfo
  /-- annotation `containerd.io/snapshot/stargz/layer.digest` -/
  layer : Digest
  deriving DecidableEq, Repr

def insertByToc (l : TocLayer) : List TocLayer → List TocLayer
  | [] => [l]
  | x :: xs => if l.toc.digest ≤ x.toc.digest then l :: x :: xs else x :: insertByToc l xs

/-- `finalize`: one layer per map entry, sorted by TOC digest. -/
def finalize (m : TocMap) : List TocLayer :=
  (m.map fun kv => (⟨kv.2, kv.1⟩ : TocLayer)).foldr insertByToc []

/-- `fetchTOCBlobFromManifest`: first manifest layer annotated with the requested layer digest. -/
def fetchToc (ls : List TocLayer) (layer : Digest) : Option TocInfo :=
  (ls.find? fun l => l.layer = layer).map (·.toc)

/-- The wrapper of `layerConvert` (converter.go:123-142): run the inner conversion with a fresh
external-TOC compressor, store the buffered TOC blob, and record `key ↦ (H toc, |toc|)` where the key
is the CONVERTED layer's digest.  Returns the put to be applied to the shared map. -/
def convertExt (E : Env) (lossless : Bool) (o : List Opt) (s : Store) (src : Src) :
    Store × Res × Option (Digest × TocInfo) :=
  let (s1, r, b) := if lossless then convertLossless E o s src else convertEsgz E o s src
  match r with
  | .err => (s1, .err, none)
  | .panic => (s1, .panic, none)
  | .untouched => (s1, .panic, none)     -- writeTOCTo on a compressor whose buffer is nil
  | .ok d =>
    match b.bind (·.tocBlob) with
    | none => (s1, .panic, none)
    | some toc =>
      let (s2, _) := s1.commit E.H (.toc, 0) toc none   -- writeTOCTo (unique ref, no labels)
      (s2, .ok d, some (d.digest, ⟨E.H toc, toc.length⟩))

/-- All four converters behind one name. -/
def convert (E : Env) (t : Target) (o : List Opt) (s : Store) (src : Src) : Store × Res :=
  match t with
  | .esgz => let (s', r, _) := convertEsgz E o s src; (s', r)
  | .zstdchunked => let (s', r, _) := convertZstd E o s src; (s', r)
  | .extToc => let (s', r, _) := convertExt E false o s src; (s', r)
  | .extTocLossless => let (s', r, _) := convertExt E true o s src; (s', r)

/-- Media type of the result, for the driver. -/
def Res.mtOut : Res → MTOut
  | .untouched => .untouched
  | .ok d => .ok d.mt
  | .err => .err
  | .panic => .panic

end SV.Convert
