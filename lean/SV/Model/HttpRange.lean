/-
Model of the HTTP wire level of the blob fetcher (fs/remote/resolver.go `httpFetcher.fetch`,
`parseRange`, `singlepartReader` / `multipartReader`; fs/remote/blob.go `contentRangeRegexp`,
`fetchRegions`).  Core-only.

A Go `string` is a byte sequence: `Str = List UInt8`.  The regexp
  contentRangeRegexp = `bytes ([0-9]+)-([0-9]+)/([0-9]+|\\*)`
is written in a raw Go string, so its last alternative is the regexp `\\*` = "zero or more
BACKSLASH characters" (not a literal `*`).  It is unanchored and `FindStringSubmatch` returns the
leftmost match with Perl priorities (first alternative first, greedy repetitions).  All its
literals are ASCII, so matching on bytes and on UTF-8 runes coincide.

Outside this model (trusted libraries, the harness supplies their verdicts): `mime.ParseMediaType`
(its verdict is the `CType` of a reply), `mime/multipart.Reader` (a multipart body is the list of
its parts, each with its raw Content-Range header and its body; a body the reader cannot continue
with is the item `.broken`), `net/http` itself.
-/
import SV.Model.Region
import SV.Model.Blob

namespace SV.HttpRange
open SV.Region SV.Blob

abbrev Str := List UInt8

/-! ### decimal numerals (`fmt.Sprintf("%d")`, `strconv.ParseInt(s, 10, 64)`) -/

def isDigit (c : UInt8) : Bool := decide (48 ≤ c.toNat) && decide (c.toNat ≤ 57)
def digitVal (c : UInt8) : Nat := c.toNat - 48
def digitChar (d : Nat) : UInt8 := UInt8.ofNat (48 + d)

/-- Value of a digit string read left to right from accumulator `acc`. -/
def decFrom (acc : Nat) (ds : Str) : Nat := ds.foldl (fun a c => a * 10 + digitVal c) acc
def decVal (ds : Str) : Nat := decFrom 0 ds

/-- `%d` of a natural number: no leading zeros, `0` is "0". -/
def fmtNat (n : Nat) : Str :=
  if n < 10 then [digitChar n] else fmtNat (n / 10) ++ [digitChar (n % 10)]
termination_by n
decreasing_by omega

/-- `%d` of an int64. -/
def fmtInt (i : Int) : Str := if i < 0 then 45 :: fmtNat i.natAbs else fmtNat i.toNat

def two63 : Nat := 9223372036854775808

/-- `strconv.ParseInt(s, 10, 64)` on a regexp submatch: non-empty, digits only (else syntax
error), value ≤ 2^63-1 (else range error).  `none` = error. -/
def parseDec63 (s : Str) : Option Nat :=
  if s = [] ∨ ¬ s.all isDigit then none
  else if decVal s < two63 then some (decVal s) else none

/-- `strconv.ParseInt(s, 10, 64)` on an arbitrary string (used for Content-Length): optional
sign, then at least one digit, digits only (base 10 given explicitly: no underscores, no prefix);
range -2^63 … 2^63-1. -/
def parseInt64 (s : Str) : Option Int :=
  let (neg, body) := match s with
    | 43 :: r => (false, r)
    | 45 :: r => (true, r)
    | _ => (false, s)
  if body = [] ∨ ¬ body.all isDigit then none
  else
    let v := decVal body
    if neg then (if v ≤ two63 then some (-(v : Int)) else none)
    else (if v < two63 then some (v : Int) else none)

/-! ### `contentRangeRegexp` and `parseRange` -/

/-- "bytes " -/
def bytesSp : Str := [98, 121, 116, 101, 115, 32]

def dropPrefix? : Str → Str → Option Str
  | [], s => some s
  | _ :: _, [] => none
  | p :: ps, c :: cs => if p = c then dropPrefix? ps cs else none

/-- The regexp matched with its start fixed at the beginning of `s`: the three submatches.
`[0-9]+` is greedy and must be followed by a non-digit literal, so no backtracking alternative
exists for groups 1 and 2; group 3 prefers `[0-9]+` (maximal) and falls back to `\\*` (the maximal
run of backslashes, possibly empty) — it never fails. -/
def matchHere (s : Str) : Option (Str × Str × Str) :=
  match dropPrefix? bytesSp s with
  | none => none
  | some r1 =>
    let d1 := r1.takeWhile isDigit
    if d1 = [] then none else
    match r1.dropWhile isDigit with
    | 45 :: r3 =>
      let d2 := r3.takeWhile isDigit
      if d2 = [] then none else
      match r3.dropWhile isDigit with
      | 47 :: r5 =>
        let d3 := r5.takeWhile isDigit
        if d3 ≠ [] then some (d1, d2, d3)
        else some (d1, d2, r5.takeWhile (· = 92))
      | _ => none
    | _ => none

/-- Leftmost match (`FindStringSubmatch`). -/
def findMatch : Str → Option (Str × Str × Str)
  | [] => none
  | c :: cs =>
    match matchHere (c :: cs) with
    | some m => some m
    | none => findMatch cs

/-- `parseRange(header)`: `none` = error; `some (b, e, blobSize)`. -/
def parseRange (h : Str) : Option (Nat × Nat × Nat) :=
  match findMatch h with
  | none => none                                   -- len(submatches) < 4
  | some (d1, d2, d3) =>
    match parseDec63 d1 with
    | none => none
    | some b =>
      match parseDec63 d2 with
      | none => none
      | some e =>
        match parseDec63 d3 with
        | none => none
        | some sz => some (b, e, sz)

/-- A well-formed Content-Range value as a server writes it. -/
def fmtContentRange (b e size : Nat) : Str :=
  bytesSp ++ fmtNat b ++ [45] ++ fmtNat e ++ [47] ++ fmtNat size

/-! ### the Range header of `httpFetcher.fetch` -/

/-- `var s regionSet; for _, reg := range rs { s.add(reg) }`. -/
def squash (rs : List Region) : List Region := rs.foldl add []

inductive HdrOut
  | noRequest                -- `len(rs) == 0` ⇒ error "no request queried"
  | panic                    -- `superRegion` of / `ranges[:len-1]` on an empty request list
  | header (h : Str)
deriving DecidableEq, Repr

/-- The regions that go into the header: squashed, in single-range mode their super-region. -/
def requests (single : Bool) (rs : List Region) : Option (List Region) :=
  let s := squash rs
  if single then (superRegion s).map ([·]) else some s

/-- `ranges += fmt.Sprintf("%d-%d,", reg.b, reg.e)`. -/
def rangesStr : List Region → Str
  | [] => []
  | r :: rs => fmtInt r.b ++ [45] ++ fmtInt r.e ++ [44] ++ rangesStr rs

/-- "bytes=" -/
def bytesEq : Str := [98, 121, 116, 101, 115, 61]

def rangeHeader (single : Bool) (rs : List Region) : HdrOut :=
  if rs = [] then .noRequest
  else match requests single rs with
    | none => .panic
    | some reqs =>
      let ranges := rangesStr reqs
      if ranges = [] then .panic                    -- `ranges[:len(ranges)-1]` with len 0
      else .header (bytesEq ++ ranges.dropLast)

/-! ### a specification parser for the Range header (RFC 7233 `bytes=first-last,first-last…`)

One pass, no look-ahead: `ph` 0 = expecting the first digit of `first`, 1 = inside `first`,
2 = expecting the first digit of `last`, 3 = inside `last`. -/

structure RfcSt where
  acc : List (Nat × Nat) := []
  first : Nat := 0
  cur : Nat := 0
  ph : Nat := 0
  bad : Bool := false
deriving Repr

def rfcStep (s : RfcSt) (c : UInt8) : RfcSt :=
  if s.bad then s
  else if isDigit c then
    (if s.ph = 0 ∨ s.ph = 1 then { s with cur := s.cur * 10 + digitVal c, ph := 1 }
     else { s with cur := s.cur * 10 + digitVal c, ph := 3 })
  else if c = 45 ∧ s.ph = 1 then { s with first := s.cur, cur := 0, ph := 2 }
  else if c = 44 ∧ s.ph = 3 then { s with acc := s.acc ++ [(s.first, s.cur)], first := 0, cur := 0, ph := 0 }
  else { s with bad := true }

def rfcParse (h : Str) : Option (List (Nat × Nat)) :=
  match dropPrefix? bytesEq h with
  | none => none
  | some body =>
    let s := body.foldl rfcStep {}
    if s.bad ∨ s.ph ≠ 3 then none else some (s.acc ++ [(s.first, s.cur)])

/-! ### reply classification of `fetch` and the part stream -/

/-- Verdict of `mime.ParseMediaType(Content-Type)` + `strings.HasPrefix(mediaType, "multipart/")`. -/
inductive CType | bad | multipart | other
deriving DecidableEq, Repr

/-- One `NextPart()` of the multipart reader. -/
inductive MItem
  | part (contentRange : Str) (body : Bytes)
  | broken                              -- NextPart returned an error other than io.EOF
deriving Repr

/-- What `fetch` sees of one HTTP response. -/
structure Wire where
  status : Nat
  ctype : CType := .other
  contentLength : Str := []
  contentRange : Str := []
  body : Bytes := []                    -- body of a non-multipart response
  items : List MItem := []              -- parts of a multipart body
deriving Repr

/-- A part as handed to `fetchRegions`: `mr.Next()` = (region{b,e}, reader over `data`).
`b ≥ 0` always (0 for status 200, a digit string otherwise); `e` can be negative (200 with
Content-Length ≤ 0). -/
structure WPart where
  b : Nat
  e : Int
  data : Bytes
deriving Repr

/-- int64 `size - 1` (wraps at the minimum). -/
def sub1wrap (n : Int) : Int := if n = -(two63 : Int) then (two63 : Int) - 1 else n - 1

def wireStatus (w : Wire) : Status :=
  if w.status = 200 then .ok200 else if w.status = 206 then .partial206
  else if w.status = 403 then .forbidden403 else if w.status = 400 then .badReq400 else .other

/-- The `multipartReadCloser` produced for a 200/206 response, unrolled: the parts it yields and
whether the iteration ends with an error (`true`) or with io.EOF (`false`).
`none`: `fetch` itself returns an error. -/
def multiStream : List MItem → List WPart × Bool
  | [] => ([], false)
  | .broken :: _ => ([], true)
  | .part cr body :: rest =>
    match parseRange cr with
    | none => ([], true)                              -- "failed to parse Content-Range"
    | some (b, e, _) =>
      let (ps, bad) := multiStream rest
      (⟨b, e, body⟩ :: ps, bad)

def stream (w : Wire) : Option (List WPart × Bool) :=
  if w.status = 200 then
    match parseInt64 w.contentLength with
    | none => none                                    -- "failed to parse Content-Length"
    | some size => some ([⟨0, sub1wrap size, w.body⟩], false)
  else if w.status = 206 then
    match w.ctype with
    | .bad => none                                    -- "invalid media type"
    | .multipart => some (multiStream w.items)
    | .other =>
      match parseRange w.contentRange with
      | none => none
      | some (b, e, _) => some ([⟨b, e, w.body⟩], false)
  else none

/-- The whole of `fetch(ctx, rs, retry)` on a script of responses: the retry machine of
`SV.Blob.fetchSM` decides how many requests are sent and the final fetcher state; the last
response consumed is classified by `stream`. -/
def fetchW (st : FSt) (retry : Bool) (script : List Wire) (refresh : Option Bool) :
    FSt × Option (List WPart × Bool) × Nat :=
  let (st', out, n) := fetchSM st retry (script.map wireStatus) refresh
  match out with
  | .error => (st', none, n)
  | .body =>
    match script[n - 1]? with
    | none => (st', none, n)
    | some w => (st', stream w, n)

/-! ### how `fetchRegions` consumes the parts -/

/-- `walkChunks(region{b,e})` for an int64 `e`: the loop `for i := b; i <= e && …` does not run
at all when `e < b`. -/
def walkChunksI (P : Params) (b : Nat) (e : Int) : Option (List Chunk) :=
  if b % P.chunk ≠ 0 then none
  else if e < (b : Int) then some []
  else walkChunks P b e.toNat

/-- The `for { reg, p, err := mr.Next() … }` loop over wire-level parts. -/
def storePartsW (P : Params) (s : St) : List WPart → St × Option (List (Chunk × Bytes))
  | [] => (s, some [])
  | p :: ps =>
    match walkChunksI P p.b p.e with
    | none => (s, none)
    | some cs =>
      match storeChunks s p.data cs with
      | (s', none) => (s', none)
      | (s', some got) =>
        let (s'', r) := storePartsW P s' ps
        (s'', r.map (got ++ ·))

/-- `fetchRegions` over a wire response. -/
def fetchMissingW (P : Params) (s : St) (missing : List Chunk) (w : Wire) :
    St × Option (List (Chunk × Bytes)) :=
  if missing.isEmpty then (s, some [])
  else match stream w with
    | none => (s, none)                               -- fr.fetch returned an error
    | some (ps, bad) =>
      match storePartsW P s ps with
      | (s', none) => (s', none)
      | (s', some got) =>
        if bad then (s', none)                        -- "failed to read multipart resp"
        else if missing.all (fun c => got.any (fun g => g.1 = c)) then (s', some got)
        else (s', none)                               -- "failed to fetch region"

/-- `ReadAt` over a wire response (`SV.Blob.readAt` with the wire-level fetch). -/
def readAtW (P : Params) (s : St) (o n : Nat) (w : Wire) : St × Option (Nat × Bytes) :=
  if n = 0 ∨ o > P.size then (s, some (0, List.replicate n 0))
  else
    match walkChunks P (floorU o P.chunk) (ceilU (o + n - 1) P.chunk - 1) with
    | none => (s, none)
    | some cs =>
      let (hits, missing) := classify o n s.cache cs
      match fetchMissingW P s missing w with
      | (s', none) => (s', none)
      | (s', some got) =>
        let datas := cs.filterMap (fun c => (lookupData hits got c).map (fun d => (c, d)))
        (s', some (adjust P n o, assemble o n (List.replicate n 0) datas))

/-! ### the abstraction to the part-level model of `SV.Blob` -/

/-- The part-level view of a wire part list: a part with `e < b` and an aligned start is skipped
(the chunk loop does not run), one with a misaligned start is kept (it is an error either way). -/
def toPartsP (P : Params) : List WPart → List Part
  | [] => []
  | p :: ps =>
    if p.e < (p.b : Int) then
      (if p.b % P.chunk = 0 then toPartsP P ps else ⟨p.b, p.b, p.data⟩ :: toPartsP P ps)
    else ⟨p.b, p.e.toNat, p.data⟩ :: toPartsP P ps

/-- The part-level reply a wire response stands for (ignoring the end-of-stream error flag). -/
def toReply (P : Params) (w : Wire) : Reply :=
  match stream w with
  | none => .fail
  | some (ps, _) => .parts (toPartsP P ps)

def streamBad (w : Wire) : Bool :=
  match stream w with
  | some (_, true) => true
  | _ => false

end SV.HttpRange
