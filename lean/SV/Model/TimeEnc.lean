/-
C05x — the time-valued attribute (`metadata.Attr.ModTime`) and its encodings.

The TOC model (`SV.Toc.Attr.mtime : Option Int`) carries a modification time as an UNBOUNDED
number of nanoseconds since the Unix epoch (`none` = Go's zero time, `Time.IsZero`); the harness
prints `Unix()*1e9 + Nanosecond()` with math/big, never `UnixNano()`.  This file says which
encodings of a Go `time.Time` instant round-trip:

* `gobEnc`/`gobDec` mirror `time.Time.MarshalBinary`/`UnmarshalBinary` (what `GobEncode` calls, used
  by db/db.go `writeAttr`/`readAttr`): seconds since year 1 as 8 bytes two's complement + 4 bytes of
  nanoseconds (the zone travels separately and is not part of the instant);
* `nanoEnc`/`nanoDec` mirror `putInt(b, key, t.UnixNano())` / `time.Unix(0, n)`: one int64 of
  nanoseconds since 1970 — `UnixNano` wraps outside 1677-09-21 .. 2262-04-11.

Core Lean only.
-/
namespace SV.TimeEnc

/-- the instant of a Go `time.Time`: `Unix()` and `Nanosecond()`. -/
structure Instant where
  sec : Int
  nsec : Int
  deriving DecidableEq, Repr, Inhabited

def billion : Int := 1000000000
/-- `unixToInternal`: seconds from year 1 to 1970. -/
def unixToInternal : Int := 62135596800
def two63 : Int := 9223372036854775808
def two64 : Int := 18446744073709551616

/-- what a Go `time.Time` can hold: `0 ≤ nsec < 1e9`, seconds since year 1 fit an int64. -/
def Instant.Valid (t : Instant) : Prop :=
  0 ≤ t.nsec ∧ t.nsec < billion ∧ -two63 ≤ t.sec + unixToInternal ∧ t.sec + unixToInternal < two63

instance (t : Instant) : Decidable t.Valid := by unfold Instant.Valid; exact inferInstance

/-- the model's (and the harness's) rendering: unbounded nanoseconds since the Unix epoch. -/
def Instant.nanos (t : Instant) : Int := t.sec * billion + t.nsec

/-- `time.Unix(0, n)` for an unbounded `n` (floor division, `0 ≤ nsec`). -/
def ofNanos (n : Int) : Instant := ⟨n / billion, n % billion⟩

/-- Go `int64(x)` of a mathematical integer (two's complement wrap). -/
def wrap64 (x : Int) : Int := (x + two63) % two64 - two63
/-- Go `uint64(x)`. -/
def toU64 (x : Int) : Int := x % two64
/-- Go `int64(u)` of a `uint64`. -/
def ofU64 (u : Int) : Int := if u < two63 then u else u - two64

/-- `MarshalBinary`: (8 bytes big-endian of the int64 seconds since year 1 — as the unsigned number
they spell —, 4 bytes of nanoseconds). -/
def gobEnc (t : Instant) : Int × Int := (toU64 (t.sec + unixToInternal), t.nsec)
/-- `UnmarshalBinary`. -/
def gobDec (p : Int × Int) : Instant := ⟨ofU64 p.1 - unixToInternal, p.2⟩

/-- `t.UnixNano()`: `(sec)*1e9 + nsec` in int64 arithmetic. -/
def nanoEnc (t : Instant) : Int := wrap64 (t.sec * billion + t.nsec)
/-- `time.Unix(0, n)` -/
def nanoDec (n : Int) : Instant := ofNanos n

/-- an encoding of the time attribute as the db store uses it: `none` (key absent) = zero time. -/
def storeTime (enc : Instant → α) (t : Option Int) : Option α := t.map (fun n => enc (ofNanos n))
def loadTime (dec : α → Instant) (v : Option α) : Option Int := v.map (fun x => (dec x).nanos)

end SV.TimeEnc
