/-
C18 (extension) — the CRI keychain seen by clients whose credential queries are IN FLIGHT while
PullImage / RemoveImage requests are processed (service/keychain/cri/cri.go).

`credentials` holds `configMu` from the map lookup to the end of `ParseAuth`, so a query has ONE
atomic point between its call and its return; a schedule of overlapping calls is therefore a list
of events: requests (`KOp`) and the atomic points of queries.  A query event is part of the history
(it may lie between any two requests); it produces an answer and must leave nothing behind.
Core Lean only.
-/
import SV.Model.Creds

namespace SV.Creds

/-- One event of a schedule: a request to the image service, or the atomic point of a query. -/
inductive KEv
  | op (o : KOp)
  | query (host : String) (ref : Ref)

/-- One event: new keychain state and the answer handed out (queries only). -/
def estep (norm : String → Option Ref) (s : KState) : KEv → KState × Option Res
  | .op o => ((kstep norm s o).1, none)
  | .query host ref => (s, some (credentials s host ref))

/-- A whole schedule: final state and the answers of its queries, in order. -/
def erun (norm : String → Option Ref) (s : KState) : List KEv → KState × List Res
  | [] => (s, [])
  | e :: es =>
    let r := estep norm s e
    let rest := erun norm r.1 es
    (rest.1, r.2.toList ++ rest.2)

/-- The requests of a schedule (queries erased). -/
def opsOf : List KEv → List KOp
  | [] => []
  | .op o :: es => o :: opsOf es
  | .query _ _ :: es => opsOf es

theorem opsOf_append (a b : List KEv) : opsOf (a ++ b) = opsOf a ++ opsOf b := by
  induction a with
  | nil => rfl
  | cons e es ih => cases e <;> simp [opsOf, ih]

end SV.Creds
