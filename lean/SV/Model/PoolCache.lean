/-
Ownership of the pooled buffers of the directory cache, as seen from the callers that store chunks
into it (C02x).  Mirrors /repo/cache/cache.go `directoryCache.Add` (memory writer):

  b := dc.bufPool.Get()                         -- `take`
  Write(p)                                      -- into b
  Commit():  cached, done, added := dc.cache.Add(key, b)      -- `publish` (on-memory part, FIRST)
             if !added { dc.putBuffer(b) }
             … then the file part: write + MkdirAll + Rename; with SyncAdd its error is Commit's error
  Abort():   dc.putBuffer(b)  = b.Reset(); dc.bufPool.Put(b)  -- `putBuffer`, unconditional
  OnEvicted: value.Reset(); bufPool.Put(value)                -- `evict`

and the three callers of /repo that store a chunk: fs/reader `(*reader).cacheData`,
`(*VerifiableReader).readAndCache`, fs/remote `(*blob).cacheChunkData`.  All three call exactly one of
Commit / Abort on a writer (`abortOnFail = false`); a caller that calls Abort AFTER a Commit that
reported an error is `abortOnFail = true`.

Abstractions (all of them make MORE behaviours possible, none fewer):
* which buffer `sync.Pool.Get` hands out is an oracle (`pick`: an index into the pool, `none`/out of
  range = `New`); the pool is a multiset (a buffer put twice is in it twice);
* eviction is an operation of its own that removes ANY entry at ANY time (covers every capacity, every
  recency order and every delay caused by reference counts);
* whether the file part of a commit fails is an oracle per store (`fail`); the file part itself is not
  modelled (a read that falls through to the file is C11's subject);
* a chunk key determines its bytes (`content k`): the callers verify a chunk before it is stored.
Core-only (no Mathlib).
-/
namespace SV.PoolCache

abbrev Bytes := List Nat

structure St where
  /-- every `*bytes.Buffer` ever created, by id -/
  bufs : List Bytes := []
  /-- the on-memory LRU `dc.cache`: (key, buffer id) -/
  lru : List (Nat × Nat) := []
  /-- `dc.bufPool` -/
  pool : List Nat := []
deriving Repr, DecidableEq

def init : St := {}

/-- `dc.bufPool.Get()`. -/
def take (s : St) (pick : Option Nat) : St × Nat :=
  match pick.bind (fun i => s.pool[i]?) with
  | some b => ({ s with pool := s.pool.erase b }, b)
  | none => ({ s with bufs := s.bufs ++ [[]] }, s.bufs.length)

/-- `b.Reset(); dc.bufPool.Put(b)` (`putBuffer`, and the body of `OnEvicted`). -/
def putBuffer (s : St) (b : Nat) : St :=
  { s with bufs := s.bufs.set b [], pool := b :: s.pool }

/-- on-memory part of `Commit`: `dc.cache.Add(key, b)`; `if !added { dc.putBuffer(b) }`. -/
def publish (s : St) (k b : Nat) : St :=
  if s.lru.any (fun e => e.1 == k) then putBuffer s b
  else { s with lru := (k, b) :: s.lru }

/-- One caller storing chunk `k`: Add, Write, Commit — and, for a caller with `abortOnFail`, Abort when
Commit reported the failure of its file part. -/
def store (content : Nat → Bytes) (s : St) (k : Nat) (pick : Option Nat) (fail abortOnFail : Bool) : St :=
  let t := take s pick
  let s2 := { t.1 with bufs := t.1.bufs.set t.2 (content k) }
  let s3 := publish s2 k t.2
  if fail && abortOnFail then putBuffer s3 t.2 else s3

/-- `OnEvicted` of the entry at position `i`. -/
def evict (s : St) (i : Nat) : St :=
  match s.lru[i]? with
  | some e => putBuffer { s with lru := s.lru.eraseIdx i } e.2
  | none => s

inductive Op where
  | store (k : Nat) (pick : Option Nat) (fail : Bool)
  | evict (i : Nat)
deriving Repr, DecidableEq

/-- `abortOnFail` is a property of the CALLERS' code, the same for a whole history. -/
def step (content : Nat → Bytes) (abortOnFail : Bool) (s : St) : Op → St
  | .store k pick fail => store content s k pick fail abortOnFail
  | .evict i => evict s i

def run (content : Nat → Bytes) (abortOnFail : Bool) (s : St) (ops : List Op) : St :=
  ops.foldl (step content abortOnFail) s

/-- `Get(key)`, on-memory hit: the bytes of the buffer the LRU holds for `k` (`none` = miss: the
caller goes on to the file / the lower layer). -/
def get (s : St) (k : Nat) : Option Bytes :=
  match s.lru.find? (fun e => e.1 == k) with
  | some e => s.bufs[e.2]?
  | none => none

end SV.PoolCache
