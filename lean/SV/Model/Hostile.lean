/-
C04 — model of the attacker-facing arithmetic, as coded NOW in /repo.

Every partial Go operation on attacker-derived values (slice expression, index expression,
`make`) is a checked primitive that answers `Outcome.panic` exactly when the Go runtime would
panic.  `int64` arithmetic on attacker-controlled operands wraps (`wrap64`).

  * `gzipFooter`, `legacyFooter`, `extFooter`, `zstdFooter`
        estargz/gzip.go (Gzip|LegacyGzip)Decompressor.ParseFooter,
        estargz/externaltoc/externaltoc.go GzipDecompressor.ParseFooter,
        estargz/zstdchunked/zstdchunked.go Decompressor.ParseFooter.
        The result of the stdlib gzip header parse (`none | some extra`) is a parameter.
  * `openBlob`      estargz/estargz.go Open + parseTOC (+ io.SectionReader.ReadAt semantics)
  * `getSource`, `getOrCreateDir`, `initTree`
                    estargz/estargz.go (*Reader).getSource / getOrCreateDir / initFields (2nd loop)
  * `readLoop`      fs/reader/reader.go (*file).ReadAt
  * `passthrough`   fs/reader/reader.go (*file).GetPassthroughFd + prefetchEntireFile +
                    processBatchChunks + checkHoles

Core-only (no Mathlib) so that the driver links as a `lean_exe`.
-/
namespace SV.Hostile

/-- What a Go function can do with hostile input. -/
inductive Outcome (α : Type) where
  | ok : α → Outcome α
  | err : Outcome α
  | panic : Outcome α
deriving Repr, DecidableEq

namespace Outcome
def bind {α β : Type} (x : Outcome α) (f : α → Outcome β) : Outcome β :=
  match x with
  | ok a => f a
  | err => err
  | panic => panic
instance : Monad Outcome where
  pure := ok
  bind := bind
end Outcome
open Outcome

/-! ## Checked primitives -/

/-- Go `s[lo:hi]` on a slice of capacity `cap`. -/
def slice? (lo hi cap : Int) : Outcome Unit :=
  if 0 ≤ lo ∧ lo ≤ hi ∧ hi ≤ cap then ok () else Outcome.panic

/-- Go `s[i]` on a slice of length `len`. -/
def index? (i len : Int) : Outcome Unit :=
  if 0 ≤ i ∧ i < len then ok () else Outcome.panic

/-- Go `make([]byte, n)`: panics on a negative length.  The size of every allocation is
recorded by the callers (trace events) and bounded by separate theorems. -/
def make? (n : Int) : Outcome Unit :=
  if 0 ≤ n then ok () else Outcome.panic

/-- Go `bs[lo:hi]` on real bytes. -/
def sliceB (bs : List UInt8) (lo hi : Nat) : Outcome (List UInt8) :=
  if lo ≤ hi ∧ hi ≤ bs.length then ok ((bs.drop lo).take (hi - lo)) else Outcome.panic

/-- Go `bs[i]` on real bytes. -/
def indexB (bs : List UInt8) (i : Nat) : Outcome UInt8 :=
  match bs[i]? with
  | some b => ok b
  | none => Outcome.panic

/-- Two's complement wrap-around of `int64` arithmetic. -/
def wrap64 (x : Int) : Int := (x + 9223372036854775808) % 18446744073709551616 - 9223372036854775808

def positive (n : Int) : Int := if n < 0 then 0 else n

/-! ## Footers -/

structure Footer where
  payload : Int
  tocOffset : Int
  tocSize : Int
deriving Repr, DecidableEq

def hexVal (c : UInt8) : Option Nat :=
  if 48 ≤ c ∧ c ≤ 57 then some (c.toNat - 48)
  else if 97 ≤ c ∧ c ≤ 102 then some (c.toNat - 97 + 10)
  else if 65 ≤ c ∧ c ≤ 70 then some (c.toNat - 65 + 10)
  else none

/-- `strconv.ParseUint(s, 16, 64)` without the range check (done by the caller). -/
def parseUintHex : List UInt8 → Nat → Option Nat
  | [], acc => some acc
  | c :: rest, acc =>
    match hexVal c with
    | some v => parseUintHex rest (acc * 16 + v)
    | none => none

/-- `strconv.ParseInt(s, 16, 64)`: optional sign, at least one hex digit, range check. -/
def parseIntHex64 (bs : List UInt8) : Option Int :=
  match bs with
  | [] => none
  | c :: rest =>
    let neg := c = 45
    let ds := if c = 43 ∨ c = 45 then rest else bs
    if ds.isEmpty then none else
    match parseUintHex ds 0 with
    | none => none
    | some un =>
      if un ≥ 18446744073709551616 then none
      else if ¬ neg ∧ un ≥ 9223372036854775808 then none
      else if neg ∧ un > 9223372036854775808 then none
      else some (if neg then - (un : Int) else (un : Int))

def stargzMagic : List UInt8 := [83, 84, 65, 82, 71, 90]                        -- "STARGZ"
def extMagic : List UInt8 :=
  [83, 84, 65, 82, 71, 90, 69, 88, 84, 69, 82, 78, 65, 76, 84, 79, 67]          -- "STARGZEXTERNALTOC"
def zstdMagic : List UInt8 := [0x47, 0x6e, 0x55, 0x6c, 0x49, 0x6e, 0x55, 0x78]

/-- `binary.LittleEndian.Uint16(b)` (indexes `b[1]` first, as the Go code does). -/
def le16 (b : List UInt8) : Outcome Nat := do
  let hi ← indexB b 1
  let lo ← indexB b 0
  pure (lo.toNat + 256 * hi.toNat)

def le64 (b : List UInt8) : Nat := b.foldr (fun x acc => x.toNat + 256 * acc) 0

/-- `FooterSize()` of the four decompressors (compared with the implementation's values on every run). -/
def gzFooterSize : Nat := 51
def legacyFooterSize : Nat := 47
def extFooterSize : Nat := 46
def zstdFooterSize : Nat := 40

/-- `GzipDecompressor.ParseFooter` (estargz/gzip.go). `hdr` = result of `gzip.NewReader`:
`none` = header rejected, `some extra` = the FEXTRA payload (possibly empty). -/
def gzipFooter (len : Nat) (hdr : Option (List UInt8)) : Outcome Footer :=
  if len ≠ gzFooterSize then err else
  match hdr with
  | none => err
  | some extra =>
    if extra.length < 4 then err else do
    let si1 ← indexB extra 0
    let si2 ← indexB extra 1
    let sl ← sliceB extra 2 4
    let sub ← sliceB extra 4 extra.length
    if si1 ≠ 83 ∨ si2 ≠ 71 then err else do
    let slen ← le16 sl
    if slen ≠ 22 then err else
    if sub.length ≠ 22 then err else do
    let magic ← sliceB sub 16 sub.length
    if magic ≠ stargzMagic then err else do
    let hex ← sliceB sub 0 16
    match parseIntHex64 hex with
    | none => err
    | some off => if off < 0 then err else ok ⟨off, off, 0⟩   -- `if tocOffset < 0` (18babb7)

/-- `LegacyGzipDecompressor.ParseFooter`. -/
def legacyFooter (len : Nat) (hdr : Option (List UInt8)) : Outcome Footer :=
  if len ≠ legacyFooterSize then err else
  match hdr with
  | none => err
  | some extra =>
    if extra.length ≠ 22 then err else do
    let magic ← sliceB extra 16 extra.length
    if magic ≠ stargzMagic then err else do
    let hex ← sliceB extra 0 16
    match parseIntHex64 hex with
    | none => err
    | some off => if off < 0 then err else ok ⟨off, off, 0⟩   -- `if tocOffset < 0` (18babb7)

/-- `externaltoc.GzipDecompressor.ParseFooter`. -/
def extFooter (len : Nat) (hdr : Option (List UInt8)) : Outcome Footer :=
  if len ≠ extFooterSize then err else
  match hdr with
  | none => err
  | some extra =>
    if extra.length < 4 then err else do
    let si1 ← indexB extra 0
    let si2 ← indexB extra 1
    let sl ← sliceB extra 2 4
    let sub ← sliceB extra 4 extra.length
    if si1 ≠ 83 ∨ si2 ≠ 71 then err else do
    let slen ← le16 sl
    if slen ≠ 17 then err else
    if sub ≠ extMagic then err else
    ok ⟨-1, -1, 0⟩

/-- `zstdchunked.Decompressor.ParseFooter` on the raw bytes. -/
def zstdFooter (p : List UInt8) : Outcome Footer :=
  if p.length ≠ zstdFooterSize then err else do
  let a ← sliceB p 0 8
  let b ← sliceB p 8 16
  let m ← sliceB p 32 40
  if m ≠ zstdMagic then err else
  let off := le64 a
  let cl := le64 b
  -- `int64(offset - 8)`: unsigned subtraction, then conversion
  ok ⟨wrap64 (((off + 18446744073709551616 - 8) % 18446744073709551616 : Nat) : Int), wrap64 off, wrap64 cl⟩

/-! ## Open: footer selection and TOC range arithmetic -/

/-- One registered decompressor as the arithmetic sees it. -/
structure Dec where
  fSize : Int                     -- FooterSize()
  footer : Option (Int × Int)     -- ParseFooter: none = error, some (tocOffset, tocSize)
  toc1 : Bool                     -- answer of its first ParseTOC call
  toc2 : Bool                     -- answer of its second ParseTOC call
deriving Repr

inductive Ev where
  | read (off len : Int)          -- ReadAt reaching the blob
  | alloc (n : Int)               -- make([]byte, n)
  | toc (n : Option Int)          -- ParseTOC(nil) / ParseTOC(reader over n bytes)
deriving Repr, DecidableEq

inductive Step where
  | found
  | next
deriving Repr, DecidableEq

def maxFooterSize (size : Int) : List Dec → Int → Int
  | [], res => res
  | d :: ds, res => maxFooterSize size ds (if res < d.fSize ∧ d.fSize ≤ size then d.fSize else res)

/-- `io.SectionReader.ReadAt(p, off)` over an in-memory blob of `size` bytes, `len p = len`:
the reads that reach the blob and whether the call succeeds. -/
def secRead (size off len : Int) : List Ev × Bool :=
  if off < 0 ∨ off ≥ size then ([], false)
  else if len > size - off then ([Ev.read off (size - off)], false)
  else ([Ev.read off len], true)

/-- `parseTOC` (estargz.go). `mlen` = `len(tocBytes)` handed in by `Open`. -/
def parseTOC (size : Int) (d : Dec) (tocOff tocSize mlen : Int) : List Ev × Outcome Step :=
  if tocOff < 0 then ([Ev.toc none], ok (if d.toc1 then .found else .next))
  else
    let first := if mlen > 0 then [Ev.toc (some mlen)] else []
    if mlen > 0 ∧ d.toc1 then (first, ok .found) else
    match make? tocSize with
    | Outcome.panic => (first, Outcome.panic)
    | _ =>
      let (rd, okRead) := secRead size tocOff tocSize
      if ¬ okRead then (first ++ Ev.alloc tocSize :: rd, ok .next)
      else (first ++ Ev.alloc tocSize :: rd ++ [Ev.toc (some tocSize)],
            ok (if (if mlen > 0 then d.toc2 else d.toc1) then .found else .next))

/-- One iteration of the `for _, d := range decompressors` loop of `Open`. -/
def tryDec (size footerLen : Int) (d : Dec) : List Ev × Outcome Step :=
  let fOffset := positive (wrap64 (footerLen - d.fSize))
  match slice? 0 fOffset footerLen, slice? fOffset footerLen footerLen with
  | ok _, ok _ =>
    match d.footer with
    | none => ([], ok .next)
    | some (tocOffset, tocSize0) =>
      let tocSize := if tocOffset ≥ 0 ∧ tocSize0 ≤ 0 then wrap64 (wrap64 (size - tocOffset) - d.fSize) else tocSize0
      if tocOffset ≥ 0 ∧ (tocSize < 0 ∨ tocOffset > wrap64 (size - tocSize)) then ([], ok .next) else
      let cut := tocOffset ≥ 0 ∧ tocSize < fOffset
      match (if cut then slice? 0 tocSize fOffset else ok ()) with
      | ok _ => parseTOC size d tocOffset tocSize (if cut then tocSize else fOffset)
      | _ => ([], Outcome.panic)
  | _, _ => ([], Outcome.panic)

def openLoop (size footerLen : Int) : List Dec → List Ev → List Ev × Outcome Bool
  | [], evs => (evs, err)
  | d :: ds, evs =>
    match tryDec size footerLen d with
    | (e, ok .found) => (evs ++ e, ok true)
    | (e, ok .next) => openLoop size footerLen ds (evs ++ e)
    | (e, err) => (evs ++ e, err)
    | (e, Outcome.panic) => (evs ++ e, Outcome.panic)

/-- `estargz.Open` up to (excluding) `initFields`. `optTocOff` = `WithTOCOffset`. -/
def openBlob (size optTocOff : Int) (ds : List Dec) : List Ev × Outcome Bool :=
  let fetch0 := maxFooterSize size ds 0
  if optTocOff > fetch0 ∧ optTocOff > size then ([], err) else
  let fetchSize := if optTocOff > fetch0 then wrap64 (size - optTocOff) else fetch0
  match make? fetchSize with
  | Outcome.panic => ([], Outcome.panic)
  | _ =>
    let (rd, okRead) := secRead size (wrap64 (size - fetchSize)) fetchSize
    if ¬ okRead then (Ev.alloc fetchSize :: rd, err)
    else openLoop size fetchSize ds (Ev.alloc fetchSize :: rd)

/-! ## Hardlink resolution and the entry tree

Names are the cleaned names as lists of components in REVERSE order (head = base name,
tail = parent directory, `[]` = root), so that `parentDir` is `List.tail`. -/

abbrev Name := List String

inductive EType where
  | dir | reg | symlink | hardlink | chunk | other
deriving Repr, DecidableEq

structure Ent where
  name : Name
  type : EType
  link : Name
deriving Repr, DecidableEq

/-- `r.m[name]`; the list holds the most recently registered entry first. -/
def lookup (m : List Ent) (n : Name) : Option Ent := m.find? (fun e => e.name = n)

/-- The loop of `getSource`: `for i := 0; ent.Type == "hardlink"; i++ { if i > len(r.m) {err} … }`.
`fuel` only makes the recursion structural; `getSource` supplies enough (see
`SV.Props.C04.getSource_fuel_sufficient`). -/
def getSourceLoop (m : List Ent) : Nat → Nat → Ent → Outcome Ent
  | 0, _, _ => err
  | fuel + 1, i, ent =>
    if ent.type ≠ .hardlink then ok ent
    else if i > m.length then err
    else match lookup m ent.link with
      | none => err
      | some org => getSourceLoop m fuel (i + 1) org

def getSource (m : List Ent) (ent : Ent) : Outcome Ent := getSourceLoop m (m.length + 3) 0 ent

/-- A child edge `parent --base--> target`, with the target's type when the edge was made. -/
structure Edge where
  parent : Name
  base : String
  target : Name
  ttype : EType
deriving Repr, DecidableEq

structure Tree where
  m : List Ent
  edges : List Edge
  sources : List Name := []        -- `hardlinkSources`: names of the entries reached through a hardlink
deriving Repr, DecidableEq

/-- `(*TOCEntry).addChild`: the children map is keyed by base name. -/
def addEdge (es : List Edge) (e : Edge) : List Edge :=
  e :: es.filter (fun x => ¬ (x.parent = e.parent ∧ x.base = e.base))

/-- `(*Reader).getOrCreateDir`. -/
def getOrCreateDir (t : Tree) : Name → Tree
  | [] =>
    match lookup t.m [] with
    | some _ => t
    | none => { t with m := ⟨[], .dir, []⟩ :: t.m }
  | b :: p =>
    match lookup t.m (b :: p) with
    | some _ => t
    | none =>
      let t2 := getOrCreateDir { t with m := ⟨b :: p, .dir, []⟩ :: t.m } p
      { t2 with edges := addEdge t2.edges ⟨p, b, b :: p, .dir⟩ }

/-- One iteration of the second loop of `initFields`. -/
def treeStep (t : Tree) (e : Ent) : Outcome Tree :=
  if e.type = .chunk then ok t else
  match e.name with
  | [] => ok t                       -- `name == pdirName`: the root entry itself
  | base :: pdir =>
    let t1 := getOrCreateDir t pdir
    if e.type = .hardlink then
      match getSource t1.m e with
      | ok org =>
        if org.type = .dir then err
        else ok { t1 with edges := addEdge t1.edges ⟨pdir, base, org.name, org.type⟩,
                          sources := org.name :: t1.sources }
      | err => err
      | Outcome.panic => Outcome.panic
    else ok { t1 with edges := addEdge t1.edges ⟨pdir, base, e.name, e.type⟩ }

def treeLoop : List Ent → Tree → Outcome Tree
  | [], t => ok t
  | e :: es, t =>
    match treeStep t e with
    | ok t' => treeLoop es t'
    | err => err
    | Outcome.panic => Outcome.panic

/-- `len(org.children) > 0`: some child edge starts at `n`. -/
def hasChild (es : List Edge) (n : Name) : Bool := es.any (fun e => e.parent = n)

/-- `initFields`: first loop registers every non-chunk entry (last one wins), second loop
links children, then every hardlink source must be childless. -/
def initTree (ents : List Ent) : Outcome Tree :=
  match treeLoop ents ⟨(ents.filter (fun e => e.type ≠ .chunk)).reverse, [], []⟩ with
  | ok t => if t.sources.any (fun s => hasChild t.edges s) then err else ok t
  | err => err
  | Outcome.panic => Outcome.panic

/-! ## fs/reader `file.ReadAt` -/

/-- One scripted answer of the metadata store: the chunk triple of `ChunkEntryForOffset`, the
number of bytes its `ReadAt` delivers, and (when `hit ≥ 0`) a chunk-cache hit delivering
`hit` bytes. -/
structure Chunk where
  co : Int
  cs : Int
  n : Int
  hit : Int
deriving Repr

inductive REv where
  | chunkAt (off : Int)            -- ChunkEntryForOffset(off)
  | storeRead (len off : Int)      -- sf.fr.ReadAt(p[:len], off)
  | grow (n : Int)                 -- b.Grow(int(chunkSize))
deriving Repr, DecidableEq

def clampN (n len : Int) : Int := if n < 0 then 0 else if n > len then len else n

/-- `chunkContains(chunkOffset, chunkSize, pos)` (95288ee): a non-empty range, free from `int64`
overflow, that contains `pos`.  `pos - chunkOffset` cannot wrap once `0 ≤ chunkOffset ≤ pos`. -/
def chunkContains (co cs pos : Int) : Bool :=
  decide (cs > 0 ∧ co ≥ 0 ∧ cs ≤ 9223372036854775807 - co ∧ co ≤ pos ∧ pos - co < cs)

def lowerOf (off : Int) (c : Chunk) : Int := positive (wrap64 (off - c.co))
def upperOf (lenP off : Int) (c : Chunk) : Int :=
  positive (wrap64 (wrap64 (c.co + c.cs) - wrap64 (off + lenP)))
def expectedOf (c : Chunk) (lower upper : Int) : Int := wrap64 (wrap64 (c.cs - upper) - lower)

/-- The chunk-cache branch: `r.ReadAt(p[nr:int64(nr)+expectedSize], lowerDiscard)`; a hit counts
only when the cache delivered exactly `expectedSize` bytes. -/
def hitRes (c : Chunk) (nr expected lenP : Int) : Outcome (Option Int) :=
  if c.hit < 0 then ok none else
  match slice? nr (nr + expected) lenP with
  | ok _ => if clampN c.hit expected = expected then ok (some expected) else ok none
  | _ => Outcome.panic

/-- The cache-miss branch of one iteration: events and the number of bytes `nr` advances by.
`bound` is the largest buffer the process can allocate: `b.Grow(int(chunkSize))` beyond it
panics ("bytes.Buffer: too large") or kills the process (out of memory). -/
def missPath (bound lenP nr : Int) (c : Chunk) (lower upper expected : Int) : List REv × Outcome Int :=
  if lower = 0 ∧ upper = 0 then
    -- ip := p[nr : int64(nr)+chunkSize]; n, err := sf.fr.ReadAt(ip, chunkOffset); nr += n
    match slice? nr (nr + c.cs) lenP with
    | ok _ => ([REv.storeRead c.cs c.co], ok (clampN c.n c.cs))
    | _ => ([], Outcome.panic)
  else
    -- b.Grow(int(chunkSize)); ip := b.Bytes()[:chunkSize]; copy(p[nr:], ip[lower : chunkSize-upper])
    if c.cs > bound then ([REv.grow c.cs], Outcome.panic) else
    match slice? 0 c.cs c.cs, slice? lower (c.cs - upper) c.cs, slice? nr lenP lenP with
    | ok _, ok _, ok _ =>
      let n := if lenP - nr < c.cs - upper - lower then lenP - nr else c.cs - upper - lower
      if n ≠ expected then ([REv.grow c.cs, REv.storeRead c.cs c.co], err)
      else ([REv.grow c.cs, REv.storeRead c.cs c.co], ok n)
    | _, _, _ => ([REv.grow c.cs], Outcome.panic)

/-- The `for nr < len(p)` loop of `(*file).ReadAt`; one scripted answer per iteration. -/
def readLoop (bound lenP off : Int) : List Chunk → Int → List REv → List REv × Outcome Int
  | [], nr, evs =>
    if nr ≥ lenP then (evs, ok nr) else (evs ++ [REv.chunkAt (wrap64 (off + nr))], ok nr)
  | c :: rest, nr, evs =>
    if nr ≥ lenP then (evs, ok nr) else
    let evs := evs ++ [REv.chunkAt (wrap64 (off + nr))]
    let lower := lowerOf off c
    let upper := upperOf lenP off c
    let expected := expectedOf c lower upper
    if chunkContains c.co c.cs (wrap64 (off + nr)) = false ∨ expected ≤ 0 ∨ expected > lenP - nr then (evs, err) else
    match hitRes c nr expected lenP with
    | Outcome.panic => (evs, Outcome.panic)
    | err => (evs, err)
    | ok (some n) => readLoop bound lenP off rest (nr + n) evs
    | ok none =>
      match missPath bound lenP nr c lower upper expected with
      | (e2, ok n) => readLoop bound lenP off rest (nr + n) (evs ++ e2)
      | (e2, err) => (evs ++ e2, err)
      | (e2, Outcome.panic) => (evs ++ e2, Outcome.panic)

def fileReadAt (bound lenP off : Int) (script : List Chunk) : List REv × Outcome Int :=
  readLoop bound lenP off script 0 []

/-- The allocation bound the driver assumes (1 TiB). -/
def allocBound : Int := 1099511627776

/-! ## FUSE passthrough: `GetPassthroughFd` and the batch merge -/

structure PChunk where
  off : Int
  size : Int
  pos : Int := 0
deriving Repr

/-- The collection loop of `GetPassthroughFd`: chunks, total size, hasLargeChunk; `none` when a
chunk does not contain the position the loop is at (`chunkContains`, 95288ee).  The loop starts at
offset 0 and continues at `chunkOffset + chunkSize`. -/
def ptCollect (B : Int) : List (Int × Int) → Int → List PChunk → Int → Bool → Option (List PChunk × Int × Bool)
  | [], _, cs, total, large => some (cs.reverse, total, large)
  | (co, sz) :: rest, pos, cs, total, large =>
    if chunkContains co sz pos = false then none else
    let l1 := sz > B
    let l2 := B > 0 ∧ sz > 0 ∧ Int.tdiv co B ≠ Int.tdiv (wrap64 (wrap64 (co + sz) - 1)) B
    ptCollect B rest (wrap64 (co + sz)) (⟨co, sz, 0⟩ :: cs) (wrap64 (total + sz)) (large || l1 || l2)

/-- Chunks of one batch with their buffer positions (`break` on the first chunk starting at or
behind the batch end, `continue` on chunks ending at or before the batch start). -/
def batchChunks (bStart bEnd : Int) : List PChunk → Int → List PChunk
  | [], _ => []
  | c :: rest, pos =>
    if c.off + c.size ≤ bStart then batchChunks bStart bEnd rest pos
    else if c.off ≥ bEnd then []
    else { c with pos := pos } :: batchChunks bStart bEnd rest (pos + c.size)

/-- Stable insertion (Go's `sort.Slice` is an insertion sort below 12 elements, hence stable). -/
def insertByPos (c : PChunk) : List PChunk → List PChunk
  | [] => [c]
  | x :: xs => if c.pos ≤ x.pos then c :: x :: xs else x :: insertByPos c xs

/-- Order in which the read infos of the workers are merged: worker `w` handles the chunks with
index `w, w+W, …`; the per-worker lists are concatenated. -/
def workerOrder (W : Nat) (cs : List PChunk) : List PChunk :=
  let idx := cs.zipIdx
  (List.range W).flatMap (fun w => (idx.filter (fun ci => ci.2 % W = w)).map (·.1))

/-- `checkHoles` over the read infos sorted by buffer position. -/
def checkHoles (infos : List PChunk) (batchSize : Int) : Bool :=
  match infos with
  | [] => true
  | f :: _ =>
    let rec go : List PChunk → Int → Option Int
      | [], e => some e
      | i :: r, e => if i.pos < e then none else if i.pos > e then none else go r (i.pos + i.size)
    match go infos f.pos with
    | some e => e = batchSize
    | none => false

def ptBatches (B total : Int) (W : Nat) (chunks : List PChunk) : Nat → Int → List REv → List REv × Outcome Unit
  | 0, _, evs => (evs, ok ())
  | k + 1, idx, evs =>
    let bStart := idx * B
    let bEnd := if (idx + 1) * B < total then (idx + 1) * B else total
    let bc := batchChunks bStart bEnd chunks 0
    let bSize := bEnd - bStart
    match make? bSize with
    | Outcome.panic => (evs, Outcome.panic)
    | _ =>
      if bc.any (fun c => slice? c.pos (c.pos + c.size) bSize ≠ ok ()) then (evs, Outcome.panic) else
      let evs := evs ++ bc.map (fun c => REv.storeRead c.size c.off)
      let infos := (workerOrder W bc).foldr insertByPos []
      if ¬ checkHoles infos bSize then (evs, err) else ptBatches B total W chunks k (idx + 1) evs

/-- `GetPassthroughFd` against a scripted store (the script is exhausted when the sequential
fallback asks again, so that path ends at once). -/
def passthrough (B : Int) (W : Nat) (script : List (Int × Int)) : List REv × Outcome Unit :=
  match ptCollect B script 0 [] 0 false with
  | none => ([], err)
  | some (chunks, total, large) =>
    if large then ([], ok ()) else
    let batchCount := Int.tdiv (total + B - 1) B
    ptBatches B total W chunks batchCount.toNat 0 []

end SV.Hostile
