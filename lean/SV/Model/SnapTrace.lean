/-
Executable TRACE CHECKER for the interleaved semantics of the snapshotter (`SV/Model/SnapConc.lean`).

The harness (`harness/overlay/snapshot/zz_verif_c08conc_test.go`) runs several API calls of the REAL
snapshotter in goroutines under a controlled schedule and records one totally ordered trace of
atomic events (crash-point markers, backend calls, call begin / end).  `fire` replays one event on
the interleaved model: the event must be an ENABLED transition of `CStep` from the current state
(`none` = reject), and it additionally tracks the RESULT of every call (which `CStep` does not):
the result is fixed at the call's commit point (its write-transaction step) from the state at
that point.

Event ↦ transition(s) (stuttering noted):
  spawn i op orc      `CStep.spawn`
  txBegin i           createSnapshot: `TransactionContext(ctx,true)` + MkdirTemp + `storage.CreateSnapshot`
                      (+ Stat of the parent dir, + the name check of Rename) = `createBegin` / `createFail`
                      — ONE event for what the Go code does in several statements inside the lock
                      (logged at marker `create.tempdir`; nothing another thread can observe lies between)
  rename i            `rename`            (marker `create.renamed`)
  txCommit i          `createCommit`      (`t.Commit()`; marker `create.committed`)
  mount i             `mount`             (backend `Mount`)
  icommit i           `internalCommit` / `internalCommitFail` (marker `commit.beforetx` or the error return)
  tx i                the single write transaction of Commit / Update / Remove (incl. its scan) / the
                      scan of Cleanup = `commit` / `update` / `remove` / `cleanupScan`, or `finish` when
                      the transaction fails its checks (rolled back)
  unmount i d         `cleanUnmount`      (backend `Unmount(d/fs)`)
  rmdir i d           `cleanRmdir`        (marker `cleanupdir.removed`)
  ret i               `finish`            (the call returned)

Core only (the driver `svdriver_c08` links it).
-/
import SV.Model.SnapConc

namespace SV.Snap.Trace
open SV.Snap SV.Snap.Conc

structure TState where
  c : CState
  /-- thread ids `≥ n` have never been used -/
  n : Nat := 0
  /-- result of the call of thread `i`, fixed at its commit point -/
  res : Nat → Option Res := fun _ => none

def tinit (cfg : Config) : TState := { c := cinit cfg }

def setRes (res : Nat → Option Res) (i : Nat) (r : Option Res) : Nat → Option Res :=
  fun j => if j = i then r else res j

inductive Ev where
  | spawn (i : Nat) (op : Op) (orc : Oracle)
  | txBegin (i : Nat)
  | rename (i : Nat)
  | txCommit (i : Nat)
  | mount (i : Nat)
  | icommit (i : Nat)
  | tx (i : Nat)
  | unmount (i : Nat) (d : Dir)
  | rmdir (i : Nat) (d : Dir)
  | ret (i : Nat)

/-! ### decidable guards -/

def lockFreeB (t : TState) : Bool := (List.range t.n).all fun j => !(t.c.th j).holds

def optDisj : Option String → Option String → Bool
  | some x, some y => x != y
  | _, _ => true

def noConflictB (t : TState) (pc : PC) : Bool :=
  (List.range t.n).all fun j =>
    optDisj pc.ownKey (t.c.th j).consumes && optDisj pc.consumes (t.c.th j).ownKey

def isDone : PC → Bool
  | .done => true
  | _ => false

/-- the calls the interleaved model covers -/
def inScope : Op → Bool
  | .prepare .. => true
  | .view .. => true
  | .commit .. => true
  | .remove .. => true
  | .cleanup .. => true
  | .update .. => true
  | _ => false

def createOkB (s : State) (key parent : String) : Bool :=
  (match createChecks s key parent with
   | .ok ps => !parentDirMissing s ps
   | .error _ => false) && !s.dirs.contains (Dir.id (s.seq + 1))

def commitOkB (s : State) (name key : String) : Bool :=
  name != "" && !hasKey s.snaps name &&
  (match findKey s.snaps key with
   | some sn => sn.kind == .active
   | none => false)

def removeOkB (s : State) (key : String) : Bool :=
  (findKey s.snaps key).isSome && s.snaps.all fun a => a.parent != key

/-- the error of a failing `createSnapshot` (as `createPlan`) -/
def createErr (s : State) (key parent : String) : Err :=
  match createChecks s key parent with
  | .error e => e
  | .ok _ => .other

/-- the colliding directory a failing Rename reclaims (as `createPlan`) -/
def createExtra (s : State) (key parent : String) : List Dir :=
  match createChecks s key parent with
  | .ok ps => if !parentDirMissing s ps && s.dirs.contains (Dir.id (s.seq + 1)) then [Dir.id (s.seq + 1)] else []
  | .error _ => []

/-- what `o.mounts(ctx, s, parent)` answers for the snapshot `sn` just created -/
def mountsRes (s : State) (orc : Oracle) (sn : Snap) : Res :=
  (mountsPlan s orc sn (((chainOf s sn.parent).getD []).map (·.id)) sn.parent).2

def fireCreate (t : TState) (i : Nat) (kind : Kind) (key parent : String) (labels : Labels) : Option TState :=
  if !lockFreeB t then none else
  if createOkB t.c.s key parent then
    some { t with c := { (t.c.run i (.mkTemp t.c.tmp)
      (.crRename (targetOfLabels kind labels) t.c.tmp ⟨key, t.c.s.seq + 1, kind, parent, labels⟩)) with tmp := t.c.tmp + 1 } }
  else
    some { t with
      c := { (t.c.run i (.mkTemp t.c.tmp) (.clean (Dir.temp t.c.tmp :: createExtra t.c.s key parent) false)) with
             tmp := t.c.tmp + 1 },
      res := setRes t.res i (some (.err (createErr t.c.s key parent))) }

def updLabels (sn : Snap) (lk lv : String) : Labels := if lv = "" then ldel sn.labels lk else lset sn.labels lk lv

/-- the single write transaction of Commit / Update / Remove / Cleanup's scan -/
def fireTx (t : TState) (i : Nat) : Option TState :=
  if !lockFreeB t then none else
  match t.c.th i with
  | .idle (.commit name key labels) =>
    if (commitPlan t.c.s name key labels).2 = .ok then
      if commitOkB t.c.s name key then
        some { t with c := t.c.run i (.txCommitActive key name labels) .done, res := setRes t.res i (some .ok) }
      else none
    else some { t with c := t.c.goto i .done, res := setRes t.res i (some (commitPlan t.c.s name key labels).2) }
  | .idle (.update key lk lv) =>
    match findKey t.c.s.snaps key with
    | some sn =>
      some { t with c := t.c.run i (.txUpdate key (if lv = "" then ldel sn.labels lk else lset sn.labels lk lv)) .done,
                    res := setRes t.res i (some (.info { sn with labels := updLabels sn lk lv })) }
    | none => some { t with c := t.c.goto i .done, res := setRes t.res i (some (.err .notfound)) }
  | .idle (.remove key order) =>
    if (removePlan t.c.s (t.c.orc i) key order).2 = .ok then
      if removeOkB t.c.s key then
        some { t with
          c := t.c.run i (.txRemove key)
            (if t.c.s.cfg.asyncRemove then .done
             else .clean (arrange order (orphans (applyStep t.c.s (.txRemove key)))) false),
          res := setRes t.res i (some .ok) }
      else none
    else some { t with c := t.c.goto i .done, res := setRes t.res i (some (removePlan t.c.s (t.c.orc i) key order).2) }
  | .idle (.cleanup order) =>
    some { t with c := t.c.goto i (.clean (arrange order (orphans t.c.s)) false), res := setRes t.res i (some .ok) }
  | _ => none

/-- replay one event; `none` = the event is not an enabled transition -/
def fire (t : TState) : Ev → Option TState
  | .spawn i op orc =>
    if isDone (t.c.th i) && inScope op && noConflictB t (.idle op) then
      some { c := { t.c with th := setPc t.c.th i (.idle op), orc := fun j => if j = i then orc else t.c.orc j },
             n := max t.n (i + 1), res := setRes t.res i none }
    else none
  | .txBegin i =>
    match t.c.th i with
    | .idle (.prepare key parent labels) => fireCreate t i .active key parent labels
    | .idle (.view key parent labels) => fireCreate t i .view key parent labels
    | _ => none
  | .rename i =>
    match t.c.th i with
    | .crRename tgt tt sn => some { t with c := t.c.run i (.rename tt sn.id) (.crCommit tgt sn) }
    | _ => none
  | .txCommit i =>
    match t.c.th i with
    | .crCommit tgt sn =>
      some { t with
        c := t.c.run i (.txCreate sn) (afterCreate tgt sn),
        res := match tgt with
          | none => setRes t.res i (some (mountsRes (applyStep t.c.s (.txCreate sn)) (t.c.orc i) sn))
          | some _ => t.res }
    | _ => none
  | .mount i =>
    match t.c.th i with
    | .prepMount T sn =>
      some { t with
        c := t.c.run i (.fsMount sn.id sn.labels ((t.c.orc i).mountOk sn.id))
          (if (t.c.orc i).mountOk sn.id then .prepCommit T sn else .done),
        res := if (t.c.orc i).mountOk sn.id then t.res
               else setRes t.res i (some (mountsRes t.c.s (t.c.orc i) sn)) }
    | _ => none
  | .icommit i =>
    match t.c.th i with
    | .prepCommit T sn =>
      if !lockFreeB t then none else
      if commitOkB t.c.s T sn.key then
        some { t with c := t.c.run i (.txCommitActive sn.key T (lset sn.labels remoteLabel remoteVal)) .done,
                      res := setRes t.res i (some (.err .exists)) }
      else
        some { t with c := t.c.goto i .done,
                      res := setRes t.res i (some (.err (if T != "" && hasKey t.c.s.snaps T then .exists else .other))) }
    | _ => none
  | .tx i => fireTx t i
  | .unmount i d =>
    match t.c.th i with
    | .clean (d' :: r) false =>
      if d' = d then some { t with c := t.c.run i (.fsUnmount d' ((t.c.orc i).unmountOk d')) (.clean (d' :: r) true) }
      else none
    | _ => none
  | .rmdir i d =>
    match t.c.th i with
    | .clean (d' :: r) true =>
      if d' = d then some { t with c := t.c.run i (.rmdir d') (.clean r false) } else none
    | _ => none
  | .ret i =>
    match t.c.th i with
    | .done => if (t.res i).isSome then some { t with c := t.c.goto i .done } else none
    | .clean [] _ => some { t with c := t.c.goto i .done }
    | _ => none

/-- replay a whole trace -/
def run (t : TState) : List Ev → Option TState
  | [] => some t
  | e :: r => match fire t e with
    | some t' => run t' r
    | none => none

/-! ### Bool evaluator of the invariant `CInvar` (`SV/Lemmas/SnapConc.lean`) over the threads `< n` -/

def distinctB (a b : Snap) : Bool := a.key != b.key && a.id != b.id

def pairwiseB : List Snap → Bool
  | [] => true
  | a :: r => r.all (distinctB a) && pairwiseB r

def nodupB : List Nat → Bool
  | [] => true
  | a :: r => !r.contains a && nodupB r

/-- `Inv` of `SV/Lemmas/Snap.lean` -/
def invB (s : State) : Bool :=
  s.snaps.all (fun a => a.key != "") &&
  pairwiseB s.snaps &&
  s.snaps.all (fun a => decide (1 ≤ a.id) && decide (a.id ≤ s.seq)) &&
  s.snaps.all (fun a => a.parent == "" ||
    s.snaps.any (fun p => p.key == a.parent && p.kind == .committed && decide (p.id < a.id))) &&
  s.mounts.all (fun n => s.dirs.contains (Dir.id n)) &&
  nodupB s.mounts &&
  s.mounts.all (fun n => decide (n ≤ s.seq)) &&
  (s.init || s.snaps.isEmpty)

def allDirsB (s : State) : Bool := s.snaps.all fun a => s.dirs.contains (Dir.id a.id)

def deadDirB (s : State) : Dir → Bool
  | .id n => decide (n ≤ s.seq) && s.snaps.all (fun a => a.id != n)
  | .temp _ => true

def liveRecB (s : State) (sn : Snap) : Bool := s.snaps.any fun a => a.id == sn.id && a.key == sn.key

def newRecB (s : State) (sn : Snap) : Bool :=
  sn.key != "" && !hasKey s.snaps sn.key && sn.id == s.seq + 1 &&
  (sn.parent == "" || s.snaps.any fun p => p.key == sn.parent && p.kind == .committed)

def headUnmountedB (s : State) : List Dir → Bool → Bool
  | Dir.id n :: _, true => !s.mounts.contains n
  | _, _ => true

def tokB (s : State) : PC → Bool
  | .crRename _ _ sn => newRecB s sn
  | .crCommit _ sn => newRecB s sn && s.dirs.contains (Dir.id sn.id)
  | .prepMount _ sn => liveRecB s sn && !s.mounts.contains sn.id
  | .prepCommit _ sn => liveRecB s sn && s.mounts.contains sn.id
  | .clean ds u => ds.all (deadDirB s) && headUnmountedB s ds u
  | _ => true

def ownedSn : PC → Option Snap
  | .crRename _ _ sn => some sn
  | .crCommit _ sn => some sn
  | .prepMount _ sn => some sn
  | .prepCommit _ sn => some sn
  | _ => none

def commitsId (pc : PC) (m : Nat) : Bool :=
  match pc with
  | .crCommit _ sn => sn.id == m
  | _ => false

def dirBoundB (t : TState) : Bool :=
  t.c.s.dirs.all fun d => match d with
    | .id m => decide (m ≤ t.c.s.seq) || (List.range t.n).any fun i => commitsId (t.c.th i) m
    | .temp _ => true

def ownKeysDistinctB (a b : Option Snap) : Bool :=
  match a, b with
  | some x, some y => x.key != y.key
  | _, _ => true

/-- the invariant of the interleaved semantics, evaluated -/
def cinvB (t : TState) : Bool :=
  invB t.c.s && allDirsB t.c.s &&
  ((List.range t.n).all fun i => (List.range t.n).all fun j =>
      !((t.c.th i).holds && (t.c.th j).holds) || i == j) &&
  dirBoundB t &&
  ((List.range t.n).all fun i => tokB t.c.s (t.c.th i)) &&
  ((List.range t.n).all fun i => (List.range t.n).all fun j =>
      i == j || ownKeysDistinctB (ownedSn (t.c.th i)) (ownedSn (t.c.th j))) &&
  ((List.range t.n).all fun i => (List.range t.n).all fun j =>
      optDisj (t.c.th i).ownKey (t.c.th j).consumes)

/-- which clause fails (for the driver's `reject` line) -/
def cinvWhy (t : TState) : String :=
  if !invB t.c.s then "Inv" else if !allDirsB t.c.s then "AllDirs(live snapshot without directory)"
  else if !dirBoundB t then "dirBound"
  else if !((List.range t.n).all fun i => tokB t.c.s (t.c.th i)) then "TOk(thread rely broken)"
  else "lock/ownership"

end SV.Snap.Trace
